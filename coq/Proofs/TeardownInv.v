(* C10 - the per-association invariant of Model/Teardown.v and the tactics that push it through one step *)
From Coq Require Import NArith String List Bool Arith Lia Permutation.
From UPF Require Import Base.LTS Model.Teardown.
Import ListNotations.
Open Scope list_scope.

(* ================================================================== tactics *)
Ltac break_match_hyp :=
  match goal with
  | H : context [match ?x with _ => _ end] |- _ =>
    let E := fresh "E" in destruct x eqn:E
  end.

Ltac inv_ok :=
  repeat (cbn in *; try discriminate;
          match goal with
          | H : Ok _ = Ok _ |- _ => injection H; clear H; intros; subst
          | H : Some _ = Some _ |- _ => injection H; clear H; intros; subst
          | H : Panic _ = Panic _ |- _ => injection H; clear H; intros; subst
          | H : (_, _) = (_, _) |- _ => injection H; clear H; intros; subst
          | H : context [nth_error _ ?n] |- _ => is_var n; destruct n
          | _ => break_match_hyp
          end).

Lemma remove_first_head x r : remove_first x (x :: r) = r.
Proof. cbn. rewrite N.eqb_refl. reflexivity. Qed.

(* ================================================================== the per-association invariant *)
(* where the thread that won the Once is inside doShutdown, and what is true of the data there *)
(* the monitor's context is cancelled unless the monitor never registered its cancel function (it then returns
   as soon as it takes hbMu, because pConn.shutdown is closed) *)
Definition hb_cancelled (a : assoc) : Prop := a_hbreg a = true -> cclosed (a_hbc a) = true.

(* every session ever installed is either still in the store or has been deleted from the datapath once *)
Definition accounted (a : assoc) : Prop := Permutation (a_del a ++ a_store a) (a_inst a).

Lemma memN_in x l : memN x l = true -> In x l.
Proof.
  induction l as [|y l IH]; cbn; [discriminate|]. intros H. apply orb_true_iff in H.
  destruct H as [H|H]; [left; apply N.eqb_eq in H; congruence | right; apply IH; exact H].
Qed.
Lemma perm_remove_first x l : In x l -> Permutation l (x :: remove_first x l).
Proof.
  induction l as [|y l IH]; cbn; [tauto|]. intros [->|H].
  - rewrite N.eqb_refl. reflexivity.
  - destruct (N.eqb x y) eqn:E; [apply N.eqb_eq in E; subst; reflexivity|].
    rewrite perm_swap. constructor. apply IH. exact H.
Qed.
(* a Session Deletion Request handled by the receive loop *)
Lemma perm_del x de st inst : memN x st = true -> Permutation (de ++ st) inst ->
  Permutation ((de ++ [x]) ++ remove_first x st) inst.
Proof.
  intros Hm Hp. rewrite <- Hp, <- app_assoc. cbn. apply Permutation_app_head.
  apply memN_in in Hm. symmetry. apply perm_remove_first. exact Hm.
Qed.
(* a Session Establishment Request handled by the receive loop *)
Lemma perm_add (x : N) de st inst : Permutation (de ++ st) inst -> Permutation (de ++ (st ++ [x])) (inst ++ [x]).
Proof. intros Hp. rewrite (app_assoc de st [x]). apply Permutation_app_tail. exact Hp. Qed.

Definition Body (a : assoc) (t : thr) : Prop :=
  match t_pc t with
  | 0 => accounted a /\ cclosed (a_shut a) = false /\ a_hmu a = false
  | 1 => accounted a /\ cclosed (a_shut a) = true /\ a_hmu a = false
  | 2 => accounted a /\ cclosed (a_shut a) = true /\ hb_cancelled a /\ a_hmu a = false
  | 3 => accounted a /\ cclosed (a_shut a) = true /\ hb_cancelled a /\ a_hmu a = true
  | 4 => exists x r, t_it t = x :: r /\ a_store a = x :: r /\ accounted a /\ cclosed (a_shut a) = true
                     /\ hb_cancelled a /\ a_hmu a = true
  | 5 => exists x r d, t_it t = x :: r /\ a_store a = x :: r /\ a_del a = d ++ [x]
                       /\ Permutation (d ++ x :: r) (a_inst a)
                       /\ cclosed (a_shut a) = true /\ hb_cancelled a /\ a_hmu a = true
  | 6 | 7 => a_store a = [] /\ Permutation (a_del a) (a_inst a) /\ cclosed (a_shut a) = true /\ hb_cancelled a
             /\ a_hmu a = true
  | 8 => a_store a = [] /\ Permutation (a_del a) (a_inst a) /\ cclosed (a_shut a) = true /\ hb_cancelled a
         /\ a_hmu a = true /\ a_sock a = true
  | _ => False
  end.

(* where each caller of Shutdown continues *)
Definition once_ret (r : role) : nat := match r with RRd => 0 | RSel => 2 | RHb => 1 | RFst => 4 | _ => 0 end.
Definition code_len (r : role) : nat := List.length (code (home r)).

(* a thread executes doShutdown iff it is the one recorded by the Once; otherwise it is inside its own function *)
Definition fn_ok (a : assoc) (r : role) : Prop :=
  (t_fn (get_thr a r) = FDo /\ a_once a = ORun r)
  \/ (t_fn (get_thr a r) = home r /\ a_once a <> ORun r /\ t_pc (get_thr a r) < code_len r).

Definition Data (a : assoc) : Prop :=
  match a_once a with
  | ONew => accounted a /\ cclosed (a_shut a) = false /\ a_hmu a = false
  | ORun r0 => is_assoc_role r0 = true /\ t_st (get_thr a r0) = TRunning /\ t_ret (get_thr a r0) = once_ret r0
               /\ Body a (get_thr a r0)
  | ODone => a_store a = [] /\ Permutation (a_del a) (a_inst a) /\ cclosed (a_shut a) = true /\ hb_cancelled a
             /\ a_sock a = true /\ a_hmu a = false
  end.

(* connTimeout holds at most the one value the reader sends before it returns *)
Definition tmo_ok (a : assoc) : Prop :=
  cclosed (a_tmo a) = false /\ ccap (a_tmo a) = 1
  /\ (cbuf (a_tmo a) = [] \/ (t_fn (a_rd a) = FReader /\ t_pc (a_rd a) = 3)).

(* a monitor that is past its start (in its select loop, calling Shutdown, or inside doShutdown) has registered *)
Definition hb_ok (a : assoc) : Prop :=
  (t_st (a_hb a) = TRunning ->
   match t_fn (a_hb a) with
   | FHb => (t_pc (a_hb a) = 1 \/ t_pc (a_hb a) = 2) -> a_hbreg a = true
   | _ => a_hbreg a = true
   end)
  /\ (t_st (a_hb a) = TNotStarted -> t_fn (a_hb a) = FHb /\ t_pc (a_hb a) = 0).

(* the connection exists for the node: NewPFCPConn has counted it (pConnsCreated.Add); phases of the accept
   goroutine, as functions of its thread so that they stay folded while other threads step *)
Definition crt_t (t : thr) : bool :=
  match t_fn t with
  | FDo => true
  | FFirst => Nat.leb 1 (t_pc t) && Nat.leb (t_pc t) 6
  | _ => false
  end.
(* before `go p.Serve()` *)
Definition bg_t (t : thr) : bool :=
  match t_fn t with
  | FDo => true
  | FFirst => Nat.leb (t_pc t) 4 || Nat.eqb (t_pc t) 7
  | _ => false
  end.
(* before the first message is handled *)
Definition early_t (t : thr) : bool :=
  match t_fn t with
  | FFirst => Nat.leb (t_pc t) 3 || Nat.eqb (t_pc t) 7
  | _ => false
  end.
Arguments crt_t : simpl never.
Arguments bg_t : simpl never.
Arguments early_t : simpl never.
Lemma early_bg t : early_t t = true -> bg_t t = true.
Proof.
  unfold early_t, bg_t. destruct (t_fn t); try discriminate.
  destruct (t_pc t) as [|[|[|[|[|[|[|[|p]]]]]]]]; cbn; congruence.
Qed.
Definition crt (a : assoc) : bool := crt_t (a_fst a).
Definition not_started (t : thr) : Prop := t_st t = TNotStarted \/ t_st t = TAbsent.
(* before `go p.Serve()` only the accept goroutine works on the connection *)
Definition life_ok (a : assoc) : Prop :=
  (a_once a <> ONew -> crt_t (a_fst a) = true)
  /\ (bg_t (a_fst a) = true -> not_started (a_rd a) /\ not_started (a_sel a) /\ not_started (a_hb a))
  /\ (early_t (a_fst a) = true -> a_once a = ONew)
  /\ (bg_t (a_fst a) = false -> crt_t (a_fst a) = true).

(* the sessions of the configuration come first in the list of installed sessions *)
Definition inst_ok (sess : list N) (a : assoc) : Prop := exists extra, a_inst a = sess ++ extra.

(* the reader is about to handle a datagram only if there is one (nobody else takes datagrams once it runs) *)
Definition rd_ok (a : assoc) : Prop :=
  (t_st (a_rd a) = TRunning -> t_fn (a_rd a) = FReader -> t_pc (a_rd a) = 1 -> a_inbox a <> [])
  /\ (t_st (a_rd a) = TNotStarted -> t_pc (a_rd a) = 0).

Definition AInv (sess : list N) (a : assoc) : Prop :=
  fn_ok a RRd /\ fn_ok a RSel /\ fn_ok a RHb /\ fn_ok a RFst /\ Data a /\ tmo_ok a /\ hb_ok a /\ life_ok a
  /\ inst_ok sess a /\ rd_ok a.

(* bookkeeping for "forgotten": what one step of an association thread does to pConnDone and pConns, and whether
   the association has reported its address (rep) *)
Definition at_pc (a : assoc) (r : role) (f : fname) (p : nat) : bool :=
  fname_eqb (t_fn (get_thr a r)) f && Nat.eqb (t_pc (get_thr a r)) p.
Definition rep (a : assoc) : bool :=
  match a_once a with ODone => true | ORun r0 => Nat.leb 7 (t_pc (get_thr a r0)) | ONew => false end.
Definition delta (me : N) (r : role) (a : assoc) (nd nd' : node) (a2 : assoc) : Prop :=
  cbuf (n_pcd nd') = (if at_pc a r FDo 6 then cbuf (n_pcd nd) ++ [me] else cbuf (n_pcd nd))
  /\ n_map nd' = (if at_pc a r FFirst 1 || at_pc a r FFirst 3 then me :: remove_all me (n_map nd) else n_map nd)
  /\ n_created nd' + (if crt a then 1 else 0) = n_created nd + (if crt a2 then 1 else 0)
  /\ (crt a = true -> crt a2 = true)
  /\ (n_busy nd' = true -> n_busy nd = true \/ n_lsock nd = false)
  /\ (crt a = false -> crt a2 = true -> n_lsock nd = false)
  /\ rep a2 = (rep a || at_pc a r FDo 6)
  /\ (a_inst a2 = a_inst a \/ exists x, memN x (a_inst a) = false /\ a_inst a2 = a_inst a ++ [x])
  /\ (t_st (a_fst a) = TFinished -> t_st (a_fst a2) = TFinished).

(* arithmetic leaves: closed comparisons by computation, the rest by lia on the goal alone (lia is slow on the
   disjunctive hypotheses of the invariant) *)
Ltac arith_leaf :=
  match goal with
  | |- (_ < _)%nat => idtac | |- (_ <= _)%nat => idtac | |- @eq nat _ _ => idtac
  end;
  solve [ assumption | apply Nat.ltb_lt; reflexivity | apply Nat.leb_le; reflexivity
        | repeat match goal with H : _ |- _ => clear H end; simpl; lia ].

(* redefined in TeardownInvFst.v: there the accept thread itself steps and its phase functions must compute *)
Ltac phase_unfold := idtac.

(* fn_ok of a thread that did not move, after the Once changed hands *)
Ltac fnok_leaf :=
  match goal with
  | H : (t_fn ?t = FDo /\ _) \/ (t_fn ?t = _ /\ _ /\ _) |- (t_fn ?t = FDo /\ _) \/ _ =>
    destruct H as [[? ?]|[? [? ?]]];
    [ first [ discriminate | congruence | left; split; congruence ]
    | right; repeat split; first [assumption | congruence | discriminate] ]
  end.

(* occupancy of connTimeout *)
Ltac tmo_leaf :=
  match goal with
  | H : (cbuf _ = [] \/ _) |- (_ = [] \/ _) =>
    destruct H as [?|[? ?]];
    first [ discriminate | left; congruence | right; split; congruence | left; reflexivity ]
  | H : (_ :: _ = [] \/ _) |- (_ = [] \/ _) =>
    destruct H as [?|[? ?]];
    first [ discriminate | left; congruence | right; split; congruence | left; reflexivity ]
  end.

(* accounting of the sessions *)
Ltac perm_leaf :=
  match goal with |- Permutation _ _ => idtac end;
  solve [ assumption
        | apply perm_del; assumption
        | apply perm_add; assumption
        | rewrite <- app_assoc; cbn; assumption
        | rewrite app_nil_r in *; assumption
        | match goal with H : Permutation (?d ++ []) _ |- _ => rewrite app_nil_r in H; exact H end ].

(* forward chaining over the trivial implications of the invariant *)
Ltac fwd :=
  repeat match goal with
         | H : true = true -> _ |- _ => specialize (H eq_refl)
         | H : false = false -> _ |- _ => specialize (H eq_refl)
         | H : ?P -> _, H' : ?P |- _ => specialize (H H')
         | H : _ /\ _ |- _ => destruct H
         end.

(* goals about a thread that `go` has just started (its status is a match on the old status) *)
Ltac status_leaf :=
  match goal with
  | |- context [match t_st ?t with _ => _ end] => idtac
  | H : context [match t_st ?t with _ => _ end] |- _ => idtac
  end;
  intros;
  repeat match goal with
         | |- context [match t_st ?t with _ => _ end] => destruct (t_st t) eqn:?
         | H : context [match t_st ?t with _ => _ end] |- _ => destruct (t_st t) eqn:?
         end;
  cbn in *; try discriminate;
  repeat match goal with
         | H : true = true -> _ |- _ => specialize (H eq_refl)
         | H : ?x = ?x -> _ |- _ => specialize (H eq_refl)
         | H : _ /\ _ |- _ => destruct H
         end;
  repeat match goal with
         | H : t_fn ?t = _ |- _ => rewrite H in *; clear H
         | H : t_pc ?t = _ |- _ => rewrite H in *; clear H
         end;
  solve [ assumption | congruence | intuition (try discriminate; try congruence) ].

Ltac finish_inv :=
  unfold delta in *; unfold AInv, fn_ok, Data, Body, tmo_ok, hb_ok, life_ok, inst_ok, rd_ok, accounted, not_started, hb_cancelled, crt, code_len,
         once_ret, rep, at_pc in *;
  cbn in *; phase_unfold;
  repeat match goal with
         | H : _ /\ _ |- _ => destruct H
         | H : exists _, _ |- _ => destruct H
         | H : _ :: _ = _ :: _ |- _ => injection H; clear H; intros
         end; subst;
  repeat match goal with H : t_st ?t = _ |- context [t_st ?t] => rewrite H end;
  try match goal with H : bg_t ?t = true -> _ |- _ => is_var t; destruct (bg_t t) eqn:? end;
  try (exfalso; match goal with H : true = true -> _ /\ _ |- _ => clear - H; destruct (H eq_refl) as ([?|?] & [?|?] & [?|?]); discriminate end);
  repeat match goal with |- context [match ?d with _ => _ end] => is_var d; match type of d with dgram => destruct d end end;
  repeat split;
  first [ assumption | reflexivity | discriminate | congruence | arith_leaf | solve [intros; auto 3]
        | (left; split; congruence) | (right; split; congruence)
        | (right; repeat split; first [congruence | arith_leaf]) | (left; repeat split; first [congruence | arith_leaf])
        | (rewrite ?orb_false_r, ?orb_true_r; reflexivity)
        | (let He := fresh in intros He; apply early_bg in He; congruence)
        | fnok_leaf
        | perm_leaf
        | (left; reflexivity)
        | (right; eexists; split; [eassumption | reflexivity])
        | (eexists; reflexivity)
        | (eexists; rewrite <- app_assoc; reflexivity)
        | solve [intros; match goal with E : _ || _ = false |- _ => apply orb_false_elim in E; destruct E end;
                 first [assumption | congruence | (left; assumption) | (right; assumption)]]
        | solve [intros; first [discriminate | congruence | (left; assumption)]]
        | tmo_leaf
        | solve [intros ? [?|?]; first [discriminate | congruence]]
        | solve [fwd; first [assumption | congruence | auto 3]]
        | solve [intros; fwd; repeat match goal with H : t_st ?t = _ \/ t_st ?t = _ |- _ => destruct H end; congruence]
        | status_leaf
        | idtac ].

Ltac close_rest :=
  try rewrite remove_first_head;
  repeat match goal with |- context [is_nil ?s] => destruct s as [|? ?]; cbn end;
  try tauto; try reflexivity;
  try (rewrite app_nil_r in *; repeat split; auto; fail);
  try (eexists _, _; repeat split; eauto; fail);
  try (eexists _, _; rewrite <- app_assoc; cbn; repeat split; eauto; fail);
  try (eexists _, _, _; repeat split; eauto; fail).

(* the thread T (with fn_ok hypothesis HT) is inside doShutdown and takes a step *)
Ltac do_script T HT :=
  let rst := fresh "rst" in let rfn := fresh "rfn" in let rpc := fresh "rpc" in
  let rret := fresh "rret" in let rit := fresh "rit" in
  destruct T as [rst rfn rpc rret rit];
  unfold fn_ok in HT; cbn in HT;
  destruct HT as [[? _]|[_ [? _]]]; [subst rfn|congruence];
  match goal with Hd : Data _ |- _ => unfold Data in Hd; cbn in Hd; destruct Hd as [_ [? [? Hb]]]; unfold Body, accounted in Hb; cbn in Hb end;
  match goal with
  | H : thread_step _ _ _ _ _ _ = _ |- _ =>
    unfold thread_step in H; cbn in H; destruct rst; try discriminate H;
    do 9 (try destruct rpc as [|rpc]); try (exfalso; assumption); cbn in H;
    unfold ch_close, ch_send, ch_cancel in H;
    inv_ok; finish_inv; close_rest
  end.

(* a step of another thread changed nothing the winner of the Once relies on, at whichever pc the winner is *)
Ltac close_pc :=
  try match goal with
      | H : match t_pc ?t with _ => _ end |- match t_pc ?t with _ => _ end =>
        destruct (t_pc t) as [|[|[|[|[|[|[|[|[|?]]]]]]]]]; cbn in *; try assumption;
        repeat match goal with H : _ /\ _ |- _ => destruct H | H : exists _, _ |- _ => destruct H end;
        solve [congruence | exfalso; assumption | repeat split; first [assumption | congruence | perm_leaf]]
      end.

(* the thread T runs its own function *)
Ltac home_script T HT :=
  let rst := fresh "rst" in let rfn := fresh "rfn" in let rpc := fresh "rpc" in
  let rret := fresh "rret" in let rit := fresh "rit" in
  destruct T as [rst rfn rpc rret rit];
  unfold fn_ok in HT; cbn in HT;
  destruct HT as [[_ ?]|[? [_ ?]]]; [congruence|subst rfn];
  match goal with
  | H : thread_step _ _ _ _ _ _ = _ |- _ =>
    unfold thread_step in H; cbn in H; destruct rst; try discriminate H;
    do 9 (try destruct rpc as [|rpc]); cbn in H; try discriminate H;
    unfold ch_close, ch_send, ch_cancel, ch_recv in H;
    inv_ok; finish_inv; close_pc
  end.


(* what a step of an association thread may change in the node: the pConnDone buffer, the connection map and
   the accept-loop flag - never a closed flag, the context, the node's own threads *)
Definition node_frame (nd nd' : node) : Prop :=
  (cbuf (n_ctx nd) = [] -> n_ctx nd' = n_ctx nd) /\ n_done nd' = n_done nd /\ n_thr nd' = n_thr nd /\ n_stop nd' = n_stop nd
  /\ n_main nd' = n_main nd /\ n_exit nd' = n_exit nd /\ n_lsock nd' = n_lsock nd
  /\ n_npd nd' = n_npd nd /\ n_npdnil nd' = n_npdnil nd /\ n_ended nd' = n_ended nd /\ n_peers nd' = n_peers nd
  /\ cclosed (n_pcd nd') = cclosed (n_pcd nd) /\ ccap (n_pcd nd') = ccap (n_pcd nd).

(* any thread T of the association, result Panic: only the send on a closed pConnDone survives *)
Ltac panic_script T HT :=
  let rst := fresh "rst" in let rfn := fresh "rfn" in let rpc := fresh "rpc" in
  let rret := fresh "rret" in let rit := fresh "rit" in
  destruct T as [rst rfn rpc rret rit];
  unfold fn_ok in HT; cbn in HT;
  destruct HT as [[? ?]|[? [? ?]]]; subst;
  match goal with
  | H : thread_step _ _ _ _ _ _ = _ |- _ =>
    unfold thread_step in H; cbn in H; destruct rst; try discriminate H;
    do 9 (try destruct rpc as [|rpc]); cbn in H; try discriminate H;
    unfold ch_close, ch_send, ch_cancel, ch_recv in H;
    inv_ok; finish_inv
  end.
