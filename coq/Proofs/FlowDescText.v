(* Text-level lemmas for Model/FlowDesc.v: token equality, decimal print/parse round trip,
   strings.Split / IndexByte on separator-free pieces, dotted quads, CIDR text, port text,
   strings.Fields of space-joined tokens. *)
From Coq Require Import NArith List Bool Ascii String Lia ZifyN ZifyNat ZifyBool.
From UPF Require Import Base.Words Model.PortRange Model.FlowDesc.
Import ListNotations.
Open Scope N_scope.

(* ------------------------------------------------------------------ token equality *)

Lemma leqb_refl s : leqb s s = true.
Proof. induction s as [|c s IH]; cbn; [reflexivity|]. now rewrite Ascii.eqb_refl. Qed.

Lemma leqb_eq a b : leqb a b = true <-> a = b.
Proof.
  revert b; induction a as [|x a IH]; intros [|y b]; cbn; split; try congruence; try reflexivity.
  - intros H. apply andb_true_iff in H as [H1 H2]. apply Ascii.eqb_eq in H1. apply IH in H2. now subst.
  - intros H. injection H as -> ->. rewrite Ascii.eqb_refl. now apply IH.
Qed.

Lemma leqb_neq a b : leqb a b = false <-> a <> b.
Proof.
  split.
  - intros H E. apply leqb_eq in E. congruence.
  - intros H. destruct (leqb a b) eqn:E; [apply leqb_eq in E; contradiction|reflexivity].
Qed.

(* ------------------------------------------------------------------ digits *)

Definition is_digit (c : ascii) : bool := match digit_of c with Some _ => true | None => false end.
Definition digits (s : str) : Prop := Forall (fun c => is_digit c = true) s.

Lemma digit_of_char d : d < 10 -> digit_of (digit_char d) = Some d.
Proof.
  intros H. unfold digit_of, digit_char. rewrite N_ascii_embedding by lia.
  replace ((48 <=? 48 + d) && (48 + d <=? 57)) with true by lia. f_equal; lia.
Qed.

Lemma is_digit_char d : d < 10 -> is_digit (digit_char d) = true.
Proof. intros H. unfold is_digit. now rewrite digit_of_char. Qed.

Lemma dec_acc_snoc s c acc :
  dec_acc (s ++ [c]) acc =
  match dec_acc s acc with
  | Some v => match digit_of c with Some d => Some (10 * v + d) | None => None end
  | None => None
  end.
Proof.
  revert acc; induction s as [|x s IH]; intros acc; cbn [dec_acc app].
  - destruct (digit_of c); reflexivity.
  - destruct (digit_of x); [apply IH|reflexivity].
Qed.

Lemma print_dec_fuel_nonempty f n : print_dec_fuel f n <> [].
Proof.
  destruct f; cbn [print_dec_fuel]; [discriminate|].
  destruct (n <? 10); [discriminate|]. intros H. apply app_eq_nil in H as [_ H]. discriminate.
Qed.

Lemma print_dec_fuel_digits f n : digits (print_dec_fuel f n).
Proof.
  revert n; induction f as [|f IH]; intros n; cbn [print_dec_fuel].
  - constructor; [|constructor]. apply is_digit_char. apply N.mod_lt. lia.
  - destruct (N.ltb_spec n 10).
    + constructor; [|constructor]. now apply is_digit_char.
    + apply Forall_app. split; [apply IH|]. constructor; [|constructor].
      apply is_digit_char. apply N.mod_lt. lia.
Qed.

Lemma print_dec_fuel_value f n : n < 10 ^ N.of_nat (S f) -> dec_acc (print_dec_fuel f n) 0 = Some n.
Proof.
  revert n; induction f as [|f IH]; intros n Hn; cbn [print_dec_fuel].
  - change (10 ^ N.of_nat 1) with 10 in Hn. rewrite N.mod_small by assumption.
    cbn [dec_acc]. rewrite digit_of_char by assumption. f_equal; lia.
  - destruct (N.ltb_spec n 10) as [Hs|Hs].
    + cbn [dec_acc]. rewrite digit_of_char by assumption. f_equal; lia.
    + rewrite dec_acc_snoc. rewrite IH.
      * rewrite digit_of_char by (apply N.mod_lt; lia). f_equal.
        rewrite (N.div_mod' n 10) at 3. reflexivity.
      * apply N.div_lt_upper_bound; [lia|].
        replace (N.of_nat (S (S f))) with (N.succ (N.of_nat (S f))) in Hn by lia.
        now rewrite N.pow_succ_r' in Hn.
Qed.

Definition DEC_BOUND : N := 10 ^ 21.

Lemma print_dec_digits n : digits (print_dec n).
Proof. apply print_dec_fuel_digits. Qed.

Lemma print_dec_nonempty n : print_dec n <> [].
Proof. apply print_dec_fuel_nonempty. Qed.

Lemma parse_print_dec n : n < DEC_BOUND -> parse_dec (print_dec n) = Some n.
Proof.
  intros H. unfold parse_dec. destruct (print_dec n) eqn:E; [now apply print_dec_nonempty in E|].
  rewrite <- E. apply print_dec_fuel_value. exact H.
Qed.

Lemma parse_uint_print bits n : n < 2 ^ bits -> n < DEC_BOUND -> parse_uint bits (print_dec n) = Some n.
Proof.
  intros H1 H2. unfold parse_uint. rewrite parse_print_dec by assumption.
  now replace (n <? 2 ^ bits) with true by lia.
Qed.

(* a digit string starts with a digit *)
Lemma digits_head s : digits s -> s <> [] -> exists c r, s = c :: r /\ is_digit c = true.
Proof. intros H N. destruct s as [|c r]; [contradiction|]. inversion H; subst. eauto. Qed.

Lemma digit_not (c x : ascii) : is_digit c = true -> is_digit x = false -> Ascii.eqb c x = false.
Proof. intros H1 H2. destruct (Ascii.eqb c x) eqn:E; [apply Ascii.eqb_eq in E; congruence|reflexivity]. Qed.

Lemma digits_not_in s x : digits s -> is_digit x = false -> ~ In x s.
Proof. intros H Hx Hin. unfold digits in H. rewrite Forall_forall in H. apply H in Hin. congruence. Qed.

(* ------------------------------------------------------------------ Split / IndexByte *)

Lemma split_on_nonempty sep s : split_on sep s <> [].
Proof.
  induction s as [|c s IH]; cbn; [discriminate|].
  destruct (Ascii.eqb c sep); [discriminate|]. destruct (split_on sep s); [contradiction|discriminate].
Qed.

Lemma split_on_none sep a : ~ In sep a -> split_on sep a = [a].
Proof.
  induction a as [|c a IH]; intros H; cbn; [reflexivity|].
  destruct (Ascii.eqb c sep) eqn:E.
  - apply Ascii.eqb_eq in E. subst. exfalso. apply H. now left.
  - rewrite IH; [reflexivity|]. intros Hin. apply H. now right.
Qed.

Lemma split_on_app sep a b : ~ In sep a -> split_on sep (a ++ sep :: b) = a :: split_on sep b.
Proof.
  induction a as [|c a IH]; intros H; cbn.
  - now rewrite Ascii.eqb_refl.
  - destruct (Ascii.eqb c sep) eqn:E.
    + apply Ascii.eqb_eq in E. subst. exfalso. apply H. now left.
    + rewrite IH; [reflexivity|]. intros Hin. apply H. now right.
Qed.

Lemma cut_first_app sep a b : ~ In sep a -> cut_first sep (a ++ sep :: b) = Some (a, b).
Proof.
  induction a as [|c a IH]; intros H; cbn.
  - now rewrite Ascii.eqb_refl.
  - destruct (Ascii.eqb c sep) eqn:E.
    + apply Ascii.eqb_eq in E. subst. exfalso. apply H. now left.
    + rewrite IH; [reflexivity|]. intros Hin. apply H. now right.
Qed.

(* ------------------------------------------------------------------ finite sweeps *)

Fixpoint nrange (k : nat) (a : N) : list N :=
  match k with O => [] | S k => a :: nrange k (a + 1) end.

Lemma in_nrange k a n : a <= n < a + N.of_nat k -> In n (nrange k a).
Proof.
  revert a; induction k as [|k IH]; intros a H; [lia|]. cbn.
  destruct (N.eq_dec a n); [now left|right]. apply IH. lia.
Qed.

Definition octet_ok (n : N) : bool :=
  match parse_octet (print_dec n) with Some m => m =? n | None => false end.

Lemma octet_sweep : forallb octet_ok (nrange 256 0) = true.
Proof. vm_compute. reflexivity. Qed.

Lemma parse_octet_print n : n <= 255 -> parse_octet (print_dec n) = Some n.
Proof.
  intros H. pose proof octet_sweep as S. rewrite forallb_forall in S.
  specialize (S n (in_nrange 256 0 n ltac:(lia))). unfold octet_ok in S.
  destruct (parse_octet (print_dec n)); [|discriminate]. apply N.eqb_eq in S. now subst.
Qed.

(* ------------------------------------------------------------------ dotted quads *)

Lemma dot_not_digit : is_digit dot = false. Proof. reflexivity. Qed.
Lemma slash_not_digit : is_digit slash = false. Proof. reflexivity. Qed.
Lemma dash_not_digit : is_digit dash = false. Proof. reflexivity. Qed.

Lemma parse_print_ip ip : ip < 2 ^ 32 -> parse_ipv4 (print_ip ip) = Some ip.
Proof.
  intros H. unfold parse_ipv4, print_ip.
  rewrite split_on_app by (apply digits_not_in; [apply print_dec_digits|apply dot_not_digit]).
  rewrite split_on_app by (apply digits_not_in; [apply print_dec_digits|apply dot_not_digit]).
  rewrite split_on_app by (apply digits_not_in; [apply print_dec_digits|apply dot_not_digit]).
  rewrite split_on_none by (apply digits_not_in; [apply print_dec_digits|apply dot_not_digit]).
  change (2 ^ 32) with 4294967296 in H.
  change (2 ^ 24) with 16777216. change (2 ^ 16) with 65536. change (2 ^ 8) with 256.
  rewrite !parse_octet_print by lia. f_equal; lia.
Qed.

Lemma print_ip_head ip : exists c r, print_ip ip = c :: r /\ is_digit c = true.
Proof.
  unfold print_ip.
  destruct (digits_head _ (print_dec_digits (ip / 2 ^ 24)) (print_dec_nonempty _)) as (c & r & E & D).
  rewrite E. cbn. eauto.
Qed.

Lemma print_ip_no_slash ip : ~ In slash (print_ip ip).
Proof.
  unfold print_ip. intros H.
  repeat (apply in_app_or in H; destruct H as [H|H];
          [revert H; apply digits_not_in; [apply print_dec_digits|reflexivity]|];
          destruct H as [H|H]; [discriminate H|]).
  revert H; apply digits_not_in; [apply print_dec_digits|reflexivity].
Qed.

Lemma print_ip_inj a b : a < 2 ^ 32 -> b < 2 ^ 32 -> print_ip a = print_ip b -> a = b.
Proof.
  intros Ha Hb E. apply (f_equal parse_ipv4) in E. rewrite !parse_print_ip in E by assumption. congruence.
Qed.

(* ------------------------------------------------------------------ CIDR text *)

Lemma mask_of_32 : mask_of 32 = MAX32. Proof. reflexivity. Qed.

Lemma land_max32 x : x < 2 ^ 32 -> N.land x MAX32 = x.
Proof.
  intros H. change MAX32 with (N.ones 32). rewrite N.land_ones. now apply N.mod_small.
Qed.

(* the net an address with an optional prefix length denotes: masked base and mask *)
Definition net_of_ip (ip : N) (len : option N) : N * N :=
  let l := match len with Some l => l | None => 32 end in (N.land ip (mask_of l), mask_of l).

Definition ip_text (ip : N) (len : option N) : str :=
  match len with
  | None => print_ip ip
  | Some l => print_ip ip ++ slash :: print_dec l
  end.

Lemma parse_cidr_text ip l : ip < 2 ^ 32 -> l <= 32 ->
  parse_cidr (print_ip ip ++ slash :: print_dec l) = Some (N.land ip (mask_of l), mask_of l).
Proof.
  intros Hip Hl. unfold parse_cidr. rewrite cut_first_app by apply print_ip_no_slash.
  rewrite parse_print_ip by assumption. rewrite parse_print_dec by (unfold DEC_BOUND; lia).
  now replace (l <=? 32) with true by lia.
Qed.

Lemma parse_net_ip_text ip len : ip < 2 ^ 32 -> (forall l, len = Some l -> l <= 32) ->
  parse_net (ip_text ip len) = Some (net_of_ip ip len).
Proof.
  intros Hip Hl. unfold parse_net, ip_text, net_of_ip. destruct len as [l|].
  - rewrite split_on_app by apply print_ip_no_slash.
    rewrite split_on_none by (apply digits_not_in; [apply print_dec_digits|reflexivity]).
    apply parse_cidr_text; auto.
  - rewrite split_on_none by apply print_ip_no_slash.
    change (K "/32") with (slash :: print_dec 32). apply parse_cidr_text; [assumption|lia].
Qed.

Lemma parse_net_wildcard : parse_net WILDCARD_NET = Some (0, 0).
Proof. vm_compute. reflexivity. Qed.

(* ------------------------------------------------------------------ port text *)

Lemma parse_port_single p : p <= 65535 -> parse_port (print_dec p) = Some (new_range p p).
Proof.
  intros H. unfold parse_port.
  rewrite split_on_none by (apply digits_not_in; [apply print_dec_digits|reflexivity]).
  rewrite parse_uint_print by (unfold DEC_BOUND; change (2 ^ 16) with 65536; lia).
  now rewrite N.ltb_irrefl.
Qed.

Lemma parse_port_range l h : l <= h -> h <= 65535 ->
  parse_port (print_dec l ++ dash :: print_dec h) = Some (new_range l h).
Proof.
  intros H1 H2. unfold parse_port.
  rewrite split_on_app by (apply digits_not_in; [apply print_dec_digits|reflexivity]).
  rewrite split_on_none by (apply digits_not_in; [apply print_dec_digits|reflexivity]).
  rewrite !parse_uint_print by (unfold DEC_BOUND; change (2 ^ 16) with 65536; lia).
  now replace (h <? l) with false by lia.
Qed.

Lemma parse_port_inverted l h : h < l -> l <= 65535 ->
  parse_port (print_dec l ++ dash :: print_dec h) = None.
Proof.
  intros H1 H2. unfold parse_port.
  rewrite split_on_app by (apply digits_not_in; [apply print_dec_digits|reflexivity]).
  rewrite split_on_none by (apply digits_not_in; [apply print_dec_digits|reflexivity]).
  rewrite !parse_uint_print by (unfold DEC_BOUND; change (2 ^ 16) with 65536; lia).
  now replace (h <? l) with true by lia.
Qed.

(* ------------------------------------------------------------------ tokens starting with a digit *)

Definition starts_digit (s : str) : Prop := exists c r, s = c :: r /\ is_digit c = true.

Lemma starts_digit_neq s (k : str) :
  starts_digit s -> match k with c :: _ => is_digit c = false | [] => True end -> leqb s k = false.
Proof.
  intros (c & r & -> & D) Hk. destruct k as [|x k]; [reflexivity|]. cbn.
  now rewrite (digit_not c x D Hk).
Qed.

Lemma starts_digit_app s t : starts_digit s -> starts_digit (s ++ t).
Proof. intros (c & r & -> & D). exists c, (r ++ t). split; [reflexivity|assumption]. Qed.

Lemma print_dec_starts n : starts_digit (print_dec n).
Proof. apply digits_head; [apply print_dec_digits|apply print_dec_nonempty]. Qed.

Lemma print_ip_starts ip : starts_digit (print_ip ip).
Proof. apply print_ip_head. Qed.

(* ------------------------------------------------------------------ strings.Fields *)

Definition space : ascii := " "%char.
Definition tok_ok (t : str) : Prop := t <> [] /\ Forall (fun c => is_space c = false) t.

Fixpoint join (ts : list str) : str :=
  match ts with
  | [] => []
  | [t] => t
  | t :: r => t ++ space :: join r
  end.

Lemma fields_cons2 c d r :
  fields (c :: d :: r) =
  if is_space c then fields (d :: r)
  else if is_space d then [c] :: fields (d :: r)
  else match fields (d :: r) with t :: ts => (c :: t) :: ts | [] => [[c]] end.
Proof. reflexivity. Qed.

Lemma fields_token t rest :
  tok_ok t -> (rest = [] \/ exists c r, rest = c :: r /\ is_space c = true) ->
  fields (t ++ rest) = t :: fields rest.
Proof.
  intros [Hne Hns] Hrest. induction t as [|c t IH]; [contradiction|].
  inversion Hns as [|? ? Hc Ht]; subst. destruct t as [|d t].
  - destruct Hrest as [->|(x & r & -> & Hx)].
    + cbn. now rewrite Hc.
    + change ([c] ++ x :: r) with (c :: x :: r). rewrite fields_cons2, Hc, Hx. reflexivity.
  - change ((c :: d :: t) ++ rest) with (c :: d :: (t ++ rest)).
    inversion Ht as [|? ? Hd _]; subst. rewrite fields_cons2, Hc, Hd.
    change (d :: t ++ rest) with ((d :: t) ++ rest). rewrite IH; [reflexivity|discriminate|assumption].
Qed.

Lemma fields_join ts : Forall tok_ok ts -> fields (join ts) = ts.
Proof.
  induction ts as [|t ts IH]; intros H; [reflexivity|].
  inversion H as [|? ? Ht Hts]; subst. destruct ts as [|u ts].
  - cbn [join]. rewrite <- (app_nil_r t) at 1. rewrite fields_token; auto.
  - change (join (t :: u :: ts)) with (t ++ space :: join (u :: ts)).
    rewrite fields_token; [|assumption|right; eexists _, _; split; [reflexivity|reflexivity]].
    cbn [fields]. change (is_space space) with true. cbn iota. now rewrite IH.
Qed.

Lemma digits_no_space s : digits s -> Forall (fun c => is_space c = false) s.
Proof.
  intros H. unfold digits in H. rewrite Forall_forall in *. intros c Hc. specialize (H c Hc).
  unfold is_digit, digit_of in H. unfold is_space.
  destruct ((48 <=? N_of_ascii c) && (N_of_ascii c <=? 57)) eqn:E; [|discriminate]. lia.
Qed.
