(* Invariants of Model/Up4Ids.v, for all histories, all fault lists and all Pop choices.

   The master statement is a conservation INEQUALITY: for each identifier kind, the multiset
   pool ++ holders never gains an element (identifiers may be stranded - that is C05's business - but
   no operation ever creates a second copy of one, and none enters the pool of another kind).  Exclusive
   ownership, "never free while held" and "pools stay inside their initial contents" are corollaries.
   For counter cells the inequality needs a guard (F24, F1502); the other four kinds hold outright. *)
From Coq Require Import NArith List Bool Lia ZifyN ZifyNat ZifyBool Arith.
From UPF Require Import Model.Up4Ids.
Import ListNotations.
Open Scope N_scope.

(* ------------------------------------------------------------------ multisets of identifiers *)
Definition cnt (l : list N) (x : N) : nat := count_occ N.eq_dec l x.
Definition msub (a b : list N) : Prop := forall x, (cnt a x <= cnt b x)%nat.
Arguments cnt : simpl never.

Lemma cnt_app : forall a b x, cnt (a ++ b) x = (cnt a x + cnt b x)%nat.
Proof. intros. apply count_occ_app. Qed.
Lemma cnt_cons : forall v l x, cnt (v :: l) x = (cnt [v] x + cnt l x)%nat.
Proof. intros. change (v :: l) with ([v] ++ l). apply cnt_app. Qed.
Lemma cnt_nil : forall x, cnt [] x = 0%nat.
Proof. reflexivity. Qed.
Lemma cnt_single_same : forall v, cnt [v] v = 1%nat.
Proof. intros. unfold cnt. cbn. destruct (N.eq_dec v v); congruence. Qed.
Lemma cnt_single_other : forall v x, v <> x -> cnt [v] x = 0%nat.
Proof. intros. unfold cnt. cbn. destruct (N.eq_dec v x); congruence. Qed.
Lemma cnt_single_le : forall v x, (cnt [v] x <= 1)%nat.
Proof. intros. destruct (N.eq_dec v x); [subst; rewrite cnt_single_same | rewrite cnt_single_other by assumption]; lia. Qed.

(* lia on counting facts: the cnt terms are abstracted first (zify would otherwise look inside them) *)
Ltac cnt_lia :=
  repeat match goal with
         | |- context [cnt ?l ?x] => let n := fresh "n" in let E := fresh "E" in remember (cnt l x) as n eqn:E; clear E
         | H : context [cnt ?l ?x] |- _ => let n := fresh "n" in let E := fresh "E" in remember (cnt l x) as n eqn:E; clear E
         end; lia.

Lemma msub_refl : forall a, msub a a.
Proof. intros a x. lia. Qed.
Lemma msub_trans : forall a b c, msub a b -> msub b c -> msub a c.
Proof. intros a b c H1 H2 x. specialize (H1 x). specialize (H2 x). lia. Qed.
Lemma msub_NoDup : forall a b, msub a b -> NoDup b -> NoDup a.
Proof.
  intros a b H Hb. apply (NoDup_count_occ N.eq_dec). intro x.
  pose proof (proj1 (NoDup_count_occ N.eq_dec b) Hb x). specialize (H x). unfold cnt in H. lia.
Qed.
Lemma msub_incl : forall a b, msub a b -> incl a b.
Proof.
  intros a b H x Hx. apply (count_occ_In N.eq_dec). apply (count_occ_In N.eq_dec) in Hx.
  specialize (H x). unfold cnt in H. lia.
Qed.
Lemma cnt_In : forall l x, In x l <-> (cnt l x >= 1)%nat.
Proof. intros. unfold cnt. split; intro H. apply (count_occ_In N.eq_dec) in H. lia. apply (count_occ_In N.eq_dec). lia. Qed.

Lemma mem_In : forall v l, mem v l = true <-> In v l.
Proof.
  intros. unfold mem. rewrite existsb_exists. split.
  - intros (x & Hx & E). apply N.eqb_eq in E. subst. assumption.
  - intros H. exists v. split. assumption. apply N.eqb_refl.
Qed.

Lemma cnt_set_remove_same : forall v l, cnt (set_remove v l) v = 0%nat.
Proof.
  intros. destruct (cnt (set_remove v l) v) eqn:E; [reflexivity|].
  assert (In v (set_remove v l)) by (apply cnt_In; lia).
  unfold set_remove in H. apply filter_In in H. destruct H as [_ H]. rewrite N.eqb_refl in H. discriminate.
Qed.
Lemma cnt_set_remove_other : forall v l x, x <> v -> cnt (set_remove v l) x = cnt l x.
Proof.
  intros v l x Hx. induction l as [|a l IH]; [reflexivity|].
  unfold set_remove in *. cbn [filter]. destruct (a =? v) eqn:E; cbn [negb].
  - apply N.eqb_eq in E. subst a. rewrite (cnt_cons v l). rewrite cnt_single_other by congruence. rewrite IH. lia.
  - rewrite (cnt_cons a l), (cnt_cons a (filter _ l)). rewrite IH. reflexivity.
Qed.
Lemma cnt_set_remove_le : forall v l x, (cnt (set_remove v l) x <= cnt l x)%nat.
Proof.
  intros. destruct (N.eq_dec x v). subst. rewrite cnt_set_remove_same. lia. rewrite cnt_set_remove_other by assumption. lia.
Qed.
(* taking a member out of a set: the element plus the rest is no more than the set *)
Lemma cnt_pop : forall v l x, In v l -> (cnt [v] x + cnt (set_remove v l) x <= cnt l x)%nat.
Proof.
  intros v l x H. destruct (N.eq_dec x v).
  - subst. rewrite cnt_single_same, cnt_set_remove_same. apply cnt_In in H. lia.
  - rewrite cnt_single_other by congruence. rewrite cnt_set_remove_other by assumption. lia.
Qed.
Lemma cnt_set_add : forall v l x, (cnt (set_add v l) x <= cnt l x + cnt [v] x)%nat.
Proof. intros. unfold set_add. destruct (mem v l). lia. rewrite cnt_app. lia. Qed.
Lemma cnt_set_add_ge : forall v l x, (cnt l x <= cnt (set_add v l) x)%nat.
Proof. intros. unfold set_add. destruct (mem v l). lia. rewrite cnt_app. lia. Qed.
Lemma set_add_member : forall v l, In v (set_add v l).
Proof. intros. unfold set_add. destruct (mem v l) eqn:E. apply mem_In; assumption. apply in_or_app. right. left. reflexivity. Qed.
Lemma set_add_idem : forall v l, set_add v (set_add v l) = set_add v l.
Proof. intros. unfold set_add at 1. rewrite (proj2 (mem_In v (set_add v l)) (set_add_member v l)). reflexivity. Qed.

(* ------------------------------------------------------------------ maps *)
Lemma pair_eqb_eq : forall a b, pair_eqb a b = true <-> a = b.
Proof.
  intros [a1 a2] [b1 b2]. unfold pair_eqb. cbn. rewrite andb_true_iff, !N.eqb_eq. split.
  intros [? ?]; subst; reflexivity. intros H; inversion H; auto.
Qed.

Definition cells_of (t : mtype) (m : meter) : list N := if mtype_eqb (m_type m) t then mcells m else [].
Lemma held_cells_cons : forall t e ms, held_cells t (e :: ms) = cells_of t (snd e) ++ held_cells t ms.
Proof. reflexivity. Qed.

Lemma held_upsert : forall t k m ms x,
  (cnt (held_cells t (aupsert pair_eqb k m ms)) x <= cnt (cells_of t m) x + cnt (held_cells t ms) x)%nat.
Proof.
  intros t k m ms x. induction ms as [|[k' m'] ms IH].
  - cbn [aupsert]. rewrite held_cells_cons. cbn [snd]. rewrite cnt_app. lia.
  - cbn [aupsert]. destruct (pair_eqb k k').
    + rewrite !held_cells_cons. cbn [snd]. rewrite !cnt_app. lia.
    + rewrite !held_cells_cons. cbn [snd]. rewrite !cnt_app. lia.
Qed.
Lemma held_remove : forall t k m ms x, alookup pair_eqb k ms = Some m ->
  (cnt (held_cells t (aremove pair_eqb k ms)) x + cnt (cells_of t m) x <= cnt (held_cells t ms) x)%nat.
Proof.
  intros t k m ms x. induction ms as [|[k' m'] ms IH]; [discriminate|].
  cbn [alookup aremove]. destruct (pair_eqb k k').
  - intros H. inversion H; subst m'. rewrite held_cells_cons. cbn [snd]. rewrite cnt_app.
    assert (forall l, (cnt (held_cells t (aremove pair_eqb k l)) x <= cnt (held_cells t l) x)%nat) as Hle.
    { induction l as [|[k2 m2] l IHl]; [cbn; lia|]. cbn [aremove]. destruct (pair_eqb k k2).
      rewrite held_cells_cons, cnt_app. lia. rewrite !held_cells_cons, !cnt_app. lia. }
    specialize (Hle ms). lia.
  - intros H. specialize (IH H). rewrite !held_cells_cons. cbn [snd]. rewrite !cnt_app. lia.
Qed.

Definition ids_of (l : list (N * (N * list (N * N)))) : list N := map (fun e => fst (snd e)) l.
Lemma ids_upsert : forall k id us l x,
  (cnt (ids_of (aupsert N.eqb k (id, us) l)) x <= cnt [id] x + cnt (ids_of l) x)%nat.
Proof.
  intros k id us l x. induction l as [|[k' [id' us']] l IH].
  - cbn. lia.
  - cbn [aupsert]. destruct (k =? k').
    + unfold ids_of. cbn [map fst snd]. rewrite (cnt_cons id (map _ l)), (cnt_cons id' (map _ l)). lia.
    + unfold ids_of in *. cbn [map fst snd]. rewrite (cnt_cons id' (map _ (aupsert _ _ _ _))), (cnt_cons id' (map _ l)). lia.
Qed.
Lemma ids_upsert_same : forall k id us us0 l x, alookup N.eqb k l = Some (id, us0) ->
  (cnt (ids_of (aupsert N.eqb k (id, us) l)) x <= cnt (ids_of l) x)%nat.
Proof.
  intros k id us us0 l x. induction l as [|[k' [id' us']] l IH]; [discriminate|].
  cbn [alookup aupsert]. destruct (k =? k').
  - intros H. inversion H; subst. unfold ids_of. cbn [map fst snd]. lia.
  - intros H. specialize (IH H). unfold ids_of in *. cbn [map fst snd]. rewrite (cnt_cons id' (map _ (aupsert _ _ _ _))), (cnt_cons id' (map _ l)). lia.
Qed.
Lemma ids_remove : forall k id us l x, alookup N.eqb k l = Some (id, us) ->
  (cnt (ids_of (aremove N.eqb k l)) x + cnt [id] x <= cnt (ids_of l) x)%nat.
Proof.
  intros k id us l x. induction l as [|[k' [id' us']] l IH]; [discriminate|].
  cbn [alookup aremove]. destruct (k =? k').
  - intros H. inversion H; subst.
    assert (forall l0, (cnt (ids_of (aremove N.eqb k l0)) x <= cnt (ids_of l0) x)%nat) as Hle.
    { induction l0 as [|[k2 [i2 u2]] l0 IHl]; [cbn; lia|]. cbn [aremove]. destruct (k =? k2).
      unfold ids_of in *. cbn [map fst snd]. rewrite (cnt_cons i2 (map _ l0)). lia.
      unfold ids_of in *. cbn [map fst snd]. rewrite (cnt_cons i2), (cnt_cons i2 (map _ l0)). lia. }
    specialize (Hle l). unfold ids_of in *. cbn [map fst snd]. rewrite (cnt_cons id (map _ l)). lia.
  - intros H. specialize (IH H). unfold ids_of in *. cbn [map fst snd]. rewrite (cnt_cons id' (map _ (aremove _ _ _))), (cnt_cons id' (map _ l)). lia.
Qed.

Lemma mcells_le : forall t ul dl x, (cnt (mcells (Meter t ul dl)) x <= cnt [ul] x + cnt [dl] x)%nat.
Proof. intros. unfold mcells. cbn [m_ul m_dl]. destruct (ul =? dl). lia. rewrite (cnt_cons ul [dl]). lia. Qed.
Lemma mcells_same : forall t ul x, cnt (mcells (Meter t ul ul)) x = cnt [ul] x.
Proof. intros. unfold mcells. cbn [m_ul m_dl]. rewrite N.eqb_refl. reflexivity. Qed.
Lemma mcells_ge_ul : forall m x, (cnt [m_ul m] x <= cnt (mcells m) x)%nat.
Proof. intros. unfold mcells. destruct (m_ul m =? m_dl m). lia. rewrite (cnt_cons (m_ul m) [m_dl m]). lia. Qed.
Lemma mcells_diff : forall m x, (m_dl m =? m_ul m) = false -> cnt (mcells m) x = (cnt [m_ul m] x + cnt [m_dl m] x)%nat.
Proof. intros. unfold mcells. rewrite N.eqb_sym, H. rewrite (cnt_cons (m_ul m) [m_dl m]). reflexivity. Qed.

(* ------------------------------------------------------------------ what is conserved *)
Definition tot (k : kind) (u : up4) : list N :=
  match k with
  | KCtr => ctr_pool u
  | KAppCell => app_pool u ++ held_cells MApp (meters u)
  | KSessCell => sess_pool u ++ held_cells MSess (meters u)
  | KPeer => peer_pool u ++ ids_of (peers u)
  | KAppId => appid_pool u ++ ids_of (apps u)
  end.
Definition R4 (u u' : up4) : Prop :=
  msub (tot KAppCell u') (tot KAppCell u) /\ msub (tot KSessCell u') (tot KSessCell u) /\
  msub (tot KPeer u') (tot KPeer u) /\ msub (tot KAppId u') (tot KAppId u).
Definition Rctr (u u' : up4) : Prop := ctr_pool u' = ctr_pool u.

Lemma R4_refl : forall u, R4 u u.
Proof. intros. repeat split; apply msub_refl. Qed.
Lemma R4_trans : forall a b c, R4 a b -> R4 b c -> R4 a c.
Proof. intros a b c (A1 & A2 & A3 & A4) (B1 & B2 & B3 & B4). repeat split; eapply msub_trans; eauto. Qed.
Lemma Rctr_refl : forall u, Rctr u u.
Proof. reflexivity. Qed.
Lemma Rctr_trans : forall a b c, Rctr a b -> Rctr b c -> Rctr a c.
Proof. unfold Rctr. intros. congruence. Qed.

(* ------------------------------------------------------------------ a preorder is kept by composition *)
Section Mono.
  Variable R : up4 -> up4 -> Prop.
  Hypothesis R_refl : forall u, R u u.
  Hypothesis R_trans : forall a b c, R a b -> R b c -> R a c.
  Definition mono {A} (m : M A) : Prop := forall w, R (w_u w) (w_u (fst (m w))).

  Lemma mono_ret : forall A (a : A), mono (ret a).
  Proof. intros A a w. apply R_refl. Qed.
  Lemma mono_fail : forall A, mono (@fail A).
  Proof. intros A w. apply R_refl. Qed.
  Lemma mono_get_u : mono get_u.
  Proof. intros w. apply R_refl. Qed.
  Lemma mono_write : forall s, mono (write s).
  Proof. intros s w. unfold write. destruct (w_faults w); apply R_refl. Qed.
  Lemma mono_bind : forall A B (m : M A) (k : A -> M B), mono m -> (forall a, mono (k a)) -> mono (bind m k).
  Proof.
    intros A B m k Hm Hk w. unfold bind. specialize (Hm w). destruct (m w) as [w' r]. cbn [fst] in Hm.
    destruct r as [a|]. eapply R_trans. exact Hm. apply Hk. exact Hm.
  Qed.
  Lemma mono_forM : forall A (l : list A) (f : A -> M unit), (forall a, mono (f a)) -> mono (forM_ l f).
  Proof. intros A l f H. induction l as [|a l IH]. apply mono_ret. cbn [forM_]. apply mono_bind. apply H. intros _. exact IH. Qed.
  Lemma mono_modify : forall f, (forall u, R u (f u)) -> mono (modify_u f).
  Proof. intros f H w. cbn. apply H. Qed.
End Mono.

(* ------------------------------------------------------------------ primitives *)
Lemma pop_set_spec : forall p w,
  match pop_set p w with
  | (w', Ok None) => w_u w' = w_u w
  | (w', Ok (Some v)) => In v (get_spool p (w_u w)) /\ w_u w' = set_spool p (set_remove v (get_spool p (w_u w))) (w_u w)
  | (_, Err) => False
  end.
Proof.
  intros p w. unfold pop_set. destruct (get_spool p (w_u w)) as [|h t] eqn:E. reflexivity.
  destruct (w_pops w) as [|v rest].
  - cbn [w_u]. split. left; reflexivity. reflexivity.
  - destruct (mem v (h :: t)) eqn:Em; cbn [w_u]. split. apply mem_In; assumption. reflexivity.
    split. left; reflexivity. reflexivity.
Qed.
Lemma write_u : forall s w, w_u (fst (write s w)) = w_u w.
Proof. intros. unfold write. destruct (w_faults w); reflexivity. Qed.
Lemma write_ok : forall s w, exists r, snd (write s w) = Ok r.
Proof. intros. unfold write. destruct (w_faults w); eexists; reflexivity. Qed.

(* symbolic execution helpers *)
Ltac run_write s w w' r :=
  let E := fresh "Ew" in let U := fresh "Uw" in
  pose proof (write_u s w) as U; destruct (write s w) as [w' [r|]] eqn:E;
  [cbn [fst] in U | exfalso; destruct (write_ok s w) as [r0 Hr0]; rewrite E in Hr0; discriminate].
Ltac run_pop p w w' o :=
  let E := fresh "Ep" in let S := fresh "Sp" in
  pose proof (pop_set_spec p w) as S; destruct (pop_set p w) as [w' [o|]] eqn:E; [|contradiction].

Lemma get_set_spool : forall p v u, get_spool p (set_spool p v u) = v.
Proof. intros. destruct p; reflexivity. Qed.

(* release_cell / add_set on the model state *)
Lemma release_cell_u : forall p v w, w_u (fst (release_cell p v w)) =
  if v =? 0 then w_u w else set_spool p (set_add v (get_spool p (w_u w))) (w_u w).
Proof. intros. unfold release_cell. destruct (v =? 0); reflexivity. Qed.
Lemma release_cell_ok : forall p v w, snd (release_cell p v w) = Ok tt.
Proof. intros. unfold release_cell. destruct (v =? 0); reflexivity. Qed.

(* ------------------------------------------------------------------ meters *)
Lemma bind_eq : forall A B (m : M A) (k : A -> M B) w,
  bind m k w = match m w with (w', Ok a) => k a w' | (w', Err) => (w', Err) end.
Proof. intros. unfold bind. destruct (m w) as [w' [a|]]; reflexivity. Qed.

Definition only_app (u u' : up4) : Prop := u' = set_app_pool (app_pool u') u.
Lemma only_app_refl : forall u, only_app u u.
Proof. intros []. reflexivity. Qed.
Lemma only_app_set : forall u v, only_app u (set_app_pool v u).
Proof. intros [] v. reflexivity. Qed.
Lemma only_app_set2 : forall u v v', only_app u (set_app_pool v' (set_app_pool v u)).
Proof. intros [] v v'. reflexivity. Qed.

(* the roll-back closure of configureApplicationMeter, run on a state whose pool is [p] *)
Lemma app_release_u : forall v w, w_u (fst (release_cell PApp v w)) =
  set_app_pool (if v =? 0 then app_pool (w_u w) else set_add v (app_pool (w_u w))) (w_u w).
Proof. intros. rewrite release_cell_u. destruct (v =? 0). destruct (w_u w); reflexivity. reflexivity. Qed.

Lemma confApp_spec : forall b w,
  match configureApplicationMeter b w with
  | (w', Ok m) => m_type m = MApp /\ (forall x, (cnt (mcells m) x + cnt (app_pool (w_u w')) x <= cnt (app_pool (w_u w)) x)%nat) /\ only_app (w_u w) (w_u w')
  | (w', Err) => msub (app_pool (w_u w')) (app_pool (w_u w)) /\ only_app (w_u w) (w_u w')
  end.
Proof.
  intros b w. unfold configureApplicationMeter. rewrite bind_eq.
  run_pop PApp w w1 o1. destruct o1 as [ul|].
  2:{ cbn. rewrite Sp. split. apply msub_refl. apply only_app_refl. }
  destruct Sp as [Hul U1]. cbn [get_spool set_spool] in *.
  match goal with |- context [bind ?m _ w1] => set (M2 := m) end.
  rewrite bind_eq.
  (* the second cell *)
  assert (match M2 w1 with
          | (w2, Ok dl) => exists p2, w_u w2 = set_app_pool p2 (w_u w) /\
                           (forall x, (cnt (mcells (Meter MApp ul dl)) x + cnt p2 x <= cnt (app_pool (w_u w)) x)%nat) /\
                           (forall x, (cnt [ul] x + cnt p2 x <= cnt (app_pool (w_u w)) x)%nat) /\
                           (forall x, (dl =? ul) = false -> (cnt [ul] x + cnt [dl] x + cnt p2 x <= cnt (app_pool (w_u w)) x)%nat)
          | (w2, Err) => msub (app_pool (w_u w2)) (app_pool (w_u w)) /\ only_app (w_u w) (w_u w2)
          end) as H2.
  { subst M2. destruct b.
    - rewrite bind_eq. run_pop PApp w1 w2 o2. destruct o2 as [dl|].
      + destruct Sp as [Hdl U2]. cbn [get_spool set_spool ret] in *. rewrite U1 in Hdl, U2. cbn [app_pool set_app_pool] in Hdl, U2.
        exists (set_remove dl (set_remove ul (app_pool (w_u w)))). split.
        { rewrite U2. destruct (w_u w); reflexivity. }
        pose proof (fun x => cnt_pop ul (app_pool (w_u w)) x Hul) as P1.
        pose proof (fun x => cnt_pop dl _ x Hdl) as P2.
        repeat split; intros x; specialize (P1 x); specialize (P2 x); pose proof (mcells_le MApp ul dl x); try lia.
      + rewrite bind_eq. pose proof (app_release_u ul w2) as RU. pose proof (release_cell_ok PApp ul w2) as RO.
        destruct (release_cell PApp ul w2) as [w3 r3]. cbn [fst snd] in *. subst r3. cbn [fail].
        rewrite RU, Sp, U1. cbn [app_pool set_app_pool]. split.
        * intros x. destruct (ul =? 0). apply cnt_set_remove_le.
          pose proof (cnt_set_add ul (set_remove ul (app_pool (w_u w))) x). pose proof (cnt_pop ul _ x Hul). lia.
        * apply only_app_set2.
    - cbn [ret]. exists (set_remove ul (app_pool (w_u w))). split. exact U1.
      pose proof (fun x => cnt_pop ul (app_pool (w_u w)) x Hul) as P1.
      repeat split; intros x; specialize (P1 x); try rewrite mcells_same; try lia.
      }
  destruct (M2 w1) as [w2 [dl|]]; [|exact H2].
  destruct H2 as (p2 & U2 & C1 & C2 & C3).
  rewrite bind_eq. run_write SMeterApp w2 w3 r.
  destruct (is_ok r).
  - cbn [ret]. split. reflexivity. rewrite Uw, U2. cbn [app_pool set_app_pool]. split. exact C1. apply only_app_set.
  - (* roll back *)
    rewrite bind_eq.
    set (m1 := if negb (ul =? 0) then release_cell PApp ul else ret tt).
    assert (w_u (fst (m1 w3)) = set_app_pool (if ul =? 0 then p2 else set_add ul p2) (w_u w) /\ snd (m1 w3) = Ok tt) as [A1 A1'].
    { subst m1. destruct (ul =? 0) eqn:Z; cbn [negb].
      - cbn [ret fst snd]. rewrite Uw, U2. auto.
      - rewrite app_release_u, release_cell_ok, Z, Uw, U2. cbn [app_pool set_app_pool]. split; [|reflexivity]. destruct (w_u w); reflexivity. }
    destruct (m1 w3) as [w4 r4]. cbn [fst snd] in A1, A1'. subst r4.
    rewrite bind_eq.
    set (m2 := if negb (dl =? ul) then release_cell PApp dl else ret tt).
    assert (w_u (fst (m2 w4)) = set_app_pool (if negb (dl =? ul) then (if dl =? 0 then app_pool (w_u w4) else set_add dl (app_pool (w_u w4))) else app_pool (w_u w4)) (w_u w)
            /\ snd (m2 w4) = Ok tt) as [A2 A2'].
    { subst m2. destruct (dl =? ul) eqn:Z; cbn [negb].
      - cbn [ret fst snd]. rewrite A1. cbn [app_pool set_app_pool]. auto.
      - rewrite app_release_u, release_cell_ok, A1. cbn [app_pool set_app_pool]. split; [|reflexivity]. destruct (w_u w); reflexivity. }
    destruct (m2 w4) as [w5 r5]. cbn [fst snd] in A2, A2'. subst r5. cbn [fail].
    rewrite A2. split; [|apply only_app_set]. cbn [app_pool set_app_pool]. rewrite A1. cbn [app_pool set_app_pool].
    intros x. specialize (C2 x). specialize (C3 x).
    destruct (dl =? ul) eqn:Z; cbn [negb].
    + destruct (ul =? 0). lia. pose proof (cnt_set_add ul p2 x). lia.
    + specialize (C3 eq_refl).
      pose proof (cnt_set_add ul p2 x). pose proof (cnt_set_add dl p2 x). pose proof (cnt_set_add dl (set_add ul p2) x).
      destruct (dl =? 0); destruct (ul =? 0); lia.
Qed.

Ltac simp_u := cbn [tot w_u set_ctr_pool set_app_pool set_sess_pool set_peer_pool set_appid_pool set_meters set_peers set_apps set_ue
                    ctr_pool app_pool sess_pool peer_pool appid_pool meters peers apps ue_known get_spool set_spool fst snd] in *.

Definition only_sess (u u' : up4) : Prop := u' = set_sess_pool (sess_pool u') u.
Lemma only_sess_refl : forall u, only_sess u u.
Proof. intros []. reflexivity. Qed.
Lemma only_sess_set : forall u v, only_sess u (set_sess_pool v u).
Proof. intros [] v. reflexivity. Qed.
Lemma only_sess_set2 : forall u v v', only_sess u (set_sess_pool v' (set_sess_pool v u)).
Proof. intros [] v v'. reflexivity. Qed.
Lemma only_sess_step : forall u u' v, only_sess u u' -> only_sess u (set_sess_pool v u').
Proof. unfold only_sess. intros u u' v H. rewrite H. destruct u; reflexivity. Qed.
Lemma sess_release_u : forall v w, w_u (fst (release_cell PSess v w)) =
  set_sess_pool (if v =? 0 then sess_pool (w_u w) else set_add v (sess_pool (w_u w))) (w_u w).
Proof. intros. rewrite release_cell_u. destruct (v =? 0). destruct (w_u w); reflexivity. reflexivity. Qed.

Lemma confSess_spec : forall w,
  match configureSessionMeter w with
  | (w', Ok m) => m_type m = MSess /\ (forall x, (cnt (mcells m) x + cnt (sess_pool (w_u w')) x <= cnt (sess_pool (w_u w)) x)%nat) /\ only_sess (w_u w) (w_u w')
  | (w', Err) => msub (sess_pool (w_u w')) (sess_pool (w_u w)) /\ only_sess (w_u w) (w_u w')
  end.
Proof.
  intros w. unfold configureSessionMeter. rewrite bind_eq.
  run_pop PSess w w1 o1. destruct o1 as [ul|].
  2:{ cbn. rewrite Sp. split. apply msub_refl. apply only_sess_refl. }
  destruct Sp as [Hul U1]. simp_u.
  rewrite bind_eq. run_pop PSess w1 w2 o2. destruct o2 as [dl|].
  - destruct Sp as [Hdl U2]. simp_u. rewrite U1 in Hdl, U2. simp_u.
    assert (w_u w2 = set_sess_pool (set_remove dl (set_remove ul (sess_pool (w_u w)))) (w_u w)) as U2' by (rewrite U2; destruct (w_u w); reflexivity).
    clear U2. set (p2 := set_remove dl (set_remove ul (sess_pool (w_u w)))) in *.
    assert (forall x, (cnt [ul] x + cnt [dl] x + cnt p2 x <= cnt (sess_pool (w_u w)) x)%nat) as C.
    { intros x. pose proof (cnt_pop ul _ x Hul). pose proof (cnt_pop dl _ x Hdl). subst p2. lia. }
    rewrite bind_eq. run_write SMeterSess w2 w3 r. destruct (is_ok r).
    + cbn [ret]. split. reflexivity. rewrite Uw, U2'. simp_u. split; [|apply only_sess_set].
      intros x. specialize (C x). pose proof (mcells_le MSess ul dl x). lia.
    + rewrite bind_eq. pose proof (sess_release_u ul w3) as R1. pose proof (release_cell_ok PSess ul w3) as O1.
      destruct (release_cell PSess ul w3) as [w4 r4]. cbn [fst snd] in R1, O1. subst r4.
      rewrite bind_eq. pose proof (sess_release_u dl w4) as R2. pose proof (release_cell_ok PSess dl w4) as O2.
      destruct (release_cell PSess dl w4) as [w5 r5]. cbn [fst snd] in R2, O2. subst r5. cbn [fail].
      rewrite R2, R1, Uw, U2'. simp_u. split; [|repeat apply only_sess_step; apply only_sess_refl].
      intros x. specialize (C x).
      pose proof (cnt_set_add ul p2 x). pose proof (cnt_set_add dl p2 x). pose proof (cnt_set_add dl (set_add ul p2) x).
      destruct (dl =? 0); destruct (ul =? 0); lia.
  - rewrite bind_eq. pose proof (sess_release_u ul w2) as RU. pose proof (release_cell_ok PSess ul w2) as RO.
    destruct (release_cell PSess ul w2) as [w3 r3]. cbn [fst snd] in *. subst r3. cbn [fail].
    rewrite RU, Sp, U1. simp_u. split; [|apply only_sess_set2].
    intros x. destruct (ul =? 0). apply cnt_set_remove_le.
    pose proof (cnt_set_add ul (set_remove ul (sess_pool (w_u w))) x). pose proof (cnt_pop ul _ x Hul). lia.
Qed.

(* R4 for a state that differs only in one cell pool and the meters map *)
Lemma cells_of_other : forall t m, mtype_eqb (m_type m) t = false -> cells_of t m = [].
Proof. intros. unfold cells_of. rewrite H. reflexivity. Qed.
Lemma cells_of_same : forall m, cells_of (m_type m) m = mcells m.
Proof. intros. unfold cells_of. destruct (m_type m); reflexivity. Qed.

Lemma configureMeter_R4 : forall sid single q, mono R4 (configureMeter sid single q).
Proof.
  intros sid single q w. unfold configureMeter. destruct (q_level q).
  - rewrite bind_eq. pose proof (confApp_spec single w) as S. destruct (configureApplicationMeter single w) as [w1 [m|]].
    + destruct S as (T & C & O). cbn [modify_u fst w_u]. rewrite O. remember (app_pool (w_u w1)) as p1 eqn:Ep1. clear Ep1. destruct (w_u w) eqn:EU. simp_u.
      repeat split; intros x; simp_u; rewrite ?cnt_app.
      * pose proof (held_upsert MApp (q_id q, sid) m meters x). rewrite <- T in H at 2. rewrite cells_of_same in H. specialize (C x). cnt_lia.
      * pose proof (held_upsert MSess (q_id q, sid) m meters x). rewrite cells_of_other in H by (rewrite T; reflexivity). rewrite cnt_nil in H. lia.
      * lia.
      * lia.
    + destruct S as (C & O). cbn [fst]. rewrite O. remember (app_pool (w_u w1)) as p1 eqn:Ep1. clear Ep1. destruct (w_u w) eqn:EU. simp_u.
      repeat split; intros x; simp_u; rewrite ?cnt_app; try lia. specialize (C x). lia.
  - rewrite bind_eq. pose proof (confSess_spec w) as S. destruct (configureSessionMeter w) as [w1 [m|]].
    + destruct S as (T & C & O). cbn [modify_u fst w_u]. rewrite O. remember (sess_pool (w_u w1)) as p1 eqn:Ep1. clear Ep1. destruct (w_u w) eqn:EU. simp_u.
      repeat split; intros x; simp_u; rewrite ?cnt_app.
      * pose proof (held_upsert MApp (q_id q, sid) m meters x). rewrite cells_of_other in H by (rewrite T; reflexivity). rewrite cnt_nil in H. lia.
      * pose proof (held_upsert MSess (q_id q, sid) m meters x). rewrite <- T in H at 2. rewrite cells_of_same in H. specialize (C x). lia.
      * lia.
      * lia.
    + destruct S as (C & O). cbn [fst]. rewrite O. remember (sess_pool (w_u w1)) as p1 eqn:Ep1. clear Ep1. destruct (w_u w) eqn:EU. simp_u.
      repeat split; intros x; simp_u; rewrite ?cnt_app; try lia. specialize (C x). lia.
  - apply R4_refl.
Qed.

Lemma app_release_only : forall v w, only_app (w_u w) (w_u (fst (release_cell PApp v w))).
Proof. intros. rewrite app_release_u. apply only_app_set. Qed.

(* R4 goals on explicit states *)
Ltac r4 := repeat split; intros ?x; simp_u; rewrite ?cnt_app.

Lemma resetOneMeter_R4 : forall sid q, mono R4 (resetOneMeter sid q).
Proof.
  intros sid q w. unfold resetOneMeter. rewrite bind_eq. cbn [get_u].
  destruct (alookup pair_eqb (q_id q, sid) (meters (w_u w))) as [m|] eqn:L; [|apply R4_refl].
  rewrite bind_eq. run_write SMeterReset w w1 r. rewrite bind_eq.
  destruct (m_type m) eqn:T.
  - rewrite bind_eq. pose proof (app_release_u (m_ul m) w1) as R1. pose proof (release_cell_ok PApp (m_ul m) w1) as O1.
    destruct (release_cell PApp (m_ul m) w1) as [w2 r2]. cbn [fst snd] in R1, O1. subst r2.
    set (m2 := if negb (m_dl m =? m_ul m) then release_cell PApp (m_dl m) else ret tt).
    assert (w_u (fst (m2 w2)) = set_app_pool (if negb (m_dl m =? m_ul m) then (if m_dl m =? 0 then app_pool (w_u w2) else set_add (m_dl m) (app_pool (w_u w2))) else app_pool (w_u w2)) (w_u w)
            /\ snd (m2 w2) = Ok tt) as [A2 A2'].
    { subst m2. destruct (m_dl m =? m_ul m) eqn:Z; cbn [negb].
      - cbn [ret fst snd]. rewrite R1, Uw. simp_u. split; [|reflexivity]. destruct (w_u w); reflexivity.
      - rewrite app_release_u, release_cell_ok, R1, Uw. simp_u. split; [|reflexivity]. destruct (w_u w); reflexivity. }
    destruct (m2 w2) as [w3 r3]. cbn [fst snd] in A2, A2'. subst r3.
    cbn [modify_u fst w_u]. rewrite A2, R1, Uw. destruct (w_u w) eqn:EU. simp_u.
    r4; try lia.
    + pose proof (held_remove MApp _ _ _ x L) as H. rewrite <- T in H at 2. rewrite cells_of_same in H.
      pose proof (mcells_ge_ul m x). pose proof (cnt_set_add (m_ul m) app_pool x).
      destruct (m_dl m =? m_ul m) eqn:Z; cbn [negb].
      * destruct (m_ul m =? 0); cnt_lia.
      * rewrite (mcells_diff m x Z) in *.
        pose proof (cnt_set_add (m_dl m) app_pool x). pose proof (cnt_set_add (m_dl m) (set_add (m_ul m) app_pool) x).
        destruct (m_dl m =? 0); destruct (m_ul m =? 0); cnt_lia.
    + pose proof (held_remove MSess _ _ _ x L) as H. cnt_lia.
  - rewrite bind_eq. pose proof (sess_release_u (m_ul m) w1) as R1. pose proof (release_cell_ok PSess (m_ul m) w1) as O1.
    destruct (release_cell PSess (m_ul m) w1) as [w2 r2]. cbn [fst snd] in R1, O1. subst r2.
    pose proof (sess_release_u (m_dl m) w2) as R2. pose proof (release_cell_ok PSess (m_dl m) w2) as O2.
    destruct (release_cell PSess (m_dl m) w2) as [w3 r3]. cbn [fst snd] in R2, O2. subst r3.
    cbn [modify_u fst w_u]. rewrite R2, R1, Uw. destruct (w_u w) eqn:EU. simp_u.
    r4; try lia.
    + pose proof (held_remove MApp _ _ _ x L) as H. cnt_lia.
    + pose proof (held_remove MSess _ _ _ x L) as H. rewrite <- T in H at 2. rewrite cells_of_same in H.
      pose proof (mcells_ge_ul m x). pose proof (cnt_set_add (m_ul m) sess_pool x).
      destruct (m_dl m =? m_ul m) eqn:Z.
      * apply N.eqb_eq in Z. rewrite Z in *.
        destruct (m_ul m =? 0); rewrite ?set_add_idem; cnt_lia.
      * rewrite (mcells_diff m x Z) in *.
        pose proof (cnt_set_add (m_dl m) sess_pool x). pose proof (cnt_set_add (m_dl m) (set_add (m_ul m) sess_pool) x).
        destruct (m_dl m =? 0); destruct (m_ul m =? 0); cnt_lia.
Qed.

Lemma addOrUpdatePeer_R4 : forall sid f, mono R4 (addOrUpdateGTPTunnelPeer sid f).
Proof.
  intros sid f w. unfold addOrUpdateGTPTunnelPeer. rewrite bind_eq. cbn [get_u].
  destruct (alookup N.eqb (f_peer f) (peers (w_u w))) as [[id users]|] eqn:L.
  - rewrite bind_eq. cbn [modify_u]. rewrite bind_eq.
    match goal with |- context [write SPeer ?W] => set (W1 := W) end.
    run_write SPeer W1 w2 r. subst W1. cbn [w_u] in Uw.
    assert (R4 (w_u w) (w_u w2)) as G.
    { rewrite Uw. destruct (w_u w) eqn:EU. simp_u. r4; try lia. pose proof (ids_upsert_same _ _ (pset_add (sid, f_id f) users) _ _ x L). cnt_lia. }
    destruct (is_ok r); exact G.
  - rewrite bind_eq. unfold pop_peer. destruct (peer_pool (w_u w)) as [|h t] eqn:P. apply R4_refl.
    rewrite bind_eq.
    match goal with |- context [write SPeer ?W] => set (W1 := W) end.
    run_write SPeer W1 w2 r. subst W1. cbn [w_u] in Uw.
    destruct (is_ok r).
    + cbn [modify_u fst w_u]. rewrite Uw. destruct (w_u w) eqn:EU. simp_u. subst peer_pool. r4; try lia.
      pose proof (ids_upsert (f_peer f) h [(sid, f_id f)] peers x). rewrite (cnt_cons h t). cnt_lia.
    + cbn [fail fst]. rewrite Uw. destruct (w_u w) eqn:EU. simp_u. subst peer_pool. r4; try lia.
      rewrite (cnt_cons h t). lia.
Qed.

Lemma removePeer_R4 : forall sid f, mono R4 (removeGTPTunnelPeer sid f).
Proof.
  intros sid f w. unfold removeGTPTunnelPeer. rewrite bind_eq. cbn [get_u].
  destruct (alookup N.eqb (f_peer f) (peers (w_u w))) as [[id users]|] eqn:L; [|apply R4_refl].
  destruct (pset_remove (sid, f_id f) users) as [|u0 us] eqn:PR.
  - rewrite bind_eq. run_write SPeerDel w w1 r. cbn [modify_u fst w_u]. rewrite Uw. destruct (w_u w) eqn:EU. simp_u. r4; try lia.
    pose proof (ids_remove _ _ _ _ x L). cnt_lia.
  - cbn [modify_u fst w_u]. destruct (w_u w) eqn:EU. simp_u. r4; try lia.
    pose proof (ids_upsert_same _ _ (u0 :: us) _ _ x L). cnt_lia.
Qed.

Lemma addApp_R4 : forall sid pid key, mono R4 (addInternalApplicationID sid pid key).
Proof.
  intros sid pid key w. unfold addInternalApplicationID. rewrite bind_eq. cbn [get_u].
  destruct (alookup N.eqb key (apps (w_u w))) as [[id users]|] eqn:L.
  - cbn [modify_u fst w_u]. destruct (w_u w) eqn:EU. simp_u. r4; try lia.
    pose proof (ids_upsert_same _ _ (pset_add (sid, pid) users) _ _ x L). cnt_lia.
  - rewrite bind_eq. unfold pop_appid. destruct (appid_pool (w_u w)) as [|h t] eqn:P. apply R4_refl.
    cbn [modify_u fst w_u]. destruct (w_u w) eqn:EU. simp_u. subst appid_pool. r4; try lia.
    pose proof (ids_upsert key h [(sid, pid)] apps x). rewrite (cnt_cons h t). cnt_lia.
Qed.

Lemma removeApp_R4 : forall sid pid key, mono R4 (removeInternalApplicationID sid pid key).
Proof.
  intros sid pid key w. unfold removeInternalApplicationID. rewrite bind_eq. cbn [get_u].
  destruct (alookup N.eqb key (apps (w_u w))) as [[id users]|] eqn:L; [|apply R4_refl].
  destruct (pset_remove (sid, pid) users) as [|u0 us] eqn:PR.
  - cbn [modify_u fst w_u]. destruct (w_u w) eqn:EU. simp_u. r4; try lia.
    pose proof (ids_remove _ _ _ _ x L). cnt_lia.
  - cbn [modify_u fst w_u]. destruct (w_u w) eqn:EU. simp_u. r4; try lia.
    pose proof (ids_upsert_same _ _ (u0 :: us) _ _ x L). cnt_lia.
Qed.

(* ------------------------------------------------------------------ composition *)
Ltac mono_go R Rr Rt tac :=
  repeat first
    [ progress tac
    | apply (mono_ret R Rr) | apply (mono_fail R Rr) | apply (mono_get_u R Rr) | apply (mono_write R Rr)
    | apply (mono_forM R Rr Rt); intros ?
    | apply (mono_bind R Rt); [|intros ?]
    | match goal with
      | |- mono R (if ?c then _ else _) => destruct c
      | |- mono R (match ?c with _ => _ end) => destruct c
      end ].

(* R4: primitives that touch none of the four kinds, or only shrink a pool *)
Lemma pop_set_R4 : forall p, mono R4 (pop_set p).
Proof.
  intros p w. run_pop p w w1 o. cbn [fst]. destruct o as [v|].
  - destruct Sp as [Hv U]. rewrite U. destruct p; destruct (w_u w) eqn:EU; simp_u; r4; try lia; pose proof (cnt_set_remove_le v app_pool x); pose proof (cnt_set_remove_le v sess_pool x); lia.
  - rewrite Sp. apply R4_refl.
Qed.
Lemma add_ctr_R4 : forall v, mono R4 (add_set PCtr v).
Proof. intros v w. cbn. destruct (w_u w). r4; lia. Qed.
Lemma set_ue_R4 : forall f, mono R4 (modify_u (fun u => set_ue (f u) u)).
Proof. intros f. apply (mono_modify R4). intros []. r4; lia. Qed.

Ltac r4_leaf := first [ apply pop_set_R4 | apply add_ctr_R4 | apply set_ue_R4 | apply configureMeter_R4 | apply resetOneMeter_R4
                      | apply addOrUpdatePeer_R4 | apply removePeer_R4 | apply addApp_R4 | apply removeApp_R4 ].
Ltac r4_auto := mono_go R4 R4_refl R4_trans r4_leaf.

Lemma configureMeters_R4 : forall sid qers, mono R4 (configureMeters sid qers).
Proof. intros. unfold configureMeters. r4_auto. Qed.
Lemma resetMeters_R4 : forall sid qers, mono R4 (resetMeters sid qers).
Proof. intros. unfold resetMeters. r4_auto. Qed.
Lemma updatePeers_R4 : forall sid fars, mono R4 (updateTunnelPeersBasedOnFARs sid fars).
Proof. intros. unfold updateTunnelPeersBasedOnFARs. r4_auto. Qed.
Lemma modifyOnePdr_R4 : forall sid fars m p, mono R4 (modifyOnePdr sid fars m p).
Proof. intros. unfold modifyOnePdr. r4_auto. Qed.
Lemma modifyUP4_R4 : forall sid pdrs fars m, mono R4 (modifyUP4ForwardingConfiguration sid pdrs fars m).
Proof. intros. unfold modifyUP4ForwardingConfiguration. apply (mono_forM R4 R4_refl R4_trans). intros. apply modifyOnePdr_R4. Qed.
Lemma allocCounters_R4 : forall pdrs, mono R4 (allocCounters pdrs).
Proof. induction pdrs as [|p rest IH]; cbn [allocCounters]; r4_auto. exact IH. Qed.
Lemma updateUEAddr_R4 : forall sid pdrs, mono R4 (updateUEAddr sid pdrs).
Proof. intros. unfold updateUEAddr. r4_auto. Qed.
Ltac r4_seq := repeat first
  [ apply allocCounters_R4 | apply updateUEAddr_R4 | apply configureMeters_R4 | apply updatePeers_R4 | apply modifyUP4_R4 | apply resetMeters_R4
  | apply (mono_ret R4 R4_refl) | apply (mono_bind R4 R4_trans); [|intros ?] ].
Lemma sendCreate_R4 : forall sid r, mono R4 (sendCreate sid r).
Proof. intros. unfold sendCreate. r4_seq. Qed.
Lemma sendUpdate_R4 : forall sid a u, mono R4 (sendUpdate sid a u).
Proof. intros. unfold sendUpdate. r4_seq. Qed.
Lemma sendDelete_R4 : forall sid r, mono R4 (sendDelete sid r).
Proof.
  intros. unfold sendDelete. r4_seq.
  - apply (mono_forM R4 R4_refl R4_trans). intros. apply add_ctr_R4.
  - apply (mono_forM R4 R4_refl R4_trans). intros. apply removePeer_R4.
  - apply (mono_forM R4 R4_refl R4_trans). intros p. destruct (p_uplink p). apply (mono_ret R4 R4_refl). apply set_ue_R4.
Qed.

(* ------------------------------------------------------------------ the handlers, all histories *)
Lemma start_u : forall u p f, w_u (start u p f) = u.
Proof. reflexivity. Qed.

Lemma step_R4 : forall s o pops faults, R4 (s_u s) (s_u (fst (step s o pops faults))).
Proof.
  intros s o pops faults. unfold step. destruct o as [sid r|sid m|sid].
  - destruct ((sid =? 0) || _). apply R4_refl.
    pose proof (sendCreate_R4 sid r (start (s_u s) pops faults)) as H. rewrite start_u in H.
    destruct (sendCreate sid r (start (s_u s) pops faults)) as [w [pdrs|]]; exact H.
  - destruct (alookup N.eqb sid (s_store s)) as [r0|]; [|apply R4_refl].
    destruct (apply_updates p_id _ _) as [wp fp]. destruct (apply_updates f_id _ _) as [wf ff]. destruct (apply_updates q_id _ _) as [wq fq].
    match goal with |- context [bind ?a ?b ?c] => pose proof (mono_bind R4 R4_trans _ _ a b (sendUpdate_R4 _ _ _) (fun _ => sendDelete_R4 _ _) c) as H end.
    rewrite start_u in H.
    match goal with |- context [bind ?a ?b ?c] => destruct (bind a b c) as [w [x|]] end; exact H.
  - destruct (alookup N.eqb sid (s_store s)) as [r|]; [|apply R4_refl].
    pose proof (sendDelete_R4 sid r (start (s_u s) pops faults)) as H. rewrite start_u in H.
    destruct (sendDelete sid r (start (s_u s) pops faults)) as [w [x|]]; exact H.
Qed.

Lemma run_R4 : forall evs s, R4 (s_u s) (s_u (fst (run s evs))).
Proof.
  induction evs as [|[o [pops faults]] evs IH]; intros s. apply R4_refl.
  cbn [run]. pose proof (step_R4 s o pops faults) as H1. destruct (step s o pops faults) as [s1 x1]. cbn [fst] in H1.
  specialize (IH s1). destruct (run s1 evs) as [s2 xs]. cbn [fst] in *. eapply R4_trans; eassumption.
Qed.

Definition full_kind (k : kind) : bool := match k with KCtr => false | _ => true end.

Lemma tot_holders : forall k s, full_kind k = true -> pool k s ++ holders k s = tot k (s_u s).
Proof. intros [] s H; try discriminate; reflexivity. Qed.

Theorem conserved : forall c evs k, full_kind k = true ->
  msub (pool k (fst (run (init c) evs)) ++ holders k (fst (run (init c) evs))) (init_pool k c).
Proof.
  intros c evs k Hk. rewrite tot_holders by assumption.
  pose proof (run_R4 evs (init c)) as (A & B & C & D).
  assert (forall k', full_kind k' = true -> tot k' (s_u (init c)) = init_pool k' c) as I.
  { intros [] H; try discriminate; cbn; apply app_nil_r. }
  rewrite <- (I k Hk). destruct k; try discriminate; assumption.
Qed.

Theorem exclusive : forall c evs k, full_kind k = true -> NoDup (init_pool k c) -> NoDup (holders k (fst (run (init c) evs))).
Proof.
  intros c evs k Hk Hn. pose proof (msub_NoDup _ _ (conserved c evs k Hk) Hn) as H.
  eapply msub_NoDup; [|exact H]. intros x. rewrite cnt_app. lia.
Qed.

Theorem not_free_while_used : forall c evs k id, full_kind k = true -> NoDup (init_pool k c) ->
  In id (pool k (fst (run (init c) evs))) -> ~ In id (holders k (fst (run (init c) evs))).
Proof.
  intros c evs k id Hk Hn Hin Hh. pose proof (msub_NoDup _ _ (conserved c evs k Hk) Hn) as H.
  set (s := fst (run (init c) evs)) in *.
  assert (cnt (pool k s ++ holders k s) id >= 2)%nat.
  { rewrite cnt_app. apply cnt_In in Hin. apply cnt_In in Hh. lia. }
  pose proof (proj1 (NoDup_count_occ N.eq_dec _) H id). unfold cnt in *. lia.
Qed.

Theorem pool_typed : forall c evs k, full_kind k = true ->
  incl (pool k (fst (run (init c) evs))) (init_pool k c) /\ incl (holders k (fst (run (init c) evs))) (init_pool k c).
Proof.
  intros c evs k Hk. pose proof (msub_incl _ _ (conserved c evs k Hk)) as H.
  split; intros x Hx; apply H; apply in_or_app; auto.
Qed.

(* ------------------------------------------------------------------ counter cells: what leaves ctr_pool alone *)
Lemma pop_app_Rctr : mono Rctr (pop_set PApp).
Proof. intros w. run_pop PApp w w1 o. cbn [fst]. destruct o as [v|]. destruct Sp as [_ U]. rewrite U. destruct (w_u w); reflexivity. rewrite Sp. reflexivity. Qed.
Lemma pop_sess_Rctr : mono Rctr (pop_set PSess).
Proof. intros w. run_pop PSess w w1 o. cbn [fst]. destruct o as [v|]. destruct Sp as [_ U]. rewrite U. destruct (w_u w); reflexivity. rewrite Sp. reflexivity. Qed.
Lemma rel_app_Rctr : forall v, mono Rctr (release_cell PApp v).
Proof. intros v w. rewrite app_release_u. destruct (w_u w); reflexivity. Qed.
Lemma rel_sess_Rctr : forall v, mono Rctr (release_cell PSess v).
Proof. intros v w. rewrite sess_release_u. destruct (w_u w); reflexivity. Qed.
Lemma pop_peer_Rctr : mono Rctr pop_peer.
Proof. intros w. unfold pop_peer. destruct (peer_pool (w_u w)). reflexivity. cbn. destruct (w_u w); reflexivity. Qed.
Lemma pop_appid_Rctr : mono Rctr pop_appid.
Proof. intros w. unfold pop_appid. destruct (appid_pool (w_u w)). reflexivity. cbn. destruct (w_u w); reflexivity. Qed.
Ltac rctr_modify := apply (mono_modify Rctr); intros []; reflexivity.
Ltac rctr_leaf := first [ apply pop_app_Rctr | apply pop_sess_Rctr | apply rel_app_Rctr | apply rel_sess_Rctr | apply pop_peer_Rctr | apply pop_appid_Rctr | rctr_modify ].
Ltac rctr_auto := cbv zeta; mono_go Rctr Rctr_refl Rctr_trans rctr_leaf.

Lemma configureMeters_Rctr : forall sid qers, mono Rctr (configureMeters sid qers).
Proof. intros. unfold configureMeters, configureMeter, configureApplicationMeter, configureSessionMeter. rctr_auto. Qed.
Lemma resetMeters_Rctr : forall sid qers, mono Rctr (resetMeters sid qers).
Proof. intros. unfold resetMeters, resetOneMeter. rctr_auto. Qed.
Lemma updatePeers_Rctr : forall sid fars, mono Rctr (updateTunnelPeersBasedOnFARs sid fars).
Proof. intros. unfold updateTunnelPeersBasedOnFARs, addOrUpdateGTPTunnelPeer. rctr_auto. Qed.
Lemma removePeers_Rctr : forall sid fars, mono Rctr (forM_ fars (removeGTPTunnelPeer sid)).
Proof. intros. unfold removeGTPTunnelPeer. rctr_auto. Qed.
Lemma modifyUP4_Rctr : forall sid pdrs fars m, mono Rctr (modifyUP4ForwardingConfiguration sid pdrs fars m).
Proof. intros. unfold modifyUP4ForwardingConfiguration, modifyOnePdr, addInternalApplicationID, removeInternalApplicationID. rctr_auto. Qed.
Lemma updateUEAddr_Rctr : forall sid pdrs, mono Rctr (updateUEAddr sid pdrs).
Proof. intros. unfold updateUEAddr. rctr_auto. Qed.
Lemma removeUE_Rctr : forall sid pdrs, mono Rctr (forM_ pdrs (fun p => if p_uplink p then ret tt else modify_u (fun u => set_ue (set_remove sid (ue_known u)) u))).
Proof. intros. rctr_auto. Qed.

(* ------------------------------------------------------------------ counter cells: the two loops that move them *)
Lemma allocCounters_spec : forall pdrs w,
  match allocCounters pdrs w with
  | (w', Ok pdrs') => forall x, (cnt (map p_ctr pdrs') x + cnt (ctr_pool (w_u w')) x <= cnt (ctr_pool (w_u w)) x)%nat
  | (w', Err) => msub (ctr_pool (w_u w')) (ctr_pool (w_u w))
  end.
Proof.
  induction pdrs as [|p rest IH]; intros w; cbn [allocCounters].
  - cbn [ret map]. intros x. rewrite cnt_nil. lia.
  - rewrite bind_eq. run_pop PCtr w w1 o. destruct o as [c|].
    2:{ cbn [fail]. rewrite Sp. apply msub_refl. }
    destruct Sp as [Hc U1]. simp_u.
    assert (forall x, (cnt [c] x + cnt (ctr_pool (w_u w1)) x <= cnt (ctr_pool (w_u w)) x)%nat) as C1.
    { intros x. rewrite U1. destruct (w_u w). simp_u. apply cnt_pop. assumption. }
    rewrite bind_eq. run_write SCtrReset w1 w2 r. destruct (is_ok r).
    + rewrite bind_eq. specialize (IH w2). destruct (allocCounters rest w2) as [w3 [rest'|]].
      * cbn [ret]. intros x. specialize (IH x). specialize (C1 x). rewrite Uw in IH. cbn [map]. unfold set_ctr at 1. cbn [p_ctr].
        rewrite (cnt_cons c (map p_ctr rest')). lia.
      * intros x. specialize (IH x). specialize (C1 x). rewrite Uw in IH. lia.
    + cbn [fail]. intros x. specialize (C1 x). rewrite Uw. lia.
Qed.

Lemma releaseCounters_spec : forall pdrs w,
  snd (forM_ pdrs (fun p => add_set PCtr (p_ctr p)) w) = Ok tt /\
  (forall x, (cnt (ctr_pool (w_u (fst (forM_ pdrs (fun p => add_set PCtr (p_ctr p)) w)))) x <= cnt (ctr_pool (w_u w)) x + cnt (map p_ctr pdrs) x)%nat).
Proof.
  induction pdrs as [|p rest IH]; intros w; cbn [forM_].
  - cbn [ret fst snd map]. split. reflexivity. intros x. rewrite cnt_nil. lia.
  - rewrite bind_eq. cbn [add_set modify_u].
    match goal with |- context [forM_ rest _ ?W] => set (W1 := W) end.
    destruct (IH W1) as [O C]. split. exact O.
    intros x. specialize (C x). subst W1. cbn [w_u] in C. destruct (w_u w). simp_u.
    pose proof (cnt_set_add (p_ctr p) ctr_pool x). cbn [map]. rewrite (cnt_cons (p_ctr p) (map p_ctr rest)). lia.
Qed.

(* the session store *)
Definition ctrs (r : rules) : list N := map p_ctr (r_pdrs r).
Lemma live_cons : forall e st, live_ctrs (e :: st) = ctrs (snd e) ++ live_ctrs st.
Proof. reflexivity. Qed.
Lemma live_upsert : forall sid r st x,
  (cnt (live_ctrs (aupsert N.eqb sid r st)) x <= cnt (ctrs r) x + cnt (live_ctrs st) x)%nat.
Proof.
  intros sid r st x. induction st as [|[k r'] st IH].
  - cbn [aupsert]. rewrite live_cons, cnt_app. cbn [snd]. lia.
  - cbn [aupsert]. destruct (sid =? k); rewrite !live_cons, !cnt_app; cbn [snd]; lia.
Qed.
Lemma live_upsert_same : forall sid r r0 st x, alookup N.eqb sid st = Some r0 -> ctrs r = ctrs r0 ->
  (cnt (live_ctrs (aupsert N.eqb sid r st)) x <= cnt (live_ctrs st) x)%nat.
Proof.
  intros sid r r0 st x. induction st as [|[k r'] st IH]; [discriminate|].
  cbn [alookup aupsert]. destruct (sid =? k).
  - intros H E. inversion H; subst. rewrite !live_cons, !cnt_app. cbn [snd]. rewrite E. lia.
  - intros H E. specialize (IH H E). rewrite !live_cons, !cnt_app. cbn [snd]. lia.
Qed.
Lemma live_remove : forall sid r st x, alookup N.eqb sid st = Some r ->
  (cnt (live_ctrs (aremove N.eqb sid st)) x + cnt (ctrs r) x <= cnt (live_ctrs st) x)%nat.
Proof.
  intros sid r st x. induction st as [|[k r'] st IH]; [discriminate|].
  cbn [alookup aremove]. destruct (sid =? k).
  - intros H. inversion H; subst.
    assert (forall l, (cnt (live_ctrs (aremove N.eqb sid l)) x <= cnt (live_ctrs l) x)%nat) as Hle.
    { induction l as [|[k2 r2] l IHl]; [cbn; lia|]. cbn [aremove]. destruct (sid =? k2).
      rewrite live_cons, cnt_app. lia. rewrite !live_cons, !cnt_app. lia. }
    specialize (Hle st). rewrite live_cons, cnt_app. cbn [snd]. lia.
  - intros H. specialize (IH H). rewrite !live_cons, !cnt_app. cbn [snd]. lia.
Qed.

Definition tot_ctr (s : state) : list N := ctr_pool (s_u s) ++ live_ctrs (s_store s).

(* the guard: no modification creates or updates a PDR (F1502), no deletion is rejected by the datapath (F24) *)
Definition op_guard (o : op) : bool :=
  match o with
  | OpMod _ m => match mm_cpdrs m, mm_updrs m with [], [] => true | _, _ => false end
  | _ => true
  end.
Definition ctr_guard (evs : list ev) (xs : list obs) : bool :=
  forallb (fun e => op_guard (fst e)) evs && forallb (fun x => negb (o_delfail x)) xs.

Lemma seq_val : forall A B (m : M A) (k : M B) v, (forall w x, snd (k w) = Ok x -> x = v) -> forall w x, snd ((m ;;; k) w) = Ok x -> x = v.
Proof. intros A B m k v H w x. rewrite bind_eq. destruct (m w) as [w1 [a|]]. apply H. discriminate. Qed.

Lemma sendCreate_ctr : forall sid r w,
  match sendCreate sid r w with
  | (w', Ok pdrs) => forall x, (cnt (map p_ctr pdrs) x + cnt (ctr_pool (w_u w')) x <= cnt (ctr_pool (w_u w)) x)%nat
  | (w', Err) => msub (ctr_pool (w_u w')) (ctr_pool (w_u w))
  end.
Proof.
  intros sid r w. unfold sendCreate. rewrite bind_eq. pose proof (allocCounters_spec (r_pdrs r) w) as S.
  destruct (allocCounters (r_pdrs r) w) as [w1 [pdrs|]]; [|exact S].
  set (rest := updateUEAddr sid pdrs;;; configureMeters sid (r_qers r);;; updateTunnelPeersBasedOnFARs sid (r_fars r);;;
               modifyUP4ForwardingConfiguration sid pdrs (r_fars r) MIns;;; ret pdrs).
  assert (mono Rctr rest) as F.
  { subst rest. repeat first [ apply updateUEAddr_Rctr | apply configureMeters_Rctr | apply updatePeers_Rctr | apply modifyUP4_Rctr
                             | apply (mono_ret Rctr Rctr_refl) | apply (mono_bind Rctr Rctr_trans); [|intros ?] ]. }
  assert (forall w x, snd (rest w) = Ok x -> x = pdrs) as V.
  { subst rest. repeat apply seq_val. intros w0 x H. cbn in H. inversion H. reflexivity. }
  specialize (F w1). specialize (V w1). unfold Rctr in F. destruct (rest w1) as [w2 [x|]]; cbn [fst snd] in *.
  - rewrite (V x eq_refl). intros y. rewrite F. apply S.
  - intros y. rewrite F. specialize (S y). lia.
Qed.

Lemma sendDelete_ctr : forall sid r w,
  (forall x, (cnt (ctr_pool (w_u (fst (sendDelete sid r w)))) x <= cnt (ctr_pool (w_u w)) x + cnt (ctrs r) x)%nat).
Proof.
  intros sid r w x. unfold sendDelete. rewrite bind_eq.
  destruct (releaseCounters_spec (r_pdrs r) w) as [O C].
  destruct (forM_ (r_pdrs r) (fun p => add_set PCtr (p_ctr p)) w) as [w1 r1]. cbn [fst snd] in O, C. subst r1.
  match goal with |- context [fst (?m w1)] => assert (mono Rctr m) as F end.
  { repeat first [ apply modifyUP4_Rctr | apply resetMeters_Rctr | apply removePeers_Rctr | apply removeUE_Rctr
                 | apply (mono_bind Rctr Rctr_trans); [|intros ?] ]. }
  specialize (F w1). unfold Rctr in F. rewrite F. apply C.
Qed.

Lemma sendDelete_nothing : forall sid w, sendDelete sid no_rules w = (w, Ok tt).
Proof. intros. reflexivity. Qed.

Lemma apply_updates_nil : forall A (id : A -> N) l, apply_updates id [] l = (l, []).
Proof. reflexivity. Qed.

Lemma sendUpdate_Rctr : forall sid a u, mono Rctr (sendUpdate sid a u).
Proof.
  intros. unfold sendUpdate. repeat first [ apply updateUEAddr_Rctr | apply updatePeers_Rctr | apply modifyUP4_Rctr | apply (mono_bind Rctr Rctr_trans); [|intros ?] ].
Qed.
Lemma modseq_Rctr : forall sid a u, mono Rctr (sendUpdate sid a u ;;; sendDelete sid no_rules).
Proof. intros. apply (mono_bind Rctr Rctr_trans). apply sendUpdate_Rctr. intros _ w. rewrite sendDelete_nothing. reflexivity. Qed.

Lemma step_ctr : forall s o pops faults, op_guard o = true -> o_delfail (snd (step s o pops faults)) = false ->
  msub (tot_ctr (fst (step s o pops faults))) (tot_ctr s).
Proof.
  intros s o pops faults G D. unfold step in *. destruct o as [sid r|sid m|sid].
  - destruct ((sid =? 0) || _). apply msub_refl.
    pose proof (sendCreate_ctr sid r (start (s_u s) pops faults)) as H. rewrite start_u in H.
    destruct (sendCreate sid r (start (s_u s) pops faults)) as [w [pdrs|]]; cbn [fst]; unfold tot_ctr; cbn [s_u s_store]; intros x; rewrite !cnt_app.
    + pose proof (live_upsert sid (Rules pdrs (r_fars r) (r_qers r)) (s_store s) x) as L. unfold ctrs in L. cbn [r_pdrs] in L. specialize (H x). lia.
    + specialize (H x). lia.
  - destruct (alookup N.eqb sid (s_store s)) as [r0|] eqn:L; [|apply msub_refl].
    cbn [op_guard] in G. destruct (mm_cpdrs m); [|discriminate]. destruct (mm_updrs m); [|discriminate].
    cbn [map]. rewrite apply_updates_nil, app_nil_r.
    destruct (apply_updates f_id _ _) as [wf ff]. destruct (apply_updates q_id _ _) as [wq fq].
    match goal with |- context [bind ?a ?b ?c] => pose proof (modseq_Rctr sid (Rules (r_pdrs r0) wf wq) (Rules ([] ++ []) (mm_cfars m ++ ff) (mm_cqers m ++ fq)) c) as H end.
    rewrite start_u in H. unfold Rctr in H.
    match goal with |- context [bind ?a ?b ?c] => destruct (bind a b c) as [w [x|]] end; cbn [fst] in *; unfold tot_ctr; cbn [s_u s_store]; intros y; rewrite !cnt_app, H.
    + pose proof (live_upsert_same sid (Rules (r_pdrs r0) wf wq) r0 (s_store s) y L eq_refl). lia.
    + assert (ctrs (Rules (firstn (length (r_pdrs r0)) (r_pdrs r0)) (firstn (length (r_fars r0)) wf) (firstn (length (r_qers r0)) wq)) = ctrs r0) as E.
      { unfold ctrs. cbn [r_pdrs]. rewrite firstn_all. reflexivity. }
      pose proof (live_upsert_same sid _ r0 (s_store s) y L E). lia.
  - destruct (alookup N.eqb sid (s_store s)) as [r|] eqn:L; [|apply msub_refl].
    pose proof (sendDelete_ctr sid r (start (s_u s) pops faults)) as H. rewrite start_u in H.
    destruct (sendDelete sid r (start (s_u s) pops faults)) as [w [x|]]; cbn [fst snd o_delfail] in *; [|discriminate].
    unfold tot_ctr. cbn [s_u s_store]. intros y. rewrite !cnt_app. specialize (H y). pose proof (live_remove sid r (s_store s) y L). lia.
Qed.

Lemma run_ctr : forall evs s, ctr_guard evs (snd (run s evs)) = true -> msub (tot_ctr (fst (run s evs))) (tot_ctr s).
Proof.
  induction evs as [|[o [pops faults]] evs IH]; intros s G. apply msub_refl.
  cbn [run] in *. pose proof (step_ctr s o pops faults) as H1. destruct (step s o pops faults) as [s1 x1]. cbn [fst snd] in H1.
  specialize (IH s1). destruct (run s1 evs) as [s2 xs]. cbn [fst snd] in *.
  unfold ctr_guard in G. cbn [forallb fst] in G. rewrite !andb_true_iff in G. destruct G as [[G1 G2] [G3 G4]].
  apply negb_true_iff in G3.
  eapply msub_trans. apply IH. unfold ctr_guard. rewrite G2, G4. reflexivity. apply H1; assumption.
Qed.

Theorem conserved_counters : forall c evs, ctr_guard evs (snd (run (init c) evs)) = true ->
  msub (pool KCtr (fst (run (init c) evs)) ++ holders KCtr (fst (run (init c) evs))) (i_ctr c).
Proof.
  intros c evs G. pose proof (run_ctr evs (init c) G) as H. unfold tot_ctr in H. cbn [init s_u s_store ctr_pool live_ctrs flat_map] in H.
  rewrite app_nil_r in H. exact H.
Qed.

(* ------------------------------------------------------------------ a failed Write is answered with a rejection *)
(* a Write whose answer lets the operation go on *)
Definition benign (e : site * wres) : bool :=
  match e with
  | (_, WOk) => true
  | (SPdr _, WExists) => true     (* tolerated by design: the entry is already there *)
  | (SPdr _, WUnk) => true        (* tolerated by accident: an empty p4 error list (F1501) *)
  | _ => false
  end.
(* if the computation succeeds, every Write it made was answered benignly *)
Definition clean {A} (m : M A) : Prop :=
  forall w, match m w with
            | (w', Ok _) => exists l, w_log w' = w_log w ++ l /\ forallb benign l = true
            | (_, Err) => True
            end.
Definition always_err {A} (m : M A) : Prop := forall w, snd (m w) = Err.
Definition keeps_log {A} (m : M A) : Prop := forall w, w_log (fst (m w)) = w_log w.

Lemma clean_of_keeps : forall A (m : M A), keeps_log m -> clean m.
Proof. intros A m H w. specialize (H w). destruct (m w) as [w' [a|]]; [|exact I]. cbn [fst] in H. exists []. rewrite app_nil_r. auto. Qed.
Lemma clean_ret : forall A (a : A), clean (ret a).
Proof. intros. apply clean_of_keeps. intros w. reflexivity. Qed.
Lemma clean_fail : forall A, clean (@fail A).
Proof. intros A w. exact I. Qed.
Lemma clean_bind : forall A B (m : M A) (k : A -> M B), clean m -> (forall a, clean (k a)) -> clean (bind m k).
Proof.
  intros A B m k Hm Hk w. rewrite bind_eq. specialize (Hm w). destruct (m w) as [w1 [a|]]; [|exact I].
  destruct Hm as (l1 & E1 & B1). specialize (Hk a w1). destruct (k a w1) as [w2 [b|]]; [|exact I].
  destruct Hk as (l2 & E2 & B2). exists (l1 ++ l2). rewrite E2, E1, app_assoc. split. reflexivity. rewrite forallb_app, B1, B2. reflexivity.
Qed.
Lemma clean_forM : forall A (l : list A) (f : A -> M unit), (forall a, clean (f a)) -> clean (forM_ l f).
Proof. intros A l f H. induction l as [|a l IH]. apply clean_ret. cbn [forM_]. apply clean_bind. apply H. intros _. exact IH. Qed.
Lemma always_err_fail : forall A, always_err (@fail A).
Proof. intros A w. reflexivity. Qed.
Lemma always_err_seq : forall A B (m : M A) (k : M B), always_err k -> always_err (m ;;; k).
Proof. intros A B m k H w. rewrite bind_eq. destruct (m w) as [w1 [a|]]. apply H. reflexivity. Qed.
Lemma clean_always_err : forall A (m : M A), always_err m -> clean m.
Proof. intros A m H w. specialize (H w). destruct (m w) as [w1 r]. cbn [snd] in H. subst r. exact I. Qed.

(* a Write followed by the check of its answer *)
Lemma clean_write_strict : forall A s (k bad : M A), clean k -> always_err bad ->
  clean (r <- write s ;; if is_ok r then k else bad).
Proof.
  intros A s k bad Hk Hb w. rewrite bind_eq. unfold write.
  destruct (w_faults w) as [|r rest].
  - cbn [is_ok]. match goal with |- context [k ?W] => specialize (Hk W); destruct (k W) as [w2 [a|]]; [|exact I] end.
    destruct Hk as (l & E & Bl). cbn [w_log] in E. exists ((s, WOk) :: l). rewrite E, <- app_assoc. split. reflexivity. cbn [forallb benign]. destruct s; exact Bl.
  - destruct r; cbn [is_ok].
    + match goal with |- context [k ?W] => specialize (Hk W); destruct (k W) as [w2 [a|]]; [|exact I] end.
      destruct Hk as (l & E & Bl). cbn [w_log] in E. exists ((s, WOk) :: l). rewrite E, <- app_assoc. split. reflexivity. cbn [forallb benign]. destruct s; exact Bl.
    + match goal with |- context [bad ?W] => specialize (Hb W); destruct (bad W) as [w2 r2]; cbn [snd] in Hb; subst r2; exact I end.
    + match goal with |- context [bad ?W] => specialize (Hb W); destruct (bad W) as [w2 r2]; cbn [snd] in Hb; subst r2; exact I end.
    + match goal with |- context [bad ?W] => specialize (Hb W); destruct (bad W) as [w2 r2]; cbn [snd] in Hb; subst r2; exact I end.
Qed.
Lemma clean_write_pdr : forall m, clean (r <- write (SPdr m) ;; if tolerated r then ret tt else fail).
Proof.
  intros m w. rewrite bind_eq. unfold write. destruct (w_faults w) as [|r rest].
  - cbn. exists [(SPdr m, WOk)]. auto.
  - destruct r; cbn; try exact I; eexists; split; reflexivity.
Qed.

(* primitives that write nothing *)
Lemma keeps_pop_set : forall p, keeps_log (pop_set p).
Proof. intros p w. unfold pop_set. destruct (get_spool p (w_u w)). reflexivity. destruct (w_pops w). reflexivity. destruct (mem _ _); reflexivity. Qed.
Lemma keeps_modify : forall f, keeps_log (modify_u f).
Proof. intros f w. reflexivity. Qed.
Lemma keeps_get : keeps_log get_u.
Proof. intros w. reflexivity. Qed.
Lemma keeps_pop_peer : keeps_log pop_peer.
Proof. intros w. unfold pop_peer. destruct (peer_pool (w_u w)); reflexivity. Qed.
Lemma keeps_pop_appid : keeps_log pop_appid.
Proof. intros w. unfold pop_appid. destruct (appid_pool (w_u w)); reflexivity. Qed.
Lemma keeps_release : forall p v, keeps_log (release_cell p v).
Proof. intros p v w. unfold release_cell. destruct (v =? 0); reflexivity. Qed.

Ltac clean_leaf := first
  [ apply clean_ret | apply clean_fail
  | apply clean_of_keeps; first [ apply keeps_pop_set | apply keeps_modify | apply keeps_get | apply keeps_pop_peer | apply keeps_pop_appid | apply keeps_release ]
  | apply clean_write_pdr ].
Ltac err_go := repeat first [ apply always_err_fail | apply always_err_seq ].
Ltac clean_go :=
  cbv zeta;
  repeat first
    [ progress clean_leaf
    | apply clean_write_strict; [|solve [err_go]]
    | apply clean_forM; intros ?
    | apply clean_bind; [|intros ?]
    | match goal with
      | |- clean (if ?c then _ else _) => destruct c
      | |- clean (match ?c with _ => _ end) => destruct c
      end ].

Lemma configureMeters_clean : forall sid qers, clean (configureMeters sid qers).
Proof. intros. unfold configureMeters, configureMeter, configureApplicationMeter, configureSessionMeter. clean_go. Qed.
Lemma updatePeers_clean : forall sid fars, clean (updateTunnelPeersBasedOnFARs sid fars).
Proof. intros. unfold updateTunnelPeersBasedOnFARs, addOrUpdateGTPTunnelPeer. clean_go. Qed.
Lemma modifyUP4_clean : forall sid pdrs fars m, clean (modifyUP4ForwardingConfiguration sid pdrs fars m).
Proof. intros. unfold modifyUP4ForwardingConfiguration, modifyOnePdr, addInternalApplicationID, removeInternalApplicationID. clean_go. Qed.
Lemma allocCounters_clean : forall pdrs, clean (allocCounters pdrs).
Proof. induction pdrs as [|p rest IH]; cbn [allocCounters]; clean_go. exact IH. Qed.
Lemma updateUEAddr_clean : forall sid pdrs, clean (updateUEAddr sid pdrs).
Proof. intros. unfold updateUEAddr. clean_go. Qed.
Ltac clean_seq := repeat first
  [ apply allocCounters_clean | apply updateUEAddr_clean | apply configureMeters_clean | apply updatePeers_clean | apply modifyUP4_clean
  | apply clean_ret | apply clean_bind; [|intros ?] ].
Lemma sendCreate_clean : forall sid r, clean (sendCreate sid r).
Proof. intros. unfold sendCreate. clean_seq. Qed.
Lemma sendUpdate_clean : forall sid a u, clean (sendUpdate sid a u).
Proof. intros. unfold sendUpdate. clean_seq. Qed.
Lemma modseq_clean : forall sid a u, clean (sendUpdate sid a u ;;; sendDelete sid no_rules).
Proof. intros. apply clean_bind. apply sendUpdate_clean. intros _. apply clean_of_keeps. intros w. rewrite sendDelete_nothing. reflexivity. Qed.

Definition is_del (o : op) : bool := match o with OpDel _ => true | _ => false end.

(* an accepted establishment / modification: every Write of it was answered benignly *)
Theorem accepted_all_benign : forall s o pops faults, is_del o = false ->
  o_acc (snd (step s o pops faults)) = true -> forallb benign (o_log (snd (step s o pops faults))) = true.
Proof.
  intros s o pops faults Hd. unfold step. destruct o as [sid r|sid m|sid]; [| |discriminate].
  - destruct ((sid =? 0) || _). discriminate.
    pose proof (sendCreate_clean sid r (start (s_u s) pops faults)) as H.
    destruct (sendCreate sid r (start (s_u s) pops faults)) as [w [pdrs|]]; cbn [snd o_acc o_log]; [|discriminate].
    intros _. destruct H as (l & E & B). cbn [start w_log app] in E. rewrite E. exact B.
  - destruct (alookup N.eqb sid (s_store s)) as [r0|]; [|discriminate].
    destruct (apply_updates p_id _ _) as [wp fp]. destruct (apply_updates f_id _ _) as [wf ff]. destruct (apply_updates q_id _ _) as [wq fq].
    match goal with |- context [bind ?a ?b ?c] => pose proof (modseq_clean sid (Rules wp wf wq) (Rules (map (set_ctr 0) (mm_cpdrs m) ++ fp) (mm_cfars m ++ ff) (mm_cqers m ++ fq)) c) as H;
                                                  destruct (bind a b c) as [w [x|]] end; cbn [snd o_acc o_log]; [|discriminate].
    intros _. destruct H as (l & E & B). cbn [start w_log app] in E. rewrite E. exact B.
Qed.

Definition failed (e : site * wres) : bool := match snd e with WFail | WUnk => true | _ => false end.
Definition unk_tolerated (e : site * wres) : bool := match e with (SPdr _, WUnk) => true | _ => false end.

Theorem fail_rejects : forall s o pops faults, is_del o = false ->
  existsb unk_tolerated (o_log (snd (step s o pops faults))) = false ->
  existsb failed (o_log (snd (step s o pops faults))) = true ->
  o_acc (snd (step s o pops faults)) = false.
Proof.
  intros s o pops faults Hd Hu Hf. destruct (o_acc (snd (step s o pops faults))) eqn:A; [|reflexivity].
  pose proof (accepted_all_benign s o pops faults Hd A) as B.
  exfalso. apply existsb_exists in Hf. destruct Hf as (e & He & Fe).
  rewrite forallb_forall in B. specialize (B e He).
  assert (unk_tolerated e = false) as U.
  { destruct (unk_tolerated e) eqn:U; [|reflexivity]. assert (existsb unk_tolerated (o_log (snd (step s o pops faults))) = true) by (apply existsb_exists; eauto). congruence. }
  destruct e as [st r]. unfold failed in Fe. cbn [snd] in Fe. destruct r; try discriminate; destruct st; cbn in B, U; discriminate.
Qed.

(* lifted to histories: the i-th operation *)
Lemma run_nth : forall evs s i e, nth_error evs i = Some e ->
  exists si, nth_error (snd (run s evs)) i = Some (snd (step si (fst e) (fst (snd e)) (snd (snd e)))).
Proof.
  induction evs as [|[o [pops faults]] evs IH]; intros s i e H. destruct i; discriminate.
  cbn [run]. destruct (step s o pops faults) as [s1 x1] eqn:E1. specialize (IH s1). destruct (run s1 evs) as [s2 xs]. cbn [snd] in *.
  destruct i as [|i]; cbn [nth_error] in *.
  - inversion H; subst e. exists s. cbn [fst snd]. rewrite E1. reflexivity.
  - apply IH. exact H.
Qed.

Theorem fail_rejects_run : forall c evs i e x, nth_error evs i = Some e -> nth_error (snd (run (init c) evs)) i = Some x ->
  is_del (fst e) = false -> existsb unk_tolerated (o_log x) = false -> existsb failed (o_log x) = true -> o_acc x = false.
Proof.
  intros c evs i e x He Hx Hd Hu Hf. destruct (run_nth evs (init c) i e He) as (si & Hs). rewrite Hs in Hx. inversion Hx; subst x.
  apply fail_rejects; assumption.
Qed.

(* ------------------------------------------------------------------ counter cells under the guard: the three corollaries *)
Definition counters_ok (c : cfg) (s : state) : Prop :=
  NoDup (holders KCtr s) /\ (forall id : N, In id (pool KCtr s) -> ~ In id (holders KCtr s)) /\
  incl (pool KCtr s) (i_ctr c) /\ incl (holders KCtr s) (i_ctr c).
Theorem counters_guarded : forall c evs, ctr_guard evs (snd (run (init c) evs)) = true -> NoDup (i_ctr c) ->
  counters_ok c (fst (run (init c) evs)).
Proof.
  intros c evs G Hn. pose proof (conserved_counters c evs G) as H. set (s := fst (run (init c) evs)) in *.
  pose proof (msub_NoDup _ _ H Hn) as ND. pose proof (msub_incl _ _ H) as IN.
  unfold counters_ok. repeat split.
  - eapply msub_NoDup; [|exact ND]. intros x. rewrite cnt_app. lia.
  - intros id Hin Hh.
    assert (cnt (pool KCtr s ++ holders KCtr s) id >= 2)%nat by (rewrite cnt_app; apply cnt_In in Hin; apply cnt_In in Hh; lia).
    pose proof (proj1 (NoDup_count_occ N.eq_dec _) ND id). unfold cnt in *. lia.
  - intros x Hx. apply IN. apply in_or_app. auto.
  - intros x Hx. apply IN. apply in_or_app. auto.
Qed.
