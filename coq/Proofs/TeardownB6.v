(* C10 - instances decided by computation: Stop racing a release, two associations; bounded termination *)
From Coq Require Import NArith String List Bool Arith.
From UPF Require Import Base.LTS Model.Teardown Proofs.TeardownBounded.
Import ListNotations.
Open Scope N_scope.
(* (no sessions here: the state space of two associations, a release and Stop is large) *)
Definition cfg10 : list acfg := [ACfg [] false None; ACfg [] false None].
Definition ev10 : list env := [rel 0; EStop].
Lemma inst10_ok : instance_ok fuel_2m cfg10 ev10 = true. Proof. vm_compute. reflexivity. Qed.
