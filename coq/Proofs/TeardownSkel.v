(* T1 tie of C10: the synchronisation skeleton of the current tree (Gen/Skel_gen.v, regenerated on every
   run) equals the skeleton the model was written against (Model/Teardown.v). *)
From Coq Require Import String.
From UPF Require Import Gen.Skel_gen Model.Teardown.
Lemma tie_conn_shutdown : Skel_gen.conn_shutdown = Teardown.conn_shutdown_skel. Proof. reflexivity. Qed.
Lemma tie_conn_doShutdown : Skel_gen.conn_doShutdown = Teardown.conn_doShutdown_skel. Proof. reflexivity. Qed.
Lemma tie_conn_serve : Skel_gen.conn_serve = Teardown.conn_serve_skel. Proof. reflexivity. Qed.
Lemma tie_conn_hb_monitor : Skel_gen.conn_hb_monitor = Teardown.conn_hb_monitor_skel. Proof. reflexivity. Qed.
Lemma tie_node_new_conn : Skel_gen.node_new_conn = Teardown.node_new_conn_skel. Proof. reflexivity. Qed.
Lemma tie_node_new : Skel_gen.node_new = Teardown.node_new_skel. Proof. reflexivity. Qed.
Lemma tie_node_new_peers : Skel_gen.node_new_peers = Teardown.node_new_peers_skel. Proof. reflexivity. Qed.
Lemma tie_node_serve : Skel_gen.node_serve = Teardown.node_serve_skel. Proof. reflexivity. Qed.
Lemma tie_node_stop : Skel_gen.node_stop = Teardown.node_stop_skel. Proof. reflexivity. Qed.
Lemma tie_node_done : Skel_gen.node_done = Teardown.node_done_skel. Proof. reflexivity. Qed.
Lemma tie_handle_msg : Skel_gen.handle_msg = Teardown.handle_msg_skel. Proof. reflexivity. Qed.
Lemma tie_handle_msg_locked : Skel_gen.handle_msg_locked = Teardown.handle_msg_locked_skel. Proof. reflexivity. Qed.
Lemma tie_iface_stop : Skel_gen.iface_stop = Teardown.iface_stop_skel. Proof. reflexivity. Qed.
Lemma tie_remove_session : Skel_gen.remove_session = Teardown.remove_session_skel. Proof. reflexivity. Qed.
