(* C10 - bounded termination of the two-association instance *)
From Coq Require Import NArith String List Bool Arith.
From UPF Require Import Base.LTS Model.Teardown Proofs.TeardownBounded.
Import ListNotations.
Lemma inst4_terminates : level 39 (init cfg4 ev4) = [].
Proof. vm_compute. reflexivity. Qed.
