(* Lemmas about Model/SliceRest.v (property C19). *)
From Coq Require Import ZArith NArith List Bool String Lia ZifyN ZifyNat ZifyBool.
From UPF Require Import Model.SliceRest.
Import ListNotations.
Ltac Zify.zify_post_hook ::= Z.div_mod_to_equations.
Open Scope N_scope.

(* ---------------------------------------------------------------- 64-bit arithmetic *)
Lemma int64_wrap_eq (z : Z) : (int64_wrap z = z - 2 ^ 64 * ((z + 2 ^ 63) / 2 ^ 64))%Z.
Proof. unfold int64_wrap. rewrite Z.mod_eq by lia. lia. Qed.

(* int64(x) * k computed on 64 bits = the product truncated to 64 bits *)
Lemma int64_wrap_mul (a k : Z) : int64_wrap (int64_wrap a * k) = int64_wrap (a * k).
Proof.
  rewrite (int64_wrap_eq a). unfold int64_wrap. f_equal.
  replace ((a - 2 ^ 64 * ((a + 2 ^ 63) / 2 ^ 64)) * k + 2 ^ 63)%Z
    with (a * k + 2 ^ 63 + (- ((a + 2 ^ 63) / 2 ^ 64) * k) * 2 ^ 64)%Z by ring.
  apply Z_mod_plus_full.
Qed.

Lemma int64_wrap_pos (z : Z) :
  ((0 <? int64_wrap z) = (0 <? z mod 2 ^ 64) && (z mod 2 ^ 64 <? 2 ^ 63))%Z.
Proof. unfold int64_wrap. lia. Qed.

Lemma int64_wrap_mod (z : Z) : (int64_wrap z mod 2 ^ 64 = z mod 2 ^ 64)%Z.
Proof. unfold int64_wrap. lia. Qed.

Lemma int64_small (n : N) : n < 2 ^ 63 -> int64_of_uint64 n = Z.of_N n.
Proof. unfold int64_of_uint64, int64_wrap. lia. Qed.

Lemma int64_large (n : N) : 2 ^ 63 <= n < 2 ^ 64 -> int64_of_uint64 n = (Z.of_N n - 2 ^ 64)%Z.
Proof. unfold int64_of_uint64, int64_wrap. lia. Qed.

(* ---------------------------------------------------------------- calculateBitRates *)
Lemma calc_mul (mbr : N) (k : Z) : (0 < k)%Z ->
  (let val := int64_wrap (int64_of_uint64 mbr * k) in
   if (0 <? val)%Z then uint64_of_int64 val else max_int64) =
  (let w := (mbr * Z.to_N k) mod 2 ^ 64 in if (0 <? w) && (w <? 2 ^ 63) then w else 2 ^ 63 - 1).
Proof.
  intros Hk. cbv zeta. unfold int64_of_uint64. rewrite int64_wrap_mul, int64_wrap_pos.
  unfold uint64_of_int64. rewrite int64_wrap_mod.
  assert (E : Z.of_N ((mbr * Z.to_N k) mod 2 ^ 64) = ((Z.of_N mbr * k) mod 2 ^ 64)%Z).
  { rewrite N2Z.inj_mod, N2Z.inj_mul, Z2N.id by lia. reflexivity. }
  set (w := (mbr * Z.to_N k) mod 2 ^ 64) in *.
  set (z := ((Z.of_N mbr * k) mod 2 ^ 64)%Z) in *.
  replace (0 <? z)%Z with (0 <? w) by (rewrite <- E; lia).
  replace (z <? 2 ^ 63)%Z with (w <? 2 ^ 63) by (rewrite <- E; lia).
  destruct ((0 <? w) && (w <? 2 ^ 63)); [|reflexivity].
  rewrite <- E. apply N2Z.id.
Qed.

Lemma unit_factor_of (u : string) :
  unit_factor u = if (u =? "bps")%string then None else Some (Z.of_N (unit_of u)).
Proof.
  unfold unit_factor, unit_of.
  destruct (u =? "bps")%string; [reflexivity|].
  destruct (u =? "Kbps")%string; [reflexivity|].
  destruct (u =? "Gbps")%string; reflexivity.
Qed.

Lemma unit_of_pos (u : string) : 0 < unit_of u.
Proof.
  unfold unit_of.
  destruct (u =? "bps")%string; [lia|]. destruct (u =? "Kbps")%string; [lia|].
  destruct (u =? "Gbps")%string; lia.
Qed.

(* the exact value for every rate and every unit string *)
Lemma calc_exact (mbr : N) (u : string) :
  calculate_bit_rates mbr u =
  if (u =? "bps")%string then mbr
  else let w := (mbr * unit_of u) mod 2 ^ 64 in
       if (0 <? w) && (w <? 2 ^ 63) then w else 2 ^ 63 - 1.
Proof.
  unfold calculate_bit_rates. rewrite unit_factor_of.
  destruct (u =? "bps")%string; [reflexivity|].
  pose proof (unit_of_pos u) as Hp.
  rewrite calc_mul by lia. rewrite N2Z.id. reflexivity.
Qed.

Lemma unit_of_bps (u : string) : (u =? "bps")%string = true -> unit_of u = 1.
Proof. unfold unit_of. now intros ->. Qed.

Lemma c19_units (mbr : N) (u : string) : rate_ok mbr u -> calculate_bit_rates mbr u = mbr * unit_of u.
Proof.
  intros [Hnz Hfit]. rewrite calc_exact.
  destruct (u =? "bps")%string eqn:E.
  - rewrite (unit_of_bps u E). lia.
  - pose proof (unit_of_pos u). cbv zeta.
    rewrite (N.mod_small (mbr * unit_of u) (2 ^ 64)) by lia.
    replace (0 <? mbr * unit_of u) with true by lia.
    replace (mbr * unit_of u <? 2 ^ 63) with true by lia. reflexivity.
Qed.

Lemma c19_units_zero (u : string) : (u =? "bps")%string = false -> calculate_bit_rates 0 u = 2 ^ 63 - 1.
Proof. intros E. rewrite calc_exact, E. reflexivity. Qed.

Lemma c19_units_bps (mbr : N) : calculate_bit_rates mbr "bps" = mbr.
Proof. reflexivity. Qed.

(* outside "bps" the result is never 0 and always below 2^63 *)
Lemma calc_range (mbr : N) (u : string) : (u =? "bps")%string = false ->
  0 < calculate_bit_rates mbr u < 2 ^ 63.
Proof.
  intros E. rewrite calc_exact, E. cbv zeta.
  destruct ((0 <? (mbr * unit_of u) mod 2 ^ 64) && ((mbr * unit_of u) mod 2 ^ 64 <? 2 ^ 63)) eqn:T; lia.
Qed.

Lemma unit_table :
  unit_of "bps" = 1 /\ unit_of "Kbps" = 1000 /\ unit_of "Mbps" = 1000000 /\ unit_of "Gbps" = 1000000000 /\
  unit_of "" = 1000000 /\
  forall u : string, u <> "bps"%string -> u <> "Kbps"%string -> u <> "Gbps"%string -> unit_of u = 1000000.
Proof.
  repeat split; try reflexivity.
  intros u H1 H2 H3. unfold unit_of.
  apply String.eqb_neq in H1, H2, H3. now rewrite H1, H2, H3.
Qed.

(* ---------------------------------------------------------------- the handler *)
Lemma accepts_iff (meth : string) : accepts meth = true <-> meth = "PUT"%string \/ meth = "POST"%string.
Proof.
  unfold accepts. rewrite orb_true_iff, !String.eqb_eq. tauto.
Qed.

Lemma accepts_false (meth : string) :
  meth <> "PUT"%string -> meth <> "POST"%string -> accepts meth = false.
Proof.
  intros H1 H2. destruct (accepts meth) eqn:E; [|reflexivity].
  apply accepts_iff in E. tauto.
Qed.

Definition stored_spec (d : doc) (cu cd : N) : slice_info :=
  SliceInfo (d_name d) cu cd (d_ulb d) (d_dlb d) (map (fun r => (snd r, fst r)) (d_ue d)).

Lemma serve_decoded (dp : datapath) (meth : string) (d : doc) :
  meth = "PUT"%string \/ meth = "POST"%string ->
  serve dp meth (Decoded d) =
  Result [201] (add_slice_info dp (slice_info_of d)) (Some (slice_info_of d)).
Proof. intros H. apply accepts_iff in H. unfold serve. now rewrite H. Qed.

Lemma c19_always_201 (dp : datapath) (meth : string) (d : doc) :
  meth = "PUT"%string \/ meth = "POST"%string ->
  r_statuses (serve dp meth (Decoded d)) = [201] /\
  r_stored (serve dp meth (Decoded d)) =
    Some (stored_spec d (calculate_bit_rates (d_ul d) (d_unit d)) (calculate_bit_rates (d_dl d) (d_unit d))).
Proof. intros H. rewrite serve_decoded by assumption. split; reflexivity. Qed.

(* BESS, each direction on its own *)
Definition bess_ul_spec (cu ulb : N) : bess_cmd :=
  BessCmd "sliceMeter" "add" (QosAdd 0 1 (cu / 8) 1 (if ulb =? 0 then 48448 else ulb) 0 0 [1; 0]).
Definition bess_dl_spec (cd dlb : N) : bess_cmd :=
  BessCmd "sliceMeter" "add" (QosAdd 0 1 (cd / 8) 1 (if dlb =? 0 then 48448 else dlb) 0 50 [0; 1]).

Lemma add_slice_meter_sides (cu cd ulb dlb : N) :
  exists c1 c2, add_slice_meter cu cd ulb dlb = [c1; c2] /\
    (cu <> 0 -> c1 = bess_ul_spec cu ulb) /\ (cd <> 0 -> c2 = bess_dl_spec cd dlb).
Proof.
  unfold add_slice_meter.
  destruct (N.eqb_spec cu 0) as [Hu|Hu]; destruct (N.eqb_spec cd 0) as [Hd|Hd];
    eexists; eexists; (split; [reflexivity|]); split; intros; try contradiction; reflexivity.
Qed.

Lemma c19_programs_bess_sides (meth : string) (d : doc) :
  meth = "PUT"%string \/ meth = "POST"%string ->
  exists c1 c2,
    r_writes (serve Bess meth (Decoded d)) = [WBess c1; WBess c2] /\
    (rate_ok (d_ul d) (d_unit d) -> c1 = bess_ul_spec (d_ul d * unit_of (d_unit d)) (d_ulb d)) /\
    (rate_ok (d_dl d) (d_unit d) -> c2 = bess_dl_spec (d_dl d * unit_of (d_unit d)) (d_dlb d)).
Proof.
  intros H. rewrite serve_decoded by assumption. cbn [r_writes add_slice_info].
  unfold bess_add_slice_info, slice_info_of. cbn [s_ul s_dl s_ulb s_dlb].
  destruct (add_slice_meter_sides (calculate_bit_rates (d_ul d) (d_unit d))
              (calculate_bit_rates (d_dl d) (d_unit d)) (d_ulb d) (d_dlb d)) as (c1 & c2 & E & H1 & H2).
  exists c1, c2. rewrite E. split; [reflexivity|]. split; intros R.
  - rewrite <- (c19_units _ _ R). apply H1. rewrite (c19_units _ _ R).
    destruct R as [Hnz _]. pose proof (unit_of_pos (d_unit d)). lia.
  - rewrite <- (c19_units _ _ R). apply H2. rewrite (c19_units _ _ R).
    destruct R as [Hnz _]. pose proof (unit_of_pos (d_unit d)). lia.
Qed.

Lemma c19_programs_bess (meth : string) (d : doc) :
  meth = "PUT"%string \/ meth = "POST"%string ->
  rate_ok (d_ul d) (d_unit d) -> rate_ok (d_dl d) (d_unit d) ->
  serve Bess meth (Decoded d) =
  Result [201]
         (bess_meter_spec (d_ul d * unit_of (d_unit d)) (d_dl d * unit_of (d_unit d)) (d_ulb d) (d_dlb d))
         (Some (stored_spec d (d_ul d * unit_of (d_unit d)) (d_dl d * unit_of (d_unit d)))).
Proof.
  intros H Ru Rd.
  destruct (c19_programs_bess_sides meth d H) as (c1 & c2 & E & H1 & H2).
  rewrite serve_decoded in * by assumption. cbn [r_writes] in E. rewrite E.
  rewrite (H1 Ru), (H2 Rd). unfold slice_info_of. rewrite (c19_units _ _ Ru), (c19_units _ _ Rd).
  reflexivity.
Qed.

(* what BESS is told when a converted rate is 0 (only "bps" with a posted 0 gets there):
   the gate is "unmeter" and the downlink command repeats the uplink cir / pir *)
Lemma bess_zero_rates (cu cd ulb dlb : N) :
  add_slice_meter cu cd ulb dlb =
  [ BessCmd "sliceMeter" "add"
      (QosAdd (if cu =? 0 then 6 else 0) (if cu =? 0 then 0 else 1) (cu / 8) 1
              (if ulb =? 0 then 48448 else ulb) 0 0 [1; 0]);
    BessCmd "sliceMeter" "add"
      (QosAdd (if cd =? 0 then 6 else 0)
              (if cd =? 0 then (if cu =? 0 then 0 else 1) else 1)
              (if cd =? 0 then cu / 8 else cd / 8) 1
              (if dlb =? 0 then 48448 else dlb) 0 50 [0; 1]) ].
Proof.
  unfold add_slice_meter.
  destruct (N.eqb_spec cu 0) as [->|Hu]; destruct (N.eqb_spec cd 0) as [->|Hd]; reflexivity.
Qed.

(* UP4 *)
Lemma meter_index_ok (slice_id tc : N) : slice_id < 16 -> tc < 4 ->
  get_slice_tc_meter_index slice_id tc = Some (Z.of_N (4 * slice_id + tc)).
Proof.
  intros Hs Ht. unfold get_slice_tc_meter_index, BitwidthMfSliceId, BitwidthApTc, wrap8.
  replace (2 ^ 4 <=? slice_id) with false by lia. replace (2 ^ 2 <=? tc) with false by lia.
  rewrite N.shiftl_mul_pow2. change 3 with (N.ones 2). rewrite N.land_ones.
  do 2 f_equal. change (2 ^ 2) with 4. rewrite (N.mod_small tc 4) by lia. lia.
Qed.

Lemma meter_index_bad (slice_id tc : N) : 16 <= slice_id \/ 4 <= tc ->
  get_slice_tc_meter_index slice_id tc = None.
Proof.
  intros H. unfold get_slice_tc_meter_index, BitwidthMfSliceId, BitwidthApTc.
  destruct (N.leb_spec (2 ^ 4) slice_id); [reflexivity|].
  destruct (N.leb_spec (2 ^ 2) tc); [reflexivity|]. lia.
Qed.

Lemma c19_up4_exact (meth : string) (d : doc) (slice_id tc : N) :
  meth = "PUT"%string \/ meth = "POST"%string -> slice_id < 16 -> tc < 4 ->
  let cu := calculate_bit_rates (d_ul d) (d_unit d) in
  let cd := calculate_bit_rates (d_dl d) (d_unit d) in
  r_writes (serve (Up4 slice_id tc) meth (Decoded d)) =
  [ WUp4 (MeterWrite 2 336833095 (Z.of_N (4 * slice_id + tc)) 0 0
            (int64_of_uint64 (N.max cu cd))
            (Z.of_N (N.min (if cd <? cu then d_ulb d else d_dlb d) (2 ^ 63 - 1)))) ].
Proof.
  intros H Hs Ht cu cd. rewrite serve_decoded by assumption. cbn [r_writes add_slice_info].
  unfold up4_add_slice_info, slice_info_of. cbn [s_ul s_dl s_ulb s_dlb]. fold cu cd.
  rewrite meter_index_ok by assumption.
  rewrite (Z.mod_small (Z.of_N (4 * slice_id + tc)) (2 ^ 32)) by lia.
  assert (C : forall b : N, int64_of_uint64 (if max_int64 <? b then max_int64 else b) = Z.of_N (N.min b (2 ^ 63 - 1))).
  { intros b. unfold max_int64. destruct (N.ltb_spec (2 ^ 63 - 1) b).
    - rewrite N.min_r by lia. apply int64_small. lia.
    - rewrite N.min_l by lia. apply int64_small. lia. }
  destruct (N.ltb_spec cd cu) as [L|L]; cbn [map]; rewrite C.
  - now rewrite N.max_l by lia.
  - now rewrite N.max_r by lia.
Qed.

Lemma c19_up4_bad_config (meth : string) (d : doc) (slice_id tc : N) :
  meth = "PUT"%string \/ meth = "POST"%string -> 16 <= slice_id \/ 4 <= tc ->
  r_statuses (serve (Up4 slice_id tc) meth (Decoded d)) = [201] /\
  r_writes (serve (Up4 slice_id tc) meth (Decoded d)) = [].
Proof.
  intros H Hc. rewrite serve_decoded by assumption. split; [reflexivity|].
  cbn [r_writes add_slice_info]. unfold up4_add_slice_info. rewrite meter_index_bad by assumption.
  now destruct (s_dl (slice_info_of d) <? s_ul (slice_info_of d)).
Qed.

Lemma c19_programs_up4 (meth : string) (d : doc) (slice_id tc : N) :
  meth = "PUT"%string \/ meth = "POST"%string -> slice_id < 16 -> tc < 4 ->
  rate_ok (d_ul d) (d_unit d) -> rate_ok (d_dl d) (d_unit d) ->
  serve (Up4 slice_id tc) meth (Decoded d) =
  Result [201]
         (up4_meter_spec slice_id tc (d_ul d * unit_of (d_unit d)) (d_dl d * unit_of (d_unit d))
                         (d_ulb d) (d_dlb d))
         (Some (stored_spec d (d_ul d * unit_of (d_unit d)) (d_dl d * unit_of (d_unit d)))).
Proof.
  intros H Hs Ht Ru Rd.
  pose proof (c19_up4_exact meth d slice_id tc H Hs Ht) as W. cbv zeta in W.
  rewrite serve_decoded in * by assumption. cbn [r_writes] in W. rewrite W.
  unfold slice_info_of, up4_meter_spec, stored_spec.
  rewrite (c19_units _ _ Ru), (c19_units _ _ Rd).
  destruct Ru as [_ Fu], Rd as [_ Fd].
  rewrite (int64_small (N.max _ _)) by lia.
  reflexivity.
Qed.

Definition put_post (meth : string) : Prop := meth = "PUT"%string \/ meth = "POST"%string.

(* pburst is never negative and is the posted burst whenever that fits in an int64 *)
Lemma c19_up4_burst_carried (meth : string) (d : doc) (slice_id tc : N) :
  meth = "PUT"%string \/ meth = "POST"%string -> slice_id < 16 -> tc < 4 ->
  exists m, r_writes (serve (Up4 slice_id tc) meth (Decoded d)) = [WUp4 m] /\
    (0 <= m_pburst m < 2 ^ 63)%Z /\
    let b := if calculate_bit_rates (d_dl d) (d_unit d) <? calculate_bit_rates (d_ul d) (d_unit d)
             then d_ulb d else d_dlb d in
    (b < 2 ^ 63 -> m_pburst m = Z.of_N b) /\ (2 ^ 63 <= b -> m_pburst m = (2 ^ 63 - 1)%Z).
Proof.
  intros H Hs Ht. pose proof (c19_up4_exact meth d slice_id tc H Hs Ht) as W. cbv zeta in W.
  eexists. split; [exact W|]. cbn [m_pburst]. cbv zeta.
  set (b := if _ <? _ then d_ulb d else d_dlb d). lia.
Qed.

Lemma c19_error_untouched (dp : datapath) (meth : string) (b : body) :
  b = Unreadable \/ b = Malformed ->
  (exists s, r_statuses (serve dp meth b) = [s] /\ 400 <= s < 500 /\
             (meth = "PUT"%string \/ meth = "POST"%string -> s = 400)) /\
  r_writes (serve dp meth b) = [] /\ r_stored (serve dp meth b) = None.
Proof.
  intros Hb. unfold serve. destruct (accepts meth) eqn:E.
  - destruct Hb as [-> | ->]; (split; [exists 400; repeat split; lia | split; reflexivity]).
  - split; [|split; reflexivity]. exists 405. repeat split; try lia.
    intros H. apply accepts_iff in H. congruence.
Qed.

Lemma c19_other_methods (dp : datapath) (meth : string) (b : body) :
  meth <> "PUT"%string -> meth <> "POST"%string -> serve dp meth b = Result [405] [] None.
Proof. intros H1 H2. unfold serve. now rewrite accepts_false. Qed.

(* every request: exactly one status is written, and something is programmed or stored only with 201 *)
Lemma c19_single_status (dp : datapath) (meth : string) (b : body) :
  exists s, r_statuses (serve dp meth b) = [s] /\
    (s = 201 \/ (400 <= s < 500 /\ r_writes (serve dp meth b) = [] /\ r_stored (serve dp meth b) = None)).
Proof.
  unfold serve, StatusBadRequest, StatusCreated, StatusMethodNotAllowed. destruct (accepts meth).
  - destruct b; eexists; (split; [reflexivity|]);
      try (right; repeat split; (lia || reflexivity)). now left.
  - eexists; split; [reflexivity|]. right. repeat split; (lia || reflexivity).
Qed.

(* ---------------------------------------------------------------- histories *)
Lemma serve_st_serve (st : state) (dp : datapath) (meth : string) (b : body) :
  fst (serve_st st dp meth b) = serve dp meth b.
Proof. unfold serve_st, serve. destruct (accepts meth); [destruct b|]; reflexivity. Qed.

Lemma c19_history_independent (st st' : state) (dp : datapath) (meth : string) (b : body) :
  fst (serve_st st dp meth b) = fst (serve_st st' dp meth b) /\
  fst (serve_st st dp meth b) = serve dp meth b.
Proof. now rewrite !serve_st_serve. Qed.

Lemma serve_st_state (st : state) (dp : datapath) (meth : string) (b : body) :
  snd (serve_st st dp meth b) =
  match r_stored (serve dp meth b) with Some s => Some s | None => st end.
Proof. unfold serve_st, serve. destruct (accepts meth); [destruct b|]; reflexivity. Qed.

Lemma run_results (st : state) (dp : datapath) (reqs : list request) :
  fst (run st dp reqs) = map (fun q => serve dp (q_meth q) (q_body q)) reqs.
Proof.
  revert st. induction reqs as [|q rest IH]; intros st; [reflexivity|].
  cbn [run map]. pose proof (serve_st_serve st dp (q_meth q) (q_body q)) as E.
  destruct (serve_st st dp (q_meth q) (q_body q)) as [r st1]. cbn [fst] in E.
  specialize (IH st1). destruct (run st1 dp rest) as [rs st2]. cbn [fst] in *. now rewrite E, IH.
Qed.

Lemma run_app (st : state) (dp : datapath) (a b : list request) :
  run st dp (a ++ b) =
  (fst (run st dp a) ++ fst (run (snd (run st dp a)) dp b), snd (run (snd (run st dp a)) dp b)).
Proof.
  revert st. induction a as [|q rest IH]; intros st.
  - cbn. now destruct (run st dp b).
  - cbn [app run]. destruct (serve_st st dp (q_meth q) (q_body q)) as [r st1].
    rewrite IH. destruct (run st1 dp rest) as [rs st2]. cbn [fst snd]. reflexivity.
Qed.

(* a request that is refused (unreadable / malformed body, or another method) *)
Definition refused_request (q : request) : Prop :=
  q_body q = Unreadable \/ q_body q = Malformed \/
  (q_meth q <> "PUT"%string /\ q_meth q <> "POST"%string).

Lemma refused_no_effect (dp : datapath) (q : request) : refused_request q ->
  r_writes (serve dp (q_meth q) (q_body q)) = [] /\ r_stored (serve dp (q_meth q) (q_body q)) = None.
Proof.
  intros [H | [H | [H1 H2]]].
  - apply (c19_error_untouched dp (q_meth q) (q_body q)). now left.
  - apply (c19_error_untouched dp (q_meth q) (q_body q)). now right.
  - rewrite c19_other_methods by assumption. split; reflexivity.
Qed.

Lemma c19_refused_keeps (st : state) (dp : datapath) (reqs : list request) (q : request) (m : list write) :
  refused_request q ->
  snd (run st dp (reqs ++ [q])) = snd (run st dp reqs) /\
  meter_after m (fst (run st dp (reqs ++ [q]))) = meter_after m (fst (run st dp reqs)).
Proof.
  intros R. destruct (refused_no_effect dp q R) as [W S].
  rewrite run_app. cbn [fst snd run].
  pose proof (serve_st_serve (snd (run st dp reqs)) dp (q_meth q) (q_body q)) as E.
  pose proof (serve_st_state (snd (run st dp reqs)) dp (q_meth q) (q_body q)) as T.
  destruct (serve_st (snd (run st dp reqs)) dp (q_meth q) (q_body q)) as [r st1].
  cbn [fst snd] in *. subst r. rewrite S in T. split; [exact T|].
  unfold meter_after. rewrite fold_left_app. cbn [fold_left]. now rewrite W.
Qed.

(* an accepted request determines the meter and the cached slice info on its own *)
Lemma c19_accepted_overrides (st : state) (dp : datapath) (reqs : list request) (meth : string) (d : doc)
      (m : list write) :
  meth = "PUT"%string \/ meth = "POST"%string ->
  snd (run st dp (reqs ++ [Req meth (Decoded d)])) = Some (slice_info_of d) /\
  (add_slice_info dp (slice_info_of d) <> [] ->
   meter_after m (fst (run st dp (reqs ++ [Req meth (Decoded d)]))) = add_slice_info dp (slice_info_of d)).
Proof.
  intros H. rewrite run_app. cbn [fst snd run q_meth q_body].
  pose proof (serve_st_serve (snd (run st dp reqs)) dp meth (Decoded d)) as E.
  pose proof (serve_st_state (snd (run st dp reqs)) dp meth (Decoded d)) as T.
  destruct (serve_st (snd (run st dp reqs)) dp meth (Decoded d)) as [r st1].
  cbn [fst snd] in *. subst r. rewrite serve_decoded in * by assumption. cbn [r_stored] in T.
  split; [exact T|]. intros NE.
  unfold meter_after. rewrite fold_left_app. cbn [fold_left r_writes].
  destruct (add_slice_info dp (slice_info_of d)); [contradiction|reflexivity].
Qed.
