(* C09 - lemmas about Model/Qer.v: rates, gates, bursts (value level). *)
From Coq Require Import NArith ZArith List Bool Lia ZifyN ZifyNat ZifyBool Floats.
From UPF Require Import Model.Qer.
Import ListNotations.
Open Scope N_scope.

(* ------------------------------------------------------------------ words *)
Lemma maxu_spec x y : maxu x y = N.max x y.
Proof. unfold maxu. destruct (N.ltb_spec x y); lia. Qed.

Lemma pow40_lt : forall x, x < 2 ^ 40 -> x * 1000 < 2 ^ 64.
Proof. intros x H. change (2 ^ 40) with 1099511627776 in H. change (2 ^ 64) with 18446744073709551616. lia. Qed.

(* no overflow for 40-bit rates: the 64-bit product is the mathematical one and /8 gives x * 125 *)
Lemma rate_bytes : forall x, x < 2 ^ 40 -> wrap64 (x * 1000) / 8 = x * 125.
Proof.
  intros x H. unfold wrap64. rewrite N.mod_small by (apply pow40_lt; exact H).
  replace (x * 1000) with (x * 125 * 8) by lia. apply N.div_mul. discriminate.
Qed.

(* ------------------------------------------------------------------ one direction of addQER *)
Lemma dir_rates_closed : forall st mbr gbr c p, st <> 0 -> dir_rates st mbr gbr c p = (gate_drop, c, p).
Proof. intros. unfold dir_rates. destruct (N.eqb_spec st 0); [contradiction|reflexivity]. Qed.

Lemma dir_rates_unmetered : forall c p, dir_rates 0 0 0 c p = (gate_unmeter, c, p).
Proof. reflexivity. Qed.

Lemma dir_rates_metered : forall mbr gbr c p, mbr < 2 ^ 40 -> gbr < 2 ^ 40 -> (mbr <> 0 \/ gbr <> 0) -> gbr <= mbr ->
  dir_rates 0 mbr gbr c p = (gate_meter, N.max (gbr * 125) 1, mbr * 125).
Proof.
  intros mbr gbr c p Hm Hg Hnz Hle. unfold dir_rates. cbn [N.eqb negb].
  replace (negb (mbr =? 0) || negb (gbr =? 0)) with true
    by (destruct (N.eqb_spec mbr 0), (N.eqb_spec gbr 0); cbn; try reflexivity; lia).
  rewrite !rate_bytes by assumption. rewrite !maxu_spec. f_equal. lia.
Qed.

(* when the gate is open and a rate is signalled the entry is metered, whatever GBR vs MBR *)
Lemma dir_rates_open_gate : forall mbr gbr c p, (mbr <> 0 \/ gbr <> 0) -> fst (fst (dir_rates 0 mbr gbr c p)) = gate_meter.
Proof.
  intros. unfold dir_rates. cbn [N.eqb negb].
  replace (negb (mbr =? 0) || negb (gbr =? 0)) with true
    by (destruct (N.eqb_spec mbr 0), (N.eqb_spec gbr 0); cbn; try reflexivity; lia).
  reflexivity.
Qed.

(* ------------------------------------------------------------------ the two commands of addQER *)
Definition lvl_ok (q : qer) : Prop := q_level q = 0 \/ q_level q = 1.

Definition ul_cmd (conf : qosconf) (q : qer) : qoscmd :=
  let c := cfg_for conf (q_qfi q) in
  let r := dir_rates (q_uls q) (q_ulmbr q) (q_ulgbr q) 0 0 in
  let b := dir_bursts c (q_ulmbr q) (q_ulgbr q) in
  mkCmd (if q_level q =? 0 then AppTbl else SessTbl) true (fst (fst r)) (snd (fst r)) (snd r)
        (fst (fst b)) (snd (fst b)) (snd b)
        (if q_level q =? 0 then [if_access; q_id q; q_fseid q] else [if_access; q_fseid q])
        (if q_level q =? 0 then [q_qfi q] else []).
Definition dl_cmd (conf : qosconf) (q : qer) : qoscmd :=
  let c := cfg_for conf (q_qfi q) in
  let r1 := dir_rates (q_uls q) (q_ulmbr q) (q_ulgbr q) 0 0 in
  let r := dir_rates (q_dls q) (q_dlmbr q) (q_dlgbr q) (snd (fst r1)) (snd r1) in
  let b := dir_bursts c (q_dlmbr q) (q_dlgbr q) in
  mkCmd (if q_level q =? 0 then AppTbl else SessTbl) true (fst (fst r)) (snd (fst r)) (snd r)
        (fst (fst b)) (snd (fst b)) (snd b)
        (if q_level q =? 0 then [if_core; q_id q; q_fseid q] else [if_core; q_fseid q])
        (if q_level q =? 0 then [q_qfi q] else []).

Lemma add_qer_two : forall conf q, lvl_ok q -> add_qer conf q = [ul_cmd conf q; dl_cmd conf q].
Proof.
  intros conf q Hl. unfold add_qer, ul_cmd, dl_cmd.
  destruct (dir_rates (q_uls q) (q_ulmbr q) (q_ulgbr q) 0 0) as [[g1 c1] p1] eqn:E1.
  destruct (dir_bursts (cfg_for conf (q_qfi q)) (q_ulmbr q) (q_ulgbr q)) as [[a1 b1] e1] eqn:B1.
  cbn [fst snd].
  destruct (dir_rates (q_dls q) (q_dlmbr q) (q_dlgbr q) c1 p1) as [[g2 c2] p2] eqn:E2.
  destruct (dir_bursts (cfg_for conf (q_qfi q)) (q_dlmbr q) (q_dlgbr q)) as [[a2 b2] e2] eqn:B2.
  cbn [fst snd]. unfold emit_add.
  destruct Hl as [H|H]; rewrite H; reflexivity.
Qed.

(* table and key by qosLevel *)
Lemma cmd_table_app : forall conf q, q_level q = 0 ->
  k_tbl (ul_cmd conf q) = AppTbl /\ k_fields (ul_cmd conf q) = [if_access; q_id q; q_fseid q] /\ k_values (ul_cmd conf q) = [q_qfi q] /\
  k_tbl (dl_cmd conf q) = AppTbl /\ k_fields (dl_cmd conf q) = [if_core; q_id q; q_fseid q] /\ k_values (dl_cmd conf q) = [q_qfi q].
Proof. intros conf q H. unfold ul_cmd, dl_cmd. cbn [k_tbl k_fields k_values]. rewrite H. repeat split. Qed.
Lemma cmd_table_sess : forall conf q, q_level q = 1 ->
  k_tbl (ul_cmd conf q) = SessTbl /\ k_fields (ul_cmd conf q) = [if_access; q_fseid q] /\
  k_tbl (dl_cmd conf q) = SessTbl /\ k_fields (dl_cmd conf q) = [if_core; q_fseid q].
Proof. intros conf q H. unfold ul_cmd, dl_cmd. cbn [k_tbl k_fields k_values]. rewrite H. repeat split. Qed.

(* gate: a direction whose gate is not open is dropped, whatever the other fields *)
Lemma gate_closed : forall conf q,
  (q_uls q <> 0 -> k_gate (ul_cmd conf q) = gate_drop) /\ (q_dls q <> 0 -> k_gate (dl_cmd conf q) = gate_drop).
Proof.
  intros conf q. unfold ul_cmd, dl_cmd. cbn [k_gate]. split; intros H; rewrite dir_rates_closed by exact H; reflexivity.
Qed.

Definition r40 (q : qer) : Prop := q_ulmbr q < 2 ^ 40 /\ q_dlmbr q < 2 ^ 40 /\ q_ulgbr q < 2 ^ 40 /\ q_dlgbr q < 2 ^ 40.

Lemma rates_ul : forall conf q, r40 q -> q_uls q = 0 -> (q_ulmbr q <> 0 \/ q_ulgbr q <> 0) -> q_ulgbr q <= q_ulmbr q ->
  k_gate (ul_cmd conf q) = gate_meter /\ k_pir (ul_cmd conf q) = q_ulmbr q * 125 /\ k_cir (ul_cmd conf q) = N.max (q_ulgbr q * 125) 1.
Proof.
  intros conf q (H1 & H2 & H3 & H4) Ho Hnz Hle. unfold ul_cmd. cbn [k_gate k_pir k_cir]. rewrite Ho.
  rewrite dir_rates_metered by assumption. cbn [fst snd]. repeat split.
Qed.
(* the downlink half starts from whatever the uplink half left in cir / pir; in the metered branch both are overwritten *)
Lemma rates_dl : forall conf q, r40 q -> q_dls q = 0 -> (q_dlmbr q <> 0 \/ q_dlgbr q <> 0) -> q_dlgbr q <= q_dlmbr q ->
  k_gate (dl_cmd conf q) = gate_meter /\ k_pir (dl_cmd conf q) = q_dlmbr q * 125 /\ k_cir (dl_cmd conf q) = N.max (q_dlgbr q * 125) 1.
Proof.
  intros conf q (H1 & H2 & H3 & H4) Ho Hnz Hle. unfold dl_cmd. cbn [k_gate k_pir k_cir]. rewrite Ho.
  rewrite dir_rates_metered by assumption. cbn [fst snd]. repeat split.
Qed.

Lemma unmetered_both : forall conf q,
  (q_uls q = 0 -> q_ulmbr q = 0 -> q_ulgbr q = 0 -> k_gate (ul_cmd conf q) = gate_unmeter) /\
  (q_dls q = 0 -> q_dlmbr q = 0 -> q_dlgbr q = 0 -> k_gate (dl_cmd conf q) = gate_unmeter).
Proof.
  intros conf q. unfold ul_cmd, dl_cmd. cbn [k_gate]. split; intros H1 H2 H3; rewrite H1, H2, H3; reflexivity.
Qed.

(* ------------------------------------------------------------------ bursts: the configured minimum *)
(* which entry is "the configuration for the QFI": the last entry of that QCI, else entry 0
   (configured or the built-in default) *)
Lemma conf_find_last : forall conf k c, conf_find (conf ++ [(k, c)]) k = Some c.
Proof.
  induction conf as [|[k' c'] r IH]; intros k c; cbn.
  - now rewrite N.eqb_refl.
  - now rewrite IH.
Qed.
Lemma cfg_for_configured : forall conf qfi c, conf_find conf qfi = Some c -> cfg_for conf qfi = c.
Proof. intros conf qfi c H. unfold cfg_for, qci_map. now rewrite H. Qed.
Lemma cfg_for_fallback : forall conf qfi, conf_find conf qfi = None -> qfi <> 0 ->
  cfg_for conf qfi = match conf_find conf 0 with Some c => c | None => default_cfg end.
Proof.
  intros conf qfi H Hnz. unfold cfg_for, qci_map. rewrite H.
  destruct (N.eqb_spec qfi 0); [contradiction|]. destruct (conf_find conf 0); reflexivity.
Qed.

Lemma bursts_min_cmds : forall conf q,
  let c := cfg_for conf (q_qfi q) in
  c_cbs c <= k_cbs (ul_cmd conf q) /\ c_pbs c <= k_pbs (ul_cmd conf q) /\ c_ebs c <= k_ebs (ul_cmd conf q) /\
  c_cbs c <= k_cbs (dl_cmd conf q) /\ c_pbs c <= k_pbs (dl_cmd conf q) /\ c_ebs c <= k_ebs (dl_cmd conf q).
Proof.
  intros conf q c. unfold ul_cmd, dl_cmd, dir_bursts. cbn [k_cbs k_pbs k_ebs fst snd]. fold c.
  rewrite !maxu_spec. repeat split; lia.
Qed.
Lemma bursts_rate_cmds : forall conf q,
  let d := c_dur (cfg_for conf (q_qfi q)) in
  calc_burst (q_ulgbr q) d <= k_cbs (ul_cmd conf q) /\ calc_burst (q_ulmbr q) d <= k_pbs (ul_cmd conf q) /\
  calc_burst (q_ulmbr q) d <= k_ebs (ul_cmd conf q) /\
  calc_burst (q_dlgbr q) d <= k_cbs (dl_cmd conf q) /\ calc_burst (q_dlmbr q) d <= k_pbs (dl_cmd conf q) /\
  calc_burst (q_dlmbr q) d <= k_ebs (dl_cmd conf q).
Proof.
  intros conf q d. unfold ul_cmd, dl_cmd, dir_bursts. cbn [k_cbs k_pbs k_ebs fst snd]. fold d.
  rewrite !maxu_spec. repeat split; lia.
Qed.

(* ------------------------------------------------------------------ the float product: refutation *)
Lemma burst_float_short : calc_burst 42056 87 = 457358 /\ burst_exact 42056 87 = 457359.
Proof. split; vm_compute; reflexivity. Qed.

(* ------------------------------------------------------------------ UP4 *)
Lemma up4_meter_rate : forall mbr gbr, mbr < 2 ^ 40 ->
  m_pir (up4_meter_cfg mbr gbr) = mbr * 125 /\ m_cir (up4_meter_cfg mbr gbr) = 0 /\ m_cburst (up4_meter_cfg mbr gbr) = 0 /\
  m_pburst (up4_meter_cfg mbr gbr) = calc_burst mbr 10.
Proof.
  intros mbr gbr H. unfold up4_meter_cfg. cbn [m_pir m_cir m_cburst m_pburst]. repeat split.
  destruct (N.eqb_spec mbr 0) as [->|Hnz]; [reflexivity|].
  rewrite rate_bytes by exact H. rewrite maxu_spec. lia.
Qed.
Lemma up4_meter_zero : forall gbr, up4_meter_cfg 0 gbr = mkMeter 0 0 0 0.
Proof. intros. vm_compute. reflexivity. Qed.

Lemma up4_tc : forall qfi_tc dtc ul fd plist qers q, related_qer plist qers = Some q ->
  t_tc (up4_term qfi_tc dtc ul fd plist qers) = tc_of qfi_tc dtc (q_qfi q) /\
  t_qfi (up4_term qfi_tc dtc ul fd plist qers) = q_qfi q /\
  ((if ul then q_uls q else q_dls q) = 1 -> t_drop (up4_term qfi_tc dtc ul fd plist qers) = true).
Proof.
  intros qfi_tc dtc ul fd plist qers q H. unfold up4_term. rewrite H. cbn [t_tc t_qfi t_drop]. repeat split.
  intros Hc. rewrite Hc. cbn. apply orb_true_r.
Qed.
Lemma tc_of_spec : forall m d k, (forall t, tc_find m k = Some t -> tc_of m d k = t) /\ (tc_find m k = None -> tc_of m d k = d).
Proof. intros. unfold tc_of. split; [intros t H|intros H]; now rewrite H. Qed.

(* which cell meters the downlink of an application QER *)
Definition dl_cfg (m : up4_meter) : meter_cfg := match um_dl m with Some c => c | None => um_ul m end.
Lemma up4_dl_rate_alone : forall q, q_level q = 0 -> q_dlmbr q < 2 ^ 40 ->
  exists m, configure_meters [q] = [m] /\ m_pir (dl_cfg m) = q_dlmbr q * 125.
Proof.
  intros q Hl H. unfold configure_meters. cbn [flat_map length Nat.eqb app]. rewrite Hl. cbn [N.eqb].
  eexists. split; [reflexivity|]. unfold dl_cfg. cbn [um_dl]. now apply up4_meter_rate.
Qed.
Lemma up4_dl_rate_shared_refuted :
  let q1 := mkQer 1 0 9 0 0 1000 8 0 0 1 in let q2 := mkQer 2 1 9 0 0 5000 5000 0 0 1 in
  exists m, In m (configure_meters [q1; q2]) /\ um_qer m = 1 /\ m_pir (dl_cfg m) <> q_dlmbr q1 * 125.
Proof. cbv zeta. eexists. split; [left; reflexivity|]. split; [reflexivity|]. vm_compute. discriminate. Qed.

(* ------------------------------------------------------------------ the sentences, over add_qer itself *)
Lemma c09_gate : forall conf q, lvl_ok q -> exists c1 c2, add_qer conf q = [c1; c2] /\
  (q_uls q <> 0 -> k_gate c1 = gate_drop) /\ (q_dls q <> 0 -> k_gate c2 = gate_drop).
Proof. intros conf q Hl. exists (ul_cmd conf q), (dl_cmd conf q). split; [now apply add_qer_two|apply gate_closed]. Qed.

Lemma c09_rates : forall conf q, lvl_ok q -> r40 q -> exists c1 c2, add_qer conf q = [c1; c2] /\
  (q_uls q = 0 -> (q_ulmbr q <> 0 \/ q_ulgbr q <> 0) -> q_ulgbr q <= q_ulmbr q ->
     k_gate c1 = gate_meter /\ k_pir c1 = q_ulmbr q * 125 /\ k_cir c1 = N.max (q_ulgbr q * 125) 1) /\
  (q_dls q = 0 -> (q_dlmbr q <> 0 \/ q_dlgbr q <> 0) -> q_dlgbr q <= q_dlmbr q ->
     k_gate c2 = gate_meter /\ k_pir c2 = q_dlmbr q * 125 /\ k_cir c2 = N.max (q_dlgbr q * 125) 1).
Proof.
  intros conf q Hl Hr. exists (ul_cmd conf q), (dl_cmd conf q). split; [now apply add_qer_two|]. split; intros.
  - now apply rates_ul.
  - now apply rates_dl.
Qed.

Lemma c09_unmetered : forall conf q, lvl_ok q -> exists c1 c2, add_qer conf q = [c1; c2] /\
  (q_uls q = 0 -> q_ulmbr q = 0 -> q_ulgbr q = 0 -> k_gate c1 = gate_unmeter) /\
  (q_dls q = 0 -> q_dlmbr q = 0 -> q_dlgbr q = 0 -> k_gate c2 = gate_unmeter).
Proof. intros conf q Hl. exists (ul_cmd conf q), (dl_cmd conf q). split; [now apply add_qer_two|apply unmetered_both]. Qed.

Lemma c09_table : forall conf q, lvl_ok q -> exists c1 c2, add_qer conf q = [c1; c2] /\
  (q_level q = 0 -> k_tbl c1 = AppTbl /\ k_fields c1 = [if_access; q_id q; q_fseid q] /\ k_values c1 = [q_qfi q] /\
                    k_tbl c2 = AppTbl /\ k_fields c2 = [if_core; q_id q; q_fseid q] /\ k_values c2 = [q_qfi q]) /\
  (q_level q = 1 -> k_tbl c1 = SessTbl /\ k_fields c1 = [if_access; q_fseid q] /\
                    k_tbl c2 = SessTbl /\ k_fields c2 = [if_core; q_fseid q]).
Proof.
  intros conf q Hl. exists (ul_cmd conf q), (dl_cmd conf q). split; [now apply add_qer_two|]. split; intros H.
  - now apply cmd_table_app.
  - now apply cmd_table_sess.
Qed.

(* bursts: at least the configured minimum that applies to the QFI, always *)
Definition bursts_min (conf : qosconf) (q : qer) (c1 c2 : qoscmd) : Prop :=
  let c := cfg_for conf (q_qfi q) in
  c_cbs c <= k_cbs c1 /\ c_pbs c <= k_pbs c1 /\ c_ebs c <= k_ebs c1 /\
  c_cbs c <= k_cbs c2 /\ c_pbs c <= k_pbs c2 /\ c_ebs c <= k_ebs c2.
(* bursts: at least rate x burst duration (committed burst from the GBR, peak and excess burst from the MBR) *)
Definition bursts_cover (conf : qosconf) (q : qer) (c1 c2 : qoscmd) : Prop :=
  let d := c_dur (cfg_for conf (q_qfi q)) in
  burst_exact (q_ulgbr q) d <= k_cbs c1 /\ burst_exact (q_ulmbr q) d <= k_pbs c1 /\ burst_exact (q_ulmbr q) d <= k_ebs c1 /\
  burst_exact (q_dlgbr q) d <= k_cbs c2 /\ burst_exact (q_dlmbr q) d <= k_pbs c2 /\ burst_exact (q_dlmbr q) d <= k_ebs c2.

Lemma c09_burst_min : forall conf q, lvl_ok q -> exists c1 c2, add_qer conf q = [c1; c2] /\ bursts_min conf q c1 c2.
Proof. intros conf q Hl. exists (ul_cmd conf q), (dl_cmd conf q). split; [now apply add_qer_two|apply bursts_min_cmds]. Qed.

(* which entry applies: the last entry of the QCI; else entry 0; else the built-in default (32 MTU, 10 ms) *)
Lemma c09_cfg_choice : forall conf qfi,
  (forall c, conf_find conf qfi = Some c -> cfg_for conf qfi = c) /\
  (conf_find conf qfi = None -> qfi <> 0 -> forall c, conf_find conf 0 = Some c -> cfg_for conf qfi = c) /\
  (conf_find conf qfi = None -> conf_find conf 0 = None -> cfg_for conf qfi = mkCfg 48448 48448 48448 10).
Proof.
  intros conf qfi. split; [intros c H; now apply cfg_for_configured|]. split.
  - intros H Hnz c H0. rewrite cfg_for_fallback by assumption. now rewrite H0.
  - intros H H0. unfold cfg_for, qci_map. rewrite H. destruct (N.eqb_spec qfi 0) as [->|Hnz]; [reflexivity|].
    rewrite H0. reflexivity.
Qed.

(* the full burst sentence fails: 42056 kbit/s for 87 ms *)
Lemma c09_burst_refuted :
  exists conf q, lvl_ok q /\ r40 q /\ ~ (exists c1 c2, add_qer conf q = [c1; c2] /\ bursts_cover conf q c1 c2).
Proof.
  exists [(9, mkCfg 0 0 0 87)], (mkQer 1 0 9 0 0 42056 42056 0 0 1). split; [now left|]. split; [repeat split; reflexivity|].
  intros (c1 & c2 & E & H). vm_compute in E. injection E as <- <-. destruct H as (_ & H & _). vm_compute in H. now apply H.
Qed.

(* an open gate with a signalled rate is metered: unmetered means exactly "both rates zero" *)
Lemma c09_metered_when_rate : forall conf q, lvl_ok q -> exists c1 c2, add_qer conf q = [c1; c2] /\
  (q_uls q = 0 -> (q_ulmbr q <> 0 \/ q_ulgbr q <> 0) -> k_gate c1 = gate_meter) /\
  (q_dls q = 0 -> (q_dlmbr q <> 0 \/ q_dlgbr q <> 0) -> k_gate c2 = gate_meter).
Proof.
  intros conf q Hl. exists (ul_cmd conf q), (dl_cmd conf q). split; [now apply add_qer_two|].
  unfold ul_cmd, dl_cmd. cbn [k_gate]. split; intros Ho Hnz; rewrite Ho; now apply dir_rates_open_gate.
Qed.
