(* C10 - no deadlock without Stop, every number of established associations, every schedule: when no thread can
   move, every association is either completely gone or waits for input, and the node waits in its select. *)
From Coq Require Import NArith String List Bool Arith Lia.
From UPF Require Import Base.LTS Model.Teardown Proofs.TeardownInv Proofs.TeardownProofs Proofs.TeardownStop
  Proofs.TeardownForget.
Import ListNotations.
Open Scope list_scope.

(* an association none of whose threads can move (pConnDone has room) is parked *)
Lemma assoc_not_stuck sess me nd a :
  AInv sess a -> t_st (a_fst a) = TFinished ->
  cclosed (n_pcd nd) = false -> cbuf (n_pcd nd) = [] -> 1 <= ccap (n_pcd nd) ->
  (forall r alt, is_assoc_role r = true -> alt < 3 -> thread_step me r alt nd a (get_thr a r) = Blocked) ->
  parked_ok a = true.
Proof.
  intros Hinv Hfin Hcl Hbuf Hcap Hblk.
  destruct a as [st de on sh tm hb so ib ta ha hr hm ins rd se ht fs].
  destruct nd as [cx pc dn ls mp ex bu mn np nn cr en th sp pe].
  destruct pc as [pcap pbuf pcl]. destruct tm as [tcap tbuf tcl]. destruct sh as [scap sbuf scl].
  destruct hb as [hcap hbuf hcl].
  destruct Hinv as (Hrd & Hsel & Hhb & Hfst & Hd & (Ht1 & Ht2 & Ht3) & (Hhb1 & _) & _ & _ & (Hrd1 & _)).
  cbn in *. subst pcl pbuf tcl tcap.
  assert (Hc : Nat.ltb 0 pcap = true) by (apply Nat.ltb_lt; lia).
  pose proof (Hblk RRd 0 eq_refl ltac:(lia)) as Brd0.
  pose proof (Hblk RSel 0 eq_refl ltac:(lia)) as Bsel0.
  pose proof (Hblk RSel 2 eq_refl ltac:(lia)) as Bsel2.
  pose proof (Hblk RHb 0 eq_refl ltac:(lia)) as Bhb0.
  clear Hblk.
  destruct fs as [fst ffn fpc fret fit]. cbn in Hfin. subst fst.
  destruct rd as [rst rfn rpc rret rit]. destruct se as [sst sfn spc sret sit]. destruct ht as [hst hfn hpc hret hit].
  unfold fn_ok in *; cbn in *. unfold thread_step in *; cbn in *.
  unfold parked_ok, assoc_threads_done, thr_done; cbn.
  destruct on as [|r0|].
  - (* live association *)
    destruct Hrd as [[_ Hx]|(-> & _ & Hr)]; [discriminate|].
    destruct Hsel as [[_ Hx]|(-> & _ & Hs)]; [discriminate|].
    destruct Hhb as [[_ Hx]|(-> & _ & Hh)]; [discriminate|].
    unfold code_len in *; cbn in *.
    assert (Grd : match rst with TRunning => false | _ => true end || Nat.eqb rpc 0 && true = true).
    { unfold Data in Hd; cbn in Hd. destruct Hd as (_ & _ & Hhm). subst hm.
      destruct rst; try reflexivity. destruct rpc as [|[|[|[|[|p]]]]]; try lia; cbn in *; try reflexivity; try discriminate.
      - specialize (Hrd1 eq_refl eq_refl eq_refl). destruct ib; [congruence|]. cbn in Brd0.
        destruct scl; [discriminate|]. destruct d; try discriminate; cbn in Brd0;
          repeat match goal with H : context [if ?c then _ else _] |- _ => destruct c end; discriminate.
      - destruct Ht3 as [->|[_ Hx]]; [|discriminate]. cbn in Brd0. discriminate. }
    assert (Gsel : match sst with TRunning => false | _ => true end || Nat.eqb spc 0 && true = true).
    { destruct sst; try reflexivity. destruct spc as [|[|[|p]]]; try lia; cbn in *; try reflexivity; discriminate. }
    assert (Ghb : match hst with TRunning => false | _ => true end || Nat.eqb hpc 1 && true = true).
    { destruct hst; try reflexivity. destruct hpc as [|[|[|[|p]]]]; try lia; cbn in *; try reflexivity; try discriminate.
      destruct scl; discriminate. }
    rewrite Grd, Gsel, Ghb. reflexivity.
  - (* somebody is inside doShutdown: every instruction there is enabled *)
    exfalso. unfold Data in Hd; cbn in Hd. destruct Hd as (Hr0 & Hrun & _ & Hb). unfold Body in Hb.
    destruct r0; try discriminate Hr0; cbn in *.
    + destruct Hrd as [[-> _]|(_ & Hx & _)]; [|congruence]. subst rst.
      do 9 (try destruct rpc as [|rpc]); cbn in *; try (exfalso; exact Hb);
        repeat match goal with H : _ /\ _ |- _ => destruct H | H : exists _, _ |- _ => destruct H end;
        unfold accounted in *; subst; cbn in *; try rewrite Hc in *; try (destruct hr; discriminate); discriminate.
    + destruct Hsel as [[-> _]|(_ & Hx & _)]; [|congruence]. subst sst.
      do 9 (try destruct spc as [|spc]); cbn in *; try (exfalso; exact Hb);
        repeat match goal with H : _ /\ _ |- _ => destruct H | H : exists _, _ |- _ => destruct H end;
        unfold accounted in *; subst; cbn in *; try rewrite Hc in *; try (destruct hr; discriminate); discriminate.
    + destruct Hhb as [[-> _]|(_ & Hx & _)]; [|congruence]. subst hst.
      do 9 (try destruct hpc as [|hpc]); cbn in *; try (exfalso; exact Hb);
        repeat match goal with H : _ /\ _ |- _ => destruct H | H : exists _, _ |- _ => destruct H end;
        unfold accounted in *; subst; cbn in *; try rewrite Hc in *; try (destruct hr; discriminate); discriminate.
    + discriminate Hrun.
  - (* ended association: every thread that still runs can move *)
    unfold Data in Hd; cbn in Hd. destruct Hd as (_ & _ & Hs1 & Hs2 & Hs3 & Hs4). unfold hb_cancelled in Hs2. cbn in Hs2.
    subst scl so hm.
    destruct Hrd as [[_ Hx]|(-> & _ & Hr)]; [discriminate|].
    destruct Hsel as [[_ Hx]|(-> & _ & Hs)]; [discriminate|].
    destruct Hhb as [[_ Hx]|(-> & _ & Hh)]; [discriminate|].
    unfold code_len in *; cbn in *.
    assert (Grd : match rst with TRunning => false | _ => true end = true).
    { destruct rst; try reflexivity. destruct rpc as [|[|[|[|[|p]]]]]; try lia; cbn in *; try discriminate.
      - specialize (Hrd1 eq_refl eq_refl eq_refl). destruct ib; [congruence|]. cbn in Brd0. discriminate.
      - destruct Ht3 as [->|[_ Hx]]; [|discriminate]. cbn in Brd0. discriminate. }
    assert (Gsel : match sst with TRunning => false | _ => true end = true).
    { destruct sst; try reflexivity. destruct spc as [|[|[|p]]]; try lia; cbn in *; try discriminate.
      unfold ch_recv in Bsel2. cbn in Bsel2. destruct sbuf; discriminate. }
    assert (Ghb : match hst with TRunning => false | _ => true end = true).
    { destruct hst; try reflexivity. destruct hpc as [|[|[|[|p]]]]; try lia; cbn in *; try discriminate.
      specialize (Hhb1 eq_refl (or_introl eq_refl)). subst hr. rewrite (Hs2 eq_refl) in Bhb0.
      unfold ch_recv in Bhb0. cbn in Bhb0. destruct hbuf; discriminate. }
    rewrite Grd, Gsel, Ghb. reflexivity.
Qed.

Definition all_established (cfg : list acfg) : Prop := forall c, In c cfg -> c_first c = None.

Lemma ta_label_in s i r alt : i < List.length (s_asc s) -> is_assoc_role r = true -> alt < 3 ->
  In (TA i r alt) (thread_labels false s).
Proof.
  intros Hi Hr Ha. unfold thread_labels. apply in_or_app. right. apply in_flat_map. exists i. split.
  - apply in_seq. lia.
  - unfold assoc_labels. apply in_flat_map. exists r. split.
    + destruct r; try discriminate Hr; cbn; auto.
    + destruct alt as [|[|[|alt]]]; cbn; auto. lia.
Qed.

Theorem no_deadlock_without_stop cfg ev sch :
  no_stop ev -> all_established cfg ->
  (forall l, In l (thread_labels false (run (init cfg ev) sch)) -> step (run (init cfg ev) sch) l = None) ->
  quiescent_ok (run (init cfg ev) sch) = true.
Proof.
  intros Hns Hest Hq.
  destruct (ns_run cfg ev sch Hns) as [Hg Hn]. pose proof (einv_run cfg ev sch) as Hf.
  assert (Hb : cbuf (n_pcd (s_node (run (init cfg ev) sch))) = []).
  { apply quiet_buffer_empty; [exact Hns|]. apply Hq. unfold thread_labels. cbn. left. reflexivity. }
  set (s := run (init cfg ev) sch) in *.
  pose proof Hn as [Hp Hc Hd Ht Hs Hpe Hm Hl Hcap He].
  unfold quiescent_ok. apply andb_true_iff. split.
  - apply forallb_forall. intros a Ha. apply In_nth_error in Ha. destruct Ha as [i Hi].
    destruct (Forall2_nth _ _ _ _ _ Hg Hi) as (se & Hse & Hai).
    rewrite nth_error_map in Hse. destruct (nth_error cfg i) as [c|] eqn:Ec; [|discriminate].
    cbn in Hse. injection Hse as <-.
    assert (Hfc : c_first c = None) by (apply Hest; eapply nth_error_In; eauto).
    pose proof (Hf i c a Ec Hfc Hi) as Hfin.
    apply (assoc_not_stuck (c_sess c) (N.of_nat i) (s_node s) a Hai Hfin Hd Hb).
    + rewrite Hcap. unfold pcd_cap. lia.
    + intros r alt Hr Halt.
      assert (Hin : In (TA i r alt) (thread_labels false s)).
      { apply ta_label_in; auto. apply nth_error_Some. congruence. }
      specialize (Hq _ Hin). unfold step in Hq. unfold dead in Hq. rewrite Hp, Hm in Hq.
      assert (Hlt : Nat.leb 3 alt = false) by (apply Nat.leb_gt; exact Halt).
      rewrite Hr, Hlt in Hq. cbn [negb orb] in Hq. rewrite Hi in Hq.
      destruct (thread_step (N.of_nat i) r alt (s_node s) a (get_thr a r)) as [[[nd' a'] t']| |site];
        try discriminate. reflexivity.
  - unfold dead. rewrite Hp, Hm. cbn. unfold node_parked_ok. rewrite Ht, Hs, Hpe, Hc. reflexivity.
Qed.
