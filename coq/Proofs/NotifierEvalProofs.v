(* The window check of Run/Eval_C13.v never rejects the model: whatever clock readings shouldNotify
   took inside the measured windows, the model's channel output is admissible.  (So a rejected
   observation is a real disagreement between implementation and model, not measurement noise.) *)
From Coq Require Import NArith List Bool Lia ZifyN ZifyNat ZifyBool.
From UPF Require Import Model.Notifier Proofs.NotifierProofs Run.Eval_C13.
Import ListNotations.
Open Scope N_scope.

Definition within (e : wev) (r : report) : Prop :=
  r_fseid r = w_fseid e /\ w_lo e <= r_check r /\ r_check r <= r_store r /\ r_store r <= w_hi e.

Fixpoint notify_run (interval : N) (st : nstate) (rs : list report) : list (list N) :=
  match rs with
  | [] => []
  | r :: rest => snd (notify interval st r) :: notify_run interval (fst (notify interval st r)) rest
  end.

Definition Rel (ws : wstate) (st : nstate) : Prop := forall f,
  match nlookup f st, wlookup f ws with
  | None, None => True
  | Some s, Some (slo, shi) => slo <= s <= shi
  | _, _ => False
  end.

Lemma wlookup_wstore_same k v st : wlookup k (wstore k v st) = Some v.
Proof.
  induction st as [|[k' v'] r IH]; cbn [wstore wlookup].
  - rewrite N.eqb_refl. reflexivity.
  - destruct (k =? k') eqn:E; cbn [wlookup]; [rewrite N.eqb_refl; reflexivity|]. rewrite E. exact IH.
Qed.

Lemma wlookup_wstore_other k k' v st : k' <> k -> wlookup k' (wstore k v st) = wlookup k' st.
Proof.
  intros Hne. induction st as [|[k2 v2] r IH]; cbn [wstore wlookup].
  - destruct (k' =? k) eqn:E; [lia|reflexivity].
  - destruct (k =? k2) eqn:E; cbn [wlookup].
    + assert (k = k2) by lia. subst k2. destruct (k' =? k) eqn:E2; [lia|reflexivity].
    + destruct (k' =? k2); [reflexivity|exact IH].
Qed.

Lemma rel_store ws st f s lo hi : Rel ws st -> lo <= s <= hi -> Rel (wstore f (lo, hi) ws) (nstore f s st).
Proof.
  intros HR Hs f'. destruct (N.eq_dec f' f) as [->|Hne].
  - rewrite nlookup_nstore_same, wlookup_wstore_same. exact Hs.
  - rewrite nlookup_nstore_other, wlookup_wstore_other by exact Hne. apply HR.
Qed.

Lemma step_sound I ws st e r :
  Rel ws st -> within e r -> w_got e = snd (notify I st r) ->
  exists ws', admissible_step I ws e = Some ws' /\ Rel ws' (fst (notify I st r)).
Proof.
  intros HR (Hf & H1 & H2 & H3) Hg. pose proof (HR (w_fseid e)) as Hrel.
  unfold admissible_step. rewrite Hg. unfold notify, should_notify. rewrite Hf.
  destruct (nlookup (w_fseid e) st) as [s|]; destruct (wlookup (w_fseid e) ws) as [[slo shi]|]; try tauto.
  - destruct (s + I <=? r_check r) eqn:E; cbn [fst snd].
    + rewrite N.eqb_refl. assert (Hc : (slo + I <=? w_hi e) = true) by lia. rewrite Hc.
      eexists. split; [reflexivity|]. apply rel_store; [exact HR|lia].
    + assert (Hc : (w_lo e <? shi + I) = true) by lia. rewrite Hc.
      eexists. split; [reflexivity|exact HR].
  - cbn [fst snd]. rewrite N.eqb_refl. eexists. split; [reflexivity|]. apply rel_store; [exact HR|lia].
Qed.

Lemma run_sound I : forall es rs ws st,
  Forall2 within es rs -> Rel ws st -> map w_got es = notify_run I st rs -> admissible_from I ws es = true.
Proof.
  intros es rs ws st H. revert ws st. induction H as [|e r es rs Hw _ IH]; intros ws st HR Hg; [reflexivity|].
  cbn [map notify_run] in Hg. injection Hg as Hg1 Hg2.
  destruct (step_sound I ws st e r HR Hw Hg1) as (ws' & Hs & HR').
  cbn [admissible_from]. rewrite Hs. exact (IH ws' _ HR' Hg2).
Qed.

Lemma window_check_sound I es rs :
  Forall2 within es rs -> map w_got es = notify_run I [] rs -> admissible I es = true.
Proof. intros H Hg. apply (run_sound I es rs [] [] H); [|exact Hg]. intros f. exact Logic.I. Qed.
