(* Lemmas about Model/Notifier.v (property C13). *)
From Coq Require Import NArith List Bool Lia ZifyN ZifyNat ZifyBool.
From UPF Require Import Model.Notifier.
Import ListNotations.
Open Scope N_scope.

(* ------------------------------------------------------------------ timing of a report sequence *)

(* One listener goroutine calls Notify sequentially and the clock is monotonic: every clock reading
   is >= the previous one.  The readings themselves are arbitrary. *)
Fixpoint timed_from (t : N) (rs : list report) : Prop :=
  match rs with
  | [] => True
  | r :: rest => t <= r_check r /\ r_check r <= r_store r /\ timed_from (r_store r) rest
  end.
Definition timed_ok (rs : list report) : Prop := timed_from 0 rs.

Lemma timed_from_weaken t t' rs : t' <= t -> timed_from t rs -> timed_from t' rs.
Proof. destruct rs as [|r rest]; cbn [timed_from]; [auto|]. intros H (H1 & H2 & H3). repeat split; [lia|auto|auto]. Qed.

Lemma timed_from_app t a b : timed_from t (a ++ b) -> exists t', timed_from t' b.
Proof.
  revert t. induction a as [|r a IH]; intros t; cbn [app timed_from].
  - eauto.
  - intros (_ & _ & H). eauto.
Qed.

(* ------------------------------------------------------------------ the sync.Map *)

Lemma nlookup_nstore_same k v st : nlookup k (nstore k v st) = Some v.
Proof.
  induction st as [|[k' v'] r IH]; cbn [nstore nlookup].
  - rewrite N.eqb_refl. reflexivity.
  - destruct (k =? k') eqn:E; cbn [nlookup]; [rewrite N.eqb_refl; reflexivity|]. rewrite E. exact IH.
Qed.

Lemma nlookup_nstore_other k k' v st : k' <> k -> nlookup k' (nstore k v st) = nlookup k' st.
Proof.
  intros Hne. induction st as [|[k2 v2] r IH]; cbn [nstore nlookup].
  - destruct (k' =? k) eqn:E; [lia|reflexivity].
  - destruct (k =? k2) eqn:E; cbn [nlookup].
    + assert (k = k2) by lia. subst k2. destruct (k' =? k) eqn:E2; [lia|reflexivity].
    + destruct (k' =? k2); [reflexivity|exact IH].
Qed.

(* ------------------------------------------------------------------ one shouldNotify *)

Lemma sn_other I st r f : r_fseid r <> f -> nlookup f (fst (should_notify I st r)) = nlookup f st.
Proof.
  intros Hne. unfold should_notify.
  destruct (nlookup (r_fseid r) st) as [last|]; [destruct (last + I <=? r_check r)|]; cbn [fst];
    try reflexivity; apply nlookup_nstore_other; congruence.
Qed.

Lemma sn_true I st r st' : should_notify I st r = (st', true) -> nlookup (r_fseid r) st' = Some (r_store r).
Proof.
  unfold should_notify.
  destruct (nlookup (r_fseid r) st) as [last|]; [destruct (last + I <=? r_check r)|];
    intros [= <-]; apply nlookup_nstore_same.
Qed.

Lemma sn_false I st r st' : should_notify I st r = (st', false) -> st' = st.
Proof.
  unfold should_notify.
  destruct (nlookup (r_fseid r) st) as [last|]; [destruct (last + I <=? r_check r)|]; intros [= <-]; reflexivity.
Qed.

Lemma sn_known I st r s0 : nlookup (r_fseid r) st = Some s0 ->
  snd (should_notify I st r) = (s0 + I <=? r_check r).
Proof. intros H. unfold should_notify. rewrite H. destruct (s0 + I <=? r_check r); reflexivity. Qed.

Lemma sn_unknown I st r : nlookup (r_fseid r) st = None -> snd (should_notify I st r) = true.
Proof. intros H. unfold should_notify. rewrite H. reflexivity. Qed.

(* Notify sends nothing or exactly the F-SEID it was called with *)
Lemma notify_own I st r x : In x (snd (notify I st r)) -> x = r_fseid r.
Proof.
  unfold notify. destruct (should_notify I st r) as [st' [|]]; cbn [snd In]; [intros [H|[]]; auto|tauto].
Qed.

(* ------------------------------------------------------------------ traces *)

Lemma trace_from_cons I st r rest :
  trace_from I st (r :: rest) =
  (r, snd (should_notify I st r)) :: trace_from I (fst (should_notify I st r)) rest.
Proof. cbn [trace_from]. destruct (should_notify I st r); reflexivity. Qed.

Lemma trace_from_fst I rs : forall st, map fst (trace_from I st rs) = rs.
Proof.
  induction rs as [|r rest IH]; intros st; [reflexivity|].
  rewrite trace_from_cons. cbn [map fst]. f_equal. apply IH.
Qed.

(* peel a prefix of the trace: what follows is the trace of the remaining reports from the state reached *)
Lemma trace_peel I : forall tp st rs x tq,
  trace_from I st rs = tp ++ x :: tq ->
  exists rs', rs = map fst tp ++ rs' /\ trace_from I (state_after I st (map fst tp)) rs' = x :: tq.
Proof.
  induction tp as [|y tp IH]; intros st rs x tq H.
  - exists rs. split; [reflexivity|exact H].
  - destruct rs as [|r rest]; [discriminate|].
    rewrite trace_from_cons in H. cbn [app] in H. injection H as Hy H.
    apply IH in H. destruct H as (rs' & -> & H).
    exists rs'. subst y. cbn [map fst app state_after]. split; [reflexivity|exact H].
Qed.

Lemma state_after_other I f : forall a st,
  (forall r, In r a -> r_fseid r <> f) -> nlookup f (state_after I st a) = nlookup f st.
Proof.
  induction a as [|r a IH]; intros st H; cbn [state_after]; [reflexivity|].
  rewrite IH by (intros r' Hr'; apply H; right; exact Hr').
  apply sn_other. apply H. left. reflexivity.
Qed.

(* the heart of the rate limiter: once an entry s0 exists for f, every later decision for f compares
   against an entry >= s0, and against s0 itself while no report for f has been forwarded since *)
Lemma mid_gen I f rj b tq : r_fseid rj = f ->
  forall tm st rest s0 t,
    trace_from I st rest = tm ++ (rj, b) :: tq ->
    nlookup f st = Some s0 -> s0 <= t -> timed_from t rest ->
    exists s1, s0 <= s1 /\ (b = true <-> s1 + I <= r_check rj) /\
               ((forall r, In (r, true) tm -> r_fseid r <> f) -> s1 = s0).
Proof.
  intros Hf. induction tm as [|[r br] tm IH]; intros st rest s0 t H Hl Hs Ht.
  - destruct rest as [|r rest]; [discriminate|].
    rewrite trace_from_cons in H. cbn [app] in H. injection H as -> Hb _.
    rewrite <- Hf in Hl. rewrite (sn_known _ _ _ _ Hl) in Hb.
    exists s0. split; [lia|]. split; [|reflexivity]. subst b. lia.
  - destruct rest as [|r0 rest]; [discriminate|].
    cbn [trace_from] in H. destruct (should_notify I st r0) as [st1 b0] eqn:E.
    cbn [app] in H. injection H as -> -> H.
    cbn [timed_from] in Ht. destruct Ht as (Ht1 & Ht2 & Ht3).
    destruct (N.eq_dec (r_fseid r) f) as [Heq|Hne].
    + destruct br.
      * pose proof (sn_true _ _ _ _ E) as Hl1. rewrite Heq in Hl1.
        destruct (IH st1 rest (r_store r) (r_store r) H Hl1 (N.le_refl _) Ht3) as (s1 & H1 & H2 & _).
        exists s1. split; [lia|]. split; [exact H2|].
        intros Hno. exfalso. apply (Hno r); [left; reflexivity|exact Heq].
      * apply sn_false in E. subst st1.
        destruct (IH st rest s0 (r_store r) H Hl ltac:(lia) Ht3) as (s1 & H1 & H2 & H3).
        exists s1. split; [exact H1|]. split; [exact H2|].
        intros Hno. apply H3. intros r' Hr'. apply Hno. right. exact Hr'.
    + assert (Hl1 : nlookup f st1 = Some s0).
      { replace st1 with (fst (should_notify I st r)) by (rewrite E; reflexivity).
        rewrite sn_other by exact Hne. exact Hl. }
      destruct (IH st1 rest s0 (r_store r) H Hl1 ltac:(lia) Ht3) as (s1 & H1 & H2 & H3).
      exists s1. split; [exact H1|]. split; [exact H2|].
      intros Hno. apply H3. intros r' Hr'. apply Hno. right. exact Hr'.
Qed.

(* ri forwarded, rj a later report of the same session *)
Lemma after_forwarded I : forall tp st rs t ri tm rj b tq,
  trace_from I st rs = tp ++ (ri, true) :: tm ++ (rj, b) :: tq ->
  r_fseid ri = r_fseid rj -> timed_from t rs ->
  exists s1, r_store ri <= s1 /\ (b = true <-> s1 + I <= r_check rj) /\
             ((forall r, In (r, true) tm -> r_fseid r <> r_fseid rj) -> s1 = r_store ri).
Proof.
  intros tp st rs t ri tm rj b tq H Hf Ht.
  apply trace_peel in H. destruct H as (rs' & -> & H).
  apply timed_from_app in Ht. destruct Ht as (t' & Ht).
  destruct rs' as [|r rest]; [discriminate|].
  cbn [trace_from] in H. destruct (should_notify I _ r) as [st1 b0] eqn:E.
  injection H as -> -> H.
  cbn [timed_from] in Ht. destruct Ht as (_ & _ & Ht).
  pose proof (sn_true _ _ _ _ E) as Hl. rewrite Hf in Hl.
  exact (mid_gen I (r_fseid rj) rj b tq eq_refl tm st1 rest (r_store ri) (r_store ri) H Hl (N.le_refl _) Ht).
Qed.

Lemma c13_rate I rs tp ri tm rj tq :
  timed_ok rs -> trace I rs = tp ++ (ri, true) :: tm ++ (rj, true) :: tq ->
  r_fseid ri = r_fseid rj -> r_store ri + I <= r_check rj.
Proof.
  intros Ht H Hf. destruct (after_forwarded I _ _ _ _ _ _ _ _ _ H Hf Ht) as (s1 & H1 & H2 & _).
  assert (s1 + I <= r_check rj) by (apply H2; reflexivity). lia.
Qed.

Lemma c13_window I rs tp ri tm rj tq w :
  timed_ok rs -> trace I rs = tp ++ (ri, true) :: tm ++ (rj, true) :: tq ->
  r_fseid ri = r_fseid rj -> ~ (w <= r_store ri /\ r_check rj < w + I).
Proof. intros Ht H Hf. pose proof (c13_rate _ _ _ _ _ _ _ Ht H Hf). lia. Qed.

Lemma c13_iff_elapsed I rs tp ri tm rj b tq :
  timed_ok rs -> trace I rs = tp ++ (ri, true) :: tm ++ (rj, b) :: tq ->
  r_fseid ri = r_fseid rj -> (forall r, In (r, true) tm -> r_fseid r <> r_fseid rj) ->
  (b = true <-> r_store ri + I <= r_check rj).
Proof.
  intros Ht H Hf Hno. destruct (after_forwarded I _ _ _ _ _ _ _ _ _ H Hf Ht) as (s1 & _ & H2 & H3).
  rewrite <- (H3 Hno). exact H2.
Qed.

Lemma c13_first I rs tp r b tq :
  trace I rs = tp ++ (r, b) :: tq ->
  (forall r' b', In (r', b') tp -> r_fseid r' <> r_fseid r) -> b = true.
Proof.
  intros H Hno. apply trace_peel in H. destruct H as (rs' & _ & H).
  destruct rs' as [|r0 rest]; [discriminate|].
  rewrite trace_from_cons in H. injection H as -> Hb _. rewrite <- Hb.
  apply sn_unknown. rewrite state_after_other; [reflexivity|].
  intros r' Hr'. apply in_map_iff in Hr'. destruct Hr' as ([r2 b2] & <- & Hin). exact (Hno _ _ Hin).
Qed.

(* ------------------------------------------------------------------ sessions are independent *)

Definition is_session (f : N) (r : report) : bool := r_fseid r =? f.

Lemma indep_gen I f : forall rs st st',
  nlookup f st = nlookup f st' ->
  filter (fun p => is_session f (fst p)) (trace_from I st rs) = trace_from I st' (filter (is_session f) rs).
Proof.
  induction rs as [|r rest IH]; intros st st' Hl; [reflexivity|].
  rewrite trace_from_cons. cbn [filter fst].
  destruct (is_session f r) eqn:E; unfold is_session in E.
  - assert (Hrf : r_fseid r = f) by lia.
    rewrite trace_from_cons.
    assert (Hd : snd (should_notify I st r) = snd (should_notify I st' r)).
    { unfold should_notify. rewrite Hrf, <- Hl.
      destruct (nlookup f st) as [last|]; [destruct (last + I <=? r_check r)|]; reflexivity. }
    rewrite <- Hd. f_equal. apply IH.
    unfold should_notify. rewrite Hrf, <- Hl.
    destruct (nlookup f st) as [last|] eqn:El; [destruct (last + I <=? r_check r)|]; cbn [fst];
      rewrite ?nlookup_nstore_same; congruence.
  - apply IH. rewrite sn_other by lia. exact Hl.
Qed.

Lemma c13_independent I f rs :
  filter (fun p => is_session f (fst p)) (trace I rs) = trace I (filter (is_session f) rs).
Proof. apply indep_gen. reflexivity. Qed.

(* ------------------------------------------------------------------ handleDigestReport *)

Definition all_notify (far_id : N) (fars : list far) : Prop :=
  forall f, In f fars -> f_id f = far_id -> N.land (f_action f) action_notify <> 0.

Lemma far_blocks_false far_id fars : all_notify far_id fars -> far_blocks far_id fars = false.
Proof.
  intros H. unfold far_blocks. destruct (existsb _ fars) eqn:E; [|reflexivity].
  apply existsb_exists in E. destruct E as (f & Hin & Hf).
  apply andb_true_iff in Hf. destruct Hf as [H1 H2].
  exfalso. apply (H f Hin); lia.
Qed.

Lemma far_blocks_true far_id fars f :
  In f fars -> f_id f = far_id -> N.land (f_action f) action_notify = 0 -> far_blocks far_id fars = true.
Proof.
  intros Hin H1 H2. unfold far_blocks. apply existsb_exists. exists f. split; [exact Hin|].
  apply andb_true_iff. split; lia.
Qed.

Definition next_seq (seq : N) : N := (seq + 1) mod 2 ^ 24.

Lemma c13_report_shape st seq fseid s pid fid :
  get_session fseid st = Some s -> first_core (s_pdrs s) = (pid, fid) -> pid <> 0 ->
  all_notify fid (s_fars s) ->
  handle_digest_report st seq fseid =
    (next_seq seq, [Srr (s_remote s) (next_seq seq mod 2 ^ 24) 1 [pid mod 2 ^ 16]]).
Proof.
  intros Hs Hp Hpid Hn. unfold handle_digest_report. rewrite Hs, Hp.
  rewrite (far_blocks_false _ _ Hn). destruct (pid =? 0) eqn:E; [lia|reflexivity].
Qed.

Lemma c13_report_shape_in_range st seq fseid s pid fid :
  get_session fseid st = Some s -> first_core (s_pdrs s) = (pid, fid) -> pid <> 0 ->
  all_notify fid (s_fars s) -> seq + 1 < 2 ^ 24 -> pid < 2 ^ 16 ->
  handle_digest_report st seq fseid = (seq + 1, [Srr (s_remote s) (seq + 1) 1 [pid]]).
Proof.
  intros Hs Hp Hpid Hn Hseq Hr. rewrite (c13_report_shape _ _ _ _ _ _ Hs Hp Hpid Hn). unfold next_seq.
  assert (E24 : (2 ^ 24 : N) = 16777216) by reflexivity.
  assert (E16 : (2 ^ 16 : N) = 65536) by reflexivity.
  rewrite E24, E16 in *.
  rewrite !(N.mod_small (seq + 1) 16777216) by lia.
  rewrite (N.mod_small pid 65536) by lia. reflexivity.
Qed.

Lemma c13_silent_unknown st seq fseid :
  get_session fseid st = None -> handle_digest_report st seq fseid = (seq, []).
Proof. intros H. unfold handle_digest_report. rewrite H. reflexivity. Qed.

Lemma c13_silent_known st seq fseid s pid fid :
  get_session fseid st = Some s -> first_core (s_pdrs s) = (pid, fid) ->
  (exists f, In f (s_fars s) /\ f_id f = fid /\ N.land (f_action f) action_notify = 0) \/ pid = 0 ->
  handle_digest_report st seq fseid = (next_seq seq, []).
Proof.
  intros Hs Hp H. unfold handle_digest_report. rewrite Hs, Hp.
  destruct H as [(f & Hin & H1 & H2)| ->].
  - rewrite (far_blocks_true _ _ _ Hin H1 H2). reflexivity.
  - destruct (far_blocks fid (s_fars s)); reflexivity.
Qed.

Lemma c13_silent st seq fseid :
  get_session fseid st = None \/
  (exists s pid fid, get_session fseid st = Some s /\ first_core (s_pdrs s) = (pid, fid) /\
     ((exists f, In f (s_fars s) /\ f_id f = fid /\ N.land (f_action f) action_notify = 0) \/ pid = 0)) ->
  snd (handle_digest_report st seq fseid) = [].
Proof.
  intros [H|(s & pid & fid & Hs & Hp & H)].
  - rewrite (c13_silent_unknown _ _ _ H). reflexivity.
  - rewrite (c13_silent_known _ _ _ _ _ _ Hs Hp H). reflexivity.
Qed.

(* whatever the store holds, one report produces at most one message, and only a well-shaped one *)
Lemma hdr_cases st seq fseid :
  handle_digest_report st seq fseid = (seq, []) \/
  handle_digest_report st seq fseid = (next_seq seq, []) \/
  exists s pid, get_session fseid st = Some s /\ pid <> 0 /\
    handle_digest_report st seq fseid = (next_seq seq, [Srr (s_remote s) (next_seq seq mod 2 ^ 24) 1 [pid mod 2 ^ 16]]).
Proof.
  unfold handle_digest_report. destruct (get_session fseid st) as [s|]; [|left; reflexivity].
  destruct (first_core (s_pdrs s)) as [pid fid].
  destruct (far_blocks fid (s_fars s)); [right; left; reflexivity|].
  destruct (pid =? 0) eqn:E; [right; left; reflexivity|].
  right. right. exists s, pid. repeat split; [lia].
Qed.

(* the guard of the partial version of "any notifying downlink rule is reported":
   the rule is the one handleDigestReport looks at, and no FAR sharing its id lacks NOTIFY *)
Definition notifying_rule (s : session) (p : pdr) (f : far) : Prop :=
  In p (s_pdrs s) /\ p_src p = core /\ p_id p <> 0 /\ In f (s_fars s) /\ f_id f = p_far p /\
  N.land (f_action f) action_notify <> 0.
Definition rule_is_examined (s : session) (p : pdr) : bool :=
  (let '(pid, fid) := first_core (s_pdrs s) in (pid =? p_id p) && (fid =? p_far p)) &&
  negb (far_blocks (p_far p) (s_fars s)).

Lemma c13_any_rule_partial st seq fseid s p f :
  get_session fseid st = Some s -> notifying_rule s p f -> rule_is_examined s p = true ->
  handle_digest_report st seq fseid =
    (next_seq seq, [Srr (s_remote s) (next_seq seq mod 2 ^ 24) 1 [p_id p mod 2 ^ 16]]).
Proof.
  intros Hs (_ & _ & Hpid & _) Hg. unfold rule_is_examined in Hg. unfold handle_digest_report. rewrite Hs.
  destruct (first_core (s_pdrs s)) as [pid fid].
  apply andb_true_iff in Hg. destruct Hg as [Hg1 Hg2]. apply andb_true_iff in Hg1. destruct Hg1 as [Ha Hb].
  assert (pid = p_id p) by lia. assert (fid = p_far p) by lia. subst pid fid.
  apply negb_true_iff in Hg2. rewrite Hg2. destruct (p_id p =? 0) eqn:E; [lia|reflexivity].
Qed.

(* the guard of the partial version of "no rule asks for notification -> silent":
   the FAR the downlink PDR points to exists *)
Definition has_far (far_id : N) (fars : list far) : bool := existsb (fun f => f_id f =? far_id) fars.
Definition none_asks (far_id : N) (fars : list far) : Prop :=
  forall f, In f fars -> f_id f = far_id -> N.land (f_action f) action_notify = 0.

Lemma c13_silent_partial st seq fseid s pid fid :
  get_session fseid st = Some s -> first_core (s_pdrs s) = (pid, fid) ->
  none_asks fid (s_fars s) -> has_far fid (s_fars s) = true ->
  snd (handle_digest_report st seq fseid) = [].
Proof.
  intros Hs Hp Hn Hh. apply c13_silent. right. exists s, pid, fid. repeat split; auto.
  left. unfold has_far in Hh. apply existsb_exists in Hh. destruct Hh as (f & Hin & Hf).
  exists f. assert (f_id f = fid) by lia. auto.
Qed.

(* ------------------------------------------------------------------ sequence numbers are fresh *)

Fixpoint run_reports (st : store) (seq : N) (fs : list N) : N * list srr :=
  match fs with
  | [] => (seq, [])
  | f :: rest => let '(seq', out) := handle_digest_report st seq f in
                 let '(seq'', outs) := run_reports st seq' rest in (seq'', out ++ outs)
  end.

Fixpoint increasing (lo : N) (l : list N) : Prop :=
  match l with [] => True | x :: r => lo < x /\ increasing x r end.

Lemma increasing_weaken lo lo' l : lo' <= lo -> increasing lo l -> increasing lo' l.
Proof. destruct l; cbn [increasing]; [auto|]. intros H [H1 H2]. split; [lia|auto]. Qed.

Lemma increasing_nodup lo l : increasing lo l -> NoDup l /\ forall x, In x l -> lo < x.
Proof.
  revert lo. induction l as [|x r IH]; intros lo; cbn [increasing].
  - split; [constructor|intros ? []].
  - intros [H1 H2]. destruct (IH x H2) as [Hnd Hgt]. split.
    + constructor; [|exact Hnd]. intros Hin. apply Hgt in Hin. lia.
    + intros y [<-|Hy]; [exact H1|]. apply Hgt in Hy. lia.
Qed.

Lemma c13_seq_increasing st : forall fs seq,
  seq + N.of_nat (length fs) < 2 ^ 24 ->
  increasing seq (map m_seq (snd (run_reports st seq fs))) /\
  seq <= fst (run_reports st seq fs) <= seq + N.of_nat (length fs).
Proof.
  induction fs as [|f rest IH]; intros seq Hb; cbn [run_reports length].
  - cbn. split; [exact I|lia].
  - change (2 ^ 24) with 16777216 in *. cbn [length] in Hb.
    assert (Hn : next_seq seq = seq + 1).
    { unfold next_seq. apply N.mod_small. lia. }
    assert (Hn24 : (seq + 1) mod 16777216 = seq + 1).
    { apply N.mod_small. lia. }
    destruct (hdr_cases st seq f) as [H|[H|(s & pid & _ & _ & H)]]; rewrite H; clear H;
      change (2 ^ 24) with 16777216 in *.
    + specialize (IH seq ltac:(lia)). destruct (run_reports st seq rest) as [seq2 outs].
      cbn [fst snd app] in *. split; [tauto|lia].
    + rewrite Hn. specialize (IH (seq + 1) ltac:(lia)). destruct (run_reports st (seq + 1) rest) as [seq2 outs].
      cbn [fst snd app] in *. destruct IH as [IH1 IH2]. split; [|lia].
      apply increasing_weaken with (lo := seq + 1); [lia|exact IH1].
    + rewrite Hn, Hn24. specialize (IH (seq + 1) ltac:(lia)).
      destruct (run_reports st (seq + 1) rest) as [seq2 outs].
      cbn [fst snd app map m_seq increasing] in *. destruct IH as [IH1 IH2]. split; [|lia].
      split; [lia|exact IH1].
Qed.

Lemma c13_seq_fresh st fs seq :
  seq + N.of_nat (length fs) < 2 ^ 24 ->
  NoDup (map m_seq (snd (run_reports st seq fs))) /\
  forall m, In m (snd (run_reports st seq fs)) -> seq < m_seq m.
Proof.
  intros Hb. destruct (c13_seq_increasing st fs seq Hb) as [H _].
  apply increasing_nodup in H. destruct H as [H1 H2]. split; [exact H1|].
  intros m Hm. apply H2. apply in_map. exact Hm.
Qed.

(* ------------------------------------------------------------------ the whole path *)

Definition proj (x : report * bool * list srr) : report * bool := fst x.

Lemma pipeline_trace I st : forall rs ns seq, map proj (pipeline_from I ns st seq rs) = trace_from I ns rs.
Proof.
  induction rs as [|r rest IH]; intros ns seq; [reflexivity|].
  cbn [pipeline_from trace_from]. destruct (should_notify I ns r) as [ns' [|]].
  - destruct (handle_digest_report st seq (r_fseid r)) as [seq' out]. cbn [map proj fst]. f_equal. apply IH.
  - cbn [map proj fst]. f_equal. apply IH.
Qed.

Lemma pipeline_msgs I st : forall rs ns seq x,
  In x (pipeline_from I ns st seq rs) ->
  (snd (fst x) = false -> snd x = []) /\ (length (snd x) <= 1)%nat /\
  (forall m, In m (snd x) -> exists s, get_session (r_fseid (fst (fst x))) st = Some s /\ m_seid m = s_remote s
                                       /\ m_report_type m = 1 /\ length (m_pdr_ids m) = 1%nat).
Proof.
  induction rs as [|r rest IH]; intros ns seq x; cbn [pipeline_from]; [intros []|].
  destruct (should_notify I ns r) as [ns' [|]].
  - destruct (handle_digest_report st seq (r_fseid r)) as [seq' out] eqn:E.
    intros [<-|Hin]; [|eapply IH; exact Hin]. cbn [fst snd].
    destruct (hdr_cases st seq (r_fseid r)) as [H|[H|(s & pid & Hs & _ & H)]];
      rewrite H in E; injection E as <- <-; cbn [length In].
    + split; [reflexivity|]. split; [lia|intros ? []].
    + split; [reflexivity|]. split; [lia|intros ? []].
    + split; [discriminate|]. split; [lia|]. intros m [<-|[]]. exists s. cbn. auto.
  - intros [<-|Hin]; [|eapply IH; exact Hin]. cbn [fst snd length In].
    split; [reflexivity|]. split; [lia|intros ? []].
Qed.

Lemma c13_messages_rate I st seq rs pp ri bi mi pm rj bj mj pq :
  timed_ok rs ->
  pipeline I st seq rs = pp ++ (ri, bi, mi) :: pm ++ (rj, bj, mj) :: pq ->
  r_fseid ri = r_fseid rj -> mi <> [] -> mj <> [] ->
  r_store ri + I <= r_check rj.
Proof.
  intros Ht H Hf Hi Hj.
  assert (Hbi : bi = true).
  { destruct bi; [reflexivity|]. exfalso. apply Hi.
    refine (proj1 (pipeline_msgs I st rs [] seq (ri, false, mi) _) eq_refl).
    unfold pipeline in H. rewrite H. apply in_or_app. right. left. reflexivity. }
  assert (Hbj : bj = true).
  { destruct bj; [reflexivity|]. exfalso. apply Hj.
    refine (proj1 (pipeline_msgs I st rs [] seq (rj, false, mj) _) eq_refl).
    unfold pipeline in H. rewrite H. apply in_or_app. right. right. apply in_or_app. right. left. reflexivity. }
  subst bi bj.
  apply (f_equal (map proj)) in H. unfold pipeline in H. rewrite pipeline_trace in H.
  rewrite map_app in H. cbn [map] in H. rewrite map_app in H. cbn [map proj fst] in H.
  exact (c13_rate I rs _ _ _ _ _ Ht H Hf).
Qed.
