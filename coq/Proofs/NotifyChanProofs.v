(* Proofs about Model/NotifyChan.v: conservation (nothing decided is lost, duplicated or reordered), the channel
   bound, progress (the blocked caller is never stuck for good) and completion under the round-robin schedule. *)
From Coq Require Import NArith List Bool String Arith Lia.
From UPF Require Import Model.NotifyChan Gen.NotifySkel_gen.
Import ListNotations.
Open Scope list_scope.

(* tie T1: the skeleton extracted from notifier.go on this run is the one the model describes *)
Lemma notify_skeleton_is_modelled : notifier_notify = notify_skel.
Proof. reflexivity. Qed.

Definition Inv (cap : nat) (s : st) : Prop :=
  decided s = consumed s ++ q s ++ opt_list (pend s) /\ List.length (q s) <= cap.

Lemma inv_init : forall cap rs, Inv cap (init rs).
Proof. intros. split; cbn; [reflexivity|lia]. Qed.

Lemma inv_step : forall cap s a, Inv cap s -> Inv cap (step cap s a).
Proof.
  intros cap s a H. pose proof H as [Hc Hb]. destruct a; unfold step.
  - destruct (pend s) eqn:Hp; [exact H|].
    destruct (todo s) as [|f rest]; [exact H|].
    destruct (memN f (seen s)); split; cbn [decided consumed q pend opt_list]; try assumption;
      rewrite Hc; cbn [opt_list]; rewrite ?app_nil_r, <- ?app_assoc; reflexivity.
  - destruct (pend s) as [v|] eqn:Hp; [|exact H].
    destruct (Nat.ltb_spec (List.length (q s)) cap) as [Hlt|Hge]; [|exact H].
    split; cbn [decided consumed q pend opt_list].
    + rewrite Hc. cbn [opt_list]. rewrite app_nil_r. reflexivity.
    + rewrite app_length. cbn. lia.
  - destruct (q s) as [|v r] eqn:Hq; [exact H|].
    split; cbn [decided consumed q pend opt_list].
    + rewrite Hc. rewrite <- !app_assoc. reflexivity.
    + cbn in Hb. lia.
Qed.

Theorem inv_run : forall cap sched s, Inv cap s -> Inv cap (run cap s sched).
Proof.
  intros cap sched. unfold run. induction sched as [|a sched IH]; intros s H; cbn [fold_left]; [exact H|].
  apply IH, inv_step, H.
Qed.

(* the reader only ever receives what was decided, in the order it was decided *)
Corollary consumed_prefix : forall cap rs sched,
  exists rest, decided (run cap (init rs) sched) = consumed (run cap (init rs) sched) ++ rest.
Proof.
  intros. destruct (inv_run cap sched (init rs) (inv_init cap rs)) as [H _]. eexists. exact H.
Qed.

(* when the channel is empty and the caller is not inside the send, everything decided has been received *)
Corollary quiescent_all_received : forall cap rs sched,
  q (run cap (init rs) sched) = [] -> pend (run cap (init rs) sched) = None ->
  consumed (run cap (init rs) sched) = decided (run cap (init rs) sched).
Proof.
  intros cap rs sched Hq Hp. destruct (inv_run cap sched (init rs) (inv_init cap rs)) as [H _].
  rewrite H, Hq, Hp. cbn. rewrite app_nil_r. reflexivity.
Qed.

(* progress: with room for at least one value, a caller inside the send can always be released by the reader *)
Lemma blocked_caller_progress : forall cap s v, 0 < cap -> pend s = Some v ->
  step cap s ASend <> s \/ step cap s ARecv <> s.
Proof.
  intros cap s v Hcap Hp. destruct (Nat.ltb_spec (List.length (q s)) cap) as [Hlt|Hge].
  - left. unfold step. rewrite Hp. destruct (Nat.ltb_spec (List.length (q s)) cap); [|lia].
    intros E. apply (f_equal pend) in E. cbn in E. rewrite Hp in E. discriminate.
  - right. unfold step. destruct (q s) as [|x r] eqn:Hq; [cbn in Hge; lia|].
    intros E. apply (f_equal q) in E. cbn in E. rewrite Hq in E.
    apply (f_equal (@List.length N)) in E. cbn in E. lia.
Qed.

(* what gets decided: the decision does not look at the channel.  A report of a session with no forwarded report
   in the interval is decided (never suppressed because the queue is full) *)
Lemma first_report_decided : forall cap s f rest, pend s = None -> todo s = f :: rest -> memN f (seen s) = false ->
  In f (decided (step cap s ACall)) /\ pend (step cap s ACall) = Some f.
Proof.
  intros cap s f rest Hp Ht Hs. unfold step. rewrite Hp, Ht, Hs. cbn. split; [apply in_or_app; right; left|]; reflexivity.
Qed.

(* every session that reports is decided at the latest when its report is taken: J is inductive *)
Definition J (rs : list N) (s : st) : Prop :=
  (forall f, memN f (seen s) = true -> In f (decided s)) /\
  (forall f, In f rs -> In f (todo s) \/ In f (decided s)).

Lemma memN_cons : forall f g l, memN f (g :: l) = (N.eqb f g || memN f l)%bool.
Proof. reflexivity. Qed.

Lemma J_init : forall rs, J rs (init rs).
Proof. intros rs. split; cbn; [discriminate|intros f H; left; exact H]. Qed.

Lemma J_step : forall cap rs s a, J rs s -> J rs (step cap s a).
Proof.
  intros cap rs s a [Hs Hr]. destruct a; unfold step.
  - destruct (pend s); [split; assumption|]. destruct (todo s) as [|f rest] eqn:Ht; [split; [assumption|rewrite Ht; exact Hr]|].
    destruct (memN f (seen s)) eqn:Hm; split; cbn [seen decided todo].
    + exact Hs.
    + intros g Hg. destruct (Hr g Hg) as [[<-|H]|H]; [right; apply Hs, Hm|left; exact H|right; exact H].
    + intros g Hg. rewrite memN_cons in Hg. apply orb_true_iff in Hg. apply in_or_app. destruct Hg as [Hg|Hg].
      * apply N.eqb_eq in Hg. subst g. right. left. reflexivity.
      * left. apply Hs, Hg.
    + intros g Hg. destruct (Hr g Hg) as [[<-|H]|H].
      * right. apply in_or_app. right. left. reflexivity.
      * left. exact H.
      * right. apply in_or_app. left. exact H.
  - destruct (pend s); [|split; assumption]. destruct (Nat.ltb (List.length (q s)) cap); split; assumption.
  - destruct (q s); split; assumption.
Qed.

Lemma J_run : forall cap rs sched s, J rs s -> J rs (run cap s sched).
Proof.
  intros cap rs sched. unfold run. induction sched as [|a sched IH]; intros s H; cbn [fold_left]; [exact H|].
  apply IH, J_step, H.
Qed.

(* whatever the schedule: once all reports have been made, the channel is empty and the caller is outside the send,
   the reader has received a report of EVERY session that reported *)
Theorem all_sessions_received : forall cap rs sched f,
  todo (run cap (init rs) sched) = [] -> q (run cap (init rs) sched) = [] -> pend (run cap (init rs) sched) = None ->
  In f rs -> In f (consumed (run cap (init rs) sched)).
Proof.
  intros cap rs sched f Ht Hq Hp Hf.
  rewrite (quiescent_all_received cap rs sched Hq Hp).
  destruct (J_run cap rs sched (init rs) (J_init rs)) as [_ Hr].
  destruct (Hr f Hf) as [H|H]; [rewrite Ht in H; destruct H|exact H].
Qed.

(* and such a quiescent end is reached: the round-robin schedule finishes any report list through a channel of any
   positive capacity (completion: the full-queue case costs time, not reports) *)
Lemma round_robin_one : forall cap s, 0 < cap -> pend s = None -> q s = [] ->
  let s' := run cap s [ACall; ASend; ARecv] in pend s' = None /\ q s' = [] /\ todo s' = tl (todo s).
Proof.
  intros cap [td sn dc pd qq cs] Hcap Hp Hq. cbn in Hp, Hq. subst pd qq.
  destruct cap as [|cap]; [lia|].
  destruct td as [|f rest]; [cbn; auto|].
  unfold run, step, memN. cbn. destruct (existsb (N.eqb f) sn); cbn; auto.
Qed.

Lemma run_app : forall cap s l1 l2, run cap s (l1 ++ l2) = run cap (run cap s l1) l2.
Proof. intros. unfold run. apply fold_left_app. Qed.

Lemma round_robin : forall cap n s, 0 < cap -> pend s = None -> q s = [] ->
  let s' := run cap s (drain_sched n) in pend s' = None /\ q s' = [] /\ todo s' = skipn n (todo s).
Proof.
  intros cap n. induction n as [|n IH]; intros s Hcap Hp Hq; cbn [drain_sched].
  - cbn. auto.
  - rewrite run_app. destruct (round_robin_one cap s Hcap Hp Hq) as [Hp1 [Hq1 Ht1]].
    destruct (IH _ Hcap Hp1 Hq1) as [Hp2 [Hq2 Ht2]]. cbv zeta. repeat split; try assumption.
    rewrite Ht2, Ht1. destruct (todo s); [destruct n; reflexivity|reflexivity].
Qed.

Theorem round_robin_completes : forall cap rs f, 0 < cap -> In f rs ->
  In f (consumed (run cap (init rs) (drain_sched (List.length rs)))).
Proof.
  intros cap rs f Hcap Hf.
  destruct (round_robin cap (List.length rs) (init rs) Hcap eq_refl eq_refl) as [Hp [Hq Ht]].
  apply all_sessions_received; try assumption.
  rewrite Ht. cbn. apply skipn_all.
Qed.
