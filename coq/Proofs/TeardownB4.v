(* C10 - instances decided by computation: Stop with one association, alone and racing every other trigger *)
From Coq Require Import NArith String List Bool Arith.
From UPF Require Import Base.LTS Model.Teardown Proofs.TeardownBounded.
Import ListNotations.
Open Scope N_scope.

Definition cfg5 : list acfg := [ACfg [7; 8] true None].
Definition ev5a : list env := [EStop].
Definition ev5b : list env := [rel 0; EStop].
Definition ev5c : list env := [ETimeout 0; EStop].
Definition ev5d : list env := [EHbFail 0; EStop].
Lemma inst5a_ok : instance_ok fuel_1m cfg5 ev5a = true. Proof. vm_compute. reflexivity. Qed.
Lemma inst5b_ok : instance_ok fuel_1m cfg5 ev5b = true. Proof. vm_compute. reflexivity. Qed.
Lemma inst5c_ok : instance_ok fuel_1m cfg5 ev5c = true. Proof. vm_compute. reflexivity. Qed.
Lemma inst5d_ok : instance_ok fuel_1m cfg5 ev5d = true. Proof. vm_compute. reflexivity. Qed.
Lemma inst5b_terminates : level 41 (init cfg5 ev5b) = [].
Proof. vm_compute. reflexivity. Qed.

(* Stop while a new peer is being accepted: first datagram a release / a setup *)
Definition cfg6 : list acfg := [ACfg [7] false (Some DRelease)].
Definition cfg7 : list acfg := [ACfg [7] true (Some DSetup)].
Lemma inst6_ok : instance_ok fuel_1m cfg6 [EStop] = true. Proof. vm_compute. reflexivity. Qed.
Lemma inst7_ok : instance_ok fuel_1m cfg7 [EStop] = true. Proof. vm_compute. reflexivity. Qed.
