(* C16: the constant generator is deterministic (its output does not depend on the order in which Go iterates
   its maps), and the committed constants are those derived from the shipped P4Info. *)
From Coq Require Import Arith PeanoNat NArith List String Ascii Bool Lia ZifyN ZifyNat ZifyBool Permutation Sorted.
From UPF Require Import Model.P4Info Model.P4Gen Gen.P4Info_gen Gen.P4Const_gen.
Import ListNotations.
Open Scope list_scope.
Open Scope N_scope.

(* ------------------------------------------------------------------ the byte-wise string order *)
Lemma N_of_ascii_inj a b : N_of_ascii a = N_of_ascii b -> a = b.
Proof. intros H. rewrite <- (ascii_N_embedding a), <- (ascii_N_embedding b). now rewrite H. Qed.

Lemma str_leb_total a b : str_leb a b = true \/ str_leb b a = true.
Proof.
  revert b. induction a as [|x a IH]; intros [|y b]; cbn; auto.
  destruct (N.ltb_spec (N_of_ascii x) (N_of_ascii y)); auto.
  destruct (N.ltb_spec (N_of_ascii y) (N_of_ascii x)); auto.
  assert (E : N_of_ascii x = N_of_ascii y) by lia.
  rewrite E, N.eqb_refl. apply IH.
Qed.

Lemma str_leb_antisym a b : str_leb a b = true -> str_leb b a = true -> a = b.
Proof.
  revert b. induction a as [|x a IH]; intros [|y b]; cbn; try discriminate; auto.
  destruct (N.ltb_spec (N_of_ascii x) (N_of_ascii y)); destruct (N.ltb_spec (N_of_ascii y) (N_of_ascii x)); try lia.
  - destruct (N.eqb_spec (N_of_ascii y) (N_of_ascii x)); [lia|discriminate].
  - destruct (N.eqb_spec (N_of_ascii x) (N_of_ascii y)); [lia|discriminate].
  - destruct (N.eqb_spec (N_of_ascii x) (N_of_ascii y)) as [E|]; [|discriminate].
    rewrite E, N.eqb_refl. intros H1 H2. apply N_of_ascii_inj in E. subst y. f_equal. now apply IH.
Qed.

Lemma str_leb_trans a b c : str_leb a b = true -> str_leb b c = true -> str_leb a c = true.
Proof.
  revert b c. induction a as [|x a IH]; intros [|y b] [|z c]; cbn; try discriminate; auto.
  destruct (N.ltb_spec (N_of_ascii x) (N_of_ascii y)); destruct (N.ltb_spec (N_of_ascii y) (N_of_ascii z));
    destruct (N.ltb_spec (N_of_ascii x) (N_of_ascii z)); auto; try lia;
    destruct (N.eqb_spec (N_of_ascii x) (N_of_ascii y)); destruct (N.eqb_spec (N_of_ascii y) (N_of_ascii z));
    destruct (N.eqb_spec (N_of_ascii x) (N_of_ascii z)); try discriminate; try lia; auto.
  apply IH.
Qed.

Definition le (a b : string) : Prop := str_leb a b = true.

(* ------------------------------------------------------------------ insertion sort: a sorted permutation *)
Lemma insert_perm x l : Permutation (x :: l) (insert x l).
Proof.
  induction l as [|y l IH]; cbn; [reflexivity|].
  destruct (str_leb x y); [reflexivity|]. rewrite perm_swap. now constructor.
Qed.
Lemma sort_perm l : Permutation l (sort l).
Proof. induction l as [|x l IH]; cbn; [constructor|]. rewrite <- insert_perm. now constructor. Qed.

Lemma insert_sorted x l : StronglySorted le l -> StronglySorted le (insert x l).
Proof.
  induction l as [|y l IH]; intros H; cbn.
  - repeat constructor.
  - inversion H as [|? ? Hs Hf]; subst. destruct (str_leb x y) eqn:E.
    + constructor; [assumption|]. constructor; [exact E|].
      eapply Forall_impl; [|exact Hf]. intros z Hz. eapply str_leb_trans; eassumption.
    + constructor; [now apply IH|].
      assert (Hyx : le y x) by (destruct (str_leb_total x y) as [C|C]; [congruence|exact C]).
      eapply Permutation_Forall; [apply insert_perm|]. constructor; assumption.
Qed.
Lemma sort_sorted l : StronglySorted le (sort l).
Proof. induction l; cbn; [constructor|now apply insert_sorted]. Qed.

(* a sorted list is determined by its multiset *)
Lemma sorted_unique l1 l2 : StronglySorted le l1 -> StronglySorted le l2 -> Permutation l1 l2 -> l1 = l2.
Proof.
  revert l2. induction l1 as [|x l1 IH]; intros l2 H1 H2 P.
  - apply Permutation_nil in P. now subst.
  - destruct l2 as [|y l2]; [apply Permutation_sym, Permutation_nil in P; discriminate|].
    inversion H1 as [|? ? S1 F1]; inversion H2 as [|? ? S2 F2]; subst.
    assert (x = y).
    { assert (Hx : In x (y :: l2)) by (eapply Permutation_in; [exact P|now left]).
      assert (Hy : In y (x :: l1)) by (eapply Permutation_in; [apply Permutation_sym; exact P|now left]).
      destruct Hx as [->|Hx]; [reflexivity|]. destruct Hy as [->|Hy]; [reflexivity|].
      rewrite Forall_forall in F1, F2. apply str_leb_antisym; [now apply F1|now apply F2]. }
    subst y. f_equal. apply IH; try assumption. now apply Permutation_cons_inv with x.
Qed.

Lemma sort_permutation_invariant l1 l2 : Permutation l1 l2 -> sort l1 = sort l2.
Proof.
  intros P. apply sorted_unique; try apply sort_sorted.
  rewrite <- (sort_perm l1), <- (sort_perm l2). exact P.
Qed.

(* ------------------------------------------------------------------ Go map lookups do not depend on iteration order *)
Lemma assoc_in {V} k (v : V) m : NoDup (map fst m) -> In (k, v) m -> assoc k m = Some v.
Proof.
  induction m as [|[k' v'] m IH]; cbn; [tauto|]. intros ND [E|Hin].
  - inversion E; subst. now rewrite String.eqb_refl.
  - inversion ND as [|? ? Hn ND']; subst. destruct (String.eqb_spec k k') as [->|_].
    + exfalso. apply Hn. change k' with (fst (k', v)). now apply in_map.
    + now apply IH.
Qed.
Lemma assoc_none {V} k (m : list (string * V)) : ~ In k (map fst m) -> assoc k m = None.
Proof.
  induction m as [|[k' v'] m IH]; cbn; [reflexivity|]. intros H.
  destruct (String.eqb_spec k k') as [->|_]; [tauto|]. apply IH. tauto.
Qed.
Lemma assoc_perm {V} k (m1 m2 : list (string * V)) :
  NoDup (map fst m1) -> Permutation m1 m2 -> assoc k m1 = assoc k m2.
Proof.
  intros ND P.
  assert (ND2 : NoDup (map fst m2)) by (eapply Permutation_NoDup; [apply Permutation_map; exact P|exact ND]).
  destruct (assoc k m1) as [v|] eqn:E.
  - symmetry. apply assoc_in; [exact ND2|]. eapply Permutation_in; [exact P|].
    clear -E. induction m1 as [|[k' v'] m1 IH]; cbn in *; [discriminate|].
    destruct (String.eqb_spec k k') as [->|_]; [inversion E; now left|right; now apply IH].
  - symmetry. apply assoc_none. intros Hin.
    assert (Hin1 : In k (map fst m1)) by (eapply Permutation_in; [apply Permutation_sym, Permutation_map; exact P|exact Hin]).
    clear -E Hin1. induction m1 as [|[k' v'] m1 IH]; cbn in *; [tauto|].
    destruct (String.eqb_spec k k') as [->|Hne]; [discriminate|]. destruct Hin1 as [->|H]; [tauto|now apply IH].
Qed.

Lemma sorted_section_invariant kind m1 m2 :
  NoDup (map fst m1) -> Permutation m1 m2 -> sorted_section kind m1 = sorted_section kind m2.
Proof.
  intros ND P. unfold sorted_section.
  rewrite (sort_permutation_invariant (map fst m1) (map fst m2)) by (now apply Permutation_map).
  apply map_ext. intros k. now rewrite (assoc_perm k m1 m2).
Qed.

Lemma enum_section_invariant e1 e2 :
  NoDup (map e_name e1) -> Permutation e1 e2 -> enum_section e1 = enum_section e2.
Proof.
  intros ND P. unfold enum_section.
  set (m1 := map (fun e => (e_name e, e)) e1). set (m2 := map (fun e => (e_name e, e)) e2).
  assert (Pm : Permutation m1 m2) by (now apply Permutation_map).
  assert (NDm : NoDup (map fst m1)) by (subst m1; rewrite map_map; exact ND).
  rewrite (sort_permutation_invariant (map fst m1) (map fst m2)) by (now apply Permutation_map).
  apply flat_map_ext. intros k. now rewrite (assoc_perm k m1 m2).
Qed.

(* the Go maps hold each key once *)
Lemma upsert_keys {V} k (v : V) m : NoDup (map fst m) -> NoDup (map fst (upsert k v m)).
Proof.
  induction m as [|[k' v'] m IH]; cbn; intros ND.
  - repeat constructor. tauto.
  - inversion ND as [|? ? Hn ND']; subst. destruct (String.eqb_spec k k') as [->|Hne]; cbn; [constructor; assumption|].
    constructor; [|now apply IH].
    intros Hin. apply Hn. clear -Hin Hne. induction m as [|[k2 v2] m IH]; cbn in *.
    + destruct Hin as [E|[]]. congruence.
    + destruct (String.eqb_spec k k2) as [->|]; cbn in Hin; [destruct Hin as [E|H]; [congruence|now right]|].
      destruct Hin as [E|H]; [now left|right; now apply IH].
Qed.
Lemma fold_upsert_keys {A V} (key : A -> string) (val : A -> V) l m :
  NoDup (map fst m) -> NoDup (map fst (fold_left (fun m x => upsert (key x) (val x) m) l m)).
Proof. revert m. induction l as [|x l IH]; cbn; intros m ND; [exact ND|]. apply IH. now apply upsert_keys. Qed.
Lemma fold2_upsert_keys {A B V} (sub : A -> list B) (key : B -> string) (val : B -> V) l m :
  NoDup (map fst m) ->
  NoDup (map fst (fold_left (fun m t => fold_left (fun m x => upsert (key x) (val x) m) (sub t) m) l m)).
Proof. revert m. induction l as [|t l IH]; cbn; intros m ND; [exact ND|]. apply IH. now apply fold_upsert_keys. Qed.
Lemma mf_map_keys i : NoDup (map fst (mf_map i)).
Proof. unfold mf_map. apply (fold2_upsert_keys t_fields mf_name mf_width). constructor. Qed.
Lemma ap_map_keys i : NoDup (map fst (ap_map i)).
Proof. unfold ap_map. apply (fold2_upsert_keys a_params p_name p_width). constructor. Qed.

(* ------------------------------------------------------------------ determinism *)
(* for every P4Info whose enum map has unique keys (a protobuf map) and any two orders in which the Go runtime
   may iterate the three maps, the generator emits the same thing *)
Theorem generator_deterministic i mf1 ap1 en1 mf2 ap2 en2 :
  NoDup (map e_name (i_enums i)) ->
  Permutation (mf_map i) mf1 -> Permutation (mf_map i) mf2 ->
  Permutation (ap_map i) ap1 -> Permutation (ap_map i) ap2 ->
  Permutation (i_enums i) en1 -> Permutation (i_enums i) en2 ->
  generate i mf1 ap1 en1 = generate i mf2 ap2 en2.
Proof.
  intros NDe M1 M2 A1 A2 E1 E2. unfold generate. f_equal. unfold gen_consts.
  rewrite <- (sorted_section_invariant "BitwidthMf" (mf_map i) mf1), <- (sorted_section_invariant "BitwidthMf" (mf_map i) mf2)
    by (try apply mf_map_keys; assumption).
  rewrite <- (sorted_section_invariant "BitwidthAp" (ap_map i) ap1), <- (sorted_section_invariant "BitwidthAp" (ap_map i) ap2)
    by (try apply ap_map_keys; assumption).
  rewrite <- (enum_section_invariant (i_enums i) en1), <- (enum_section_invariant (i_enums i) en2) by assumption.
  reflexivity.
Qed.

Lemma shipped_enum_keys_unique : NoDup (map e_name (i_enums P4Info_gen.info)).
Proof. vm_compute. repeat constructor; cbn; intuition discriminate. Qed.

(* ------------------------------------------------------------------ committed constants = derived constants *)
Lemma const_eqb_eq a b : const_eqb a b = true <-> a = b.
Proof.
  destruct a as [[k1 n1] v1], b as [[k2 n2] v2]. unfold const_eqb. cbn [fst snd].
  rewrite !andb_true_iff, !String.eqb_eq, N.eqb_eq. split; [intros [[-> ->] ->]; reflexivity|intros E; inversion E; auto].
Qed.
Definition const_dec (a b : const) : {a = b} + {a <> b}.
Proof. destruct (const_eqb a b) eqn:E; [left; now apply const_eqb_eq|right; intros H; apply const_eqb_eq in H; congruence]. Defined.

Lemma count_count_occ x l : count x l = count_occ const_dec l x.
Proof.
  unfold count. induction l as [|y l IH]; cbn; [reflexivity|].
  destruct (const_dec y x) as [->|Hne].
  - replace (const_eqb x x) with true by (symmetry; now apply const_eqb_eq). cbn. now rewrite IH.
  - destruct (const_eqb x y) eqn:E; [apply const_eqb_eq in E; congruence|exact IH].
Qed.

Lemma same_consts_perm l1 l2 : same_consts l1 l2 = true -> Permutation l1 l2.
Proof.
  intros H. apply (Permutation_count_occ const_dec). intros x.
  unfold same_consts in H. rewrite forallb_forall in H.
  destruct (in_dec const_dec x (l1 ++ l2)) as [Hin|Hn].
  - specialize (H x Hin). apply Nat.eqb_eq in H. now rewrite <- !count_count_occ.
  - assert (~ In x l1 /\ ~ In x l2) as [N1 N2] by (split; intros C; apply Hn; apply in_or_app; tauto).
    apply (count_occ_not_In const_dec) in N1. apply (count_occ_not_In const_dec) in N2. congruence.
Qed.

Definition maps_eqb (a b : list (string * list (N * string))) : bool :=
  list_eqb (fun x y => String.eqb (fst x) (fst y) && list_eqb pair_eqb (snd x) (snd y)) a b.
Definition lists_eqb (a b : list (string * list N)) : bool :=
  list_eqb (fun x y => String.eqb (fst x) (fst y) && list_eqb N.eqb (snd x) (snd y)) a b.

Lemma list_eqb_eq {A} (eq : A -> A -> bool) (Heq : forall a b, eq a b = true -> a = b) x y :
  list_eqb eq x y = true -> x = y.
Proof.
  revert y. induction x as [|a x IH]; intros [|b y]; cbn; try discriminate; auto.
  intros H. apply andb_true_iff in H. destruct H as [H1 H2]. f_equal; [now apply Heq|now apply IH].
Qed.
Lemma maps_eqb_eq a b : maps_eqb a b = true -> a = b.
Proof.
  apply list_eqb_eq. intros [k1 l1] [k2 l2]. cbn [fst snd]. rewrite andb_true_iff, String.eqb_eq. intros [-> H]. f_equal.
  revert H. apply list_eqb_eq. intros [i1 n1] [i2 n2]. unfold pair_eqb. cbn [fst snd].
  rewrite andb_true_iff, N.eqb_eq, String.eqb_eq. now intros [-> ->].
Qed.
Lemma lists_eqb_eq a b : lists_eqb a b = true -> a = b.
Proof.
  apply list_eqb_eq. intros [k1 l1] [k2 l2]. cbn [fst snd]. rewrite andb_true_iff, String.eqb_eq. intros [-> H]. f_equal.
  revert H. apply list_eqb_eq. intros x y. apply N.eqb_eq.
Qed.

(* the committed file against the shipped P4Info: constants as multisets of (kind, name modulo spelling, value),
   the id -> name maps and the id lists literally *)
Theorem constants_match_p4info :
  Permutation (map norm_const (go_consts (derive_constants P4Info_gen.info))) (map norm_const P4Const_gen.consts)
  /\ go_maps (derive_constants P4Info_gen.info) = P4Const_gen.id_maps
  /\ go_lists (derive_constants P4Info_gen.info) = P4Const_gen.id_lists.
Proof.
  split; [apply same_consts_perm; vm_compute; reflexivity|].
  split; [apply maps_eqb_eq; vm_compute; reflexivity|apply lists_eqb_eq; vm_compute; reflexivity].
Qed.

(* the normalised names identify the constants: no two constants of one kind collapse under norm_name *)
Definition key_eqb (a b : string * string) : bool := String.eqb (fst a) (fst b) && String.eqb (snd a) (snd b).
Fixpoint nodup_keys (l : list (string * string)) : bool :=
  match l with [] => true | x :: r => negb (existsb (key_eqb x) r) && nodup_keys r end.
Lemma nodup_keys_sound l : nodup_keys l = true -> NoDup l.
Proof.
  induction l as [|x l IH]; cbn; [constructor|]. intros H. apply andb_true_iff in H. destruct H as [H1 H2].
  constructor; [|now apply IH]. intros Hin. apply negb_true_iff in H1.
  assert (E : existsb (key_eqb x) l = true).
  { apply existsb_exists. exists x. split; [exact Hin|]. unfold key_eqb. now rewrite !String.eqb_refl. }
  congruence.
Qed.
Lemma committed_names_distinct : NoDup (map (fun c => (fst (fst c), norm_name (snd (fst c)))) P4Const_gen.consts).
Proof. apply nodup_keys_sound. vm_compute. reflexivity. Qed.
