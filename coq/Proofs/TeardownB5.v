(* C10 - instances decided by computation: Stop with two associations *)
From Coq Require Import NArith String List Bool Arith.
From UPF Require Import Base.LTS Model.Teardown Proofs.TeardownBounded.
Import ListNotations.
Open Scope N_scope.
Definition ev8 : list env := [EStop].
Lemma inst8_ok : instance_ok fuel_1m cfg4 ev8 = true. Proof. vm_compute. reflexivity. Qed.
(* one established association and one peer that is being accepted when the agent is stopped *)
Definition cfg9 : list acfg := [ACfg [1] false None; ACfg [] false (Some DSetup)].
Lemma inst9_ok : instance_ok fuel_1m cfg9 ev8 = true. Proof. vm_compute. reflexivity. Qed.
