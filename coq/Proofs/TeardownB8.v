(* C10 - instances decided by computation: session requests in flight (a Session Deletion Request for a live session and
   a Session Establishment Request) racing every way an association ends *)
From Coq Require Import NArith String List Bool Arith.
From UPF Require Import Base.LTS Model.Teardown Proofs.TeardownBounded.
Import ListNotations.
Open Scope N_scope.

Definition cfg11 : list acfg := [ACfg [7; 8] true None].
Definition inflight : list env := [EDeliver 0 (DDelete 7); EDeliver 0 (DEstablish 9)].
Definition ev11a : list env := inflight ++ [EStop].
Definition ev11b : list env := inflight ++ [EHbFail 0].
Definition ev11c : list env := rel 0 :: inflight.
Definition ev11d : list env := inflight ++ [ETimeout 0].
Lemma inst11a_ok : instance_ok fuel_1m cfg11 ev11a = true. Proof. vm_compute. reflexivity. Qed.
Lemma inst11b_ok : instance_ok fuel_1m cfg11 ev11b = true. Proof. vm_compute. reflexivity. Qed.
Lemma inst11c_ok : instance_ok fuel_1m cfg11 ev11c = true. Proof. vm_compute. reflexivity. Qed.
Lemma inst11d_ok : instance_ok fuel_1m cfg11 ev11d = true. Proof. vm_compute. reflexivity. Qed.
Lemma inst11a_terminates : level 45 (init cfg11 ev11a) = [].
Proof. vm_compute. reflexivity. Qed.
