(* C02 - every request gets exactly one correctly addressed response.  Statements only. *)
From Coq Require Import NArith List Bool.
From UPF Require Import Model.IPPool Model.Fteid Model.PortRange Model.Agent Proofs.AgentProofs.
Import ListNotations.
Open Scope N_scope.

(* one reply at most (the output carries an [option reply]); each request type is answered by its own
   response type; an Association Setup Request lacking a readable Node ID / Recovery Time Stamp is
   dropped; response-type and unsupported messages are never answered *)
Theorem C02_one_response_of_matching_type : forall burst a c connected m draws a' c' o,
  handle burst a c connected m draws = Done (a', c', o) -> reply_matches m (o_reply o).
Proof. exact handle_reply_matches. Qed.
Print Assumptions C02_one_response_of_matching_type.

(* the reply echoes the request's sequence number - for every 24-bit (indeed every) sequence number *)
Theorem C02_same_sequence_number : forall burst a c connected d draws a' c' o rs,
  handle_datagram burst a c connected d draws = Done (a', c', o, rs) ->
  rs = match o_reply o with Some _ => Some (d_seq d) | None => None end.
Proof.
  intros burst a c connected d draws a' c' o rs H. unfold handle_datagram in H.
  destruct (handle burst a c connected (d_msg d) draws) as [[[a1 c1] o1]|]; [|discriminate].
  inversion H; subst; reflexivity.
Qed.
Print Assumptions C02_same_sequence_number.

(* accepted establishment: Node ID present, UP F-SEID = a non-zero draw that no live session of the
   association uses; the session is stored under it (so later requests addressed to it find it) with
   the control plane's SEID, which is the SEID of the response header; one Created PDR per UP-chosen
   F-TEID and per UPF-allocated UE address of the stored PDRs *)
Theorem C02_accepted_establishment : forall burst a c nid cpf pdrs fars qers draws a' c' rseid n up cr cmds ms sd,
  handle_est burst a c nid cpf pdrs fars qers draws = Done (a', c', Out (Some (REst rseid CAUSE_OK n up cr)) cmds ms sd) ->
  exists l s, up = Some l /\ l <> 0 /\ In l draws /\ ~ In l (map s_lseid (c_sessions c)) /\
              find_session l (c_sessions c') = Some s /\ s_lseid s = l /\ s_rseid s = rseid /\
              cr = created_of (view (s_pdrs s)) /\ n = true /\ ms = [] /\ sd = false /\
              a_gauge a' = a_gauge a + 1 /\ (exists v4, cpf = Some (IOk (rseid, v4))).
Proof. exact est_accepted. Qed.
Print Assumptions C02_accepted_establishment.

(* establishment is refused (no resources) exactly when the first 100 draws are all zero or in use *)
Theorem C02_seid_refused_iff : forall draws stored, (SEID_RETRIES <= length draws)%nat ->
  (pick_seid SEID_RETRIES draws stored = None <-> forall d, In d (firstn SEID_RETRIES draws) -> d = 0 \/ mem_n d stored = true).
Proof. intros; apply pick_seid_none_iff; assumption. Qed.
Print Assumptions C02_seid_refused_iff.

(* accepted modification / deletion carry the control plane's SEID of that session *)
Theorem C02_accepted_modification_seid : forall burst a c seid cpf cp cf cq up uf uq rp rf rq a' c' o r,
  handle_mod burst a c seid cpf cp cf cq up uf uq rp rf rq = Done (a', c', o) -> o_reply o = Some (RMod r CAUSE_OK) ->
  exists s, find_session seid (c_sessions c') = Some s /\ s_rseid s = r /\ a_gauge a' = a_gauge a.
Proof. exact mod_accepted_seid. Qed.
Print Assumptions C02_accepted_modification_seid.

Theorem C02_accepted_deletion_seid : forall a c seid s a' c' o,
  find_session seid (c_sessions c) = Some s -> handle_del a c seid = (a', c', o) ->
  (exists r, o_reply o = Some (RDel r CAUSE_OK)) -> o_reply o = Some (RDel (s_rseid s) CAUSE_OK).
Proof. intros a c seid s a' c' o Hf H Hr. exact (proj2 (proj2 (proj2 (handle_del_accepted a c seid s a' c' o Hf H Hr)))). Qed.
Print Assumptions C02_accepted_deletion_seid.

(* requests naming an unknown session: rejection cause, SEID zero, nothing changes *)
Theorem C02_unknown_session_modification : forall burst a c seid cpf cp cf cq up uf uq rp rf rq,
  find_session seid (c_sessions c) = None ->
  handle_mod burst a c seid cpf cp cf cq up uf uq rp rf rq = Done (a, c, just (RMod 0 CAUSE_REJ)).
Proof. exact mod_unknown. Qed.
Print Assumptions C02_unknown_session_modification.

Theorem C02_unknown_session_deletion : forall a c seid,
  find_session seid (c_sessions c) = None -> handle_del a c seid = (a, c, just (RDel 0 CAUSE_REJ)).
Proof. exact del_unknown. Qed.
Print Assumptions C02_unknown_session_deletion.

(* non-vacuity: establishment with a CHOOSE F-TEID on an associated connection, adversarial draws 0,0,5 *)
Example C02_nonvacuous :
  let a := Agent (Cfg 100 200 true) None (Gen 0 []) 0 no_tables in
  let pdr := PdrIE (IOk 1) (IOk 10) (IOk [PSrc (IOk 0); PFteid (IOk (true, 0, None))]) true (IOk 1) true [] in
  exists a' c', handle (fun _ _ _ => 0) a (Conn 7 [] [] 0) true (MEst (Some (IOk 7)) (Some (IOk (77, Some 3))) [pdr] [] []) [0; 0; 5]
                = Done (a', c', Out (Some (REst 77 CAUSE_OK true (Some 5) [CTeid 1 1 100]))
                                    [Cmd MPdr true [1; 100; 1; 0; 0; 0; 0; 0; 255; 4294967295; 4294967295; 0; 0; 0; 0; 0] [1; 4294967285; 1; 5; 0; 0; 1]] [] false).
Proof. eexists; eexists; vm_compute; reflexivity. Qed.
