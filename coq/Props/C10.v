(* C10 - associations end cleanly and the agent always stops.  Statements only.

   System: Model/Teardown.v (the code after the repairs 520435c, 77b0dce, 66b822f).  `init cfg ev` = the agent
   with the associations `cfg` (each with its session list, heartbeat monitor on/off, already established or
   arriving with a first datagram) and the pending environment events `ev` (datagrams, read timeouts, heartbeat
   failures, the stop signal); a schedule is a list of thread ids (with the select alternative taken) and
   environment firings; `run` skips what is not enabled, so the theorems quantify over EVERY interleaving of every
   trigger - Stop included - with every other one. *)
From Coq Require Import NArith String List Bool Arith Permutation.
From UPF Require Import Base.LTS Model.Teardown Proofs.TeardownInv Proofs.TeardownProofs Proofs.TeardownStop
  Proofs.TeardownForget Proofs.TeardownLive Proofs.TeardownBounded
  Proofs.TeardownB1 Proofs.TeardownB2 Proofs.TeardownB3 Proofs.TeardownB4 Proofs.TeardownB5 Proofs.TeardownB6
  Proofs.TeardownB7 Proofs.TeardownB8.
Import ListNotations.
Open Scope nat_scope.

(* ------------------------------------------------------------------ full statements: every n, every configuration,
   every set of triggers INCLUDING Stop, every schedule *)

(* no panic: no channel is closed twice, and nobody sends on pConnDone after the node has closed it *)
Theorem C10_safe : forall cfg ev sch, s_panic (run (init cfg ev) sch) = None.
Proof. exact safe_all. Qed.
Print Assumptions C10_safe.

Example C10_safe_inhabited :
  is_done (nth 0 (s_asc (fst (forced false 500 [ACfg [1%N; 2%N] true None; ACfg [3%N] false None]
                                     [rel 0; EStop; ETimeout 1]))) assoc0) = true
  /\ n_main (s_node (fst (forced false 500 [ACfg [1%N; 2%N] true None; ACfg [3%N] false None]
                                 [rel 0; EStop; ETimeout 1]))) = true.
Proof. vm_compute. split; reflexivity. Qed.

(* no session is ever deleted from the datapath more than once *)
Theorem C10_once_at_most : forall cfg ev sch i x,
  nodup_cfg cfg -> deleted (run (init cfg ev) sch) i x <= 1.
Proof. exact at_most_once_all. Qed.
Print Assumptions C10_once_at_most.

(* an association whose Shutdown has completed: its store is empty and every session that was EVER installed for it
   - the configured ones (third conjunct) and those established by requests that were handled before the teardown;
   sessions deleted by requests in flight included - was deleted from the datapath exactly once.  Session Deletion /
   Establishment Requests in flight are datagrams of the model (DDelete / DEstablish): they are handled under handleMu
   or dropped once pConn.shutdown is closed, which is what makes this true. *)
Theorem C10_once : forall cfg ev sch i c a,
  nodup_cfg cfg -> nth_error cfg i = Some c ->
  nth_error (s_asc (run (init cfg ev) sch)) i = Some a -> a_once a = ODone ->
  a_store a = [] /\ (forall x, In x (a_inst a) -> deleted (run (init cfg ev) sch) i x = 1)
  /\ (forall x, In x (c_sess c) -> In x (a_inst a)).
Proof. exact ended_exactly_once. Qed.
Print Assumptions C10_once.

(* when node.done is closed - the earliest moment at which Done() can return and main can exit - every connection
   the node ever created has an empty store, has deleted exactly the sessions ever installed for it (each once, see
   C10_once_at_most) and is gone from pConns; a peer that was never accepted was never touched *)
Theorem C10_once_at_exit : forall cfg ev sch i a,
  cclosed (n_done (s_node (run (init cfg ev) sch))) = true ->
  nth_error (s_asc (run (init cfg ev) sch)) i = Some a ->
  in_map (run (init cfg ev) sch) i = false
  /\ ((Permutation (a_del a) (a_inst a) /\ a_store a = []) \/ (crt a = false /\ a_once a = ONew)).
Proof. exact clean_at_exit. Qed.
Print Assumptions C10_once_at_exit.

(* forgotten, whatever the first datagram of the peer was (a release included): once the association has ended
   and its completion is no longer queued on pConnDone, its address is not in pConns *)
Theorem C10_forgotten : forall cfg ev sch i a,
  nth_error (s_asc (run (init cfg ev) sch)) i = Some a -> a_once a = ODone ->
  ~ In (N.of_nat i) (cbuf (n_pcd (s_node (run (init cfg ev) sch)))) ->
  in_map (run (init cfg ev) sch) i = false.
Proof. exact forgotten_all. Qed.
Print Assumptions C10_forgotten.

(* ------------------------------------------------------------------ while the agent is not being stopped *)
(* ... the same peer can associate afresh: the listening socket is open and handleNewPeers does not drop it *)
Theorem C10_forgotten_fresh_setup : forall cfg ev sch i a,
  no_stop ev -> nth_error (s_asc (run (init cfg ev) sch)) i = Some a -> a_once a = ODone ->
  cbuf (n_pcd (s_node (run (init cfg ev) sch))) = [] ->
  in_map (run (init cfg ev) sch) i = false /\ fresh_setup_processed (run (init cfg ev) sch) i = true.
Proof. exact fresh_setup_without_stop. Qed.
Print Assumptions C10_forgotten_fresh_setup.

(* ... and the channel IS empty whenever the node's loop cannot move *)
Theorem C10_forgotten_drained : forall cfg ev sch,
  no_stop ev -> step (run (init cfg ev) sch) (TNode 0) = None ->
  cbuf (n_pcd (s_node (run (init cfg ev) sch))) = [].
Proof. exact quiet_buffer_empty. Qed.
Print Assumptions C10_forgotten_drained.

(* an established association that receives nothing and is not timed out is bit-for-bit unchanged, whatever
   happens to the others (Stop is a trigger for every association, hence the guard) *)
Theorem C10_isolated : forall cfg ev j c sch,
  no_stop ev -> untouched ev j -> nth_error cfg j = Some c -> c_first c = None ->
  nth_error (s_asc (run (init cfg ev) sch)) j = Some (init_assoc c).
Proof. exact isolated. Qed.
Print Assumptions C10_isolated.

Example C10_isolated_inhabited :
  untouched [rel 0; ETimeout 0; EHbFail 2] 1 /\ no_stop [rel 0; ETimeout 0; EHbFail 2].
Proof. split; [intros e [<-|[<-|[<-|[]]]]; discriminate | reflexivity]. Qed.

(* no deadlock, EVERY number of established associations, every combination of release / second release /
   in-flight request / read timeout / heartbeat failure, EVERY schedule: whenever no thread can move, every
   association is either completely gone (all goroutines returned) or waits for input with nobody inside
   Shutdown, and the node waits in its select *)
Theorem C10_no_deadlock_without_stop : forall cfg ev sch,
  no_stop ev -> all_established cfg ->
  (forall l, In l (thread_labels false (run (init cfg ev) sch)) -> step (run (init cfg ev) sch) l = None) ->
  quiescent_ok (run (init cfg ev) sch) = true.
Proof. exact no_deadlock_without_stop. Qed.
Print Assumptions C10_no_deadlock_without_stop.

(* ------------------------------------------------------------------ decided by the reflective explorer
   (Proofs/TeardownBounded.v explore_sound), EVERY schedule of each instance; n <= 2 associations, <= 2 sessions.
   `good` (Proofs/TeardownBounded.v): no panic, and
   - with Stop among the events: a state in which nothing can move is one where Done() has returned and main has
     exited - Stop completes on every schedule, there is no deadlock -, and whenever node.done is closed every
     connection the node created has deleted exactly the sessions ever installed for it and is out of pConns (the
     instances cfg11 race a Session Deletion and a Session Establishment in flight with each ending);
   - without Stop: a state in which no thread can move is healthy and has forgotten the ended associations, and when
     nothing at all can move every association that was given a reason to end has ended. *)
Definition C10_instances : list (list acfg * list env) :=
  [(cfg1, ev1); (cfg2, ev2); (cfg3, ev3); (cfg4, ev4);
   (cfg5, ev5a); (cfg5, ev5b); (cfg5, ev5c); (cfg5, ev5d); (cfg6, [EStop]); (cfg7, [EStop]);
   (cfg4, ev8); (cfg9, ev8); (cfg10, ev10);
   (cfg11, ev11a); (cfg11, ev11b); (cfg11, ev11c); (cfg11, ev11d)].

Theorem C10_no_deadlock_bounded : forall cfg ev, In (cfg, ev) C10_instances ->
  forall s, reach (init cfg ev) s -> good cfg ev s = true.
Proof.
  intros cfg ev H. unfold C10_instances in H.
  destruct H as [H|H]; [injection H as <- <-; exact (instance_sound fuel_1m cfg1 ev1 inst1_ok)|].
  destruct H as [H|H]; [injection H as <- <-; exact (instance_sound fuel_1m cfg2 ev2 inst2_ok)|].
  destruct H as [H|H]; [injection H as <- <-; exact (instance_sound fuel_1m cfg3 ev3 inst3_ok)|].
  destruct H as [H|H]; [injection H as <- <-; exact (instance_sound fuel_1m cfg4 ev4 inst4_ok)|].
  destruct H as [H|H]; [injection H as <- <-; exact (instance_sound fuel_1m cfg5 ev5a inst5a_ok)|].
  destruct H as [H|H]; [injection H as <- <-; exact (instance_sound fuel_1m cfg5 ev5b inst5b_ok)|].
  destruct H as [H|H]; [injection H as <- <-; exact (instance_sound fuel_1m cfg5 ev5c inst5c_ok)|].
  destruct H as [H|H]; [injection H as <- <-; exact (instance_sound fuel_1m cfg5 ev5d inst5d_ok)|].
  destruct H as [H|H]; [injection H as <- <-; exact (instance_sound fuel_1m cfg6 [EStop] inst6_ok)|].
  destruct H as [H|H]; [injection H as <- <-; exact (instance_sound fuel_1m cfg7 [EStop] inst7_ok)|].
  destruct H as [H|H]; [injection H as <- <-; exact (instance_sound fuel_1m cfg4 ev8 inst8_ok)|].
  destruct H as [H|H]; [injection H as <- <-; exact (instance_sound fuel_1m cfg9 ev8 inst9_ok)|].
  destruct H as [H|H]; [injection H as <- <-; exact (instance_sound fuel_2m cfg10 ev10 inst10_ok)|].
  destruct H as [H|H]; [injection H as <- <-; exact (instance_sound fuel_1m cfg11 ev11a inst11a_ok)|].
  destruct H as [H|H]; [injection H as <- <-; exact (instance_sound fuel_1m cfg11 ev11b inst11b_ok)|].
  destruct H as [H|H]; [injection H as <- <-; exact (instance_sound fuel_1m cfg11 ev11c inst11c_ok)|].
  destruct H as [H|H]; [injection H as <- <-; exact (instance_sound fuel_1m cfg11 ev11d inst11d_ok)|].
  destruct H.
Qed.
Print Assumptions C10_no_deadlock_bounded.

(* stopping completes in bounded time: every schedule of enabled steps is shorter than the bound (exhaustive
   levels).  Without Stop: one association, all triggers < 34; two associations < 39.  With Stop: one association
   with a release racing Stop < 41; Stop with two live associations < 49; Stop racing a Session Deletion and a
   Session Establishment in flight < 45. *)
Theorem C10_stop_terminates_bounded :
  (forall sch s, run_strict (init cfg1 ev1) sch = Some s -> List.length sch < 34) /\
  (forall sch s, run_strict (init cfg4 ev4) sch = Some s -> List.length sch < 39) /\
  (forall sch s, run_strict (init cfg5 ev5b) sch = Some s -> List.length sch < 41) /\
  (forall sch s, run_strict (init cfg4 [EStop]) sch = Some s -> List.length sch < 49) /\
  (forall sch s, run_strict (init cfg11 ev11a) sch = Some s -> List.length sch < 45).
Proof.
  repeat split; apply level_bound;
    [exact inst1_terminates | exact inst4_terminates | exact inst5b_terminates | exact inst8_terminates
    | exact inst11a_terminates].
Qed.
Print Assumptions C10_stop_terminates_bounded.
