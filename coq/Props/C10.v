(* C10 - associations end cleanly and the agent always stops.  Statements only.

   System: Model/Teardown.v.  `init cfg ev` = the agent with the associations `cfg` (each with its session
   list, heartbeat monitor on/off, already established or arriving with a first datagram) and the pending
   environment events `ev` (datagrams, read timeouts, heartbeat failures, the stop signal); a schedule is a list
   of thread ids (with the select alternative taken) and environment firings; `run` skips what is not enabled,
   so the theorems below quantify over EVERY interleaving of every trigger with every other one. *)
From Coq Require Import NArith String List Bool Arith.
From UPF Require Import Base.LTS Model.Teardown Proofs.TeardownInv Proofs.TeardownProofs Proofs.TeardownForget Proofs.TeardownLive Proofs.TeardownBounded
  Proofs.TeardownB1 Proofs.TeardownB2 Proofs.TeardownB3.
Import ListNotations.
Open Scope nat_scope.

(* ------------------------------------------------------------------ full statements (every n, every configuration
   including Stop, every schedule) *)

(* no session is ever deleted from the datapath more than once *)
Theorem C10_once_at_most : forall cfg ev sch i x,
  nodup_cfg cfg -> deleted (run (init cfg ev) sch) i x <= 1.
Proof. exact at_most_once_all. Qed.
Print Assumptions C10_once_at_most.

(* an association whose Shutdown has completed: its store is empty and each of its sessions was deleted
   from the datapath exactly once *)
Theorem C10_once : forall cfg ev sch i c a,
  nodup_cfg cfg -> nth_error cfg i = Some c ->
  nth_error (s_asc (run (init cfg ev) sch)) i = Some a -> a_once a = ODone ->
  a_store a = [] /\ forall x, In x (c_sess c) -> deleted (run (init cfg ev) sch) i x = 1.
Proof. exact ended_exactly_once. Qed.
Print Assumptions C10_once.

(* whatever happens, no channel is closed twice: the ONLY panic the teardown code can raise is the send on the
   closed pConnDone (the shape of F21) *)
Theorem C10_safe_only_one_panic : forall cfg ev sch site,
  s_panic (run (init cfg ev) sch) = Some site -> site = "send on closed channel"%string.
Proof. exact only_panic_is_send_on_closed. Qed.
Print Assumptions C10_safe_only_one_panic.

(* ------------------------------------------------------------------ C10_safe: refuted in general, proved without Stop *)
Theorem C10_safe_refuted : exists cfg ev sch, panicked (run (init cfg ev) sch) = true.
Proof. exists (one_live [7%N]), [EStop], w_send_closed. vm_compute. reflexivity. Qed.
Print Assumptions C10_safe_refuted.

(* release / second release / in-flight requests / read timeout / heartbeat failure / first datagrams of new
   peers, in any number, combination and interleaving, any number of associations: no panic *)
Theorem C10_safe_partial : forall cfg ev sch, no_stop ev -> s_panic (run (init cfg ev) sch) = None.
Proof. intros. apply no_panic_without_stop. assumption. Qed.
Print Assumptions C10_safe_partial.

Example C10_safe_partial_inhabited :
  no_stop [rel 0; rel 0; EDeliver 1 DOther; ETimeout 1; EHbFail 2] /\
  is_done (nth 0 (s_asc (fst (forced false 500 [ACfg [1%N; 2%N] true None; ACfg [3%N] false None; ACfg [] true None]
                                       [rel 0; rel 0; EDeliver 1 DOther; ETimeout 1; EHbFail 2]))) assoc0) = true.
Proof. vm_compute. split; reflexivity. Qed.

(* ------------------------------------------------------------------ C10_isolated *)
(* an established association that receives nothing and is not timed out is bit-for-bit unchanged, whatever
   happens to the others (no Stop: Stop is a trigger for every association) *)
Theorem C10_isolated : forall cfg ev j c sch,
  no_stop ev -> untouched ev j -> nth_error cfg j = Some c -> c_first c = None ->
  nth_error (s_asc (run (init cfg ev) sch)) j = Some (init_assoc c).
Proof. exact isolated. Qed.
Print Assumptions C10_isolated.

Example C10_isolated_inhabited :
  untouched [rel 0; ETimeout 0; EHbFail 2] 1 /\ no_stop [rel 0; ETimeout 0; EHbFail 2].
Proof. split; [intros e [<-|[<-|[<-|[]]]]; discriminate | reflexivity]. Qed.

(* ------------------------------------------------------------------ C10_forgotten *)
(* refuted: first datagram of a new peer is a release -> the dead connection stays in pConns (F41) *)
Theorem C10_forgotten_refuted : exists cfg ev sch,
  let s := run (init cfg ev) sch in
  terminal s = true /\ panicked s = false /\ in_map s 0 = true /\ fresh_setup_processed s 0 = false
  /\ exists a, nth_error (s_asc s) 0 = Some a /\ a_once a = ODone.
Proof.
  exists [ACfg [7%N] false (Some DRelease)], [], w_first_release. vm_compute.
  repeat split. eexists. split; reflexivity.
Qed.
Print Assumptions C10_forgotten_refuted.

(* without Stop, every n, every schedule: an established association whose Shutdown completed is, as soon as the
   node has drained pConnDone, no longer in pConns, and a fresh Setup from its address is processed *)
Theorem C10_forgotten_partial : forall cfg ev sch i c a,
  no_stop ev -> nth_error cfg i = Some c -> c_first c = None ->
  nth_error (s_asc (run (init cfg ev) sch)) i = Some a -> a_once a = ODone ->
  cbuf (n_pcd (s_node (run (init cfg ev) sch))) = [] ->
  in_map (run (init cfg ev) sch) i = false /\ fresh_setup_processed (run (init cfg ev) sch) i = true.
Proof. exact forgotten_without_stop. Qed.
Print Assumptions C10_forgotten_partial.

(* ... and the channel IS empty whenever the node's loop cannot move *)
Theorem C10_forgotten_partial_drained : forall cfg ev sch,
  no_stop ev -> step (run (init cfg ev) sch) (TNode 0) = None ->
  cbuf (n_pcd (s_node (run (init cfg ev) sch))) = [].
Proof. exact quiet_buffer_empty. Qed.
Print Assumptions C10_forgotten_partial_drained.

(* ------------------------------------------------------------------ no deadlock / termination *)
(* refuted under Stop: the node ranges over pConnDone which nobody closes; Done() never returns (F21) *)
Theorem C10_no_deadlock_refuted : exists cfg ev sch,
  let s := run (init cfg ev) sch in
  terminal s = true /\ dead s = false /\ t_st (n_stop (s_node s)) = TRunning
  /\ cclosed (n_done (s_node s)) = false.
Proof.
  exists (one_live []), [EStop], w_range_hang. destruct stop_range_hang as (H1 & H2 & H3 & _ & H5). auto.
Qed.
Print Assumptions C10_no_deadlock_refuted.

(* a fair schedule cannot help: the state above is terminal, so Stop does not terminate *)
Theorem C10_stop_terminates_refuted : exists cfg ev sch,
  In EStop ev /\ let s := run (init cfg ev) sch in
  (forall l, step s l = None) /\ dead s = false /\ cclosed (n_done (s_node s)) = false.
Proof.
  exists (one_live []), [EStop], w_range_hang. split; [left; reflexivity|].
  destruct stop_range_hang as (H1 & H2 & _ & _ & H5). cbv zeta. repeat split; auto.
  intros l. destruct (step (run (init (one_live []) [EStop]) w_range_hang) l) eqn:E; [|reflexivity].
  exfalso. apply labels_cover in E as Hin.
  unfold terminal in H1. apply negb_true_iff in H1.
  assert (Hx : existsb (enabled (run (init (one_live []) [EStop]) w_range_hang))
                 (labels (run (init (one_live []) [EStop]) w_range_hang)) = true).
  { apply existsb_exists. exists l. split; [exact Hin|]. unfold enabled. rewrite E. reflexivity. }
  congruence.
Qed.
Print Assumptions C10_stop_terminates_refuted.

(* refuted under Stop: the process exits while the sessions of a live association are still installed (F21) *)
Theorem C10_once_refuted_at_exit : exists cfg ev sch,
  let s := run (init cfg ev) sch in
  n_main (s_node s) = true /\ panicked s = false /\ deleted s 0 7%N = 0.
Proof.
  exists (one_live [7%N]), [EStop], w_exit_early. destruct stop_exit_before_cleanup as (_ & H2 & H3 & H4 & _). auto.
Qed.
Print Assumptions C10_once_refuted_at_exit.

(* partial, EVERY number of established associations, every session list, every combination of release / second
   release / in-flight request / read timeout / heartbeat failure, EVERY schedule (no Stop): whenever no thread can
   move, the state is healthy - every association is either completely gone (all goroutines returned) or waits
   for input with nothing half-done (nobody inside Shutdown), and the node waits in its select *)
Theorem C10_no_deadlock_partial : forall cfg ev sch,
  no_stop ev -> all_established cfg ->
  (forall l, In l (thread_labels false (run (init cfg ev) sch)) -> step (run (init cfg ev) sch) l = None) ->
  quiescent_ok (run (init cfg ev) sch) = true.
Proof. exact no_deadlock_without_stop. Qed.
Print Assumptions C10_no_deadlock_partial.

(* partial, decided by the reflective explorer (explore_sound) on the instances below - EVERY schedule of each:
   no panic; whenever no thread can move the state is healthy (ended associations completely gone and - if they
   were established - forgotten by the node, live ones waiting for input, nothing blocked inside Shutdown);
   and when nothing at all can move every association that was given a reason to end has ended.
   Bounds: n <= 2 associations, <= 2 sessions each, no Stop. *)
Definition C10_instances : list (list acfg * list env) :=
  [(cfg1, ev1); (cfg2, ev2); (cfg3, ev3); (cfg4, ev4)].

Theorem C10_no_deadlock_partial_bounded : forall cfg ev, In (cfg, ev) C10_instances ->
  forall s, reach (init cfg ev) s -> good cfg ev s = true.
Proof.
  intros cfg ev [H|[H|[H|[H|[]]]]]; injection H as <- <-; eapply instance_sound;
    [apply inst1_ok | apply inst2_ok | apply inst3_ok | apply inst4_ok].
Qed.
Print Assumptions C10_no_deadlock_partial_bounded.

(* bounded termination without Stop, by exhaustive levels: every schedule of enabled steps of instance 1 has
   fewer than 28 steps, of instance 4 (two associations) fewer than 35 *)
Theorem C10_terminates_partial_bounded :
  (forall sch s, run_strict (init cfg1 ev1) sch = Some s -> List.length sch < 28) /\
  (forall sch s, run_strict (init cfg4 ev4) sch = Some s -> List.length sch < 35).
Proof. split; [apply level_bound; exact inst1_terminates | apply level_bound; exact inst4_terminates]. Qed.
Print Assumptions C10_terminates_partial_bounded.
