(* C10 - associations end cleanly and the agent always stops.  Statements only. *)
From Coq Require Import NArith String List Bool Arith.
From UPF Require Import Base.LTS Model.Teardown Proofs.TeardownProofs.
Import ListNotations.

Theorem C10_safe_refuted : exists cfg ev sch, panicked (run (init cfg ev) sch) = true.
Proof. exists (one_live [7%N]), [EStop], w_send_closed. vm_compute. reflexivity. Qed.
Print Assumptions C10_safe_refuted.
