(* C12 - Association, heartbeat and retransmission contract.  Statements only.
   n = max_req_retries (any N), c = the connection's state (sequence counter, pending-request table), tr = everything that happens while the request is outstanding. *)
From Coq Require Import NArith List Bool.
From UPF Require Import Model.Retrans Proofs.RetransProofs.
Import ListNotations.
Open Scope N_scope.

(* at most 1 + n transmissions, for every trace, every n, every connection state *)
Theorem C12_bound : forall n c tr,
  sent (fst (exchange n c tr)) <= 1 + n /\
  N.of_nat (length (txs (snd (exchange n c tr)))) = sent (fst (exchange n c tr)).
Proof. exact c12_bound. Qed.
Print Assumptions C12_bound.

(* every transmission of an exchange carries the same sequence number *)
Theorem C12_same_seq : forall n c tr w,
  In w (txs (snd (exchange n c tr))) -> w = wire_seq (next_seq (counter c)).
Proof. exact exchange_same_seq. Qed.
Print Assumptions C12_same_seq.

(* each request draws the next number; retransmissions draw none *)
Theorem C12_fresh_seq_per_request : forall n c who tr,
  counter (fst (fst (call n c who tr))) = next_seq (counter c).
Proof. exact call_counter. Qed.
Print Assumptions C12_fresh_seq_per_request.

(* spaced by resp_timeout: a transmission happens only at a Timeout, one per Timeout ... *)
Theorem C12_spaced_step : forall s e,
  (length (txs (snd (step s e))) <= 1)%nat /\ (txs (snd (step s e)) <> [] -> e = Timeout).
Proof. exact step_tx_only_on_timeout. Qed.
Print Assumptions C12_spaced_step.

(* ... and the count is exactly 1 + min(n, Timeouts before the first ending event) *)
Theorem C12_spaced_count : forall n c tr, healthy c ->
  sent (fst (exchange n c tr)) = 1 + N.min n (timeouts (live (next_seq (counter c)) tr)).
Proof. exact c12_spaced. Qed.
Print Assumptions C12_spaced_count.

(* the automaton computes the trace-level specification (count, outcome, teardown) *)
Theorem C12_refines_trace_spec : forall n c tr, healthy c ->
  let k := next_seq (counter c) in
  sent (fst (exchange n c tr)) = spec_sent n k tr /\
  res (fst (exchange n c tr)) = spec_outcome n k tr /\
  teardowns (snd (exchange n c tr)) = (if n <? timeouts (live k tr) then 1 else 0).
Proof. exact exchange_refines_spec. Qed.
Print Assumptions C12_refines_trace_spec.

(* the key a request is stored under IS its wire sequence number, for every counter value (24-bit
   counter, wraps from 2^24-1 to 0): matching below is matching of what travels on the wire *)
Theorem C12_key_is_wire_seq : forall c, wire_seq (next_seq c) = next_seq c.
Proof. exact key_is_wire_seq. Qed.
Print Assumptions C12_key_is_wire_seq.

Theorem C12_match_is_wire_match : forall c e,
  ends (next_seq c) e =
  match e with Resp w => wire_seq w =? wire_seq (next_seq c) | Shutdown => true | Timeout => false end.
Proof. exact ends_wire. Qed.
Print Assumptions C12_match_is_wire_match.

(* two requests of a connection carry the same number only if 2^24 or more requests lie between them *)
Theorem C12_keys_distinct_within_window : forall c i j, (i < j)%nat -> N.of_nat (j - i) < two24 ->
  seq_after (S i) c <> seq_after (S j) c.
Proof. exact keys_distinct_within_window. Qed.
Print Assumptions C12_keys_distinct_within_window.

(* the first response echoing the request's sequence number ends the exchange: Answered, no further
   transmission whatever follows (more timeouts, duplicates, shutdown), no teardown *)
Theorem C12_stop_on_match : forall n c tr1 w tr2, healthy c ->
  let k := next_seq (counter c) in
  noend k tr1 -> timeouts tr1 <= n -> wire_seq w = wire_seq k ->
  res (fst (exchange n c (tr1 ++ Resp w :: tr2))) = Answered /\
  sent (fst (exchange n c (tr1 ++ Resp w :: tr2))) = 1 + timeouts tr1 /\
  sent (fst (exchange n c tr1)) = 1 + timeouts tr1 /\
  txs (snd (exchange n c (tr1 ++ Resp w :: tr2))) = txs (snd (exchange n c tr1)) /\
  teardowns (snd (exchange n c (tr1 ++ Resp w :: tr2))) = 0.
Proof. exact stop_on_match. Qed.
Print Assumptions C12_stop_on_match.

(* Dead <-> n + 1 Timeouts with neither a matching response nor a shutdown before them; teardown
   exactly then, exactly once, after all n + 1 transmissions *)
Theorem C12_dead_iff_all_lost : forall n c tr, healthy c ->
  let k := next_seq (counter c) in
  (res (fst (exchange n c tr)) = Dead <-> n + 1 <= timeouts (live k tr)) /\
  (teardowns (snd (exchange n c tr)) = 1 <-> res (fst (exchange n c tr)) = Dead) /\
  teardowns (snd (exchange n c tr)) <= 1 /\
  (res (fst (exchange n c tr)) = Dead -> sent (fst (exchange n c tr)) = n + 1).
Proof. exact dead_iff. Qed.
Print Assumptions C12_dead_iff_all_lost.

(* wrong-sequence responses at any time, and EVERY response once the exchange is over (duplicate of
   the answer, late after the final timeout, after an abort), change nothing: same state, same
   transmissions, same teardown *)
Theorem C12_nonmatching_ignored : forall n c tr1 w tr2, healthy c ->
  let s1 := fst (exchange n c tr1) in
  wire_seq w <> wire_seq (key s1) \/ res s1 <> Pending ->
  snd (step s1 (Resp w)) = [Ignored] /\
  fst (exchange n c (tr1 ++ Resp w :: tr2)) = fst (exchange n c (tr1 ++ tr2)) /\
  txs (snd (exchange n c (tr1 ++ Resp w :: tr2))) = txs (snd (exchange n c (tr1 ++ tr2))) /\
  teardowns (snd (exchange n c (tr1 ++ Resp w :: tr2))) = teardowns (snd (exchange n c (tr1 ++ tr2))).
Proof. exact nonmatching_ignored. Qed.
Print Assumptions C12_nonmatching_ignored.

Theorem C12_late_ignored : forall n c tr w, healthy c ->
  let s := fst (exchange n c tr) in
  res s <> Pending -> step s (Resp w) = (s, [Ignored]).
Proof. exact c12_late_ignored. Qed.
Print Assumptions C12_late_ignored.

(* in EVERY state a response is dealt with on the spot (no blocking hand-over exists) *)
Theorem C12_reader_never_blocks : forall s w,
  exists o, snd (step s (Resp w)) = [o] /\ (o = Deliver \/ o = Ignored \/ o = DeliverOther).
Proof. exact step_resp_never_blocks. Qed.
Print Assumptions C12_reader_never_blocks.

(* the hypothesis [healthy] (no other request outstanding) re-establishes itself: however an exchange
   ends, its entry is gone, so with one request in flight at a time it holds for a connection's whole life *)
Theorem C12_health_is_invariant : forall n c who tr, healthy c -> res (fst (exchange n c tr)) <> Pending ->
  healthy (fst (fst (call n c who tr))).
Proof. exact call_leaves_clean. Qed.
Print Assumptions C12_health_is_invariant.

(* the connection lives on exactly when the exchange was answered acceptably (or is still open);
   once it is torn down nothing more is sent *)
Theorem C12_alive_iff_answered : forall n c who tr,
  snd (call n c who tr) = true <->
  (res (fst (exchange n c tr)) = Pending \/
   (res (fst (exchange n c tr)) = Answered /\ who <> ByAssociation false)).
Proof. exact call_alive. Qed.
Print Assumptions C12_alive_iff_answered.

Theorem C12_silent_after_teardown : forall n c xs, Forall (fun o => o = []) (calls n c false xs).
Proof. exact calls_dead_silent. Qed.
Print Assumptions C12_silent_after_teardown.

(* Heartbeat Requests are answered in every state (associated or not, timer or not, reset queue
   full or not) with the connection's timestamp, and change neither it nor the association *)
Theorem C12_hb_answered_always : forall c s seq,
  snd (fst (handle_hb c s seq)) = HBResp seq (ts_local s) /\
  ts_local (fst (fst (handle_hb c s seq))) = ts_local s /\
  node_remote (fst (fst (handle_hb c s seq))) = node_remote s.
Proof. exact hb_always_answered. Qed.
Print Assumptions C12_hb_answered_always.

(* over any history of peer requests every reply carries the one timestamp the connection started with *)
Theorem C12_recovery_ts_constant : forall c es s,
  ts_local (fst (arun c s es)) = ts_local s /\
  Forall (fun r => reply_ts r = None \/ reply_ts r = Some (ts_local s)) (snd (arun c s es)).
Proof. exact arun_ts. Qed.
Print Assumptions C12_recovery_ts_constant.

(* a peer heartbeat reaches the running monitor as a reset ... *)
Theorem C12_hb_resets_monitor : forall c s seq, enable_hb_timer c = true -> 0 < monitors s ->
  snd (handle_hb c s seq) = ToMonitor.
Proof. exact hb_reset_reaches_monitor. Qed.
Print Assumptions C12_hb_resets_monitor.

(* ... and a reset postpones the agent's next heartbeat by a full interval, whatever the phase, and
   however many further resets arrive in between *)
Theorem C12_hb_postpones : forall i s tr, running s = true -> waited tr < i ->
  snd (trun i (fst (tstep i s TReset)) tr) = 0.
Proof. exact reset_postpones. Qed.
Print Assumptions C12_hb_postpones.

Theorem C12_hb_due_after_interval : forall i s, 0 < i -> running s = true ->
  tstep i (fst (tstep i s TReset)) (Wait i) = (tstart i, 1).
Proof. exact tick_due_after_reset. Qed.
Print Assumptions C12_hb_due_after_interval.

(* a well-formed Association Setup Request is accepted iff the datapath is connected at that
   moment; a reply is built in both cases; a rejection changes nothing *)
Theorem C12_setup_iff_connected : forall c s seq nid ts connected,
  exists cause,
    snd (fst (handle_setup c s seq (Val nid) (Val ts) connected)) =
      SetupResp seq cause (ts_local s) (features c) (upiri_flags c) /\
    (cause = cause_accepted <-> connected = true) /\
    (cause = cause_rejected <-> connected = false) /\
    (connected = false -> fst (fst (handle_setup c s seq (Val nid) (Val ts) connected)) = s) /\
    (connected = true -> node_remote (fst (fst (handle_setup c s seq (Val nid) (Val ts) connected))) = Some nid).
Proof. exact setup_iff_connected. Qed.
Print Assumptions C12_setup_iff_connected.

(* advertised features, identical in accept and reject (previous theorem: both carry [features c]) *)
Theorem C12_features : forall c,
  has_ftup (features c) = true /\ has_ueip (features c) = enable_ueip c /\
  has_empu (features c) = enable_end_marker c.
Proof. exact features_match. Qed.
Print Assumptions C12_features.

Theorem C12_features_octets : forall c,
  features c = (16, (if enable_end_marker c then 1 else 0), (if enable_ueip c then 4 else 0), 0).
Proof. exact features_exact. Qed.
Print Assumptions C12_features_octets.

(* non-vacuity: n = 2, two lost transmissions, a wrong-sequence response, the answer, a duplicate *)
Example C12_nonvacuous_answered :
  healthy fresh_conn /\ noend 1 [Timeout; Resp 9; Timeout] /\
  exchange 2 fresh_conn [Timeout; Resp 9; Timeout; Resp 1; Resp 1; Timeout] =
  (X 0 3 Answered 1 (C 1 []), [Tx 1; Tx 1; Ignored; Tx 1; Deliver; Ignored]).
Proof. vm_compute. repeat split; reflexivity. Qed.

Example C12_nonvacuous_dead :
  exchange 2 fresh_conn [Timeout; Timeout; Timeout] = (X 0 3 Dead 1 (C 1 []), [Tx 1; Tx 1; Tx 1; Teardown]).
Proof. vm_compute. reflexivity. Qed.

(* the 2^24-th request of a connection: counter wraps to 0, the echo matches (was F31) *)
Example C12_wrap_works :
  healthy c24 /\ next_seq (counter c24) = 0 /\
  exchange 2 c24 [Resp 0; Timeout; Resp 0] = (X 2 1 Answered 0 (C 0 []), [Tx 0; Deliver; Ignored]).
Proof. exact c12_wrap_witness. Qed.

(* the answer after the final timeout is ignored, so are later datagrams (was F30) *)
Example C12_late_after_dead_ignored :
  healthy fresh_conn /\
  exchange 0 fresh_conn [Timeout; Resp 1; Resp 1; Resp 7] = (X 0 1 Dead 1 (C 1 []), [Tx 1; Teardown; Ignored; Ignored; Ignored]).
Proof. exact c12_late_witness. Qed.

Example C12_nonvacuous_ticker :
  trun 5 (tstart 5) [Wait 3; TReset; Wait 4; TReset; Wait 4; Wait 1; Wait 5] = (T 5 true, 2).
Proof. vm_compute. reflexivity. Qed.

Example C12_nonvacuous_setup :
  snd (arun (Cfg true false true false) (ainit 77)
         [HBReq 5; SetupReq 6 (Val 10) (Val 3) false; SetupReq 7 (Val 10) (Val 3) true; HBReq 8]) =
  [HBResp 5 77; SetupResp 6 64 77 (16, 0, 4, 0) 65; SetupResp 7 1 77 (16, 0, 4, 0) 65; HBResp 8 77].
Proof. vm_compute. reflexivity. Qed.
