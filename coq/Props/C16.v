(* C16 - Every P4Runtime write is valid for the shipped pipeline.  Statements only. *)
From Coq Require Import NArith List String Bool Permutation.
From UPF Require Import Model.P4Info Model.P4Valid Model.P4Build Model.P4Gen Gen.P4Info_gen Gen.P4Const_gen.
From UPF Require Import Proofs.P4ValidProofs Proofs.P4GenProofs.
Import ListNotations.
Open Scope N_scope.

(* Every Write batch the UP4 plug-in assembles - interface entries, slice meter, counter resets, meter cell
   configuration / reset, tunnel peers, and per PDR the sessions / applications / terminations entries in all
   their action variants - consists of updates that conform to the generated P4Info, for ALL values inside the
   envelope (config: slice <= 15, TCs <= 3, 32-bit prefixes; PDR: precedence <= 65535, 32-bit addresses / TEIDs,
   masked filter addresses, port ranges low <= high <= 65535, 8-bit protocol within its mask; FAR: 32-bit
   address / TEID, 16-bit port; QER: QFI < 64; plug-in chosen ids: 8-bit peer / application ids, 32-bit cells in
   action parameters, meter / counter cells below the sizes the P4Info declares), except the one shape of F25. *)
Theorem C16_valid_partial : forall (e : wevent) (us : list update),
  envelope e -> guard e = true -> writes_of e = Some us ->
  Forall (fun u => valid_update P4Info_gen.info u = true) us.
Proof. exact all_writes_valid. Qed.
Print Assumptions C16_valid_partial.

(* F25: without the guard the statement is false - precedence 65535 with an application filter gives
   priority 0 on the ternary / range table `applications` *)
Theorem C16_valid_refuted : exists (e : wevent) (us : list update),
  envelope e /\ writes_of e = Some us /\ ~ Forall (fun u => valid_update P4Info_gen.info u = true) us.
Proof. exact all_writes_valid_refuted. Qed.
Print Assumptions C16_valid_refuted.

(* no name fails to resolve: inside the envelope the PDR batch exists and has 2 or 3 entries *)
Theorem C16_pdr_batch_produced : forall ty c p f q o,
  (pd_src_iface p = access \/ pd_src_iface p = core) -> pd_prec p <= 65535 ->
  (po_peer_exists o = true \/ fr_teid f = 0) ->
  exists us, w_pdr P4Info_gen.info P4Const_gen.consts ty c p f q o = Some us /\ (2 <= List.length us <= 3)%nat.
Proof. exact w_pdr_total. Qed.
Print Assumptions C16_pdr_batch_produced.

(* The constants compiled into the agent are exactly those derived from the shipped P4Info: as multisets of
   (kind, name modulo identifier spelling, value), plus the id -> name maps and id lists literally. *)
Theorem C16_constants :
  Permutation (map norm_const (go_consts (derive_constants P4Info_gen.info))) (map norm_const P4Const_gen.consts)
  /\ go_maps (derive_constants P4Info_gen.info) = P4Const_gen.id_maps
  /\ go_lists (derive_constants P4Info_gen.info) = P4Const_gen.id_lists.
Proof. exact constants_match_p4info. Qed.
Print Assumptions C16_constants.

Theorem C16_constant_names_distinct :
  NoDup (map (fun c => (fst (fst c), norm_name (snd (fst c)))) P4Const_gen.consts).
Proof. exact committed_names_distinct. Qed.
Print Assumptions C16_constant_names_distinct.

(* The generator is deterministic: whatever order the Go runtime iterates its three maps in (any permutation
   of their contents), the emitted constants, maps and lists are the same. *)
Theorem C16_generator_deterministic : forall i mf1 ap1 en1 mf2 ap2 en2,
  NoDup (map e_name (i_enums i)) ->
  Permutation (mf_map i) mf1 -> Permutation (mf_map i) mf2 ->
  Permutation (ap_map i) ap1 -> Permutation (ap_map i) ap2 ->
  Permutation (i_enums i) en1 -> Permutation (i_enums i) en2 ->
  generate i mf1 ap1 en1 = generate i mf2 ap2 en2.
Proof. exact generator_deterministic. Qed.
Print Assumptions C16_generator_deterministic.

(* hypotheses are satisfiable: the shipped enum map has unique keys; the guard admits a 3-entry batch with a
   non-empty application filter at precedence 65534; the F25 witness lies inside the envelope *)
Example C16_shipped_enum_keys : NoDup (map e_name (i_enums P4Info_gen.info)).
Proof. exact shipped_enum_keys_unique. Qed.
Example C16_guard_inhabited :
  exists us, writes_of (WPdr UInsert f25_cfg (Pdr access 3323068417 1 0 (AF 0 0 (PR 0 65535) (PR 80 80) 0 0 0 0) 65534 1 0 1 [])
                             f25_far None f25_oracle) = Some us /\ List.length us = 3%nat /\ Forall valid us.
Proof. exact guard_inhabited. Qed.
Example C16_witness_in_envelope : envelope f25_event.
Proof. exact f25_envelope. Qed.
