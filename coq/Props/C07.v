(* C07 - UP-chosen identifiers are unique among live users and are those programmed.
   Statements only.  The TEID generator state [g] (cursor [offset g], set [used g]) is universally
   quantified: every cursor position a uint32 can hold after updateOffset (offset < 2^32-1, which
   includes the wrap point 2^32-2) and every used set; NewFTEIDGenerator's state is one instance
   (C07_teid_initial_state) and the class is closed under all operations (part of C07_teid_unique). *)
From Coq Require Import NArith List Bool Permutation.
From UPF Require Import Model.Fteid Proofs.FteidProofs.
Import ListNotations.
Open Scope N_scope.

(* ---------------------------------------------------------------- TEIDs *)
Theorem C07_teid_fresh : forall g id g', offset g < MAXV -> allocate g = AOk id g' ->
  1 <= id <= MAXV /\ ~ In (id - 1) (used g) /\ used g' = (id - 1) :: used g.
Proof. exact c07_teid_fresh. Qed.
Print Assumptions C07_teid_fresh.

(* which id: the first free offset at or after the cursor, cyclically in [0, 2^32-2], plus one;
   the cursor moves just behind it *)
Theorem C07_teid_first_free : forall g id g', offset g < MAXV -> allocate g = AOk id g' ->
  exists k, N.of_nat k < MAXV /\ id = (offset g + N.of_nat k) mod MAXV + 1 /\
    (forall j, (j < k)%nat -> In ((offset g + N.of_nat j) mod MAXV) (used g)) /\
    offset g' = id mod MAXV.
Proof. exact allocate_first_free. Qed.
Print Assumptions C07_teid_first_free.

Theorem C07_teid_initial_state :
  offset new_gen < MAXV /\ NoDup (used new_gen) /\ Forall (fun o => o < MAXV) (used new_gen).
Proof. exact wf_new. Qed.
Print Assumptions C07_teid_initial_state.

(* over all sequences of Allocate / FreeID / IsAllocated from any such state: the ids handed out
   and not released are pairwise distinct and in [1, 2^32-1]; the state class is preserved *)
Theorem C07_teid_unique : forall g0 ops,
  offset g0 < MAXV /\ NoDup (used g0) /\ Forall (fun o => o < MAXV) (used g0) ->
  NoDup (live_ids (fst (run g0 ops))) /\
  (forall id, In id (live_ids (fst (run g0 ops))) -> 1 <= id <= MAXV) /\
  (offset (fst (run g0 ops)) < MAXV /\ NoDup (used (fst (run g0 ops))) /\
   Forall (fun o => o < MAXV) (used (fst (run g0 ops)))).
Proof. exact c07_teid_unique. Qed.
Print Assumptions C07_teid_unique.

(* the same as a monitor over the observable history (evaluated on the implementation too):
   no id is returned while it is held, refusals only when all 2^32-1 ids are held, IsAllocated
   tells the truth *)
Theorem C07_teid_history : forall ops g0,
  offset g0 < MAXV /\ NoDup (used g0) /\ Forall (fun o => o < MAXV) (used g0) ->
  hist_ok (live_ids g0) ops (snd (run g0 ops)) = true.
Proof. exact hist_ok_run. Qed.
Print Assumptions C07_teid_history.

Theorem C07_teid_refuse_iff_full : forall g, offset g < MAXV ->
  ((exists g', allocate g = AErr g') <-> forall o, o < MAXV -> In o (used g)).
Proof. exact allocate_refuse_iff. Qed.
Print Assumptions C07_teid_refuse_iff_full.

Theorem C07_teid_refuse_iff_card : forall g,
  offset g < MAXV /\ NoDup (used g) /\ Forall (fun o => o < MAXV) (used g) ->
  ((exists g', allocate g = AErr g') <-> N.of_nat (length (used g)) = MAXV).
Proof. exact c07_teid_refuse_iff_card. Qed.
Print Assumptions C07_teid_refuse_iff_card.

Theorem C07_teid_refusal_changes_nothing : forall g g', offset g < MAXV -> allocate g = AErr g' -> g' = g.
Proof. exact allocate_err_unchanged. Qed.
Print Assumptions C07_teid_refusal_changes_nothing.

(* the loop of Allocate terminates within |used| + 1 iterations: the fuel of the model suffices *)
Theorem C07_teid_fuel_suffices : forall g, offset g < MAXV -> allocate g <> AFuel.
Proof. exact allocate_never_fuel. Qed.
Print Assumptions C07_teid_fuel_suffices.

Theorem C07_teid_is_allocated : forall id g, is_allocated id g = true <-> In id (live_ids g).
Proof. exact is_allocated_live. Qed.
Print Assumptions C07_teid_is_allocated.

Theorem C07_teid_free_exact : forall id g, live_ids (free_id id g) = del id (live_ids g).
Proof. exact live_ids_free. Qed.
Print Assumptions C07_teid_free_exact.

(* schedules: every merge of per-goroutine operation lists is an operation list; each method is
   one atomic step because FTEIDGenerator.lock is held over the whole body (checked on the source
   by the skeleton tie of tools/props/c07.py), so the above holds under every interleaving *)
Theorem C07_teid_any_interleaving : forall g0 (threads : list (list op)) sched,
  offset g0 < MAXV /\ NoDup (used g0) /\ Forall (fun o => o < MAXV) (used g0) ->
  merge threads sched ->
  (offset (fst (run g0 sched)) < MAXV /\ NoDup (used (fst (run g0 sched))) /\
   Forall (fun o => o < MAXV) (used (fst (run g0 sched)))) /\
  NoDup (live_ids (fst (run g0 sched))) /\
  hist_ok (live_ids g0) sched (snd (run g0 sched)) = true.
Proof. exact any_interleaving. Qed.
Print Assumptions C07_teid_any_interleaving.

Theorem C07_teid_merge_is_permutation : forall (threads : list (list op)) sched,
  merge threads sched -> Permutation (concat threads) sched.
Proof. exact (@merge_perm op). Qed.
Print Assumptions C07_teid_merge_is_permutation.

(* ---------------------------------------------------------------- SEIDs: for EVERY stream of draws *)
Theorem C07_seid_fresh : forall retries (draws : stream) i st l j,
  new_seid retries draws i st = (Some l, j) -> l <> 0 /\ ~ In l st.
Proof. exact c07_seid_fresh. Qed.
Print Assumptions C07_seid_fresh.

(* the SEID is the first draw that is neither 0 nor stored *)
Theorem C07_seid_first_good : forall retries (draws : stream) i st l j,
  new_seid retries draws i st = (Some l, j) ->
  (i < j <= i + retries)%nat /\ l = draws (j - 1)%nat /\
  forall k, (i <= k < j - 1)%nat -> bad_draw st (draws k) = true.
Proof. exact c07_seid_first_good. Qed.
Print Assumptions C07_seid_first_good.

(* refused (establishment answered "no resources available") iff the first [retries] draws are
   all 0 or stored *)
Theorem C07_seid_refuse : forall retries (draws : stream) i st,
  fst (new_seid retries draws i st) = None <->
  forall k, (i <= k < i + retries)%nat -> bad_draw st (draws k) = true.
Proof. exact c07_seid_refuse_iff. Qed.
Print Assumptions C07_seid_refuse.

Theorem C07_seid_uses_at_most_100_draws : forall (draws : stream) i st,
  (i <= snd (new_seid MAX_RETRIES draws i st) <= i + 100)%nat.
Proof. exact c07_seid_draws_100. Qed.
Print Assumptions C07_seid_uses_at_most_100_draws.

(* draws beyond the first [retries] have no influence *)
Theorem C07_seid_depends_on_first_draws_only : forall retries (d1 d2 : stream) i st,
  (forall k, (i <= k < i + retries)%nat -> d1 k = d2 k) ->
  new_seid retries d1 i st = new_seid retries d2 i st.
Proof. exact new_seid_ext. Qed.
Print Assumptions C07_seid_depends_on_first_draws_only.

(* ---------------------------------------------------------------- establishment *)
(* an accepted establishment: every PDR handed to the datapath carries the UP F-SEID of the
   response; the Created PDRs of the response are exactly the CHOOSE PDRs handed to the datapath,
   with the same id, TEID and address; that address is the access IP and the TEID is non-zero *)
Theorem C07_programmed : forall retries access draws aok dok ps st i g l created batch j g',
  offset g < MAXV /\ NoDup (used g) /\ Forall (fun o => o < MAXV) (used g) ->
  establish retries access draws aok dok ps st i g = (EAccepted l created batch, j, g') ->
  Forall (fun e => d_fseid e = l) batch /\
  map d_id batch = map cp_id ps /\
  (forall pid t ip, In (pid, t, ip) created <->
     exists e, In e batch /\ d_choose e = true /\ d_id e = pid /\ d_teid e = t /\ d_ip e = ip) /\
  (forall pid t ip, In (pid, t, ip) created -> ip = access /\ 1 <= t <= MAXV).
Proof. exact c07_programmed. Qed.
Print Assumptions C07_programmed.

(* ... its F-SEID is non-zero and not stored on its association, its TEIDs are pairwise distinct,
   were not live before and are live afterwards *)
Theorem C07_established_ids_fresh : forall retries access draws aok dok ps st i g l created batch j g',
  offset g < MAXV /\ NoDup (used g) /\ Forall (fun o => o < MAXV) (used g) ->
  establish retries access draws aok dok ps st i g = (EAccepted l created batch, j, g') ->
  (l <> 0 /\ ~ In l st) /\
  NoDup (map (fun x => snd (fst x)) created) /\
  Forall (fun t => 1 <= t <= MAXV /\ ~ In t (live_ids g) /\ In t (live_ids g'))
         (map (fun x => snd (fst x)) created).
Proof. exact c07_est_ids. Qed.
Print Assumptions C07_established_ids_fresh.

Theorem C07_seid_refusal_writes_nothing : forall retries access draws dok ps st i g,
  (forall k, (i <= k < i + retries)%nat -> bad_draw st (draws k) = true) ->
  establish retries access draws true dok ps st i g =
  (ERefused CAUSE_NO_RESOURCES None, (i + retries)%nat, g).
Proof. exact establish_seid_refusal. Qed.
Print Assumptions C07_seid_refusal_writes_nothing.

(* a refused establishment releases exactly the TEIDs it had chosen: the live set is as before *)
Theorem C07_refusal_restores_live_teids : forall retries access draws aok dok ps st i g cause b j g',
  offset g < MAXV /\ NoDup (used g) /\ Forall (fun o => o < MAXV) (used g) ->
  establish retries access draws aok dok ps st i g = (ERefused cause b, j, g') ->
  forall id, In id (live_ids g') <-> In id (live_ids g).
Proof. exact c07_refused_restores. Qed.
Print Assumptions C07_refusal_restores_live_teids.

(* all histories of establishments / deletions / modifications over any number of associations
   sharing one generator, all draw streams, all datapath answers.  Invariant: per association the
   live sessions' SEIDs are pairwise distinct and non-zero; no TEID belongs to two live sessions
   (of any association); every TEID of a live session is marked used, so Allocate cannot hand it
   out again (C07_teid_fresh); the generator stays in the class of the TEID theorems.

   The full statement is FALSE of the code: a Session Modification whose Create PDR carries, in
   one PDI, an F-TEID with CHOOSE and an F-TEID with an explicit TEID makes the session claim a
   TEID it was never given (the handler sets the flag and the TEID but allocates nothing); when
   that session ends, the TEID - possibly that of another live session - is released (finding F38). *)
Theorem C07_history_invariant_refuted : exists retries access (draws : nat -> stream) es w,
  ((offset (w_gen w) < MAXV /\ NoDup (used (w_gen w)) /\ Forall (fun o => o < MAXV) (used (w_gen w))) /\
   NoDup (map (fun s => (s_conn s, s_seid s)) (w_sess w)) /\
   Forall (fun s => s_seid s <> 0) (w_sess w) /\
   NoDup (all_teids (w_sess w)) /\
   incl (all_teids (w_sess w)) (live_ids (w_gen w))) /\
  ~ (let w' := fst (ev_run retries access draws w es) in
     (offset (w_gen w') < MAXV /\ NoDup (used (w_gen w')) /\ Forall (fun o => o < MAXV) (used (w_gen w'))) /\
     NoDup (map (fun s => (s_conn s, s_seid s)) (w_sess w')) /\
     Forall (fun s => s_seid s <> 0) (w_sess w') /\
     NoDup (all_teids (w_sess w')) /\
     incl (all_teids (w_sess w')) (live_ids (w_gen w'))).
Proof. exact ev_run_inv_refuted. Qed.
Print Assumptions C07_history_invariant_refuted.

(* it holds for every history without that shape of modification (ev_claims = CHOOSE together
   with a non-zero explicit TEID); establishments and deletions are unrestricted *)
Theorem C07_history_invariant_partial : forall retries access (draws : nat -> stream) es w,
  existsb ev_claims es = false ->
  (offset (w_gen w) < MAXV /\ NoDup (used (w_gen w)) /\ Forall (fun o => o < MAXV) (used (w_gen w))) /\
  NoDup (map (fun s => (s_conn s, s_seid s)) (w_sess w)) /\
  Forall (fun s => s_seid s <> 0) (w_sess w) /\
  NoDup (all_teids (w_sess w)) /\
  incl (all_teids (w_sess w)) (live_ids (w_gen w)) ->
  let w' := fst (ev_run retries access draws w es) in
  (offset (w_gen w') < MAXV /\ NoDup (used (w_gen w')) /\ Forall (fun o => o < MAXV) (used (w_gen w'))) /\
  NoDup (map (fun s => (s_conn s, s_seid s)) (w_sess w')) /\
  Forall (fun s => s_seid s <> 0) (w_sess w') /\
  NoDup (all_teids (w_sess w')) /\
  incl (all_teids (w_sess w')) (live_ids (w_gen w')).
Proof. exact ev_run_inv. Qed.
Print Assumptions C07_history_invariant_partial.

(* ---------------------------------------------------------------- non-vacuity *)
(* wrap-around: cursor at the last offset 2^32-2 with offsets 2^32-2, 0 and 1 used: the ids are
   3, 4; after releasing 2^32-1 and moving on, the freed id comes back only after a full cycle *)
Example C07_wrap_example :
  snd (run (Gen 4294967294 [4294967294; 0; 1]) [OAlloc; OAlloc; OFree 4294967295; OIsAlloc 4294967295; OAlloc]) =
  [ROk 3; ROk 4; RNone; RBool false; ROk 5] /\
  fst (run (Gen 4294967294 [4294967294; 0; 1]) [OAlloc; OAlloc]) = Gen 4 [3; 2; 4294967294; 0; 1].
Proof. split; vm_compute; reflexivity. Qed.

(* cursor two before the wrap point, nothing used: ids 2^32-2, 2^32-1, then 1 (never 0) *)
Example C07_wrap_example2 :
  snd (run (Gen 4294967293 []) [OAlloc; OAlloc; OAlloc; OAlloc]) =
  [ROk 4294967294; ROk 4294967295; ROk 1; ROk 2] /\
  offset (fst (run (Gen 4294967293 []) [OAlloc; OAlloc])) = 0.
Proof. split; vm_compute; reflexivity. Qed.

(* the cursor value 2^32-1 is outside the class: no operation produces it (updateOffset reduces
   modulo 2^32-1), and there Allocate would hand out 0 *)
Example C07_cursor_outside_class_yields_zero :
  allocate (Gen 4294967295 []) = AOk 0 (Gen 0 [4294967295]).
Proof. vm_compute. reflexivity. Qed.

(* SEIDs: a period-2 source whose values are both stored is refused after exactly 100 draws; a
   source that first repeats 0 and a stored value, then something new, yields the new value *)
Example C07_seid_examples :
  new_seid MAX_RETRIES (fun i => if Nat.even i then 7 else 9) 0 [9; 7] = (None, 100%nat) /\
  new_seid MAX_RETRIES (fun i => nth i [0; 7; 0; 7; 11] 5) 3 [9; 7] = (Some 11, 5%nat).
Proof. split; vm_compute; reflexivity. Qed.

(* an accepted establishment with two CHOOSE PDRs and one CP-provided F-TEID at the wrap point;
   the same request refused by the datapath rolls the two TEIDs back (the cursor stays advanced) *)
Example C07_establish_example :
  establish MAX_RETRIES 3232235777 (fun i => nth i [0; 5; 6] 0) true true
    [CPdr 1 true true 0 0; CPdr 2 true false 77 167772161; CPdr 3 true true 0 0]
    [5] 0 (Gen 4294967294 [0]) =
  (EAccepted 6 [(1, 4294967295, 3232235777); (3, 2, 3232235777)]
     [DPdr 6 1 4294967295 3232235777 true; DPdr 6 2 77 167772161 false; DPdr 6 3 2 3232235777 true],
   3%nat, Gen 2 [1; 4294967294; 0]) /\
  snd (establish MAX_RETRIES 3232235777 (fun i => nth i [0; 5; 6] 0) true false
    [CPdr 1 true true 0 0; CPdr 2 true false 77 167772161; CPdr 3 true true 0 0]
    [5] 0 (Gen 4294967294 [0])) = Gen 2 [0].
Proof. split; vm_compute; reflexivity. Qed.

(* a history over two associations: the second association draws the SEID the first one holds
   (allowed: SEIDs are per association), both sessions get distinct TEIDs; deleting the first
   session releases its TEID, which is handed out again only after the cursor comes round *)
Example C07_history_example :
  let w0 := World [] (fun _ => 0%nat) (Gen 4294967294 []) in
  let draws := fun k : nat => fun i : nat => 5 in
  let r := ev_run MAX_RETRIES 3232235777 draws w0
     [EvEst 0 true true [CPdr 1 true true 0 0]; EvEst 1 true true [CPdr 1 true true 0 0];
      EvEst 1 true true [CPdr 1 true true 0 0]; EvDel 0 5; EvEst 0 true true [CPdr 1 true true 0 0]] in
  existsb ev_claims [EvEst 0 true true [CPdr 1 true true 0 0]; EvEst 1 true true [CPdr 1 true true 0 0];
      EvEst 1 true true [CPdr 1 true true 0 0]; EvDel 0 5; EvMod 1 5 true 0; EvMod 1 5 false 9;
      EvEst 0 true true [CPdr 1 true true 0 0]] = false /\
  snd r = [Some (EAccepted 5 [(1, 4294967295, 3232235777)] [DPdr 5 1 4294967295 3232235777 true]);
           Some (EAccepted 5 [(1, 1, 3232235777)] [DPdr 5 1 1 3232235777 true]);
           Some (ERefused CAUSE_NO_RESOURCES None);
           None;
           Some (EAccepted 5 [(1, 2, 3232235777)] [DPdr 5 1 2 3232235777 true])] /\
  w_sess (fst r) = [Sess 0 5 [2]; Sess 1 5 [1]] /\ w_gen (fst r) = Gen 2 [1; 0].
Proof. cbv zeta. repeat split; vm_compute; reflexivity. Qed.
