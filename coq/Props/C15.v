(* C15 - P4 datapath IDs stay exclusive and in their own pool under write failures.  Statements only.

   Model: Model/Up4Ids.v.  `run (init c) evs` executes a history of session establishments, modifications and
   deletions; every event carries its own Pop() choices and the answers of its Write RPCs (the fault list), so the
   theorems quantify over ALL histories, ALL fault lists and ALL Pop choices, for ALL initial pool contents [c].
   `holders k s` lists the identifiers of kind k with one occurrence per owner (a stored PDR of a live session, a
   meters-map entry, a tunnel-parameter entry, an application-filter entry); `pool k s` is the pool of that kind. *)
From Coq Require Import NArith List Bool.
From UPF Require Import Model.Up4Ids Proofs.Up4IdsProofs Proofs.Up4RefsProofs.
Import ListNotations.
Open Scope N_scope.

(* ---------------------------------------------------------------------------------------------------------
   Application-meter cells, session-meter cells, tunnel-peer ids, application ids: full statements.
   [full_kind k] excludes only the counter cells, treated below. *)

(* master statement: pool ++ holders never gains an element - no second copy of an identifier is ever created
   and none enters the pool of another kind (the initial pools of the kinds are arbitrary, e.g. disjoint, lists) *)
Theorem C15_conserved : forall c evs k, full_kind k = true ->
  msub (pool k (fst (run (init c) evs)) ++ holders k (fst (run (init c) evs))) (init_pool k c).
Proof. exact conserved. Qed.
Print Assumptions C15_conserved.

(* never held by two owners at once *)
Theorem C15_exclusive : forall c evs k, full_kind k = true -> NoDup (init_pool k c) ->
  NoDup (holders k (fst (run (init c) evs))).
Proof. exact exclusive. Qed.
Print Assumptions C15_exclusive.

(* never free (so never handed out: Pop only yields pool members) while an owner holds it *)
Theorem C15_not_free_while_used : forall c evs k id, full_kind k = true -> NoDup (init_pool k c) ->
  In id (pool k (fst (run (init c) evs))) -> ~ In id (holders k (fst (run (init c) evs))).
Proof. exact not_free_while_used. Qed.
Print Assumptions C15_not_free_while_used.

(* never migrates: what a pool (and the owners of its kind) contains was in that pool initially *)
Theorem C15_pool_typed : forall c evs k, full_kind k = true ->
  incl (pool k (fst (run (init c) evs))) (init_pool k c) /\ incl (holders k (fst (run (init c) evs))) (init_pool k c).
Proof. exact pool_typed. Qed.
Print Assumptions C15_pool_typed.

(* ---------------------------------------------------------------------------------------------------------
   Counter cells: the three statements hold for every history in which no modification CREATES a PDR (ctr_guard;
   failing Writes, rejected deletions and Update PDR are all inside the guard), and are refuted outside it:
   sendUpdate allocates no counter, a PDR created by a modification is stored with ctrID 0. *)
Theorem C15_counters_partial : forall c evs, ctr_guard evs = true -> NoDup (i_ctr c) ->
  counters_ok c (fst (run (init c) evs)).
Proof. exact counters_guarded. Qed.
Print Assumptions C15_counters_partial.

Definition c0 : cfg := Cfg [0; 1; 2; 3; 4; 5] [1; 2; 3; 4; 5] [1; 2; 3; 4] [2; 3; 4; 5] [1; 2; 3].
Definition sess1 : rules :=
  Rules [Pdr 1 true 1 (Some 1) true 0; Pdr 2 false 2 (Some 1) true 0] [Far 1 false false 0; Far 2 true true 5] [Qer 1 QApp].
Definition sess2 : rules :=
  Rules [Pdr 1 true 1 None true 0; Pdr 2 false 2 None true 0] [Far 1 false false 0; Far 2 true true 6] [Qer 1 QApp; Qer 2 QSess].
(* Create PDR 3, 4 + Create FAR 3, 4 in a modification *)
Definition add_pair : modmsg :=
  ModMsg [Pdr 3 true 3 (Some 2) true 0; Pdr 4 false 4 (Some 2) true 0] [Far 3 false false 0; Far 4 true true 5] [] [] [] [].

(* the session took cells 1 and 2; the PDRs created by the modification are stored with ctrID 0: cell 0 is free
   while they hold it ... *)
Theorem C15_not_free_while_used_counters_refuted : exists c evs id, NoDup (i_ctr c) /\
  In id (pool KCtr (fst (run (init c) evs))) /\ In id (holders KCtr (fst (run (init c) evs))).
Proof.
  exists c0, [(OpEst 7 sess1, ([1; 2], [])); (OpMod 7 add_pair, ([], []))], 0. split.
  - repeat constructor; cbn; intuition discriminate.
  - vm_compute. intuition.
Qed.
Print Assumptions C15_not_free_while_used_counters_refuted.
(* ... and both of them hold it *)
Theorem C15_exclusive_counters_refuted : exists c evs, NoDup (i_ctr c) /\ ~ NoDup (holders KCtr (fst (run (init c) evs))).
Proof.
  exists c0, [(OpEst 7 sess1, ([1; 2], [])); (OpMod 7 add_pair, ([], []))]. split.
  - repeat constructor; cbn; intuition discriminate.
  - vm_compute. intros H. inversion H as [|x l Hx Hl]; subst. inversion Hl as [|x2 l2 Hx2 Hl2]; subst.
    inversion Hl2 as [|x3 l3 Hx3 Hl3]; subst. apply Hx3. cbn. intuition.
Qed.
Print Assumptions C15_exclusive_counters_refuted.
(* the deletion then puts 0 into a pool that never contained it *)
Theorem C15_pool_typed_counters_refuted : exists c evs, ~ incl (pool KCtr (fst (run (init c) evs))) (i_ctr c).
Proof.
  exists (Cfg [5; 6; 7] [1; 2; 3] [1; 2; 3] [2; 3] [1; 2]),
         [(OpEst 7 sess1, ([], [])); (OpMod 7 add_pair, ([], [])); (OpDel 7, ([], []))].
  vm_compute. intros H. specialize (H 0). cbn in H. intuition discriminate.
Qed.
Print Assumptions C15_pool_typed_counters_refuted.

(* ---------------------------------------------------------------------------------------------------------
   A failed Write of an establishment / modification is answered with a rejection: full statement. *)
(* for the i-th operation of any history: if some Write of it failed (WFail: gRPC error or a p4.Error other than
   OK / ALREADY_EXISTS; WUnk: status UNKNOWN without details), the operation is not accepted *)
Theorem C15_fail_rejects : forall c evs i e x,
  nth_error evs i = Some e -> nth_error (snd (run (init c) evs)) i = Some x -> is_del (fst e) = false ->
  existsb failed (o_log x) = true -> o_acc x = false.
Proof. exact fail_rejects_run. Qed.
Print Assumptions C15_fail_rejects.

(* ---------------------------------------------------------------------------------------------------------
   "Never handed out while a live session still uses it", at the level of the users of a tunnel peer: sending the
   FARs of a session (again) - updateTunnelPeersBasedOnFARs, called by sendCreate and sendUpdate - never drops a
   user (F-SEID, FAR id) from any tunnel-parameter entry and never changes an entry's id, for every world (pools,
   map, fault list), whichever of its Writes fail and wherever the loop stops; and it only takes ids out of the
   pool.  Since removeGTPTunnelPeer frees an id only when its user set becomes empty, a failed re-send of a live
   session's FAR cannot let another session's departure free the id behind its back (seeded change C15-m5). *)
Theorem C15_resend_keeps_references : forall sid fars w k id users r,
  alookup N.eqb k (peers (w_u w)) = Some (id, users) -> In r users ->
  exists users', alookup N.eqb k (peers (w_u (fst (updateTunnelPeersBasedOnFARs sid fars w)))) = Some (id, users') /\ In r users'.
Proof. exact update_peers_keeps_refs. Qed.
Print Assumptions C15_resend_keeps_references.

Theorem C15_resend_frees_nothing : forall sid fars w,
  incl (peer_pool (w_u (fst (updateTunnelPeersBasedOnFARs sid fars w)))) (peer_pool (w_u w)).
Proof. exact update_peers_pool_incl. Qed.
Print Assumptions C15_resend_frees_nothing.

(* non-vacuity: session 7 uses peer 5 under id 2; its FAR is sent again and the MODIFY fails: the reference and the
   id are still there, the pool is unchanged *)
Definition resend_u : up4 := Up4 [] [] [] [3; 4] [] [] [(5, (2, [(7, 2)]))] [] [].
Definition resend_w : world := World resend_u [] [WFail] [] false.
Definition resend_out : world * res unit := updateTunnelPeersBasedOnFARs 7 [Far 2 true true 5] resend_w.
Example C15_resend_inhabited :
  (snd resend_out = Err) /\ (peers (w_u (fst resend_out)) = [(5, (2, [(7, 2)]))]) /\ (peer_pool (w_u (fst resend_out)) = [3; 4]).
Proof. vm_compute. repeat split. Qed.

(* ---------------------------------------------------------------------------------------------------------
   Non-vacuity: the guard of C15_counters_partial and the hypotheses of C15_fail_rejects are met by a history with
   a rejected establishment (Write 4 of 6, the tunnel-peer INSERT, fails: two counter cells, two application-meter
   cells and a tunnel-peer id are stranded - conservation is an inequality), an accepted one, a modification that
   updates a PDR and moves a FAR to a new tunnel peer, one whose Write is answered UNKNOWN without details
   (rejected), a REJECTED deletion (the session keeps its cells, the pool does not get them), the deletion
   repeated successfully, and a further establishment that re-uses what was released. *)
Definition hist_ok : list ev :=
  [ (OpEst 7 sess1, ([3; 0; 2; 1], [WOk; WOk; WOk; WFail]));
    (OpEst 8 sess1, ([1; 2; 3; 4], []));
    (OpMod 8 (ModMsg [] [] [] [Pdr 2 false 2 (Some 1) true 0] [Far 2 true true 9] []), ([], []));
    (OpMod 8 (ModMsg [] [] [] [] [] [Qer 1 QApp]), ([], [WUnk]));
    (OpDel 8, ([], [WFail]));
    (OpDel 8, ([], []));
    (OpEst 9 sess2, ([2; 1; 3; 2; 1], [])) ].
Example C15_guard_inhabited :
  ctr_guard hist_ok = true /\
  map o_acc (snd (run (init c0) hist_ok)) = [false; true; true; false; false; true; true] /\
  map o_bad (snd (run (init c0) hist_ok)) = [false; false; false; false; false; false; false] /\
  holders KCtr (fst (run (init c0) hist_ok)) = [2; 1] /\ pool KCtr (fst (run (init c0) hist_ok)) = [4; 5] /\
  holders KAppCell (fst (run (init c0) hist_ok)) = [2; 1; 3] /\ pool KAppCell (fst (run (init c0) hist_ok)) = [5; 4] /\
  holders KSessCell (fst (run (init c0) hist_ok)) = [2; 1] /\ pool KSessCell (fst (run (init c0) hist_ok)) = [3; 4] /\
  holders KPeer (fst (run (init c0) hist_ok)) = [3; 5] /\ pool KPeer (fst (run (init c0) hist_ok)) = [4] /\
  holders KAppId (fst (run (init c0) hist_ok)) = [] /\ pool KAppId (fst (run (init c0) hist_ok)) = [2; 3; 1].
Proof. vm_compute. repeat split. Qed.
(* after the rejected deletion (operation 5) the session still holds cells 1 and 2 and the pool does not *)
Example C15_rejected_deletion_keeps_cells :
  let s := fst (run (init c0) (firstn 5 hist_ok)) in holders KCtr s = [1; 2] /\ pool KCtr s = [4; 5].
Proof. vm_compute. split; reflexivity. Qed.
Example C15_fail_rejects_inhabited :
  exists x, nth_error (snd (run (init c0) hist_ok)) 3 = Some x /\ existsb failed (o_log x) = true /\ o_acc x = false.
Proof. eexists. split. vm_compute. reflexivity. split; reflexivity. Qed.
