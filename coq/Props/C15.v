(* C15 - P4 datapath IDs stay exclusive and in their own pool under write failures.  Statements only.

   Model: Model/Up4Ids.v.  `run (init c) evs` executes a history of session establishments, modifications and
   deletions; every event carries its own Pop() choices and the answers of its Write RPCs (the fault list), so the
   theorems quantify over ALL histories, ALL fault lists and ALL Pop choices, for ALL initial pool contents [c].
   `holders k s` lists the identifiers of kind k with one occurrence per owner (a stored PDR of a live session, a
   meters-map entry, a tunnel-parameter entry, an application-filter entry); `pool k s` is the pool of that kind. *)
From Coq Require Import NArith List Bool.
From UPF Require Import Model.Up4Ids Proofs.Up4IdsProofs.
Import ListNotations.
Open Scope N_scope.

(* ---------------------------------------------------------------------------------------------------------
   Application-meter cells, session-meter cells, tunnel-peer ids, application ids: full statements.
   [full_kind k] excludes only the counter cells, treated below. *)

(* master statement: pool ++ holders never gains an element - no second copy of an identifier is ever created
   and none enters the pool of another kind (the initial pools of the kinds are arbitrary, e.g. disjoint, lists) *)
Theorem C15_conserved : forall c evs k, full_kind k = true ->
  msub (pool k (fst (run (init c) evs)) ++ holders k (fst (run (init c) evs))) (init_pool k c).
Proof. exact conserved. Qed.
Print Assumptions C15_conserved.

(* never held by two owners at once *)
Theorem C15_exclusive : forall c evs k, full_kind k = true -> NoDup (init_pool k c) ->
  NoDup (holders k (fst (run (init c) evs))).
Proof. exact exclusive. Qed.
Print Assumptions C15_exclusive.

(* never free (so never handed out: Pop only yields pool members) while an owner holds it *)
Theorem C15_not_free_while_used : forall c evs k id, full_kind k = true -> NoDup (init_pool k c) ->
  In id (pool k (fst (run (init c) evs))) -> ~ In id (holders k (fst (run (init c) evs))).
Proof. exact not_free_while_used. Qed.
Print Assumptions C15_not_free_while_used.

(* never migrates: what a pool (and the owners of its kind) contains was in that pool initially *)
Theorem C15_pool_typed : forall c evs k, full_kind k = true ->
  incl (pool k (fst (run (init c) evs))) (init_pool k c) /\ incl (holders k (fst (run (init c) evs))) (init_pool k c).
Proof. exact pool_typed. Qed.
Print Assumptions C15_pool_typed.

(* ---------------------------------------------------------------------------------------------------------
   Counter cells: the three statements hold for every history in which no modification creates or updates a PDR
   and no deletion is rejected by the datapath (ctr_guard), and are refuted outside it (F24, F1502). *)
Theorem C15_counters_partial : forall c evs, ctr_guard evs (snd (run (init c) evs)) = true -> NoDup (i_ctr c) ->
  counters_ok c (fst (run (init c) evs)).
Proof. exact counters_guarded. Qed.
Print Assumptions C15_counters_partial.

Definition c0 : cfg := Cfg [0; 1; 2; 3; 4; 5] [1; 2; 3; 4; 5] [1; 2; 3; 4] [2; 3; 4; 5] [1; 2; 3].
Definition sess1 : rules :=
  Rules [Pdr 1 true 1 (Some 1) true 0; Pdr 2 false 2 (Some 1) true 0] [Far 1 false false 0; Far 2 true true 5] [Qer 1 QApp].
Definition sess2 : rules :=
  Rules [Pdr 1 true 1 None true 0; Pdr 2 false 2 None true 0] [Far 1 false false 0; Far 2 true true 6] [Qer 1 QApp; Qer 2 QSess].

(* F24: sendDelete hands the counter cells back before the DELETE that may fail; the rejected deletion keeps the
   session: its cells are free while it holds them ... *)
Theorem C15_not_free_while_used_counters_refuted : exists c evs id, NoDup (i_ctr c) /\
  In id (pool KCtr (fst (run (init c) evs))) /\ In id (holders KCtr (fst (run (init c) evs))).
Proof.
  exists c0, [(OpEst 7 sess1, ([], [])); (OpDel 7, ([], [WFail]))], 0. split.
  - repeat constructor; cbn; intuition discriminate.
  - vm_compute. intuition.
Qed.
Print Assumptions C15_not_free_while_used_counters_refuted.
(* ... and the next session is handed the same cells: two live PDRs share a counter *)
Theorem C15_exclusive_counters_refuted : exists c evs, NoDup (i_ctr c) /\ ~ NoDup (holders KCtr (fst (run (init c) evs))).
Proof.
  exists c0, [(OpEst 7 sess1, ([], [])); (OpDel 7, ([], [WFail])); (OpEst 8 sess2, ([0; 1], []))]. split.
  - repeat constructor; cbn; intuition discriminate.
  - vm_compute. intros H. inversion H as [|x l Hx Hl]; subst. apply Hx. cbn. intuition.
Qed.
Print Assumptions C15_exclusive_counters_refuted.
(* F1502: Update PDR overwrites the stored PDR, ctrID 0 replaces the allocated cell; the deletion then puts 0 into
   the pool, which never contained it here *)
Theorem C15_pool_typed_counters_refuted : exists c evs, ~ incl (pool KCtr (fst (run (init c) evs))) (i_ctr c).
Proof.
  exists (Cfg [5; 6; 7] [1; 2; 3] [1; 2; 3] [2; 3] [1; 2]),
         [(OpEst 7 sess1, ([], [])); (OpMod 7 (ModMsg [] [] [] [Pdr 2 false 2 (Some 1) true 0] [] []), ([], [])); (OpDel 7, ([], []))].
  vm_compute. intros H. specialize (H 0). cbn in H. intuition discriminate.
Qed.
Print Assumptions C15_pool_typed_counters_refuted.

(* ---------------------------------------------------------------------------------------------------------
   A failed Write of an establishment / modification is answered with a rejection. *)
(* for the i-th operation of any history: if some Write of it failed (WFail: gRPC error or a p4.Error other than
   OK / ALREADY_EXISTS; WUnk: status UNKNOWN without details) and no WUnk hit the per-PDR table batch, the
   operation is not accepted *)
Theorem C15_fail_rejects_partial : forall c evs i e x,
  nth_error evs i = Some e -> nth_error (snd (run (init c) evs)) i = Some x -> is_del (fst e) = false ->
  existsb unk_tolerated (o_log x) = false -> existsb failed (o_log x) = true -> o_acc x = false.
Proof. exact fail_rejects_run. Qed.
Print Assumptions C15_fail_rejects_partial.

(* F1501: modifyUP4ForwardingConfiguration loops over the p4.Error list of a *P4RuntimeError; a status UNKNOWN
   without details gives an empty list, nothing is inspected, the establishment is accepted *)
Theorem C15_fail_rejects_refuted : exists c evs x, nth_error (snd (run (init c) evs)) 0 = Some x /\
  existsb failed (o_log x) = true /\ o_acc x = true.
Proof.
  exists c0, [(OpEst 7 sess1, ([], [WOk; WOk; WOk; WOk; WUnk]))]. eexists. split. vm_compute. reflexivity. split; reflexivity.
Qed.
Print Assumptions C15_fail_rejects_refuted.

(* ---------------------------------------------------------------------------------------------------------
   Non-vacuity: the guard of C15_counters_partial and the hypotheses of C15_fail_rejects_partial are met by a
   history with a rejected establishment (Write 4 of 6, the tunnel-peer INSERT, fails: two counter cells, two
   application-meter cells and a tunnel-peer id are stranded - conservation is an inequality), an accepted one, a modification
   that moves a FAR to a new tunnel peer, a deletion, and a further establishment that re-uses what was released. *)
Definition hist_ok : list ev :=
  [ (OpEst 7 sess1, ([3; 0; 2; 1], [WOk; WOk; WOk; WFail]));
    (OpEst 8 sess1, ([1; 2; 3; 4], []));
    (OpMod 8 (ModMsg [] [] [] [] [Far 2 true true 9] []), ([], []));
    (OpDel 8, ([], []));
    (OpEst 9 sess2, ([2; 1; 3; 2; 1], [])) ].
Example C15_guard_inhabited :
  ctr_guard hist_ok (snd (run (init c0) hist_ok)) = true /\
  map o_acc (snd (run (init c0) hist_ok)) = [false; true; true; true; true] /\
  map o_bad (snd (run (init c0) hist_ok)) = [false; false; false; false; false] /\
  holders KCtr (fst (run (init c0) hist_ok)) = [2; 1] /\ pool KCtr (fst (run (init c0) hist_ok)) = [4; 5] /\
  holders KAppCell (fst (run (init c0) hist_ok)) = [2; 1; 3] /\ pool KAppCell (fst (run (init c0) hist_ok)) = [5; 4] /\
  holders KSessCell (fst (run (init c0) hist_ok)) = [2; 1] /\ pool KSessCell (fst (run (init c0) hist_ok)) = [3; 4] /\
  holders KPeer (fst (run (init c0) hist_ok)) = [3; 5] /\ pool KPeer (fst (run (init c0) hist_ok)) = [4] /\
  holders KAppId (fst (run (init c0) hist_ok)) = [] /\ pool KAppId (fst (run (init c0) hist_ok)) = [2; 3; 1].
Proof. vm_compute. repeat split. Qed.
Example C15_fail_rejects_inhabited :
  exists x, nth_error (snd (run (init c0) hist_ok)) 0 = Some x /\ existsb unk_tolerated (o_log x) = false /\ existsb failed (o_log x) = true.
Proof. eexists. split. vm_compute. reflexivity. split; reflexivity. Qed.
