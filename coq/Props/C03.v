(* C03 - BESS tables are exactly the image of the live sessions' rules.  Statements only.
   Tables are maps key -> value with the add = upsert / delete-by-key semantics of the four lookup modules
   (Model/Agent.v: t_add, t_del, apply_cmds; the reading of pkg/fake_bess).  [tab m t] selects a module. *)
From Coq Require Import NArith List Bool Lia.
From UPF Require Import Model.IPPool Model.Fteid Model.PortRange Model.Agent Proofs.PortRangeProofs Proofs.AgentProofs.
Import ListNotations.
Open Scope N_scope.

(* ---- the datapath after any batch: last writer per (module, key) wins, every other key is untouched.
   This is the lemma every image statement below rests on ("nothing else is present") *)
Theorem C03_batch_effect : forall cs t m k,
  t_get k (tab m (apply_cmds cs t)) =
  match last_cmd m k cs with Some c => if c_add c then Some (c_val c) else None | None => t_get k (tab m t) end.
Proof. exact apply_cmds_get. Qed.
Print Assumptions C03_batch_effect.

(* ---- add and delete address the same keys (a swapped field or mask in one of them breaks this) *)
Theorem C03_pdr_add_del_same_key : forall p, map c_key (pdr_del p) = map c_key (pdr_add p).
Proof. exact pdr_same_keys. Qed.
Print Assumptions C03_pdr_add_del_same_key.
Theorem C03_qer_add_del_same_key : forall burst q, map c_key (qer_del q) = map c_key (qer_add burst q).
Proof. exact qer_same_keys. Qed.
Print Assumptions C03_qer_add_del_same_key.

(* ---- accepted establishment: the batch is exactly the add-commands of the rules now stored for the session;
   with pairwise distinct keys inside the batch (the envelope: distinct PDRs have distinct match keys) every
   entry is present with its value afterwards, and every key the batch does not name is as before *)
Theorem C03_establishment_installs_image : forall burst a c nid cpf pdrs fars qers draws a' c' rseid n l cr cmds ms sd s,
  handle_est burst a c nid cpf pdrs fars qers draws = Done (a', c', Out (Some (REst rseid CAUSE_OK n (Some l) cr)) cmds ms sd) ->
  find_session l (c_sessions c') = Some s ->
  cmds = add_cmds burst (view (s_pdrs s)) (view (s_fars s)) (view (s_qers s)) /\ a_tables a' = apply_cmds cmds (a_tables a).
Proof. exact est_accepted_tables. Qed.
Print Assumptions C03_establishment_installs_image.

Theorem C03_adds_present : forall cs t c, distinct_keys cs -> (forall x, In x cs -> c_add x = true) -> In c cs ->
  t_get (c_key c) (tab (c_mod c) (apply_cmds cs t)) = Some (c_val c).
Proof. exact adds_install. Qed.
Print Assumptions C03_adds_present.
Theorem C03_nothing_else : forall cs t m k, (forall c, In c cs -> hits m k c = false) ->
  t_get k (tab m (apply_cmds cs t)) = t_get k (tab m t).
Proof. exact apply_cmds_untouched. Qed.
Print Assumptions C03_nothing_else.

(* ---- the ending of a session removes every entry its current rules denote (C05 has the four endings) *)
Theorem C03_deletion_removes_image : forall a s a' cmds, end_session a s = (a', cmds) -> reclaimed a' s /\ a_gauge a' = a_gauge a - 1.
Proof. exact end_session_reclaims. Qed.
Print Assumptions C03_deletion_removes_image.

(* ---- classification, for ALL packets: among the pdrLookup entries of one PDR exactly one matches a packet that
   lies in the PDR's source interface, tunnel endpoint, the two address prefixes, protocol and both port ranges,
   and none matches any other packet (uses the exact-cover theorem of C17 for the two port fields) *)
Theorem C03_classification : forall p k rs,
  wf16 (f_sp p) -> wf16 (f_dp p) -> k_sport k < U16 -> k_dport k < U16 -> cartesian (f_sp p) (f_dp p) = Ok rs ->
  length (filter (fun r => wm_match (pdr_key p r) k) rs) = if pdi_match p k then 1%nat else 0%nat.
Proof. exact classification. Qed.
Print Assumptions C03_classification.

(* ---- requests that name an unknown session or arrive without a matching association write nothing *)
Theorem C03_unknown_session_writes_nothing : forall burst a c seid cpf cp cf cq up uf uq rp rf rq,
  find_session seid (c_sessions c) = None ->
  handle_mod burst a c seid cpf cp cf cq up uf uq rp rf rq = Done (a, c, just (RMod 0 CAUSE_REJ)).
Proof. exact mod_unknown. Qed.
Print Assumptions C03_unknown_session_writes_nothing.
Theorem C03_no_association_writes_nothing : forall burst a c nid cpf pdrs fars qers draws n rseid v4,
  nid = Some (IOk n) -> cpf = Some (IOk (rseid, v4)) -> (c_remote c = 0 \/ n <> c_remote c) ->
  handle_est burst a c nid cpf pdrs fars qers draws = Done (a, c, just (REst rseid CAUSE_NOASSOC true None [])).
Proof. exact est_without_association. Qed.
Print Assumptions C03_no_association_writes_nothing.
Theorem C03_rejected_establishment_writes_nothing : forall burst a c nid cpf pdrs fars qers draws a' c' o,
  handle_est burst a c nid cpf pdrs fars qers draws = Done (a', c', o) ->
  (forall s n u cr, o_reply o <> Some (REst s CAUSE_OK n u cr)) ->
  o_cmds o = [] /\ a_tables a' = a_tables a /\ c' = c /\ a_gauge a' = a_gauge a /\ o_markers o = [].
Proof. exact est_rejected. Qed.
Print Assumptions C03_rejected_establishment_writes_nothing.

(* ---- the FULL statement "after every accepted modification the tables are the image of the stored rules" is
   false of the faithful model.  Three witnesses (each also reproduced on the implementation by the check's corpus): *)

(* F12: {Remove PDR 1, Remove FAR 999} is REJECTED, yet the stored PDR list of the session becomes [2; 2] (the
   working slices alias the stored arrays) while the datapath still holds PDR 1's entry *)
Theorem C03_image_refuted_rejected_modification :
  exists a c m a' c' o,
    handle (fun _ _ _ => 0) a c true m [] = Done (a', c', o) /\ o_reply o = Some (RMod 77 CAUSE_REJ) /\
    map (fun s => map p_id (view (s_pdrs s))) (c_sessions c) = [[1; 2]] /\
    map (fun s => map p_id (view (s_pdrs s))) (c_sessions c') = [[2; 2]] /\
    a_tables a' = a_tables a /\ length (t_pdr (a_tables a)) = 2%nat.
Proof.
  set (p1 := Pdr 1 5 2 255 0 0 0 0 50 10 1 [] 0 false false 0 0 50 4294967295 (PR 0 0) (PR 0 0) 0 0).
  set (p2 := Pdr 2 5 2 255 0 0 0 0 51 10 1 [] 0 false false 0 0 51 4294967295 (PR 0 0) (PR 0 0) 0 0).
  exists (Agent (Cfg 100 200 true) None (Gen 0 []) 1 (apply_cmds (pdr_add p1 ++ pdr_add p2) no_tables)).
  exists (Conn 7 [] [Sess 5 77 (s_of [p1; p2]) (s_of []) (s_of [])] 0).
  exists (MMod 5 None [] [] [] [] [] [] [IOk 1] [IOk 999] []).
  do 3 eexists. repeat split; vm_compute; reflexivity.
Qed.
Print Assumptions C03_image_refuted_rejected_modification.

(* F13: an Update PDR that changes the match key (new UE address) is accepted; the entry under the old key stays *)
Theorem C03_image_refuted_key_changing_update :
  exists a c m a' c' o old_key,
    handle (fun _ _ _ => 0) a c true m [] = Done (a', c', o) /\ o_reply o = Some (RMod 77 CAUSE_OK) /\
    t_get old_key (t_pdr (a_tables a')) <> None /\
    (forall s p r, In s (c_sessions c') -> In p (view (s_pdrs s)) -> In r (pdr_rules p) -> pdr_key p r <> old_key).
Proof.
  set (p1 := Pdr 1 5 2 255 0 0 0 0 50 10 1 [] 0 false false 0 0 50 4294967295 (PR 0 0) (PR 0 0) 0 0).
  exists (Agent (Cfg 100 200 true) None (Gen 0 []) 1 (apply_cmds (pdr_add p1) no_tables)).
  exists (Conn 7 [] [Sess 5 77 (s_of [p1]) (s_of []) (s_of [])] 0).
  exists (MMod 5 None [] [] [] [PdrIE (IOk 1) (IOk 10) (IOk [PSrc (IOk 1); PUeip (IOk (2, Some 60))]) false (IOk 1) true []] [] [] [] [] []).
  do 3 eexists. exists [2; 0; 0; 0; 50; 0; 0; 0; 255; 0; 0; 0; 4294967295; 0; 0; 0].
  split; [vm_compute; reflexivity|]. split; [vm_compute; reflexivity|]. split; [vm_compute; discriminate|].
  intros s p r Hs Hp Hr. vm_compute in Hs. destruct Hs as [<-|[]]. vm_compute in Hp. destruct Hp as [<-|[]].
  vm_compute in Hr. destruct Hr as [<-|[]]. vm_compute. discriminate.
Qed.
Print Assumptions C03_image_refuted_key_changing_update.

(* F13b: a session with two QERs whose QER 2 is the session-level one; an Update QER for QER 2 is written to
   the APPLICATION table (the message's copy is never marked) although the stored QER 2 is session-level *)
Theorem C03_image_refuted_qer_relabel :
  exists a c m a' c' o,
    handle (fun _ _ _ => 0) a c true m [] = Done (a', c', o) /\ o_reply o = Some (RMod 77 CAUSE_OK) /\
    map (fun s => map (fun q => (q_id q, q_level q)) (view (s_qers s))) (c_sessions c') = [[(1, 0); (2, 1)]] /\
    map (fun x => (mod_code_of x, c_key x)) (o_cmds o) = [(2, [1; 2; 5]); (2, [2; 2; 5])].
Proof.
  set (p1 := Pdr 1 5 2 255 0 0 0 0 50 10 1 [1; 2] 0 false false 0 0 50 4294967295 (PR 0 0) (PR 0 0) 0 0).
  exists (Agent (Cfg 100 200 true) None (Gen 0 []) 1 no_tables).
  exists (Conn 7 [] [Sess 5 77 (s_of [p1]) (s_of []) (s_of [Qer 1 5 0 9 0 0 10 10 0 0; Qer 2 5 1 9 0 0 50 50 0 0])] 0).
  exists (MMod 5 None [] [] [] [] [] [QerIE (IOk 2) 9 0 0 70 70 0 0] [] [] []).
  do 3 eexists. repeat split; vm_compute; reflexivity.
Qed.
Print Assumptions C03_image_refuted_qer_relabel.

(* ---- the image invariant over HISTORIES of several associations (Model/World.v): along every history of
   establishments (accepted or rejected), deletions, Session Report responses, association releases, teardowns,
   restarts and node-level messages - everything but Session Modification - on any number of associations, if the
   tables are the image of the stored rules before, they are the image after: every entry the live sessions'
   rules denote is present with its value and NO other key is present.  Hypotheses: every state the history goes
   through is inside the envelope (local SEIDs distinct across live sessions, distinct match keys inside and across
   sessions) and stored allocation flags are backed by the pool.  PARTIAL: Session Modification is excluded (the full
   statement is refuted above); for modifications the per-batch theorems and the correspondence run apply. *)
From UPF Require Import Model.World Proofs.WorldProofs.
Theorem C03_image_invariant_partial : forall burst es w w',
  (forall x, In x (states burst w es) -> envelope burst x /\ alloc_backed x) ->
  forallb ev_ok es = true -> image_ok burst w -> wrun burst w es = Done w' -> image_ok burst w'.
Proof. exact image_invariant. Qed.
Print Assumptions C03_image_invariant_partial.

(* non-vacuity: from a fresh agent, association setup then an accepted establishment (one downlink PDR, one FAR):
   both states satisfy the hypotheses, so the theorem applies and the tables are the image of the one session *)
Example C03_image_invariant_nonvacuous :
  let burst := fun _ _ _ : N => 0 in
  let w0 := World (Agent (Cfg 100 200 true) None (Gen 0 []) 0 no_tables) [] in
  let pdr := PdrIE (IOk 2) (IOk 10) (IOk [PSrc (IOk 1); PUeip (IOk (2, Some 50))]) false (IOk 2) true [] in
  let far := FarIE (IOk 2) (IOk 2) (IOk [FDst (IOk 0); FOhc (IOk (6, Some 8))]) IErr in
  let es := [WMsg 0 true (MSetup (Some (IOk 7)) (Some (IOk 1))) []; WMsg 0 true (MEst (Some (IOk 7)) (Some (IOk (77, Some 3))) [pdr] [far] []) [5]] in
  exists w', wrun burst w0 es = Done w' /\ forallb ev_ok es = true /\ image_ok burst w0 /\
             (forall x, In x (states burst w0 es) -> envelope burst x /\ alloc_backed x) /\
             length (all_sessions w') = 1%nat /\ length (t_pdr (a_tables (w_agent w'))) = 1%nat.
Proof.
  cbv zeta. eexists. split; [vm_compute; reflexivity|]. split; [reflexivity|]. split; [apply image_empty|]. split; [|split; reflexivity].
  intros x Hx. vm_compute in Hx.
  assert (forall cs : list cmd, (length cs <= 2)%nat ->
            (forall a b, nth_error cs 0 = Some a -> nth_error cs 1 = Some b -> hits (c_mod a) (c_key a) b = false /\ hits (c_mod b) (c_key b) a = false) ->
            distinct_keys cs) as D2.
  { intros cs Hl H i j a b Ha Hb Hij. destruct cs as [|c0 [|c1 [|c2 cs]]]; cbn in Hl; try lia.
    - destruct i; discriminate.
    - destruct i as [|[|i]], j as [|[|j]]; simpl in Ha, Hb; try discriminate; try (destruct i; discriminate); try (destruct j; discriminate); exfalso; apply Hij; reflexivity.
    - specialize (H c0 c1 eq_refl eq_refl). destruct H as [H01 H10].
      destruct i as [|[|i]], j as [|[|j]]; simpl in Ha, Hb; try discriminate; try (destruct i; discriminate); try (destruct j; discriminate); try (exfalso; apply Hij; reflexivity).
      + assert (a = c0) as -> by congruence. assert (b = c1) as -> by congruence. exact H01.
      + assert (a = c1) as -> by congruence. assert (b = c0) as -> by congruence. exact H10. }
  destruct Hx as [<-|[<-|[<-|[]]]].
  - split; [|intros s []]. constructor; cbn [w_conns all_sessions flat_map map].
    + constructor.
    + constructor.
    + intros s [].
    + intros s1 s2 [].
  - split; [|intros s []]. constructor; cbn [w_conns all_sessions flat_map map fst snd c_sessions app].
    + repeat constructor. intros [].
    + constructor.
    + intros s [].
    + intros s1 s2 [].
  - split.
    + constructor; cbn [w_conns all_sessions flat_map map fst snd c_sessions app].
      * repeat constructor. intros [].
      * repeat constructor. intros [].
      * intros s [<-|[]]. apply D2; [vm_compute; lia|]. intros a b Ha Hb. vm_compute in Ha, Hb. inversion Ha; inversion Hb; subst. split; reflexivity.
      * intros s1 s2 [<-|[]] [<-|[]] Hne. exfalso. apply Hne. reflexivity.
    + intros s [<-|[]] He. vm_compute in He. discriminate.
Qed.
