(* C03 - BESS tables are exactly the image of the live sessions' rules.  Statements only.
   Tables are maps key -> value with the add = upsert / delete-by-key semantics of the four lookup modules
   (Model/Agent.v: t_add, t_del, apply_cmds; the reading of pkg/fake_bess).  [tab m t] selects a module. *)
From Coq Require Import NArith List Bool Lia.
From UPF Require Import Model.IPPool Model.Fteid Model.PortRange Model.Agent Proofs.PortRangeProofs Proofs.AgentProofs.
Import ListNotations.
Open Scope N_scope.

(* ---- the datapath after any batch: last writer per (module, key) wins, every other key is untouched.
   This is the lemma every image statement below rests on ("nothing else is present") *)
Theorem C03_batch_effect : forall cs t m k,
  t_get k (tab m (apply_cmds cs t)) =
  match last_cmd m k cs with Some c => if c_add c then Some (c_val c) else None | None => t_get k (tab m t) end.
Proof. exact apply_cmds_get. Qed.
Print Assumptions C03_batch_effect.

(* ---- add and delete address the same keys (a swapped field or mask in one of them breaks this) *)
Theorem C03_pdr_add_del_same_key : forall p, map c_key (pdr_del p) = map c_key (pdr_add p).
Proof. exact pdr_same_keys. Qed.
Print Assumptions C03_pdr_add_del_same_key.
Theorem C03_qer_add_del_same_key : forall burst q, map c_key (qer_del q) = map c_key (qer_add burst q).
Proof. exact qer_same_keys. Qed.
Print Assumptions C03_qer_add_del_same_key.

(* ---- accepted establishment: the batch is exactly the add-commands of the rules now stored for the session;
   with pairwise distinct keys inside the batch (the envelope: distinct PDRs have distinct match keys) every
   entry is present with its value afterwards, and every key the batch does not name is as before *)
Theorem C03_establishment_installs_image : forall burst a c nid cpf pdrs fars qers draws a' c' rseid n l cr cmds ms sd s,
  handle_est burst a c nid cpf pdrs fars qers draws = Done (a', c', Out (Some (REst rseid CAUSE_OK n (Some l) cr)) cmds ms sd) ->
  find_session l (c_sessions c') = Some s ->
  cmds = add_cmds burst (view (s_pdrs s)) (view (s_fars s)) (view (s_qers s)) /\ a_tables a' = apply_cmds cmds (a_tables a).
Proof. exact est_accepted_tables. Qed.
Print Assumptions C03_establishment_installs_image.

Theorem C03_adds_present : forall cs t c, distinct_keys cs -> (forall x, In x cs -> c_add x = true) -> In c cs ->
  t_get (c_key c) (tab (c_mod c) (apply_cmds cs t)) = Some (c_val c).
Proof. exact adds_install. Qed.
Print Assumptions C03_adds_present.
Theorem C03_nothing_else : forall cs t m k, (forall c, In c cs -> hits m k c = false) ->
  t_get k (tab m (apply_cmds cs t)) = t_get k (tab m t).
Proof. exact apply_cmds_untouched. Qed.
Print Assumptions C03_nothing_else.

(* ---- the ending of a session removes every entry its current rules denote (C05 has the four endings) *)
Theorem C03_deletion_removes_image : forall a s a' cmds, end_session a s = (a', cmds) -> reclaimed a' s /\ a_gauge a' = a_gauge a - 1.
Proof. exact end_session_reclaims. Qed.
Print Assumptions C03_deletion_removes_image.

(* ---- classification, for ALL packets: among the pdrLookup entries of one PDR exactly one matches a packet that
   lies in the PDR's source interface, tunnel endpoint, the two address prefixes, protocol and both port ranges,
   and none matches any other packet (uses the exact-cover theorem of C17 for the two port fields) *)
Theorem C03_classification : forall p k rs,
  wf16 (f_sp p) -> wf16 (f_dp p) -> k_sport k < U16 -> k_dport k < U16 -> cartesian (f_sp p) (f_dp p) = Ok rs ->
  length (filter (fun r => wm_match (pdr_key p r) k) rs) = if pdi_match p k then 1%nat else 0%nat.
Proof. exact classification. Qed.
Print Assumptions C03_classification.

(* ---- requests that name an unknown session or arrive without a matching association write nothing *)
Theorem C03_unknown_session_writes_nothing : forall burst a c seid cpf cp cf cq up uf uq rp rf rq,
  find_session seid (c_sessions c) = None ->
  handle_mod burst a c seid cpf cp cf cq up uf uq rp rf rq = Done (a, c, just (RMod 0 CAUSE_REJ)).
Proof. exact mod_unknown. Qed.
Print Assumptions C03_unknown_session_writes_nothing.
Theorem C03_no_association_writes_nothing : forall burst a c nid cpf pdrs fars qers draws n rseid v4,
  nid = Some (IOk n) -> cpf = Some (IOk (rseid, v4)) -> (c_remote c = 0 \/ n <> c_remote c) ->
  handle_est burst a c nid cpf pdrs fars qers draws = Done (a, c, just (REst rseid CAUSE_NOASSOC true None [])).
Proof. exact est_without_association. Qed.
Print Assumptions C03_no_association_writes_nothing.
Theorem C03_rejected_establishment_writes_nothing : forall burst a c nid cpf pdrs fars qers draws a' c' o,
  handle_est burst a c nid cpf pdrs fars qers draws = Done (a', c', o) ->
  (forall s n u cr, o_reply o <> Some (REst s CAUSE_OK n u cr)) ->
  o_cmds o = [] /\ a_tables a' = a_tables a /\ c' = c /\ a_gauge a' = a_gauge a /\ o_markers o = [].
Proof. exact est_rejected. Qed.
Print Assumptions C03_rejected_establishment_writes_nothing.

(* ---- the FULL statement "after every accepted modification the tables are the image of the stored rules" is
   false of the faithful model.  Three witnesses (each also reproduced on the implementation by the check's corpus): *)

(* F12: {Remove PDR 1, Remove FAR 999} is REJECTED, yet the stored PDR list of the session becomes [2; 2] (the
   working slices alias the stored arrays) while the datapath still holds PDR 1's entry *)
Theorem C03_image_refuted_rejected_modification :
  exists a c m a' c' o,
    handle (fun _ _ _ => 0) a c true m [] = Done (a', c', o) /\ o_reply o = Some (RMod 77 CAUSE_REJ) /\
    map (fun s => map p_id (view (s_pdrs s))) (c_sessions c) = [[1; 2]] /\
    map (fun s => map p_id (view (s_pdrs s))) (c_sessions c') = [[2; 2]] /\
    a_tables a' = a_tables a /\ length (t_pdr (a_tables a)) = 2%nat.
Proof.
  set (p1 := Pdr 1 5 2 255 0 0 0 0 50 10 1 [] 0 false false 0 0 50 4294967295 (PR 0 0) (PR 0 0) 0 0).
  set (p2 := Pdr 2 5 2 255 0 0 0 0 51 10 1 [] 0 false false 0 0 51 4294967295 (PR 0 0) (PR 0 0) 0 0).
  exists (Agent (Cfg 100 200 true) None (Gen 0 []) 1 (apply_cmds (pdr_add p1 ++ pdr_add p2) no_tables)).
  exists (Conn 7 [] [Sess 5 77 (s_of [p1; p2]) (s_of []) (s_of [])] 0).
  exists (MMod 5 None [] [] [] [] [] [] [IOk 1] [IOk 999] []).
  do 3 eexists. repeat split; vm_compute; reflexivity.
Qed.
Print Assumptions C03_image_refuted_rejected_modification.

(* F12, parse-phase variant (same defect: a rejection after an in-place mutation of the aliased store): {Update FAR 2
   (new tunnel), unreadable Update FAR} is REJECTED and writes nothing, yet the stored FAR 2 carries the new tunnel
   (9, TEID 7) while farLookup still holds the old one (8, TEID 6).  This is why the guard of the history theorem below
   admits a parse-phase rejection only when no Update had taken effect before the failing IE *)
Theorem C03_image_refuted_rejected_update :
  exists a c m a' c' o,
    handle (fun _ _ _ => 0) a c true m [] = Done (a', c', o) /\ o_reply o = Some (RMod 77 CAUSE_REJ) /\ o_cmds o = [] /\
    map (fun s => map (fun f => (a_id f, a_tdst f, a_teid f)) (view (s_fars s))) (c_sessions c) = [[(2, 8, 6)]] /\
    map (fun s => map (fun f => (a_id f, a_tdst f, a_teid f)) (view (s_fars s))) (c_sessions c') = [[(2, 9, 7)]] /\
    a_tables a' = a_tables a /\ t_far (a_tables a) = [([2; 5], [1; 0; 1; 100; 8; 6; 2152])].
Proof.
  set (f2 := Far 2 5 0 false 2 1 100 8 6 2152).
  exists (Agent (Cfg 100 200 true) None (Gen 0 []) 1 (apply_cmds (far_add f2) no_tables)).
  exists (Conn 7 [] [Sess 5 77 (s_of []) (s_of [f2]) (s_of [])] 0).
  exists (MMod 5 None [] [] [] [] [FarIE (IOk 2) (IOk 2) IErr (IOk [FDst (IOk 0); FOhc (IOk (7, Some 9))]); FarIE IErr IErr IErr IErr] [] [] [] []).
  do 3 eexists. repeat split; vm_compute; reflexivity.
Qed.
Print Assumptions C03_image_refuted_rejected_update.

(* F13: an Update PDR that changes the match key (new UE address) is accepted; the entry under the old key stays *)
Theorem C03_image_refuted_key_changing_update :
  exists a c m a' c' o old_key,
    handle (fun _ _ _ => 0) a c true m [] = Done (a', c', o) /\ o_reply o = Some (RMod 77 CAUSE_OK) /\
    t_get old_key (t_pdr (a_tables a')) <> None /\
    (forall s p r, In s (c_sessions c') -> In p (view (s_pdrs s)) -> In r (pdr_rules p) -> pdr_key p r <> old_key).
Proof.
  set (p1 := Pdr 1 5 2 255 0 0 0 0 50 10 1 [] 0 false false 0 0 50 4294967295 (PR 0 0) (PR 0 0) 0 0).
  exists (Agent (Cfg 100 200 true) None (Gen 0 []) 1 (apply_cmds (pdr_add p1) no_tables)).
  exists (Conn 7 [] [Sess 5 77 (s_of [p1]) (s_of []) (s_of [])] 0).
  exists (MMod 5 None [] [] [] [PdrIE (IOk 1) (IOk 10) (IOk [PSrc (IOk 1); PUeip (IOk (2, Some 60))]) false (IOk 1) true []] [] [] [] [] []).
  do 3 eexists. exists [2; 0; 0; 0; 50; 0; 0; 0; 255; 0; 0; 0; 4294967295; 0; 0; 0].
  split; [vm_compute; reflexivity|]. split; [vm_compute; reflexivity|]. split; [vm_compute; discriminate|].
  intros s p r Hs Hp Hr. vm_compute in Hs. destruct Hs as [<-|[]]. vm_compute in Hp. destruct Hp as [<-|[]].
  vm_compute in Hr. destruct Hr as [<-|[]]. vm_compute. discriminate.
Qed.
Print Assumptions C03_image_refuted_key_changing_update.

(* F13b: a session with two QERs whose QER 2 is the session-level one; an Update QER for QER 2 is written to
   the APPLICATION table (the message's copy is never marked) although the stored QER 2 is session-level *)
Theorem C03_image_refuted_qer_relabel :
  exists a c m a' c' o,
    handle (fun _ _ _ => 0) a c true m [] = Done (a', c', o) /\ o_reply o = Some (RMod 77 CAUSE_OK) /\
    map (fun s => map (fun q => (q_id q, q_level q)) (view (s_qers s))) (c_sessions c') = [[(1, 0); (2, 1)]] /\
    map (fun x => (mod_code_of x, c_key x)) (o_cmds o) = [(2, [1; 2; 5]); (2, [2; 2; 5])].
Proof.
  set (p1 := Pdr 1 5 2 255 0 0 0 0 50 10 1 [1; 2] 0 false false 0 0 50 4294967295 (PR 0 0) (PR 0 0) 0 0).
  exists (Agent (Cfg 100 200 true) None (Gen 0 []) 1 no_tables).
  exists (Conn 7 [] [Sess 5 77 (s_of [p1]) (s_of []) (s_of [Qer 1 5 0 9 0 0 10 10 0 0; Qer 2 5 1 9 0 0 50 50 0 0])] 0).
  exists (MMod 5 None [] [] [] [] [] [QerIE (IOk 2) 9 0 0 70 70 0 0] [] [] []).
  do 3 eexists. repeat split; vm_compute; reflexivity.
Qed.
Print Assumptions C03_image_refuted_qer_relabel.

(* A fourth shape, met while proving the history theorem below (not yet a recorded finding): a PDR is REPLACED in one
   message - {Remove PDR 1, Create PDR 2 with the same PDI}.  The handler sends the add batch first and the delete batch
   afterwards, both address the same pdrLookup key: the modification is accepted, the session stores PDR 2, and
   pdrLookup is EMPTY (the new entry was deleted with the old one) *)
Theorem C03_image_refuted_replace_same_key :
  exists a c m a' c' o,
    handle (fun _ _ _ => 0) a c true m [] = Done (a', c', o) /\ o_reply o = Some (RMod 77 CAUSE_OK) /\
    map (fun s => map p_id (view (s_pdrs s))) (c_sessions c) = [[1]] /\ length (t_pdr (a_tables a)) = 1%nat /\
    map (fun s => map p_id (view (s_pdrs s))) (c_sessions c') = [[2]] /\ t_pdr (a_tables a') = [] /\
    map (fun x => (c_add x, c_key x)) (o_cmds o) =
      [(true, [2; 0; 0; 0; 50; 0; 0; 0; 255; 0; 0; 0; 4294967295; 0; 0; 0]);
       (false, [2; 0; 0; 0; 50; 0; 0; 0; 255; 0; 0; 0; 4294967295; 0; 0; 0])].
Proof.
  set (p1 := Pdr 1 5 2 255 0 0 0 0 50 10 1 [] 0 false false 0 0 50 4294967295 (PR 0 0) (PR 0 0) 0 0).
  exists (Agent (Cfg 100 200 true) None (Gen 0 []) 1 (apply_cmds (pdr_add p1) no_tables)).
  exists (Conn 7 [] [Sess 5 77 (s_of [p1]) (s_of []) (s_of [])] 0).
  exists (MMod 5 None [PdrIE (IOk 2) (IOk 20) (IOk [PSrc (IOk 1); PUeip (IOk (2, Some 50))]) false (IOk 1) true []] [] [] [] [] [] [IOk 1] [] []).
  do 3 eexists. split; [vm_compute; reflexivity|].
  split; [vm_compute; reflexivity|]. split; [vm_compute; reflexivity|]. split; [vm_compute; reflexivity|].
  split; [vm_compute; reflexivity|]. split; [vm_compute; reflexivity|]. vm_compute; reflexivity.
Qed.
Print Assumptions C03_image_refuted_replace_same_key.

(* ---- the image invariant over HISTORIES of several associations (Model/World.v): along every history of
   establishments (accepted or rejected), deletions, Session Report responses, association releases, teardowns,
   restarts and node-level messages - everything but Session Modification - on any number of associations, if the
   tables are the image of the stored rules before, they are the image after: every entry the live sessions'
   rules denote is present with its value and NO other key is present.  Hypotheses: every state the history goes
   through is inside the envelope (local SEIDs distinct across live sessions, distinct match keys inside and across
   sessions) and stored allocation flags are backed by the pool.  PARTIAL: Session Modification is excluded (the full
   statement is refuted above); for modifications the per-batch theorems and the correspondence run apply. *)
From UPF Require Import Model.World Proofs.WorldProofs.
Theorem C03_image_invariant_partial : forall burst es w w',
  (forall x, In x (states burst w es) -> envelope burst x /\ alloc_backed x) ->
  forallb ev_ok es = true -> image_ok burst w -> wrun burst w es = Done w' -> image_ok burst w'.
Proof. exact image_invariant. Qed.
Print Assumptions C03_image_invariant_partial.

(* non-vacuity: from a fresh agent, association setup then an accepted establishment (one downlink PDR, one FAR):
   both states satisfy the hypotheses, so the theorem applies and the tables are the image of the one session *)
Example C03_image_invariant_nonvacuous :
  let burst := fun _ _ _ : N => 0 in
  let w0 := World (Agent (Cfg 100 200 true) None (Gen 0 []) 0 no_tables) [] in
  let pdr := PdrIE (IOk 2) (IOk 10) (IOk [PSrc (IOk 1); PUeip (IOk (2, Some 50))]) false (IOk 2) true [] in
  let far := FarIE (IOk 2) (IOk 2) (IOk [FDst (IOk 0); FOhc (IOk (6, Some 8))]) IErr in
  let es := [WMsg 0 true (MSetup (Some (IOk 7)) (Some (IOk 1))) []; WMsg 0 true (MEst (Some (IOk 7)) (Some (IOk (77, Some 3))) [pdr] [far] []) [5]] in
  exists w', wrun burst w0 es = Done w' /\ forallb ev_ok es = true /\ image_ok burst w0 /\
             (forall x, In x (states burst w0 es) -> envelope burst x /\ alloc_backed x) /\
             length (all_sessions w') = 1%nat /\ length (t_pdr (a_tables (w_agent w'))) = 1%nat.
Proof.
  cbv zeta. eexists. split; [vm_compute; reflexivity|]. split; [reflexivity|]. split; [apply image_empty|]. split; [|split; reflexivity].
  intros x Hx. vm_compute in Hx.
  assert (forall cs : list cmd, (length cs <= 2)%nat ->
            (forall a b, nth_error cs 0 = Some a -> nth_error cs 1 = Some b -> hits (c_mod a) (c_key a) b = false /\ hits (c_mod b) (c_key b) a = false) ->
            distinct_keys cs) as D2.
  { intros cs Hl H i j a b Ha Hb Hij. destruct cs as [|c0 [|c1 [|c2 cs]]]; cbn in Hl; try lia.
    - destruct i; discriminate.
    - destruct i as [|[|i]], j as [|[|j]]; simpl in Ha, Hb; try discriminate; try (destruct i; discriminate); try (destruct j; discriminate); exfalso; apply Hij; reflexivity.
    - specialize (H c0 c1 eq_refl eq_refl). destruct H as [H01 H10].
      destruct i as [|[|i]], j as [|[|j]]; simpl in Ha, Hb; try discriminate; try (destruct i; discriminate); try (destruct j; discriminate); try (exfalso; apply Hij; reflexivity).
      + assert (a = c0) as -> by congruence. assert (b = c1) as -> by congruence. exact H01.
      + assert (a = c1) as -> by congruence. assert (b = c0) as -> by congruence. exact H10. }
  destruct Hx as [<-|[<-|[<-|[]]]].
  - split; [|intros s []]. constructor; cbn [w_conns all_sessions flat_map map].
    + constructor.
    + constructor.
    + intros s [].
    + intros s1 s2 [].
  - split; [|intros s []]. constructor; cbn [w_conns all_sessions flat_map map fst snd c_sessions app].
    + repeat constructor. intros [].
    + constructor.
    + intros s [].
    + intros s1 s2 [].
  - split.
    + constructor; cbn [w_conns all_sessions flat_map map fst snd c_sessions app].
      * repeat constructor. intros [].
      * repeat constructor. intros [].
      * intros s [<-|[]]. apply D2; [vm_compute; lia|]. intros a b Ha Hb. vm_compute in Ha, Hb. inversion Ha; inversion Hb; subst. split; reflexivity.
      * intros s1 s2 [<-|[]] [<-|[]] Hne. exfalso. apply Hne. reflexivity.
    + intros s [<-|[]] He. vm_compute in He. discriminate.
Qed.

(* ---- the image invariant over histories INCLUDING Session Modification, inside the guard [mod_ok]
   (Proofs/ModWorld.v; per-step lemmas in Proofs/ModImage.v).  [guarded_hist burst w es] checks every event against the
   state it meets: events other than Session Modification must satisfy [ev_ok] as before; a Session Modification must
   satisfy the executable guard [mod_ok burst (state before) association message]:
     - unknown SEID: always inside (rejected, nothing changes);
     - a parse loop stops (rejected before anything is written): inside when the failing IE is a Create PDR / FAR /
       QER, or an Update IE before which no Update had hit a stored rule (only appends happened), and the stored
       slices are well formed (len <= cap) - then the stored rule lists are unchanged although the backing arrays
       are the working copies';
     - all parse loops complete ([late_ok]): an Update PDR keeps the pdrLookup keys of the rule it replaces; stored
       FARs / QERs named by an Update carry the session's SEID and such a QER is application level; PDR ids are
       pairwise distinct when the message writes PDRs (created ids are fresh); the FARs (QERs) written by the message
       have pairwise distinct ids; MarkSessionQer re-run on the session's lists and on the message's QER list changes
       nothing (no relabel - true of a session already marked at establishment); every Remove PDR / FAR / QER id
       resolves; when creations and removals come in one message, the rule lists the session has BETWEEN the add batch
       and the delete batch (old and new rules together) have pairwise distinct keys, distinct from the other
       sessions' keys (a Create whose key equals that of a rule removed by the same message is installed and then
       deleted: C03_image_refuted_replace_same_key).
   Inside: any number of Update FARs (Outer Header Creation, end-marker flag, buffering, unknown ids skipped), CP
   F-SEID change, Remove PDR/FAR/QER of existing rules, Create PDR/FAR/QER, Update QER of application-level QERs,
   Update PDR that changes precedence / FAR id / QER list / value fields but not the match key - and their mixtures.
   Outside (the three refuting shapes above and what the proof does not reach): a rejected modification whose failing
   IE comes after an in-place update or whose Remove id is unknown (F12), key-changing Update PDR (F13), relabelling
   and Update of the session-level QER (F13b), the same FAR / QER id written twice in one message. *)
From UPF Require Import Proofs.ModImage Proofs.ModWorld.
Theorem C03_image_invariant_mod_partial : forall burst es w w',
  (forall x, In x (states burst w es) -> envelope burst x /\ alloc_backed x) ->
  guarded_hist burst w es = true -> image_ok burst w -> wrun burst w es = Done w' -> image_ok burst w'.
Proof. exact image_invariant_mod. Qed.
Print Assumptions C03_image_invariant_mod_partial.

(* the old theorem's histories are inside the new guard *)
Theorem C03_mod_guard_subsumes : forall burst es w, forallb ev_ok es = true -> guarded_hist burst w es = true.
Proof. exact ev_ok_hist_ok. Qed.
Print Assumptions C03_mod_guard_subsumes.

(* per step, accepted: under the guard the modification is ACCEPTED, the stored session is replaced by [s'], the
   tables are the old ones with the message's batch applied, and whatever else the tables hold ([rest], disjoint by
   the envelope) the image of the session before becomes the image of the session after *)
Theorem C03_mod_image_step : forall burst a c seid cpf cp cf cq up uf uq rp rf rq mid s0 w6 a' c' o,
  find_session seid (c_sessions c) = Some s0 ->
  mod_loops a c s0 seid cp cf cq up uf uq = (w6, 0%nat) ->
  late_ok a c seid s0 w6 cp cf cq up uf uq rp rf rq mid = true ->
  handle_mod burst a c seid cpf cp cf cq up uf uq rp rf rq = Done (a', c', o) ->
  exists s', c_sessions c' = replace_session s' (c_sessions c) /\ s_lseid s' = s_lseid s0 /\
    a_tables a' = apply_cmds (o_cmds o) (a_tables a) /\ o_reply o = Some (RMod (new_rseid cpf s0) CAUSE_OK) /\
    (forall rest, is_image (a_tables a) (session_cmds burst s0 ++ rest) ->
       NoDup (map tg (session_cmds burst s0)) -> disjoint_from (session_cmds burst s0) rest ->
       NoDup (map tg (session_cmds burst s')) -> disjoint_from (session_cmds burst s') rest ->
       ((nil_b cp && nil_b cf && nil_b cq) || (nil_b rp && nil_b rf && nil_b rq) = false -> mid = true ->
        NoDup (map tg (add_cmds burst (view (w_p w6)) (view (w_f w6)) (view (w_q w6)))) /\
        disjoint_from (add_cmds burst (view (w_p w6)) (view (w_f w6)) (view (w_q w6))) rest) ->
       is_image (a_tables a') (session_cmds burst s' ++ rest)).
Proof. exact mod_late_image. Qed.
Print Assumptions C03_mod_image_step.

(* per step, rejected in the parse phase by a Create IE (or by an Update IE before any update took effect): nothing is
   written and the stored rule lists are unchanged (F12 is the rejection AFTER the parse phase, where they are not) *)
Theorem C03_mod_parse_reject_step : forall burst a c seid cpf cp cf cq up uf uq rp rf rq s0 w k a' c' o,
  find_session seid (c_sessions c) = Some s0 ->
  mod_loops a c s0 seid cp cf cq up uf uq = (w, S k) ->
  early_ok s0 (S k) w cp cf cq = true ->
  handle_mod burst a c seid cpf cp cf cq up uf uq rp rf rq = Done (a', c', o) ->
  exists s', c_sessions c' = replace_session s' (c_sessions c) /\ s_lseid s' = s_lseid s0 /\
    a_tables a' = a_tables a /\ o_cmds o = [] /\ o_reply o = Some (RMod (new_rseid cpf s0) CAUSE_REJ) /\
    session_cmds burst s' = session_cmds burst s0.
Proof. exact mod_early_image. Qed.
Print Assumptions C03_mod_parse_reject_step.

(* non-vacuity: association setup; establishment of a session with an uplink and a downlink PDR, two FARs, two QERs
   (QER 2 becomes the session-level one); a handover-style modification with three Update FARs (FAR 2: new tunnel with
   the end-marker flag, FAR 99: unknown, skipped, FAR 1); a modification creating PDR 3 / FAR 3; a CP F-SEID change; a
   modification with an Update PDR (new precedence, same key) and an Update QER (application QER 1); a modification
   that removes PDR 3 / FAR 3 and creates PDR 4 / FAR 4 in one message; a modification rejected in the parse phase
   (unreadable Create FAR); the deletion.  Every
   hypothesis of the theorem holds of this history (every state inside the envelope, every event inside the guard), all
   modifications but the eighth event are accepted, the end marker goes to the OLD tunnel (100 -> 8, TEID 6), and
   after the seventh event the FAR table holds FAR 2 with the new tunnel (9, TEID 7) and FAR 4 instead of FAR 3, PDR 2
   has the new precedence, PDR 4 replaces PDR 3 and the application QER entries have the new rate *)
Example C03_image_invariant_mod_nonvacuous :
  let burst := fun _ _ _ : N => 0 in
  let w0 := World (Agent (Cfg 100 200 true) None (Gen 0 []) 0 no_tables) [] in
  let pdr1 := PdrIE (IOk 1) (IOk 10) (IOk [PSrc (IOk 0); PFteid (IOk (false, 11, Some 100))]) true (IOk 1) true [1; 2] in
  let pdr2 := PdrIE (IOk 2) (IOk 10) (IOk [PSrc (IOk 1); PUeip (IOk (2, Some 50))]) false (IOk 2) true [1; 2] in
  let far1 := FarIE (IOk 1) (IOk 2) (IOk [FDst (IOk 1)]) IErr in
  let far2 := FarIE (IOk 2) (IOk 2) (IOk [FDst (IOk 0); FOhc (IOk (6, Some 8))]) IErr in
  let qer1 := QerIE (IOk 1) 9 0 0 1000 1000 0 0 in
  let qer2 := QerIE (IOk 2) 9 0 0 5000 5000 0 0 in
  let ufar2 := FarIE (IOk 2) (IOk 2) IErr (IOk [FDst (IOk 0); FOhc (IOk (7, Some 9)); FSm (IOk 2)]) in
  let ufar1 := FarIE (IOk 1) (IOk 2) IErr (IOk [FDst (IOk 1)]) in
  let ufar99 := FarIE (IOk 99) (IOk 2) IErr (IOk [FDst (IOk 1)]) in
  let pdr3 := PdrIE (IOk 3) (IOk 20) (IOk [PSrc (IOk 1); PUeip (IOk (2, Some 51))]) false (IOk 3) true [1; 2] in
  let far3 := FarIE (IOk 3) (IOk 2) (IOk [FDst (IOk 0); FOhc (IOk (16, Some 8))]) IErr in
  let pdr4 := PdrIE (IOk 4) (IOk 20) (IOk [PSrc (IOk 1); PUeip (IOk (2, Some 52))]) false (IOk 4) true [1; 2] in
  let far4 := FarIE (IOk 4) (IOk 2) (IOk [FDst (IOk 0); FOhc (IOk (17, Some 8))]) IErr in
  let upd2 := PdrIE (IOk 2) (IOk 30) (IOk [PSrc (IOk 1); PUeip (IOk (2, Some 50))]) false (IOk 2) true [1; 2] in
  let uqer1 := QerIE (IOk 1) 9 0 0 2000 2000 0 0 in
  let es := [WMsg 0 true (MSetup (Some (IOk 7)) (Some (IOk 1))) [];
             WMsg 0 true (MEst (Some (IOk 7)) (Some (IOk (77, Some 3))) [pdr1; pdr2] [far1; far2] [qer1; qer2]) [5];
             WMsg 0 true (MMod 5 None [] [] [] [] [ufar2; ufar99; ufar1] [] [] [] []) [];
             WMsg 0 true (MMod 5 None [pdr3] [far3] [] [] [] [] [] [] []) [];
             WMsg 0 true (MMod 5 (Some (IOk (78, Some 3))) [] [] [] [] [] [] [] [] []) [];
             WMsg 0 true (MMod 5 None [] [] [] [upd2] [] [uqer1] [] [] []) [];
             WMsg 0 true (MMod 5 None [pdr4] [far4] [] [] [] [] [IOk 3] [IOk 3] []) [];
             WMsg 0 true (MMod 5 None [] [FarIE IErr IErr IErr IErr] [] [] [] [] [] [] []) [];
             WMsg 0 true (MDel 5) []] in
  (forall x, In x (states burst w0 es) -> envelope burst x /\ alloc_backed x) /\
  guarded_hist burst w0 es = true /\ forallb ev_ok es = false /\ image_ok burst w0 /\
  wtrace burst w0 es =
    [(Some (RSetup CAUSE_OK), []); (Some (REst 77 CAUSE_OK true (Some 5) []), []);
     (Some (RMod 77 CAUSE_OK), [Marker 100 8 6]); (Some (RMod 77 CAUSE_OK), []); (Some (RMod 78 CAUSE_OK), []);
     (Some (RMod 78 CAUSE_OK), []); (Some (RMod 78 CAUSE_OK), []); (Some (RMod 78 CAUSE_REJ), []); (Some (RDel 78 CAUSE_OK), [])] /\
  (exists w7, wrun burst w0 (firstn 7 es) = Done w7 /\ image_ok burst w7 /\
     a_tables (w_agent w7) =
       Tables [([2; 0; 0; 0; 52; 0; 0; 0; 255; 0; 0; 0; 4294967295; 0; 0; 0], [0; 4294967275; 4; 5; 0; 1; 4]);
               ([2; 0; 0; 0; 50; 0; 0; 0; 255; 0; 0; 0; 4294967295; 0; 0; 0], [0; 4294967265; 2; 5; 0; 1; 2]);
               ([1; 100; 11; 0; 0; 0; 0; 0; 255; 4294967295; 4294967295; 0; 0; 0; 0; 0], [1; 4294967285; 1; 5; 0; 1; 1])]
              [([4; 5], [1; 0; 1; 100; 8; 17; 2152]); ([1; 5], [0; 1; 0; 200; 0; 0; 0]); ([2; 5], [1; 0; 1; 100; 9; 7; 2152])]
              [([2; 1; 5], [0; 1; 250000; 0; 0; 0; 9]); ([1; 1; 5], [0; 1; 250000; 0; 0; 0; 9])]
              [([2; 5], [0; 1; 625000; 0; 0; 0]); ([1; 5], [0; 1; 625000; 0; 0; 0])]) /\
  (exists w9, wrun burst w0 es = Done w9 /\ image_ok burst w9 /\ a_tables (w_agent w9) = no_tables).
Proof.
  intros burst w0 pdr1 pdr2 far1 far2 qer1 qer2 ufar2 ufar1 ufar99 pdr3 far3 pdr4 far4 upd2 uqer1 es.
  assert (forall x, In x (states burst w0 es) -> envelope burst x /\ alloc_backed x) as Henv
    by (apply states_ok_b; vm_compute; reflexivity).
  split; [exact Henv|]. split; [vm_compute; reflexivity|]. split; [vm_compute; reflexivity|]. split; [apply image_empty|].
  split; [vm_compute; reflexivity|]. split.
  - eexists. split; [vm_compute; reflexivity|]. split; [|vm_compute; reflexivity].
    apply (C03_image_invariant_mod_partial burst (firstn 7 es) w0); [| |apply image_empty|vm_compute; reflexivity].
    + apply states_ok_b. vm_compute. reflexivity.
    + vm_compute. reflexivity.
  - eexists. split; [vm_compute; reflexivity|]. split; [|vm_compute; reflexivity].
    apply (C03_image_invariant_mod_partial burst es w0); [exact Henv| |apply image_empty|vm_compute; reflexivity].
    vm_compute. reflexivity.
Qed.
