(* C05 - ending a session reclaims everything it ever acquired.  Statements only.
   [reclaimed a s] (Proofs/AgentProofs.v): no pdrLookup / farLookup / Qos entry under any key the session's
   current rules denote, its UP-chosen TEIDs are free again, its UE address is back in the pool (when one of
   its stored PDRs carries the allocation flag), and the gauge went down by one. *)
From Coq Require Import NArith List Bool.
From UPF Require Import Model.IPPool Model.Fteid Model.PortRange Model.Agent Proofs.AgentProofs.
Import ListNotations.
Open Scope N_scope.

(* Session Deletion *)
Theorem C05_deletion : forall a c seid s a' c' o,
  find_session seid (c_sessions c) = Some s -> handle_del a c seid = (a', c', o) ->
  (exists r, o_reply o = Some (RDel r CAUSE_OK)) ->
  reclaimed a' s /\ a_gauge a' = a_gauge a - 1 /\ find_session seid (c_sessions c') = None /\
  o_reply o = Some (RDel (s_rseid s) CAUSE_OK).
Proof. exact handle_del_accepted. Qed.
Print Assumptions C05_deletion.

(* Association Release, read timeout, heartbeat failure, stop: Shutdown() over ANY number of stored sessions;
   every one of them is reclaimed, the gauge drops by their number, and what had been reclaimed before stays so *)
Theorem C05_shutdown : forall ss a a' cmds,
  NoDup (map s_lseid ss) -> shutdown_sessions a ss = (a', cmds) ->
  (forall s, In s ss -> reclaimed a' s) /\ a_gauge a' = a_gauge a - N.of_nat (length ss) /\
  (forall s0, reclaimed a s0 -> ~ In (s_lseid s0) (map s_lseid ss) -> reclaimed a' s0).
Proof. exact shutdown_sessions_reclaims. Qed.
Print Assumptions C05_shutdown.

(* Session Report answered "session context not found" *)
Theorem C05_report_context_not_found : forall a c seid s a' c' o,
  find_session seid (c_sessions c) = Some s ->
  handle_report_rsp a c seid (Some (IOk CAUSE_NOTFOUND)) = (a', c', o) ->
  reclaimed a' s /\ a_gauge a' = a_gauge a - 1 /\ find_session seid (c_sessions c') = None /\ o_reply o = None.
Proof. exact report_rsp_not_found. Qed.
Print Assumptions C05_report_context_not_found.

(* whatever rejected requests preceded: a rejected establishment keeps nothing (no datapath write, no stored
   session, gauge unchanged); a rejected modification of an unknown session changes nothing at all *)
Theorem C05_rejected_establishment_keeps_nothing : forall burst a c nid cpf pdrs fars qers draws a' c' o,
  handle_est burst a c nid cpf pdrs fars qers draws = Done (a', c', o) ->
  (forall s n u cr, o_reply o <> Some (REst s CAUSE_OK n u cr)) ->
  o_cmds o = [] /\ a_tables a' = a_tables a /\ c' = c /\ a_gauge a' = a_gauge a /\ o_markers o = [].
Proof. exact est_rejected. Qed.
Print Assumptions C05_rejected_establishment_keeps_nothing.

(* what was reclaimed is not brought back by the ending of another session *)
Theorem C05_reclaimed_is_stable : forall a s0 s a' cmds,
  reclaimed a s0 -> end_session a s = (a', cmds) -> s_lseid s <> s_lseid s0 -> reclaimed a' s0.
Proof. exact end_session_keeps. Qed.
Print Assumptions C05_reclaimed_is_stable.

(* FULL statement ("everything allocated for it is returned ... whatever requests preceded") is false of the
   faithful model: [reclaimed] finds the UE address through the allocation flag of a STORED PDR.  Witness (finding
   F37): the allocating PDR 2 is removed by an accepted modification while PDR 1 stays; after the accepted
   deletion the pool still holds the session's address. *)
Theorem C05_ue_address_refuted :
  exists a c m1 a1 c1 o1 a2 c2 o2,
    pool_holds (a_pool a) 5 = true /\
    handle (fun _ _ _ => 0) a c true m1 [] = Done (a1, c1, o1) /\ o_reply o1 = Some (RMod 77 CAUSE_OK) /\
    handle_del a1 c1 5 = (a2, c2, o2) /\ o_reply o2 = Some (RDel 77 CAUSE_OK) /\ c_sessions c2 = [] /\
    pool_holds (a_pool a2) 5 = true.
Proof.
  set (p1 := Pdr 1 5 1 255 0 0 0 0 9 10 1 [] 0 false false 9 4294967295 0 0 (PR 0 0) (PR 0 0) 0 0).
  set (p2 := Pdr 2 5 2 255 0 0 0 0 50 10 2 [] 0 true false 0 0 50 4294967295 (PR 0 0) (PR 0 0) 0 0).
  exists (Agent (Cfg 100 200 true) (Some (Pool [51; 52] [(5, 50)])) (Gen 0 []) 1 no_tables).
  exists (Conn 7 [] [Sess 5 77 (s_of [p1; p2]) (s_of []) (s_of [])] 0).
  exists (MMod 5 None [] [] [] [] [] [] [IOk 2] [] []).
  do 6 eexists. repeat split; vm_compute; reflexivity.
Qed.
Print Assumptions C05_ue_address_refuted.

(* non-vacuity of C05_deletion: a session with a CHOOSE PDR, a FAR and an application QER, all installed *)
Example C05_nonvacuous :
  let p := Pdr 1 5 1 255 100 4294967295 3 4294967295 0 10 1 [1] 1 false true 0 0 0 0 (PR 0 0) (PR 0 0) 0 0 in
  let f := Far 1 5 1 false 2 0 200 0 0 0 in
  let q := Qer 1 5 0 9 0 0 1000 1000 0 0 in
  let s := Sess 5 77 (s_of [p]) (s_of [f]) (s_of [q]) in
  let t := apply_cmds (add_cmds (fun _ _ _ => 0) [p] [f] [q]) no_tables in
  let a := Agent (Cfg 100 200 true) None (Gen 3 [2]) 1 t in
  exists a' c' o, handle_del a (Conn 7 [] [s] 0) 5 = (a', c', o) /\ o_reply o = Some (RDel 77 CAUSE_OK) /\
                  a_tables a' = no_tables /\ used (a_teids a') = [] /\ a_gauge a' = 0 /\ length (o_cmds o) = 4%nat.
Proof. do 3 eexists. repeat split; vm_compute; reflexivity. Qed.

(* ---- along EVERY history over any number of associations (Model/World.v) - accepted and rejected establishments
   and modifications, deletions, report responses, releases, teardowns, restarts, garbage - the sessions gauge is
   exactly the number of live sessions, and local SEIDs stay distinct inside every association: a session's unit in
   the gauge is returned on each of the four endings whatever preceded, and no number of attach/detach cycles
   makes it drift (the statement is for histories of unbounded length) *)
From UPF Require Import Model.World Proofs.WorldProofs.
Theorem C05_gauge_counts_live_sessions : forall burst es w w',
  gauge_inv w -> forallb restart_ok es = true -> wrun burst w es = Done w' -> gauge_inv w'.
Proof. exact gauge_invariant. Qed.
Print Assumptions C05_gauge_counts_live_sessions.

Example C05_gauge_nonvacuous :
  gauge_inv (World (Agent (Cfg 100 200 true) None (Gen 0 []) 0 no_tables) []).
Proof. constructor; cbn; [constructor|intros kc []|reflexivity]. Qed.

(* ---- a Session Modification accepted under the guard of C03's history theorem (Proofs/ModImage.v: late_ok) frees
   exactly the TEIDs of the PDRs it removes: the stored PDR list after the message and the removed PDRs [dp] partition
   the list before the removals, the generator after is [free_teids] of the generator before over [dp] - so every
   UP-chosen TEID of a removed PDR is free again, the allocation state of every other id is unchanged, and the gauge
   stays (the session lives on) *)
From UPF Require Import Proofs.ModImage Proofs.ModWorld Proofs.ModMarkers.
From Coq Require Import Permutation.
Theorem C05_modification_frees_removed_teids : forall burst a c seid cpf cp cf cq up uf uq rp rf rq mid s0 w6 a' c' o,
  find_session seid (c_sessions c) = Some s0 ->
  mod_loops a c s0 seid cp cf cq up uf uq = (w6, 0%nat) ->
  late_ok a c seid s0 w6 cp cf cq up uf uq rp rf rq mid = true ->
  handle_mod burst a c seid cpf cp cf cq up uf uq rp rf rq = Done (a', c', o) ->
  exists s' dp,
    find_session seid (c_sessions c') = Some s' /\
    Permutation (view (w_p w6)) (view (s_pdrs s') ++ dp) /\
    (cp = [] -> up = [] -> view (w_p w6) = view (s_pdrs s0)) /\
    a_teids a' = free_teids (a_teids a) dp /\
    (forall p, In p dp -> p_choose p = true -> is_allocated (p_teid p) (a_teids a') = false) /\
    (forall id, (forall p, In p dp -> p_choose p = true -> p_teid p <> id) -> is_allocated id (a_teids a') = is_allocated id (a_teids a)) /\
    a_gauge a' = a_gauge a.
Proof. exact mod_removes_free. Qed.
Print Assumptions C05_modification_frees_removed_teids.

(* non-vacuity: a session with a CHOOSE PDR 1 (TEID 3, allocated) and a second PDR 2 with a control-plane TEID 9;
   the modification {Remove PDR 1} is inside the guard and accepted; afterwards TEID 3 is free, PDR 2 stays *)
Example C05_modification_nonvacuous :
  let burst := fun _ _ _ : N => 0 in
  let p1 := Pdr 1 5 1 255 100 4294967295 3 4294967295 0 10 1 [] 1 false true 0 0 0 0 (PR 0 0) (PR 0 0) 0 0 in
  let p2 := Pdr 2 5 1 255 100 4294967295 9 4294967295 0 10 1 [] 1 false false 0 0 0 0 (PR 0 0) (PR 0 0) 0 0 in
  let f := Far 1 5 1 false 2 0 200 0 0 0 in
  let s := Sess 5 77 (s_of [p1; p2]) (s_of [f]) (s_of []) in
  let a := Agent (Cfg 100 200 true) None (Gen 3 [2]) 1 (apply_cmds (add_cmds burst [p1; p2] [f] []) no_tables) in
  let c := Conn 7 [] [s] 0 in
  exists w6 a' c' o,
    find_session 5 (c_sessions c) = Some s /\ mod_loops a c s 5 [] [] [] [] [] [] = (w6, 0%nat) /\
    late_ok a c 5 s w6 [] [] [] [] [] [] [IOk 1] [] [] true = true /\
    handle_mod burst a c 5 None [] [] [] [] [] [] [IOk 1] [] [] = Done (a', c', o) /\
    o_reply o = Some (RMod 77 CAUSE_OK) /\ is_allocated 3 (a_teids a) = true /\ is_allocated 3 (a_teids a') = false /\
    map (fun x => map p_id (view (s_pdrs x))) (c_sessions c') = [[2]] /\ length (t_pdr (a_tables a')) = 1%nat.
Proof. intros burst p1 p2 f s a c. do 4 eexists. repeat split; vm_compute; reflexivity. Qed.
