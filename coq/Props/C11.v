(* C11 - Concurrent associations do not interfere.  Statements only.

   What is proved is about (a) the syntactic lock table extracted from pfcpiface (Gen/Locks_gen.v: shared
   field x function x read|write x locks held x goroutine classes) and (b) interleavings of the atomic
   steps of the sequential agent model (datapath commands, allocator methods).  Nothing here is a
   statement about the Go memory model; the race detector run of tools/props/c11.py is the witness
   generator for the refuted parts. *)
From Coq Require Import String NArith List Bool.
From UPF Require Import Model.IPPool Model.Fteid Model.Agent Model.Locks Gen.Locks_gen Model.LocksTable
     Proofs.IPPoolProofs Proofs.AgentProofs Proofs.LocksProofs Proofs.LocksTableProofs Run.Eval_C11.
Import ListNotations.

(* ---------------------------------------------------------------- (a) lockset discipline, proved once *)
(* if the boolean check passes on a table, any two accesses of one field that may run on different
   goroutines, at least one of them a write, hold a common lock *)
Theorem C11_lockset_drf : forall t, lockset_ok t = true ->
  forall a1 a2, In a1 t -> In a2 t -> a_field a1 = a_field a2 -> (a_rw a1 = W \/ a_rw a2 = W) ->
  may_run_concurrently a1 a2 -> exists l, In l (a_locks a1) /\ In l (a_locks a2).
Proof. exact lockset_drf. Qed.
Print Assumptions C11_lockset_drf.

(* hence no assignment of locks to goroutines (a lock has one holder) places two different goroutines
   at two such accesses at the same time *)
Theorem C11_lockset_exclusion : forall t, lockset_ok t = true ->
  forall (h : holders) g1 g2 a1 a2, g1 <> g2 -> In a1 t -> In a2 t -> a_field a1 = a_field a2 ->
  (a_rw a1 = W \/ a_rw a2 = W) -> may_run_concurrently a1 a2 ->
  stands_at h g1 a1 -> stands_at h g2 a2 -> False.
Proof. exact lockset_exclusion. Qed.
Print Assumptions C11_lockset_exclusion.

(* ---- evaluated on the generated table, restricted to the fields per-association request handling touches *)
(* BESS datapath: plug-in state, the upf object, the node, package variables *)
(* bess_table = request_fields_of ["bess"; "upf"; "PFCPNode"; "global"] tbl *)
Theorem C11_lockset_bess : lockset_ok bess_table = true.
Proof. exact lockset_bess. Qed.
Print Assumptions C11_lockset_bess.

(* IP pool, TEID generator, session store *)
(* pool_table = request_fields_of ["IPPool"; "FTEIDGenerator"; "InMemoryStore"] tbl *)
Theorem C11_lockset_pools : lockset_ok pool_table = true.
Proof. exact lockset_pools. Qed.
Print Assumptions C11_lockset_pools.

(* UP4 (F22): exactly three fields - the plain maps meters, ueAddrToFSEID, fseidToUEAddr - violate the
   discipline while the datapath stays connected; each has a pair of accesses from goroutines that may run
   at the same time, one a write, with no lock in common *)
(* UP4 (up4_run_table = request_fields_of ["UP4"; "counter"; "tunnelPeer"; "internalApp"] tbl without the rows that
   only run during re-initialisation): holds in full since the three maps meters, ueAddrToFSEID, fseidToUEAddr are
   guarded by UP4.sessionStateMu (F22, repaired by 74d87b3) *)
Theorem C11_lockset_up4 : lockset_ok up4_run_table = true.
Proof. exact lockset_up4. Qed.
Print Assumptions C11_lockset_up4.

(* every access of those maps outside start-up holds UP4.sessionStateMu (writes: exclusively), and each map has such a write *)
Theorem C11_up4_session_state_locked :
  forallb (fun a => mem_s "UP4.sessionStateMu" (a_locks a) || negb (live_phase a)) session_state_rows = true /\
  forallb (fun f => existsb (fun a => String.eqb (a_field a) f && is_w a && live_phase a) session_state_rows) session_state_fields = true.
Proof. exact session_state_locked. Qed.
Print Assumptions C11_up4_session_state_locked.

(* REFUTED with the re-initialisation that UP4.tryConnect performs after a lost datapath connection: six fields are
   re-created under tryConnectMu only, while request handling and the digest listener read them without it; each has a
   pair of accesses that may run at the same time, one a write, with no common lock.  (For UP4.p4client the race
   detector witnesses it: tools/props/c11.py scenario up4_reconnect, finding F1101.) *)
Theorem C11_lockset_up4_reconnect_refuted :
  bad_fields up4_table =
  ["UP4.appMeterCellIDsPool"; "UP4.endMarkerChan"; "UP4.p4RtTranslator"; "UP4.p4client";
   "UP4.sessMeterCellIDsPool"; "counter.counterIDsPool"]%string /\
  lockset_ok up4_table = false /\
  forall f, In f reconnect_fields ->
    exists a1 a2, In a1 up4_table /\ In a2 up4_table /\ a_field a1 = f /\ a_field a2 = f /\
                  (a_rw a1 = W \/ a_rw a2 = W) /\ may_run_concurrently a1 a2 /\
                  forall l, In l (a_locks a1) -> ~ In l (a_locks a2).
Proof. exact (conj up4_bad_all up4_reconnect_refuted). Qed.
Print Assumptions C11_lockset_up4_reconnect_refuted.

(* ---- atomic steps: the functions the argument treats as ONE step are one lock region in the source *)
(* generic reading of the boolean check *)
Theorem C11_atomic_regions_sound : forall reqs t, atomic_ok reqs t = true ->
  forall f need, In (f, need) reqs ->
  exists a, In a t /\ af_func a = f /\ af_covered a = true /\ (0 < af_accesses a)%nat /\ (need = true -> af_dp_inside a = true).
Proof. exact atomic_ok_spec. Qed.
Print Assumptions C11_atomic_regions_sound.

(* evaluated on the generated table: IP pool and TEID generator methods, the tunnel-peer protocol INCLUDING its
   P4Runtime write, the UE-address maps, the application bookkeeping (atomic_steps in Model/LocksTable.v) *)
Theorem C11_atomic_steps_tied : atomic_ok atomic_steps atomic_tbl = true.
Proof. exact atomic_steps_tied. Qed.
Print Assumptions C11_atomic_steps_tied.

(* REFUTED for the application protocol with its datapath write (F1102): add / removeInternalApplicationID... are one
   region over the bookkeeping but issue no datapath write at all - the Applications entry they return is written by the
   caller after applicationMu was released *)
Theorem C11_application_write_outside_refuted : atomic_ok application_steps_with_write atomic_tbl = false /\
  forallb (fun a => negb (prefix "UP4.addInternalApplication" (af_func a) || prefix "UP4.removeInternalApplication" (af_func a))
                    || (af_covered a && Nat.eqb (af_dp_calls a) 0)) atomic_tbl = true.
Proof. exact application_write_outside. Qed.
Print Assumptions C11_application_write_outside_refuted.

(* ---------------------------------------------------------------- (b) serializability on the BESS datapath *)
(* command lists that address different (module, key) slots commute *)
Theorem C11_batches_commute : forall cs1 cs2 t, keys_disjoint cs1 cs2 ->
  teq (apply_cmds (cs1 ++ cs2) t) (apply_cmds (cs2 ++ cs1) t).
Proof. exact batches_commute. Qed.
Print Assumptions C11_batches_commute.

(* any number of associations, any interleaving of their commands (one command = one atomic step of the
   datapath): the tables are those of running the associations one after the other *)
Theorem C11_interleaving_serializable : forall (threads : list (list cmd)) sched,
  merge threads sched -> pairwise_disjoint threads ->
  forall t, teq (apply_cmds sched t) (apply_cmds (concat threads) t).
Proof. exact interleaving_serializable. Qed.
Print Assumptions C11_interleaving_serializable.

(* two associations: either serial order *)
Theorem C11_two_associations : forall cs1 cs2 sched t, merge [cs1; cs2] sched -> keys_disjoint cs1 cs2 ->
  teq (apply_cmds sched t) (apply_cmds (cs1 ++ cs2) t) /\ teq (apply_cmds sched t) (apply_cmds (cs2 ++ cs1) t).
Proof. exact merge_two_serializable. Qed.
Print Assumptions C11_two_associations.

(* interleavings of whole request batches are a special case *)
Theorem C11_batch_interleavings : forall (bts : list (list (list cmd))) bsched,
  merge bts bsched -> pairwise_disjoint (map (@concat cmd) bts) ->
  forall t, teq (apply_cmds (concat bsched) t) (apply_cmds (concat (map (@concat cmd) bts)) t).
Proof. intros bts bsched H. exact (interleaving_serializable _ _ (merge_batches bts bsched H)). Qed.
Print Assumptions C11_batch_interleavings.

(* why the hypothesis holds: FAR and QER keys carry the session's local SEID, PDR keys are the match
   fields.  Any commands two sessions with different local SEIDs ever send (adds and deletes of their
   rules) address different slots, provided their PDR match keys differ *)
Theorem C11_sessions_disjoint : forall burst s1 s2 ps1 fs1 qs1 ps2 fs2 qs2,
  s1 <> s2 -> owned_by s1 fs1 qs1 -> owned_by s2 fs2 qs2 -> keys_disjoint (pdr_cmds ps1) (pdr_cmds ps2) ->
  keys_disjoint (rule_cmds burst ps1 fs1 qs1) (rule_cmds burst ps2 fs2 qs2).
Proof. exact sessions_disjoint. Qed.
Print Assumptions C11_sessions_disjoint.

(* ... and PDR keys differ as soon as the TEID or an address of the filter differs (distinct UE
   addresses / tunnel endpoints: the envelope of the statement) *)
Theorem C11_pdr_keys_differ : forall p1 p2,
  (p_teid p1 <> p_teid p2 \/ f_sip p1 <> f_sip p2 \/ f_dip p1 <> f_dip p2) ->
  keys_disjoint (pdr_add p1 ++ pdr_del p1) (pdr_add p2 ++ pdr_del p2).
Proof. exact pdr_keys_differ. Qed.
Print Assumptions C11_pdr_keys_differ.

(* ---------------------------------------------------------------- shared allocators *)
(* IP pool: every interleaving of the (atomic: C11_lockset_pools) methods is an operation sequence and
   keeps the pool invariant (C06_any_interleaving); two runs - e.g. an interleaved and a serial one - that
   leave the same sessions holding addresses differ by an injective renaming of the addresses *)
Theorem C11_ippool_renaming : forall base len (threads1 threads2 : list (list IPPool.op)) sched1 sched2 p0,
  new_pool base len = Some p0 -> merge threads1 sched1 -> merge threads2 sched2 ->
  let p1 := fst (IPPool.run p0 sched1) in let p2 := fst (IPPool.run p0 sched2) in
  forall sa sb a1 a2 b1 b2,
    lookup sa (inv p1) = Some a1 -> lookup sa (inv p2) = Some a2 ->
    lookup sb (inv p1) = Some b1 -> lookup sb (inv p2) = Some b2 -> (a1 = b1 <-> a2 = b2).
Proof.
  intros base len th1 th2 s1 s2 p0 H _ _. cbv zeta.
  exact (ippool_renaming base len _ _ (ex_intro _ p0 (ex_intro _ s1 (conj H eq_refl))) (ex_intro _ p0 (ex_intro _ s2 (conj H eq_refl)))).
Qed.
Print Assumptions C11_ippool_renaming.

(* TEID generator: at every point of every interleaving of the atomic methods an identifier handed out was
   free, is non-zero, and is in use afterwards (uniqueness among live users for all histories is C07's) *)
Theorem C11_teid_fresh : forall (threads : list (list Fteid.op)) sched g id g', merge threads sched ->
  g = fst (Fteid.run new_gen sched) -> allocate g = AOk id g' ->
  is_allocated id g = false /\ is_allocated id g' = true /\ (1 <= id)%N.
Proof. exact teid_fresh. Qed.
Print Assumptions C11_teid_fresh.

(* ---------------------------------------------------------------- (c) F32: local SEIDs are unique per association only *)
(* two associations whose random sources yield the same draw get the same UP F-SEID; FAR / QER keys carry
   nothing else, so the second establishment overwrites the first association's farLookup entry and the
   second association's deletion removes it while the first association's session lives on *)
Theorem C11_seid_collision_refuted :
  exists t1 t2 t3 ss1 ss2 cmds1,
    cz_run = Some (t1, t2, t3, ss1, ss2, cmds1) /\
    (exists s, find_session cz_draw ss1 = Some s) /\
    In (Cmd MFar true [1; cz_draw] [1; 0; 1; 3323068417; 3232235777; 11; 2152])%N cmds1 /\
    t_get [1; cz_draw]%N (t_far t1) = Some [1; 0; 1; 3323068417; 3232235777; 11; 2152]%N /\
    t_get [1; cz_draw]%N (t_far t2) = Some [1; 0; 1; 3323068417; 3232235778; 22; 2152]%N /\
    ss2 = [] /\ t_get [1; cz_draw]%N (t_far t3) = None.
Proof. exact seid_collision. Qed.
Print Assumptions C11_seid_collision_refuted.

(* the same under the guard that excludes exactly that shape: an accepted establishment that is given another
   local SEID leaves every FAR / QER slot of the other session as it was (handler level, any state, any request) *)
Theorem C11_establishment_isolated_partial :
  forall burst a c nid cpf pdrs fars qers draws a' c' rseid n l cr cmds ms sd m k l1,
  handle_est burst a c nid cpf pdrs fars qers draws = Done (a', c', Out (Some (REst rseid CAUSE_OK n (Some l) cr)) cmds ms sd) ->
  l1 <> l -> slot_of_fseid m k l1 ->
  t_get k (tab_of m (a_tables a')) = t_get k (tab_of m (a_tables a)).
Proof. exact est_isolated. Qed.
Print Assumptions C11_establishment_isolated_partial.

(* ... and everything it writes for FARs and QERs carries its own local SEID *)
Theorem C11_establishment_owned :
  forall burst a c nid cpf pdrs fars qers draws a' c' rseid n l cr cmds ms sd s,
  handle_est burst a c nid cpf pdrs fars qers draws = Done (a', c', Out (Some (REst rseid CAUSE_OK n (Some l) cr)) cmds ms sd) ->
  find_session l (c_sessions c') = Some s -> owned_by l (view (s_fars s)) (view (s_qers s)).
Proof. exact est_owned. Qed.
Print Assumptions C11_establishment_owned.

(* ---------------------------------------------------------------- non-vacuity *)
Example C11_tables_nonvacuous :
  has_conflict pool_table = true /\ has_conflict up4_run_table = true /\ has_conflict session_state_rows = true.
Proof. split; [exact (proj1 pools_nonvacuous)|exact (proj2 up4_nonvacuous)]. Qed.

(* two sessions (local SEIDs 5 and 6, FAR 1 each, different UE addresses): their commands are disjoint,
   an interleaving of them is accepted by the checker and gives the serial tables *)
Example C11_interleaving_nonvacuous :
  let f1 := Far 1 5 0 false 2 1 1 2 3 2152 in let f2 := Far 1 6 0 false 2 1 1 2 4 2152 in
  let a := far_add f1 ++ far_del f1 in let b := far_add f2 in
  keys_disjointb a b = true /\ is_merge [a; b] [nth 0 a (Cmd MPdr true [] []); nth 0 b (Cmd MPdr true [] []); nth 1 a (Cmd MPdr true [] [])] = true /\
  t_get [1; 6]%N (t_far (apply_cmds (a ++ b) no_tables)) = Some [1; 0; 1; 1; 2; 4; 2152]%N /\
  t_get [1; 5]%N (t_far (apply_cmds (a ++ b) no_tables)) = None.
Proof. vm_compute. repeat split; reflexivity. Qed.
