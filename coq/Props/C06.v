(* C06 - UE IP pool: in range, exclusive, sticky, conserved.  Statements only. *)
From Coq Require Import NArith List Bool Permutation.
From UPF Require Import Model.IPPool Proofs.IPPoolProofs.
Import ListNotations.
Open Scope N_scope.

(* conservation: in every reachable state free ++ held is a permutation of the pool's addresses *)
Theorem C06_conserved : forall base len p0 ops, new_pool base len = Some p0 ->
  Permutation (free (fst (run p0 ops)) ++ map snd (inv (fst (run p0 ops)))) (pool_addrs base len)
  /\ NoDup (map fst (inv (fst (run p0 ops)))).
Proof. exact reachable_inv. Qed.
Print Assumptions C06_conserved.

(* every address handed out is strictly between the network and the broadcast address *)
Theorem C06_in_range : forall base len p s a, 1 <= len <= 30 -> base mod subnet_size len = 0 ->
  reachable base len p -> snd (alloc s p) = RIp a -> base < a < base + subnet_size len - 1.
Proof. exact c06_in_range. Qed.
Print Assumptions C06_in_range.

Theorem C06_exclusive : forall base len p s1 s2 a, reachable base len p ->
  lookup s1 (inv p) = Some a -> lookup s2 (inv p) = Some a -> s1 = s2.
Proof. exact c06_exclusive. Qed.
Print Assumptions C06_exclusive.

Theorem C06_free_is_not_held : forall base len p a, reachable base len p -> In a (free p) ->
  forall s, lookup s (inv p) <> Some a.
Proof. exact c06_free_not_held. Qed.
Print Assumptions C06_free_is_not_held.

Theorem C06_sticky : forall s p a, snd (alloc s p) = RIp a ->
  alloc s (fst (alloc s p)) = (fst (alloc s p), RIp a).
Proof. exact alloc_sticky. Qed.
Print Assumptions C06_sticky.

Theorem C06_sticky_across_others : forall s a o p, lookup s (inv p) = Some a -> o <> Dealloc s ->
  lookup s (inv (fst (step p o))) = Some a.
Proof. exact lookup_preserved. Qed.
Print Assumptions C06_sticky_across_others.

Theorem C06_release_exact : forall s p a, lookup s (inv p) = Some a ->
  dealloc s p = (Pool (free p ++ [a]) (remove s (inv p)), ROk)
  /\ lookup s (remove s (inv p)) = None
  /\ (forall s', s' <> s -> lookup s' (remove s (inv p)) = lookup s' (inv p)).
Proof. exact dealloc_exact. Qed.
Print Assumptions C06_release_exact.

Theorem C06_release_unknown_changes_nothing : forall s p, lookup s (inv p) = None -> dealloc s p = (p, RErr).
Proof. exact dealloc_unknown. Qed.
Print Assumptions C06_release_unknown_changes_nothing.

Theorem C06_refuse_iff_nothing_free : forall s p,
  snd (alloc s p) = RErr <-> lookup s (inv p) = None /\ free p = [].
Proof. exact alloc_refuse_iff. Qed.
Print Assumptions C06_refuse_iff_nothing_free.

Theorem C06_refused_only_when_all_held : forall base len p s, reachable base len p ->
  snd (alloc s p) = RErr -> forall a, In a (pool_addrs base len) -> exists s', lookup s' (inv p) = Some a.
Proof. exact c06_refused_means_full. Qed.
Print Assumptions C06_refused_only_when_all_held.

(* schedules: every merge of per-goroutine operation lists is an operation list; each method is
   one atomic step because the mutex is held over the whole body (checked on the source by the
   skeleton tie), so the invariant - and with it all of the above - holds under every interleaving *)
Theorem C06_any_interleaving : forall base len p0 (threads : list (list op)) sched,
  new_pool base len = Some p0 -> merge threads sched -> Inv (pool_addrs base len) (fst (run p0 sched)).
Proof. exact any_interleaving_inv. Qed.
Print Assumptions C06_any_interleaving.

(* non-vacuity: a /29 pool, six addresses, seventh session refused *)
Example C06_nonvacuous :
  exists p0, new_pool 167772160 29 = Some p0 /\
  snd (run p0 [Alloc 1; Alloc 2; Alloc 1; Dealloc 1; Alloc 3; Alloc 4; Alloc 5; Alloc 6; Alloc 7; Alloc 8]) =
  [RIp 167772161; RIp 167772162; RIp 167772161; ROk; RIp 167772163; RIp 167772164; RIp 167772165;
   RIp 167772166; RIp 167772161; RErr].
Proof. eexists; split; vm_compute; reflexivity. Qed.
