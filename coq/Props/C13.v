(* C13 - Downlink data notifications reach the control plane once per interval.  Statements only.
   A report sequence [rs] is what one listener goroutine (bess.notifyListen / UP4.listenToDDNs) feeds
   to Notify; every report carries the two clock readings shouldNotify takes for it (r_check: inside
   time.Since; r_store: the time.Now() that is stored).  [timed_ok rs]: the readings are non-decreasing
   in call order; their values are arbitrary.  [trace I rs] pairs every report with the decision. *)
From Coq Require Import NArith List Bool.
From UPF Require Import Model.Notifier Proofs.NotifierProofs Run.Eval_C13 Proofs.NotifierEvalProofs.
Import ListNotations.
Open Scope N_scope.

(* two forwarded notifications of one session: the later one was checked at least one interval
   after the timestamp stored for the earlier one (hence check-to-check and store-to-store distances
   are >= interval as well).  Any number of sessions and reports in between. *)
Theorem C13_rate : forall I rs tp ri tm rj tq,
  timed_ok rs -> trace I rs = tp ++ (ri, true) :: tm ++ (rj, true) :: tq ->
  r_fseid ri = r_fseid rj -> r_store ri + I <= r_check rj.
Proof. exact c13_rate. Qed.
Print Assumptions C13_rate.

(* no window of one interval [w, w+I) contains two forwarded notifications of one session,
   however many reports arrive *)
Theorem C13_at_most_one_per_interval : forall I rs tp ri tm rj tq w,
  timed_ok rs -> trace I rs = tp ++ (ri, true) :: tm ++ (rj, true) :: tq ->
  r_fseid ri = r_fseid rj -> ~ (w <= r_store ri /\ r_check rj < w + I).
Proof. exact c13_window. Qed.
Print Assumptions C13_at_most_one_per_interval.

(* the same on the wire: two Session Report Requests caused by reports of one session *)
Theorem C13_at_most_one_message_per_interval : forall I st seq rs pp ri bi mi pm rj bj mj pq,
  timed_ok rs ->
  pipeline I st seq rs = pp ++ (ri, bi, mi) :: pm ++ (rj, bj, mj) :: pq ->
  r_fseid ri = r_fseid rj -> mi <> [] -> mj <> [] -> r_store ri + I <= r_check rj.
Proof. exact c13_messages_rate. Qed.
Print Assumptions C13_at_most_one_message_per_interval.

(* a first report for a session is never suppressed (no timing hypothesis at all) *)
Theorem C13_first_never_suppressed : forall I rs tp r b tq,
  trace I rs = tp ++ (r, b) :: tq ->
  (forall r' b', In (r', b') tp -> r_fseid r' <> r_fseid r) -> b = true.
Proof. exact c13_first. Qed.
Print Assumptions C13_first_never_suppressed.

(* "once per interval": after a forwarded notification the next report of that session that comes an
   interval or more after the stored timestamp is forwarded, earlier ones are not (the comparison
   is >=; suppressed reports do not refresh the timestamp) *)
Theorem C13_forwarded_iff_interval_elapsed : forall I rs tp ri tm rj b tq,
  timed_ok rs -> trace I rs = tp ++ (ri, true) :: tm ++ (rj, b) :: tq ->
  r_fseid ri = r_fseid rj -> (forall r, In (r, true) tm -> r_fseid r <> r_fseid rj) ->
  (b = true <-> r_store ri + I <= r_check rj).
Proof. exact c13_iff_elapsed. Qed.
Print Assumptions C13_forwarded_iff_interval_elapsed.

(* sessions are independent: the decisions taken for session f inside any mixed sequence are the
   decisions of the sequence with all other sessions' reports deleted - reports for other sessions
   never suppress and never trigger; and Notify puts nothing but its own F-SEID on the channel *)
Theorem C13_sessions_independent : forall I f rs,
  filter (fun p => is_session f (fst p)) (trace I rs) = trace I (filter (is_session f) rs).
Proof. exact c13_independent. Qed.
Print Assumptions C13_sessions_independent.

Theorem C13_notify_own_fseid : forall I st r x, In x (snd (notify I st r)) -> x = r_fseid r.
Proof. exact notify_own. Qed.
Print Assumptions C13_notify_own_fseid.

(* report construction: session known, the first core PDR (pid, fid) has pid <> 0, and every FAR with
   id fid carries NOTIFY -> exactly one Session Report Request: header SEID = remote SEID, sequence =
   counter + 1 modulo 2^24 (the counter is kept within the 24 bits of the wire field), Report Type DLDR, one PDR ID (16 bits) *)
Theorem C13_report_shape : forall st seq fseid s pid fid,
  get_session fseid st = Some s -> first_core (s_pdrs s) = (pid, fid) -> pid <> 0 ->
  all_notify fid (s_fars s) ->
  handle_digest_report st seq fseid =
    (next_seq seq, [Srr (s_remote s) (next_seq seq mod 2 ^ 24) 1 [pid mod 2 ^ 16]]).
Proof. exact c13_report_shape. Qed.
Print Assumptions C13_report_shape.

Theorem C13_report_shape_in_range : forall st seq fseid s pid fid,
  get_session fseid st = Some s -> first_core (s_pdrs s) = (pid, fid) -> pid <> 0 ->
  all_notify fid (s_fars s) -> seq + 1 < 2 ^ 24 -> pid < 2 ^ 16 ->
  handle_digest_report st seq fseid = (seq + 1, [Srr (s_remote s) (seq + 1) 1 [pid]]).
Proof. exact c13_report_shape_in_range. Qed.
Print Assumptions C13_report_shape_in_range.

(* unknown session, or a FAR with the downlink PDR's FAR id lacks NOTIFY, or no downlink PDR -> nothing *)
Theorem C13_silent : forall st seq fseid,
  get_session fseid st = None \/
  (exists s pid fid, get_session fseid st = Some s /\ first_core (s_pdrs s) = (pid, fid) /\
     ((exists f, In f (s_fars s) /\ f_id f = fid /\ N.land (f_action f) action_notify = 0) \/ pid = 0)) ->
  snd (handle_digest_report st seq fseid) = [].
Proof. exact c13_silent. Qed.
Print Assumptions C13_silent.

(* fresh sequence numbers: over any run of reports on one connection (fewer than 2^24 - seq of them)
   the sequence numbers sent are pairwise distinct and above the starting counter *)
Theorem C13_sequence_fresh : forall st fs seq,
  seq + N.of_nat (length fs) < 2 ^ 24 ->
  NoDup (map m_seq (snd (run_reports st seq fs))) /\
  forall m, In m (snd (run_reports st seq fs)) -> seq < m_seq m.
Proof. exact c13_seq_fresh. Qed.
Print Assumptions C13_sequence_fresh.

(* every message on the path is a Session Report Request of the reported session; never more than
   one per report; none for a suppressed report *)
Theorem C13_messages_wellformed : forall I st rs ns seq x,
  In x (pipeline_from I ns st seq rs) ->
  (snd (fst x) = false -> snd x = []) /\ (length (snd x) <= 1)%nat /\
  (forall m, In m (snd x) -> exists s, get_session (r_fseid (fst (fst x))) st = Some s /\ m_seid m = s_remote s
                                       /\ m_report_type m = 1 /\ length (m_pdr_ids m) = 1%nat).
Proof. exact pipeline_msgs. Qed.
Print Assumptions C13_messages_wellformed.

(* ---- sentences the faithful model contradicts when read strictly ---- *)

(* "a session whose downlink forwarding rule asks for notification gets a report": only the FIRST core
   PDR is examined.  Witness: two downlink PDRs, the first one's FAR forwards, the second one's FAR
   buffers and notifies -> nothing is sent. *)
Theorem C13_any_notifying_rule_refuted : exists st seq fseid s p f,
  get_session fseid st = Some s /\ notifying_rule s p f /\ snd (handle_digest_report st seq fseid) = [].
Proof.
  exists [Session 7 9 [Pdr 2 1 10; Pdr 2 2 20] [Far 10 2; Far 20 12]], 0, 7,
         (Session 7 9 [Pdr 2 1 10; Pdr 2 2 20] [Far 10 2; Far 20 12]), (Pdr 2 2 20), (Far 20 12).
  split; [reflexivity|]. split; [|reflexivity].
  unfold notifying_rule. cbn. repeat split; auto; discriminate.
Qed.
Print Assumptions C13_any_notifying_rule_refuted.

Theorem C13_any_notifying_rule_partial : forall st seq fseid s p f,
  get_session fseid st = Some s -> notifying_rule s p f -> rule_is_examined s p = true ->
  handle_digest_report st seq fseid =
    (next_seq seq, [Srr (s_remote s) (next_seq seq mod 2 ^ 24) 1 [p_id p mod 2 ^ 16]]).
Proof. exact c13_any_rule_partial. Qed.
Print Assumptions C13_any_notifying_rule_partial.

(* "none for sessions whose downlink rule does not ask for notification": if the downlink PDR points
   to a FAR id that no FAR of the session has, no rule asks for notification and a report is sent. *)
Theorem C13_silent_when_none_asks_refuted : exists st seq fseid s pid fid,
  get_session fseid st = Some s /\ first_core (s_pdrs s) = (pid, fid) /\
  none_asks fid (s_fars s) /\ snd (handle_digest_report st seq fseid) <> [].
Proof.
  exists [Session 7 9 [Pdr 2 1 10] [Far 11 2]], 0, 7, (Session 7 9 [Pdr 2 1 10] [Far 11 2]), 1, 10.
  split; [reflexivity|]. split; [reflexivity|]. split; [|discriminate].
  intros f [<-|[]]; cbn; discriminate.
Qed.
Print Assumptions C13_silent_when_none_asks_refuted.

Theorem C13_silent_when_none_asks_partial : forall st seq fseid s pid fid,
  get_session fseid st = Some s -> first_core (s_pdrs s) = (pid, fid) ->
  none_asks fid (s_fars s) -> has_far fid (s_fars s) = true ->
  snd (handle_digest_report st seq fseid) = [].
Proof. exact c13_silent_partial. Qed.
Print Assumptions C13_silent_when_none_asks_partial.

(* the evaluator used on the real-time runs accepts every behaviour of the model *)
Theorem C13_window_check_sound : forall I es rs,
  Forall2 within es rs -> map w_got es = notify_run I [] rs -> admissible I es = true.
Proof. exact window_check_sound. Qed.
Print Assumptions C13_window_check_sound.

(* ---- non-vacuity ---- *)

(* interval 40: three sessions interleaved; boundary 39 / 40; suppressed reports do not refresh *)
Example C13_trace_nonvacuous :
  let rs := [Report 1 0 0; Report 2 5 5; Report 1 10 11; Report 1 39 39; Report 1 40 41; Report 2 44 44;
             Report 3 44 45; Report 2 45 45; Report 1 80 80; Report 1 81 82] in
  timed_ok rs /\ decisions 40 rs = [true; true; false; false; true; false; true; true; false; true].
Proof. split; [cbn; repeat split; discriminate|vm_compute; reflexivity]. Qed.

(* the hypotheses of C13_rate / C13_forwarded_iff_interval_elapsed are met by that trace *)
Example C13_rate_nonvacuous :
  exists rs tp ri tm rj tq, timed_ok rs /\ trace 40 rs = tp ++ (ri, true) :: tm ++ (rj, true) :: tq /\
    r_fseid ri = r_fseid rj /\ tm <> [] /\ (forall r, In (r, true) tm -> r_fseid r <> r_fseid rj).
Proof.
  exists [Report 1 0 0; Report 2 5 5; Report 1 10 11; Report 1 40 41], [], (Report 1 0 0),
         [(Report 2 5 5, true); (Report 1 10 11, false)], (Report 1 40 41), [].
  split; [cbn; repeat split; discriminate|]. split; [vm_compute; reflexivity|].
  split; [reflexivity|]. split; [discriminate|].
  intros r [H|[H|[]]]; [injection H as <-; discriminate|discriminate].
Qed.

(* report construction: several PDRs, the core one not first in the list, duplicate FAR ids *)
Example C13_report_nonvacuous :
  let st := build_store [Session 7 900 [Pdr 1 1 10; Pdr 2 2 20; Pdr 2 3 30] [Far 10 2; Far 20 12; Far 20 8; Far 30 2];
                         Session 8 901 [Pdr 2 5 50] [Far 50 2]] in
  handle_digest_report st 41 7 = (42, [Srr 900 42 1 [2]]) /\
  handle_digest_report st 42 8 = (43, []) /\
  handle_digest_report st 43 99 = (43, []) /\
  handle_digest_report st 16777215 7 = (0, [Srr 900 0 1 [2]]).
Proof. vm_compute. repeat split; reflexivity. Qed.

(* event decoding *)
Example C13_decode_nonvacuous :
  bess_event_fseid [1; 2; 3; 4; 5; 6; 7; 8; 99] = 578437695752307201 /\
  bess_event_fseid [5; 1] = 261 /\
  up4_digest_fseid [(167772161, 77)] [10; 0; 0; 1] = DFseid 77 /\
  up4_digest_fseid [(167772161, 77)] [10; 0; 0; 2] = DIgnored /\
  up4_digest_fseid [(167772161, 77)] [10; 0; 0] = DCrash.
Proof. vm_compute. repeat split; reflexivity. Qed.

(* ---------------------------------------------------------------------------------------------------------
   "However many reports arrive": the hand-off between Notify and the reader of the report channel
   (Model/NotifyChan.v; the skeleton of Notify is regenerated from notifier.go on every run and must be the
   blocking send the model describes).  For every capacity, every report list and EVERY schedule of caller, send
   and reader: the reader receives exactly what was decided, in order - nothing is lost, duplicated or reordered
   on the way -, the channel never holds more than its capacity, a caller inside the send can always be released
   by the reader, and once all reports are made and the channel has drained, a report of every session that
   reported has been received; the round-robin schedule reaches that end for every positive capacity: a full
   queue delays a report, it never suppresses it (seeded change C13-m7). *)
From UPF Require Import Model.NotifyChan Proofs.NotifyChanProofs Gen.NotifySkel_gen.

Theorem C13_notify_is_a_blocking_send : notifier_notify = notify_skel.
Proof. exact notify_skeleton_is_modelled. Qed.
Print Assumptions C13_notify_is_a_blocking_send.

Theorem C13_channel_conserves : forall cap rs sched,
  let s := NotifyChan.run cap (NotifyChan.init rs) sched in
  decided s = (consumed s ++ q s ++ opt_list (pend s))%list /\ (List.length (q s) <= cap)%nat.
Proof. intros cap rs sched. exact (inv_run cap sched (NotifyChan.init rs) (inv_init cap rs)). Qed.
Print Assumptions C13_channel_conserves.

Theorem C13_blocked_caller_is_released : forall cap s v, (0 < cap)%nat -> pend s = Some v ->
  NotifyChan.step cap s ASend <> s \/ NotifyChan.step cap s ARecv <> s.
Proof. exact blocked_caller_progress. Qed.
Print Assumptions C13_blocked_caller_is_released.

Theorem C13_full_queue_never_suppresses : forall cap rs sched f,
  let s := NotifyChan.run cap (NotifyChan.init rs) sched in
  todo s = [] -> q s = [] -> pend s = None -> In f rs -> In f (consumed s).
Proof. exact all_sessions_received. Qed.
Print Assumptions C13_full_queue_never_suppresses.

Theorem C13_backlog_completes : forall cap rs f, (0 < cap)%nat -> In f rs ->
  In f (consumed (NotifyChan.run cap (NotifyChan.init rs) (drain_sched (List.length rs)))).
Proof. exact round_robin_completes. Qed.
Print Assumptions C13_backlog_completes.

(* non-vacuity: capacity 1, five reports of three sessions, a schedule in which the caller blocks on the full
   channel (second ASend is refused) before the reader runs *)
Example C13_backlog_inhabited :
  let s := NotifyChan.run 1 (NotifyChan.init [7; 8; 7; 9; 8]) [ACall; ASend; ACall; ASend; ARecv; ASend; ARecv; ACall; ACall; ASend; ARecv; ACall] in
  consumed s = [7; 8; 9] /\ decided s = [7; 8; 9] /\ todo s = [] /\ q s = [] /\ pend s = None.
Proof. vm_compute. repeat split. Qed.
