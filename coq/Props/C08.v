(* C08 - SDF filters and PFD-backed application IDs mean what they say.
   Only statements; every proof is `exact <lemma>` from Proofs/FlowDescProofs.v (FlowDescText.v).

   Vocabulary (Proofs/FlowDescProofs.v):
     ast / print / render      the IPFilterRule grammar: action, direction, protocol form, from endpoint
                               (any | assigned | IPv4[/len]) with optional port or port range, to endpoint
                               likewise; [print] gives the tokens (decimal printer), [render] the text
     denote a u                the rule the text stands for when the UE address is u
     parse_flow_desc           Model/FlowDesc.v: parseFlowDesc on the text (strings.Fields, index loop)
     parse_pdr i u t items     parsePDR's application filter for source interface i, UE address u, PFD table t
     fmatch f k                packet k matches application filter f (value/mask, ports as C17 in_range)
     malformed ue ts           the structural defects the property lists, for arbitrary other tokens
     handle_pfd old req        handlePFDMgmtRequest: (table afterwards, cause = accepted) *)
From Coq Require Import NArith List Bool Ascii String.
From UPF Require Import Model.PortRange Model.FlowDesc Proofs.FlowDescText Proofs.FlowDescProofs.
Import ListNotations.
Open Scope N_scope.

(* ---------------------------------------------------------------- (a) round trip, infinite language *)

Theorem C08_roundtrip : forall a u, wf_ast a -> u < 2 ^ 32 ->
  parse_flow_desc (render a) (print_ip u) = POk (denote a u).
Proof. exact roundtrip. Qed.
Print Assumptions C08_roundtrip.

Theorem C08_roundtrip_tokens : forall a u, wf_ast a -> u < 2 ^ 32 ->
  parse_tokens (print a) (print_ip u) = POk (denote a u).
Proof. exact roundtrip_tokens. Qed.
Print Assumptions C08_roundtrip_tokens.

Theorem C08_text_tokens : forall a, fields (render a) = print a.
Proof. exact fields_render. Qed.
Print Assumptions C08_text_tokens.

(* ---------------------------------------------------------------- (b) meaning of the PDR filter *)

(* the PDR built from an inline SDF filter carries the oriented filter of the denoted rule *)
Theorem C08_sdf_filter : forall a u i t, wf_ast a -> u < 2 ^ 32 ->
  parse_pdr i u t [ISdf (Some (render a))] = Accepted (orient_sdf i (denote a u) (prefill i u)).
Proof. exact sdf_pdr. Qed.
Print Assumptions C08_sdf_filter.

(* Full statement: for all packets and both source interfaces the filter matches exactly
   remote address in the `from` prefix, UE-side address in the `to` prefix ('assigned' = UE/32),
   protocol as written, remote port in the written range.  FALSE of the faithful model: protocol
   number 255 is the code's "no protocol" sentinel (reservedProto), so "permit out 255 ..." matches
   every protocol. *)
Theorem C08_filter_meaning_refuted :
  exists a u i k, wf_ast a /\ one_port a /\ 0 < u < 2 ^ 32 /\ wf_pkt k /\ (i = Access \/ i = Core) /\
  ~ (fmatch (orient_sdf i (denote a u) (prefill i u)) k = true <->
     addr_sem (a_from a) u (remote i k) /\ addr_sem (a_to a) u (ue_side i k) /\
     proto_sem (a_proto a) (k_proto k) /\ in_range (written a) (remote_port i k) = true).
Proof. exact filter_meaning_refuted. Qed.
Print Assumptions C08_filter_meaning_refuted.

(* the same statement under the guard that excludes exactly that shape *)
Theorem C08_filter_meaning_partial : forall a u i t k,
  wf_ast a -> one_port a -> no_sentinel a -> 0 < u < 2 ^ 32 -> wf_pkt k -> i = Access \/ i = Core ->
  exists f, parse_pdr i u t [ISdf (Some (render a))] = Accepted f /\
  (fmatch f k = true <->
   addr_sem (a_from a) u (remote i k) /\ addr_sem (a_to a) u (ue_side i k) /\
   proto_sem (a_proto a) (k_proto k) /\ in_range (written a) (remote_port i k) = true).
Proof. exact sdf_pdr_meaning. Qed.
Print Assumptions C08_filter_meaning_partial.

(* ---------------------------------------------------------------- (c) application ids *)

(* the first flow description of the application whose direction keyword matches the PDR's source
   interface (all earlier ones parse and do not match) is taken verbatim *)
Theorem C08_appid_verbatim : forall t id pre a post i u,
  wf_ast a -> u < 2 ^ 32 ->
  tbl_lookup id t = Some (pre ++ render a :: post) ->
  Forall (nonmatching i u) pre -> dir_matches i (dir_tok (a_dir a)) = true ->
  parse_pdr i u t [IApp (Some id)] = Accepted (verbatim (denote a u) (prefill i u)).
Proof. exact appid_verbatim. Qed.
Print Assumptions C08_appid_verbatim.

(* verbatim = source to packet source, destination to packet destination, ports alike *)
Theorem C08_verbatim_fields : forall r f,
  f_src_ip (verbatim r f) = net_ip (r_src r) /\ f_src_mask (verbatim r f) = net_mask (r_src r) /\
  f_dst_ip (verbatim r f) = net_ip (r_dst r) /\ f_dst_mask (verbatim r f) = net_mask (r_dst r) /\
  f_sports (verbatim r f) = r_sports r /\ f_dports (verbatim r f) = r_dports r.
Proof. exact verbatim_fields. Qed.
Print Assumptions C08_verbatim_fields.

Theorem C08_appid_no_match : forall t id ds i u,
  tbl_lookup id t = Some ds -> Forall (nonmatching i u) ds ->
  parse_pdr i u t [IApp (Some id)] = Accepted (prefill i u).
Proof. exact appid_no_match. Qed.
Print Assumptions C08_appid_no_match.

Theorem C08_appid_unknown : forall t id i u,
  tbl_lookup id t = None -> parse_pdr i u t [IApp (Some id)] = Rejected.
Proof. exact appid_unknown. Qed.
Print Assumptions C08_appid_unknown.

(* ---------------------------------------------------------------- (d) malformed neighbourhood *)

(* for EVERY text and UE string: no index out of range, no nil dereference, loop fuel suffices *)
Theorem C08_never_crash : forall desc ue,
  parse_flow_desc desc ue <> PCrash /\ parse_flow_desc desc ue <> PFuel.
Proof. exact parse_flow_desc_benign. Qed.
Print Assumptions C08_never_crash.

Theorem C08_never_crash_tokens : forall ts ue,
  parse_tokens ts ue <> PCrash /\ parse_tokens ts ue <> PFuel.
Proof. exact parse_tokens_benign. Qed.
Print Assumptions C08_never_crash_tokens.

(* the index loop of the model (the code's arithmetic) is the scanner the proofs reason about *)
Theorem C08_index_loop_is_scan : forall ue f fs i st,
  (List.length fs - i < f)%nat -> loop f fs ue i st = scan ue (skipn i fs) st.
Proof. exact loop_scan. Qed.
Print Assumptions C08_index_loop_is_scan.

Theorem C08_malformed_refused : forall ue ts, malformed ue ts ->
  parse_tokens ts ue = PErrBad \/ parse_tokens ts ue = PErrOther.
Proof. exact malformed_refused. Qed.
Print Assumptions C08_malformed_refused.

Theorem C08_malformed_refused_or_ue_only : forall i u t desc, malformed (ue_text u) (fields desc) ->
  parse_pdr i u t [ISdf (Some desc)] = Rejected \/ parse_pdr i u t [ISdf (Some desc)] = Accepted (prefill i u).
Proof. exact malformed_pdr. Qed.
Print Assumptions C08_malformed_refused_or_ue_only.

Theorem C08_malformed_appid_ue_only : forall t id pre d post i u,
  tbl_lookup id t = Some (pre ++ d :: post) -> Forall (nonmatching i u) pre ->
  malformed (ue_text u) (fields d) ->
  parse_pdr i u t [IApp (Some id)] = Accepted (prefill i u).
Proof. exact malformed_appid. Qed.
Print Assumptions C08_malformed_appid_ue_only.

(* an inverted range is an unparsable port token *)
Theorem C08_inverted_range_unparsable : forall l h, h < l -> l <= 65535 ->
  parse_port (print_dec l ++ dash :: print_dec h) = None.
Proof. exact parse_port_inverted. Qed.
Print Assumptions C08_inverted_range_unparsable.

(* whatever the SDF Filter IE holds: refused, UE-only, or the oriented result of a successful parse *)
Theorem C08_filter_only_from_successful_parse : forall i u t o,
  parse_pdr i u t [ISdf o] = Rejected \/
  parse_pdr i u t [ISdf o] = Accepted (prefill i u) \/
  exists desc r, o = Some desc /\ parse_flow_desc desc (ue_text u) = POk r /\
                 parse_pdr i u t [ISdf o] = Accepted (orient_sdf i r (prefill i u)).
Proof. exact sdf_pdr_cases. Qed.
Print Assumptions C08_filter_only_from_successful_parse.

(* ---------------------------------------------------------------- (e) PFD management *)

Theorem C08_pfd_rollback : forall old req t, handle_pfd old req = (t, false) -> t = old.
Proof. exact pfd_rollback. Qed.
Print Assumptions C08_pfd_rollback.

(* accepted: the table afterwards is exactly the table the request carries (per application, in
   order, the flow descriptions of ALL its PFD Contexts; a later IE for the same id wins) - nothing
   of the previous table survives, nothing of the request is lost.  Full since fix 956e246
   (before it, later PFD Contexts were dropped: former finding F0801). *)
Theorem C08_pfd_replace : forall old req t,
  handle_pfd old req = (t, true) -> t = table_of req [].
Proof. exact pfd_replace. Qed.
Print Assumptions C08_pfd_replace.

Theorem C08_pfd_accept_iff : forall old req,
  snd (handle_pfd old req) = true <-> forallb app_ok req = true.
Proof. exact pfd_accept_iff. Qed.
Print Assumptions C08_pfd_accept_iff.

(* ---------------------------------------------------------------- non-vacuity *)

Definition ex_ast : ast :=
  Ast Permit DOut PUdp (AIp 3232235777 (Some 24)) (PRng 8080 8090) AAssigned PNone.

Example C08_ex_text : render ex_ast = K "permit out udp from 192.168.1.1/24 8080-8090 to assigned".
Proof. vm_compute. reflexivity. Qed.

Example C08_ex_wf : wf_ast ex_ast /\ one_port ex_ast /\ no_sentinel ex_ast.
Proof.
  split; [|split; [now right|discriminate]].
  split; [exact I|]. split; [split; [reflexivity|intros l E; injection E as <-; discriminate]|].
  split; [split; discriminate|]. split; exact I.
Qed.

(* access PDR of UE 10.0.0.1: source = UE/32, destination = 192.168.1.0/24, udp, destination port 8080-8090 *)
Example C08_ex_filter :
  parse_pdr Access 167772161 [] [ISdf (Some (render ex_ast))] =
  Accepted (AF 167772161 3232235776 (PR 0 65535) (PR 8080 8090) 17 4294967295 4294967040 255).
Proof. vm_compute. reflexivity. Qed.

(* the direction keywords the agent associates with the two source interfaces *)
Example C08_ex_direction :
  dir_matches Access (K "out") = true /\ dir_matches Core (K "in") = true /\
  dir_matches Access (K "in") = false /\ dir_matches Core (K "out") = false.
Proof. repeat split. Qed.

Example C08_ex_appid :
  parse_pdr Core 167772161 [(K "app1", [K "permit out tcp from any to assigned"; K "permit in tcp from 8.8.8.0/24 443 to assigned"])]
            [IApp (Some (K "app1"))] =
  Accepted (AF 134744064 167772161 (PR 443 443) (PR 0 65535) 6 4294967040 4294967295 255).
Proof. vm_compute. reflexivity. Qed.

(* malformed shapes are inhabited: inverted range, missing address, missing to clause, junk address *)
Example C08_ex_malformed :
  malformed (K "10.0.0.1") (fields (K "permit out ip from 1.2.3.4 80-79 to assigned")) /\
  malformed (K "10.0.0.1") (fields (K "permit out ip from 1.2.3.4 to")) /\
  malformed (K "10.0.0.1") (fields (K "permit out ip from 1.2.3.4")) /\
  malformed (K "10.0.0.1") (fields (K "permit out ip from 1.2.3 to assigned")) /\
  malformed (K "10.0.0.1") (fields (K "permit out ip from any to assigned x")).
Proof.
  split; [|split; [|split; [|split]]].
  - apply (M_from_port _ (K "permit") (K "out") (K "ip") (K "1.2.3.4") (K "80-79") [K "to"; K "assigned"]);
      [discriminate|reflexivity].
  - apply (M_dangling _ (K "permit") (K "out") (K "ip") [K "from"; K "1.2.3.4"] (K "to")). now right.
  - apply (M_no_to _ (K "permit") (K "out") (K "ip") [K "from"; K "1.2.3.4"]).
    intros [H|[H|[]]]; discriminate.
  - apply (M_from_addr _ (K "permit") (K "out") (K "ip") (K "1.2.3") [K "to"; K "assigned"]). reflexivity.
  - apply (M_to_port _ (K "permit") (K "out") (K "ip") (K "any") [] (K "assigned") (K "x") []);
      [now left|reflexivity].
Qed.

Example C08_ex_malformed_pdr :
  parse_pdr Core 167772161 [] [ISdf (Some (K "permit out ip from 1.2.3.4 80-79 to assigned"))] =
  Accepted (prefill Core 167772161) /\
  prefill Core 167772161 = AF 0 167772161 (PR 0 0) (PR 0 0) 0 0 4294967295 0.
Proof. split; vm_compute; reflexivity. Qed.

Example C08_ex_pfd :
  handle_pfd [(K "old", [K "x y"])] [AppIE (Some (K "a")) [Some [Some (K "permit in ip from any to assigned")]]] =
    ([(K "a", [K "permit in ip from any to assigned"])], true) /\
  handle_pfd [(K "old", [K "x y"])] [AppIE (Some (K "a")) [Some [Some (K "permit in ip from any to assigned"); Some []]]] =
    ([(K "old", [K "x y"])], false).
Proof. split; vm_compute; reflexivity. Qed.

(* several PFD Contexts per application: all provisioned, in order; an unreadable later one rejects *)
Example C08_ex_pfd_contexts :
  handle_pfd [] req2 = ([(K "app1", [K "permit in ip from any to assigned"; K "permit out udp from 1.2.3.4 80 to assigned"])], true)
  /\ parse_pdr Access 167772161 (fst (handle_pfd [] req2)) [IApp (Some (K "app1"))] =
     Accepted (AF 16909060 167772161 (PR 80 80) (PR 0 65535) 17 4294967295 4294967295 255).
Proof. exact pfd_two_contexts. Qed.

Example C08_ex_pfd_unreadable_context : forall old,
  handle_pfd old [AppIE (Some (K "app1")) [Some [Some (K "permit in ip from any to assigned")]; None]] = (old, false).
Proof. exact pfd_unreadable_context. Qed.
