(* C17 - Port ranges are expanded exactly or refused.
   Only statements; every proof is `exact <lemma>` from Proofs/PortRangeProofs.v. *)
From Coq Require Import NArith List Bool.
From UPF Require Import Model.PortRange Proofs.PortRangeProofs.
Import ListNotations.
Open Scope N_scope.

(* Single range, either strategy, all 2^32 (lo, hi) and all ports: an accepted expansion
   matches each in-range port by exactly one rule and no other port (exact + disjoint). *)
Theorem C17_single_range_exact :
  forall s r rs x, wf16 r -> x < U16 -> as_complex s r = Ok rs -> count x rs = b2n (in_range r x).
Proof. exact as_complex_exact_cover. Qed.
Print Assumptions C17_single_range_exact.

Theorem C17_ternary_never_refuses : forall r, wf16 r -> exists rs, as_complex Ternary r = Ok rs.
Proof. exact ternary_total. Qed.
Print Assumptions C17_ternary_never_refuses.

Theorem C17_exact_refuses_wide :
  forall r, is_range r = true -> EXACT_LIMIT < width r -> as_complex Exact r = Err.
Proof. exact exact_refuses_wide. Qed.
Print Assumptions C17_exact_refuses_wide.

Theorem C17_exact_accepts_narrow :
  forall r, width r <= EXACT_LIMIT -> exists rs, as_complex Exact r = Ok rs.
Proof. exact exact_accepts_narrow. Qed.
Print Assumptions C17_exact_accepts_narrow.

Theorem C17_wildcard_only_for_full :
  forall s r rs t, wf16 r -> as_complex s r = Ok rs -> In t rs -> t_mask t = 0 -> is_wild r = true.
Proof. exact mask0_only_wild. Qed.
Print Assumptions C17_wildcard_only_for_full.

(* Pair of ranges: the product matches exactly src in first range and dst in second. *)
Theorem C17_product_exact :
  forall s d rs x y, wf16 s -> wf16 d -> x < U16 -> y < U16 ->
  cartesian s d = Ok rs -> pcount x y rs = b2n (in_range s x && in_range d y).
Proof. exact cartesian_exact_cover. Qed.
Print Assumptions C17_product_exact.

Theorem C17_product_refuses_iff :
  forall s d, cartesian s d = Err <->
    (is_range s = true /\ is_range d = true) \/
    (is_range s = true /\ EXACT_LIMIT < width s) \/
    (is_range d = true /\ EXACT_LIMIT < width d).
Proof. exact cartesian_refuses_iff. Qed.
Print Assumptions C17_product_refuses_iff.

Theorem C17_product_total : forall s d, cartesian s d <> OutOfFuel.
Proof. exact cartesian_never_out_of_fuel. Qed.
Print Assumptions C17_product_total.

Theorem C17_product_wildcard_only_for_full :
  forall s d rs p, wf16 s -> wf16 d -> cartesian s d = Ok rs -> In p rs ->
  (sm p = 0 -> is_wild s = true) /\ (dm p = 0 -> is_wild d = true).
Proof. exact cartesian_mask0. Qed.
Print Assumptions C17_product_wildcard_only_for_full.

(* non-vacuity: hypotheses are met by concrete non-trivial ranges *)
Example C17_nonvacuous :
  wf16 (PR 1000 1063) /\ as_complex Ternary (PR 1000 1063) =
     Ok [TR 1000 65528; TR 1008 65520; TR 1024 65504; TR 1056 65528]
  /\ cartesian (PR 80 80) (PR 1 3) = Ok [PRD 80 65535 1 65535; PRD 80 65535 2 65535; PRD 80 65535 3 65535].
Proof. unfold wf16; cbn [lo hi]. repeat split; vm_compute; reflexivity. Qed.
