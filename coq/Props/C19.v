(* C19 - The slice-configuration REST endpoint programs what was posted, or nothing.  Statements only.
   serve dp meth body : statuses written (every WriteHeader), datapath writes, replaced upf.sliceInfo.
   All statements are for every method string, every unit string, every rate and burst (N; the
   64-bit range is the hypothesis wf_doc where it matters), both datapaths. *)
From Coq Require Import ZArith NArith List Bool String Lia ZifyN.
From UPF Require Import Model.SliceRest Proofs.SliceRestProofs.
Import ListNotations.
Open Scope string_scope.
Open Scope N_scope.

(* ---- unit conversion: rate_ok mbr u  :=  mbr <> 0 /\ mbr * unit_of u < 2^63 *)
Theorem C19_unit_table :
  unit_of "bps" = 1 /\ unit_of "Kbps" = 1000 /\ unit_of "Mbps" = 1000000 /\ unit_of "Gbps" = 1000000000 /\
  unit_of "" = 1000000 /\
  forall u : string, u <> "bps"%string -> u <> "Kbps"%string -> u <> "Gbps"%string -> unit_of u = 1000000.
Proof. exact unit_table. Qed.
Print Assumptions C19_unit_table.

Theorem C19_units : forall (mbr : N) (u : string),
  mbr <> 0 /\ mbr * unit_of u < 2 ^ 63 -> calculate_bit_rates mbr u = mbr * unit_of u.
Proof. exact c19_units. Qed.
Print Assumptions C19_units.

(* ... and otherwise, exactly: "bps" is passed through untouched (also 0 and values >= 2^63); for the
   other units the product is truncated to 64 bits and used if it lands in (0, 2^63), else 2^63-1 *)
Theorem C19_units_exact : forall (mbr : N) (u : string),
  calculate_bit_rates mbr u =
  if (u =? "bps")%string then mbr
  else let w := (mbr * unit_of u) mod 2 ^ 64 in
       if (0 <? w) && (w <? 2 ^ 63) then w else 2 ^ 63 - 1.
Proof. exact calc_exact. Qed.
Print Assumptions C19_units_exact.

(* ---- well-formed PUT / POST *)
Theorem C19_wellformed_201 : forall (dp : datapath) (meth : string) (d : doc),
  meth = "PUT"%string \/ meth = "POST"%string ->
  r_statuses (serve dp meth (Decoded d)) = [201] /\
  r_stored (serve dp meth (Decoded d)) =
    Some (stored_spec d (calculate_bit_rates (d_ul d) (d_unit d)) (calculate_bit_rates (d_dl d) (d_unit d))).
Proof. exact c19_always_201. Qed.
Print Assumptions C19_wellformed_201.

(* BESS: one 201, two sliceMeter/add commands, upf.sliceInfo replaced; everything a function of
   rate * unit and the posted bursts (pir in bytes/s; a posted burst 0 means DefaultBurstSize) *)
Theorem C19_programs_bess : forall (meth : string) (d : doc),
  meth = "PUT"%string \/ meth = "POST"%string ->
  rate_ok (d_ul d) (d_unit d) -> rate_ok (d_dl d) (d_unit d) ->
  serve Bess meth (Decoded d) =
  Result [201]
         (bess_meter_spec (d_ul d * unit_of (d_unit d)) (d_dl d * unit_of (d_unit d)) (d_ulb d) (d_dlb d))
         (Some (stored_spec d (d_ul d * unit_of (d_unit d)) (d_dl d * unit_of (d_unit d)))).
Proof. exact c19_programs_bess. Qed.
Print Assumptions C19_programs_bess.

(* BESS, per direction: a direction whose posted rate is non-zero and fits is programmed exactly,
   whatever the other direction's rate is *)
Theorem C19_programs_bess_sides : forall (meth : string) (d : doc),
  meth = "PUT"%string \/ meth = "POST"%string ->
  exists c1 c2,
    r_writes (serve Bess meth (Decoded d)) = [WBess c1; WBess c2] /\
    (rate_ok (d_ul d) (d_unit d) -> c1 = bess_ul_spec (d_ul d * unit_of (d_unit d)) (d_ulb d)) /\
    (rate_ok (d_dl d) (d_unit d) -> c2 = bess_dl_spec (d_dl d * unit_of (d_unit d)) (d_dlb d)).
Proof. exact c19_programs_bess_sides. Qed.
Print Assumptions C19_programs_bess_sides.

(* UP4 (configured slice id < 16, default TC < 4): one 201, one MODIFY of cell 4*slice+tc of the
   slice/TC meter with the larger of the two converted rates and the burst of that side, for ALL
   64-bit bursts: up4_meter_spec saturates the burst at 2^63-1, the largest value P4Runtime's int64
   pburst can carry (since fix 6ea8262; before it a burst >= 2^63 was written as a negative number) *)
Theorem C19_programs_up4 : forall (meth : string) (d : doc) (slice_id tc : N),
  meth = "PUT"%string \/ meth = "POST"%string -> slice_id < 16 -> tc < 4 ->
  rate_ok (d_ul d) (d_unit d) -> rate_ok (d_dl d) (d_unit d) ->
  serve (Up4 slice_id tc) meth (Decoded d) =
  Result [201]
         (up4_meter_spec slice_id tc (d_ul d * unit_of (d_unit d)) (d_dl d * unit_of (d_unit d))
                         (d_ulb d) (d_dlb d))
         (Some (stored_spec d (d_ul d * unit_of (d_unit d)) (d_dl d * unit_of (d_unit d)))).
Proof. exact c19_programs_up4. Qed.
Print Assumptions C19_programs_up4.

(* for every document: pburst is never negative, equals the posted burst of the chosen side whenever
   that is below 2^63, and is 2^63-1 otherwise *)
Theorem C19_up4_burst_carried : forall (meth : string) (d : doc) (slice_id tc : N),
  meth = "PUT"%string \/ meth = "POST"%string -> slice_id < 16 -> tc < 4 ->
  exists m, r_writes (serve (Up4 slice_id tc) meth (Decoded d)) = [WUp4 m] /\
    (0 <= m_pburst m < 2 ^ 63)%Z /\
    let b := if calculate_bit_rates (d_dl d) (d_unit d) <? calculate_bit_rates (d_ul d) (d_unit d)
             then d_ulb d else d_dlb d in
    (b < 2 ^ 63 -> m_pburst m = Z.of_N b) /\ (2 ^ 63 <= b -> m_pburst m = (2 ^ 63 - 1)%Z).
Proof. exact c19_up4_burst_carried. Qed.
Print Assumptions C19_up4_burst_carried.

(* what UP4 is told for every document, exactly (int64_of_uint64 = two's-complement reading of the rate) *)
Theorem C19_up4_exact : forall (meth : string) (d : doc) (slice_id tc : N),
  meth = "PUT"%string \/ meth = "POST"%string -> slice_id < 16 -> tc < 4 ->
  let cu := calculate_bit_rates (d_ul d) (d_unit d) in
  let cd := calculate_bit_rates (d_dl d) (d_unit d) in
  r_writes (serve (Up4 slice_id tc) meth (Decoded d)) =
  [ WUp4 (MeterWrite 2 336833095 (Z.of_N (4 * slice_id + tc)) 0 0
            (int64_of_uint64 (N.max cu cd))
            (Z.of_N (N.min (if cd <? cu then d_ulb d else d_dlb d) (2 ^ 63 - 1)))) ].
Proof. exact c19_up4_exact. Qed.
Print Assumptions C19_up4_exact.

(* a UP4 plug-in configured with slice id >= 16 or TC >= 4 answers 201 and programs nothing
   (GetSliceTCMeterIndex's error is only logged); outside the property's quantifier, kept visible *)
Theorem C19_up4_bad_config_silent : forall (meth : string) (d : doc) (slice_id tc : N),
  meth = "PUT"%string \/ meth = "POST"%string -> 16 <= slice_id \/ 4 <= tc ->
  r_statuses (serve (Up4 slice_id tc) meth (Decoded d)) = [201] /\
  r_writes (serve (Up4 slice_id tc) meth (Decoded d)) = [].
Proof. exact c19_up4_bad_config. Qed.
Print Assumptions C19_up4_bad_config_silent.

(* ---- unreadable or malformed body: one 4xx (400 for PUT/POST), nothing programmed, nothing stored *)
Theorem C19_error_untouched : forall (dp : datapath) (meth : string) (b : body),
  b = Unreadable \/ b = Malformed ->
  (exists s, r_statuses (serve dp meth b) = [s] /\ 400 <= s < 500 /\
             (meth = "PUT"%string \/ meth = "POST"%string -> s = 400)) /\
  r_writes (serve dp meth b) = [] /\ r_stored (serve dp meth b) = None.
Proof. exact c19_error_untouched. Qed.
Print Assumptions C19_error_untouched.

(* ---- other methods *)
Theorem C19_other_methods : forall (dp : datapath) (meth : string) (b : body),
  meth <> "PUT"%string -> meth <> "POST"%string -> serve dp meth b = Result [405] [] None.
Proof. exact c19_other_methods. Qed.
Print Assumptions C19_other_methods.

(* ---- every request whatsoever: exactly one status; anything programmed or stored only with 201 *)
Theorem C19_single_status : forall (dp : datapath) (meth : string) (b : body),
  exists s, r_statuses (serve dp meth b) = [s] /\
    (s = 201 \/ (400 <= s < 500 /\ r_writes (serve dp meth b) = [] /\ r_stored (serve dp meth b) = None)).
Proof. exact c19_single_status. Qed.
Print Assumptions C19_single_status.

(* ---- histories: one handler + upf serving any sequence of requests; state = upf.sliceInfo *)
(* what a request is answered, sends to the datapath and stores does not depend on the state it
   finds (any previously posted slice, or none): it is serve of that request alone, so every theorem
   above holds for every request of every history *)
Theorem C19_history_independent : forall (st st' : state) (dp : datapath) (meth : string) (b : body),
  fst (serve_st st dp meth b) = fst (serve_st st' dp meth b) /\
  fst (serve_st st dp meth b) = serve dp meth b.
Proof. exact c19_history_independent. Qed.
Print Assumptions C19_history_independent.

Theorem C19_sequence : forall (st : state) (dp : datapath) (reqs : list request),
  fst (run st dp reqs) = map (fun q => serve dp (q_meth q) (q_body q)) reqs.
Proof. exact run_results. Qed.
Print Assumptions C19_sequence.

(* a refused request (unreadable / malformed body, other method) at the end of any history leaves the
   cached slice info and the meter (the writes of the last request that sent any) as they were *)
Theorem C19_refused_keeps_meter : forall (st : state) (dp : datapath) (reqs : list request) (q : request)
    (m : list write),
  q_body q = Unreadable \/ q_body q = Malformed \/ (q_meth q <> "PUT"%string /\ q_meth q <> "POST"%string) ->
  snd (run st dp (reqs ++ [q])) = snd (run st dp reqs) /\
  meter_after m (fst (run st dp (reqs ++ [q]))) = meter_after m (fst (run st dp reqs)).
Proof. exact c19_refused_keeps. Qed.
Print Assumptions C19_refused_keeps_meter.

(* an accepted request at the end of any history: the cache and the meter are what IT posted *)
Theorem C19_accepted_overrides : forall (st : state) (dp : datapath) (reqs : list request) (meth : string)
    (d : doc) (m : list write),
  meth = "PUT"%string \/ meth = "POST"%string ->
  snd (run st dp (reqs ++ [Req meth (Decoded d)])) = Some (slice_info_of d) /\
  (add_slice_info dp (slice_info_of d) <> [] ->
   meter_after m (fst (run st dp (reqs ++ [Req meth (Decoded d)]))) = add_slice_info dp (slice_info_of d)).
Proof. exact c19_accepted_overrides. Qed.
Print Assumptions C19_accepted_overrides.

(* ---------------------------------------------------------------- non-vacuity *)
Definition ex_doc (ul dl : N) (u : string) (ulb dlb : N) : doc :=
  Doc "slice1" ul dl u ulb dlb [("internet", "pool1")].

(* hypotheses are satisfiable at the very edge: the largest Gbps rate that fits, a 64-bit burst *)
Example C19_rate_ok_inhabited :
  rate_ok 9223372036 "Gbps" /\ rate_ok 9223372036854 "" /\ rate_ok (2 ^ 63 - 1) "bps" /\
  ~ rate_ok 9223372037 "Gbps" /\ ~ rate_ok 0 "Kbps" /\ wf_doc (ex_doc 9223372036 1 "Gbps" (2 ^ 64 - 1) 0).
Proof. unfold rate_ok, wf_doc. cbn. repeat split; try intros [? ?]; lia. Qed.

Example C19_bess_example :
  serve Bess "PUT" (Decoded (ex_doc 9223372036 1 "Gbps" (2 ^ 64 - 1) 0)) =
  Result [201]
    [ WBess (BessCmd "sliceMeter" "add" (QosAdd 0 1 1152921504500000000 1 18446744073709551615 0 0 [1; 0]));
      WBess (BessCmd "sliceMeter" "add" (QosAdd 0 1 125000000 1 48448 0 50 [0; 1])) ]
    (Some (SliceInfo "slice1" 9223372036000000000 1000000000 18446744073709551615 0 [("pool1", "internet")])).
Proof. vm_compute. reflexivity. Qed.

Example C19_up4_example :
  serve (Up4 15 3) "POST" (Decoded (ex_doc 20 30 "Kbps" 111 222)) =
  Result [201] [ WUp4 (MeterWrite 2 336833095 63 0 0 30000 222) ]
    (Some (SliceInfo "slice1" 20000 30000 111 222 [("pool1", "internet")])).
Proof. vm_compute. reflexivity. Qed.

Example C19_up4_clamp_example :
  r_writes (serve (Up4 0 3) "POST" (Decoded (ex_doc 1 1 "Mbps" 1000 (2 ^ 64 - 1)))) =
  [ WUp4 (MeterWrite 2 336833095 3 0 0 1000000 9223372036854775807) ].
Proof. vm_compute. reflexivity. Qed.

(* outside rate_ok: 0 becomes 2^63-1; just above the limit becomes 2^63-1; far above it the
   truncated product can land positive: 18446744073710 Mbps is programmed as 448384 bit/s *)
Example C19_outside_examples :
  calculate_bit_rates 0 "Mbps" = 2 ^ 63 - 1 /\
  calculate_bit_rates 9223372036855 "Mbps" = 2 ^ 63 - 1 /\
  calculate_bit_rates 18446744073710 "Mbps" = 448384 /\
  calculate_bit_rates 0 "bps" = 0 /\ calculate_bit_rates (2 ^ 64 - 1) "bps" = 2 ^ 64 - 1.
Proof. vm_compute. repeat split. Qed.

Example C19_error_examples :
  serve Bess "POST" Malformed = Result [400] [] None /\
  serve (Up4 0 3) "PUT" Unreadable = Result [400] [] None /\
  serve Bess "GET" (Decoded (ex_doc 1 1 "" 1 1)) = Result [405] [] None /\
  serve Bess "put" (Decoded (ex_doc 1 1 "" 1 1)) = Result [405] [] None.
Proof. vm_compute. repeat split. Qed.

(* a history: 40 Mbps, a malformed body, a GET, then the same rate spelled 40000 Kbps with new bursts:
   the last request is programmed in full although name and converted rates equal the cached ones *)
Example C19_history_example :
  let d1 := Doc "s" 40 40 "Mbps" 6000 7000 [] in
  let d2 := Doc "s" 40000 40000 "Kbps" 120000 140000 [] in
  run None Bess [Req "PUT" (Decoded d1); Req "POST" Malformed; Req "GET" (Decoded d2); Req "PUT" (Decoded d2)] =
  ([ Result [201] (bess_meter_spec 40000000 40000000 6000 7000) (Some (SliceInfo "s" 40000000 40000000 6000 7000 []));
     Result [400] [] None; Result [405] [] None;
     Result [201] (bess_meter_spec 40000000 40000000 120000 140000)
            (Some (SliceInfo "s" 40000000 40000000 120000 140000 [])) ],
   Some (SliceInfo "s" 40000000 40000000 120000 140000 [])).
Proof. vm_compute. reflexivity. Qed.
