From Coq Require Import NArith List.
From UPF Require Import Model.RouteCtl.
Theorem C20_placeholder : True. Proof. exact I. Qed.
Print Assumptions C20_placeholder.
