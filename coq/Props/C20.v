(* C20 - BESS route modules mirror the kernel's routes and neighbours.  Statements only.
   (model of conf/route_control.py after the repair 1b62c73: a LIST of routes waits for an unresolved next hop)

   run (init ifs) h   the state of RouteController + BESS + kernel view after the netlink history h
   run_ok G s h       the boolean guard G holds at every step of h
   guards             wf_ev        the domain of the property: the kernel adds only absent prefixes, deletes only
                                   routes it has, a neighbour's MAC is stable
                      bound_ev     a next hop is reached over one interface                                (else F40)
                      keepuser_ev  deleting a route of a resolved next hop leaves another route through it (else F29c)
                      good_ev = wf && bound ;  goodu_ev = good && keepuser ;  but_bound = wf && keepuser *)
From Coq Require Import NArith ZArith List Bool.
From UPF Require Import Model.RouteCtl Proofs.RouteCtlProofs.
Import ListNotations.
Open Scope N_scope.

(* ---- mirror: installed <-> the kernel has the route and the next hop's MAC is known.
   Every kernel-admissible history: any number of routes waiting for one next hop, deletions while
   waiting, next hops on several interfaces, last routes deleted. *)
Theorem C20_mirror : forall ifs h, run_ok wf_ev (init ifs) h = true ->
  forall i p, (exists g, lookup (i, p) (lpm (bs (run (init ifs) h))) = Some g) <->
              (exists nh mac, lookup p (kern (run (init ifs) h)) = Some (nh, i) /\
                              lookup nh (kneigh (run (init ifs) h)) = Some mac).
Proof. exact mirror_wf. Qed.
Print Assumptions C20_mirror.

(* ---- all installed routes through one next hop use one gate number (every admissible history) *)
Theorem C20_one_gate_per_next_hop : forall ifs h, run_ok wf_ev (init ifs) h = true ->
  forall p1 p2 nh i1 i2 g1 g2,
    lookup p1 (kern (run (init ifs) h)) = Some (nh, i1) -> lookup p2 (kern (run (init ifs) h)) = Some (nh, i2) ->
    lookup (i1, p1) (lpm (bs (run (init ifs) h))) = Some g1 -> lookup (i2, p2) (lpm (bs (run (init ifs) h))) = Some g2 ->
    g1 = g2.
Proof. exact one_gate_wf. Qed.
Print Assumptions C20_one_gate_per_next_hop.

(* ---- gates: two live next hops (entries of the neighbour cache) on one interface never share a gate.
   Every history; the only hypothesis is that a next hop sits on one interface. *)
Theorem C20_gates_distinct : forall ifs h, run_ok bound_ev (init ifs) h = true ->
  forall nh1 nh2 e1 e2 i, nh1 <> nh2 ->
    lookup nh1 (ncache (run (init ifs) h)) = Some e1 -> lookup nh2 (ncache (run (init ifs) h)) = Some e2 ->
    lookup nh1 (nhif (run (init ifs) h)) = Some i -> lookup nh2 (nhif (run (init ifs) h)) = Some i ->
    n_gate e1 <> n_gate e2.
Proof. exact gates_distinct_all. Qed.
Print Assumptions C20_gates_distinct.

(* the same on the BESS graph: installed kernel routes of different next hops use different gates *)
Theorem C20_gates_distinct_on_graph_partial : forall ifs h, run_ok good_ev (init ifs) h = true ->
  obs_gates_distinct (run (init ifs) h).
Proof. exact obs_gates_good. Qed.
Print Assumptions C20_gates_distinct_on_graph_partial.

(* ---- the gate of a next hop leads to the one MAC-rewrite module of that next hop and on to Merge *)
Theorem C20_shared_gate_partial : forall ifs h, run_ok good_ev (init ifs) h = true ->
  forall p nh i g, lookup p (kern (run (init ifs) h)) = Some (nh, i) ->
    lookup (i, p) (lpm (bs (run (init ifs) h))) = Some g ->
    exists e, lookup nh (ncache (run (init ifs) h)) = Some e /\ g = n_gate e /\
              lookup nh (kneigh (run (init ifs) h)) = Some (n_mac e) /\
              path (bs (run (init ifs) h)) i g (n_mac e).
Proof. exact routes_share_good. Qed.
Print Assumptions C20_shared_gate_partial.

(* false when a next hop is used on two interfaces (F40) *)
Theorem C20_shared_gate_refuted : exists ifs h, run_ok but_bound (init ifs) h = true /\
  ~ routes_share (run (init ifs) h) /\ ~ obs_gates_distinct (run (init ifs) h).
Proof. exact shared_gate_refuted_two_ifaces. Qed.
Print Assumptions C20_shared_gate_refuted.

(* ---- the rewrite module exists iff at least one installed route uses it *)
Theorem C20_update_module_iff_used_partial : forall ifs h, run_ok goodu_ev (init ifs) h = true ->
  forall u mac, lookup u (upd (bs (run (init ifs) h))) = Some mac ->
    exists p nh i g, lookup p (kern (run (init ifs) h)) = Some (nh, i) /\
                     lookup (i, p) (lpm (bs (run (init ifs) h))) = Some g /\
                     lookup (MRoutes i, g) (links (bs (run (init ifs) h))) = Some (u, 0).
Proof. exact update_used_goodu. Qed.
Print Assumptions C20_update_module_iff_used_partial.

Theorem C20_used_update_module_exists_partial : forall ifs h, run_ok good_ev (init ifs) h = true ->
  forall p nh i g, lookup p (kern (run (init ifs) h)) = Some (nh, i) ->
    lookup (i, p) (lpm (bs (run (init ifs) h))) = Some g ->
    exists u mac, lookup (MRoutes i, g) (links (bs (run (init ifs) h))) = Some (u, 0) /\
                  lookup u (upd (bs (run (init ifs) h))) = Some mac /\
                  lookup nh (kneigh (run (init ifs) h)) = Some mac.
Proof. exact used_update_exists. Qed.
Print Assumptions C20_used_update_module_exists_partial.

(* F29c: created under one name, destroyed under another *)
Theorem C20_update_module_iff_used_refuted : exists ifs h, run_ok good_ev (init ifs) h = true /\
  ~ update_used (run (init ifs) h).
Proof. exact update_used_refuted. Qed.
Print Assumptions C20_update_module_iff_used_refuted.

(* ... in fact no history whatsoever removes an Update module once it exists *)
Theorem C20_update_modules_never_removed : forall ifs h1 h2 u m,
  lookup u (upd (bs (run (init ifs) h1))) = Some m ->
  lookup u (upd (bs (run (init ifs) (h1 ++ h2)))) = Some m.
Proof. exact update_modules_never_removed. Qed.
Print Assumptions C20_update_modules_never_removed.

(* ---- non-vacuity: a history that satisfies every guard, on two managed interfaces: three routes wait for
   one next hop (one is deleted while waiting), routes share next hops, deletions, noise, unmanaged interface *)
Example C20_guards_inhabited :
  run_ok goodu_ev (init [0; 1]) h_good = true /\
  lpm (bs (run (init [0; 1]) h_good)) = [((0, 1), 0); ((0, 2), 1); ((1, 3), 0); ((0, 0), 2)] /\
  map fst (upd (bs (run (init [0; 1]) h_good))) = [MUpdI 0 101; MUpdI 0 102; MUpdI 1 104; MUpdI 0 103] /\
  map (fun kv => (fst kv, n_count (snd kv))) (ncache (run (init [0; 1]) h_good)) = [(1, 1%Z); (2, 1%Z); (4, 1%Z); (3, 1%Z)] /\
  unres (run (init [0; 1]) h_good) = [].
Proof. vm_compute. repeat split. Qed.

(* RTM_NEWNEIGH without NDA_LLADDR (ARP timeout) and RTM_DELNEIGH while a route waits: nothing is installed,
   neither then nor after the route is withdrawn and the neighbour finally resolves *)
Example C20_failed_neighbour_installs_nothing :
  run_ok goodu_ev (init [0]) h_failed_neigh = true /\
  lpm (bs (run (init [0]) (firstn 2 h_failed_neigh))) = [] /\
  lpm (bs (run (init [0]) h_failed_neigh)) = [] /\ unres (run (init [0]) h_failed_neigh) = [].
Proof. vm_compute. repeat split. Qed.

(* the two histories that refuted the mirror before the repair (F29a, F29b): both routes installed; nothing installed *)
Example C20_repaired_histories :
  lpm (bs (run (init [0]) h_overwritten)) = [((0, 0), 0); ((0, 1), 0)] /\
  lpm (bs (run (init [0]) h_deleted_pending)) = [] /\ unres (run (init [0]) h_deleted_pending) = [].
Proof. vm_compute. repeat split. Qed.
