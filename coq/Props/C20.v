(* C20 - BESS route modules mirror the kernel's routes and neighbours.  Statements only.

   run (init ifs) h   the state of RouteController + BESS + kernel view after the netlink history h
   run_ok G s h       the boolean guard G holds at every step of h
   guards             wf_ev           the kernel adds only absent prefixes, deletes only routes it has, MACs are stable
                      bound_ev        a next hop is reached over one interface
                      onepending_ev   at most one route waits for an unresolved next hop            (else F29a)
                      nodelpending_ev no route is deleted while its next hop is unresolved          (else F29b)
                      keepuser_ev     a deletion leaves another route through the same next hop     (else F29c)
                      good_ev = wf && bound && onepending && nodelpending ;  goodu_ev = good_ev && keepuser_ev *)
From Coq Require Import NArith ZArith List Bool.
From UPF Require Import Model.RouteCtl Proofs.RouteCtlProofs.
Import ListNotations.
Open Scope N_scope.

(* ---- gates: two live next hops (entries of the neighbour cache) on one interface never share a gate.
   Every history; the only hypothesis is that a next hop sits on one interface. *)
Theorem C20_gates_distinct : forall ifs h, run_ok bound_ev (init ifs) h = true ->
  forall nh1 nh2 e1 e2 i, nh1 <> nh2 ->
    lookup nh1 (ncache (run (init ifs) h)) = Some e1 -> lookup nh2 (ncache (run (init ifs) h)) = Some e2 ->
    lookup nh1 (nhif (run (init ifs) h)) = Some i -> lookup nh2 (nhif (run (init ifs) h)) = Some i ->
    n_gate e1 <> n_gate e2.
Proof. exact gates_distinct_all. Qed.
Print Assumptions C20_gates_distinct.

(* the same on the BESS graph: installed kernel routes of different next hops use different gates *)
Theorem C20_gates_distinct_on_graph_partial : forall ifs h, run_ok good_ev (init ifs) h = true ->
  obs_gates_distinct (run (init ifs) h).
Proof. exact obs_gates_good. Qed.
Print Assumptions C20_gates_distinct_on_graph_partial.

(* ---- one gate and one MAC-rewrite module per next hop *)
Theorem C20_shared_gate_partial : forall ifs h, run_ok good_ev (init ifs) h = true ->
  forall p nh i g, lookup p (kern (run (init ifs) h)) = Some (nh, i) ->
    lookup (i, p) (lpm (bs (run (init ifs) h))) = Some g ->
    exists e, lookup nh (ncache (run (init ifs) h)) = Some e /\ g = n_gate e /\
              lookup nh (kneigh (run (init ifs) h)) = Some (n_mac e) /\
              path (bs (run (init ifs) h)) i g (n_mac e).
Proof. exact routes_share_good. Qed.
Print Assumptions C20_shared_gate_partial.

(* false when a next hop is used on two interfaces (F40) ... *)
Theorem C20_shared_gate_refuted : exists ifs h, run_ok but_bound (init ifs) h = true /\
  ~ routes_share (run (init ifs) h) /\ ~ obs_gates_distinct (run (init ifs) h).
Proof. exact shared_gate_refuted_two_ifaces. Qed.
Print Assumptions C20_shared_gate_refuted.

(* ... and when a route deleted while pending is later installed over a live route (F29b) *)
Theorem C20_shared_gate_refuted_stale : exists ifs h, run_ok but_nodelpending (init ifs) h = true /\
  ~ routes_share (run (init ifs) h) /\ ~ obs_gates_distinct (run (init ifs) h).
Proof. exact shared_gate_refuted_stale. Qed.
Print Assumptions C20_shared_gate_refuted_stale.

(* ---- mirror: installed <-> the kernel has the route and the next hop's MAC is known *)
Theorem C20_mirror_partial : forall ifs h, run_ok good_ev (init ifs) h = true ->
  forall i p, (exists g, lookup (i, p) (lpm (bs (run (init ifs) h))) = Some g) <->
              (exists nh mac, lookup p (kern (run (init ifs) h)) = Some (nh, i) /\
                              lookup nh (kneigh (run (init ifs) h)) = Some mac).
Proof. exact mirror_good. Qed.
Print Assumptions C20_mirror_partial.

(* F29a: a second route waiting for the same unresolved next hop overwrites the first *)
Theorem C20_mirror_refuted : exists ifs h, run_ok but_onepending (init ifs) h = true /\
  ~ mirror (run (init ifs) h).
Proof. exact mirror_refuted_overwritten. Qed.
Print Assumptions C20_mirror_refuted.

(* F29b: deleting a still-unresolved route does not purge it *)
Theorem C20_mirror_refuted_deleted_pending : exists ifs h, run_ok but_nodelpending (init ifs) h = true /\
  ~ mirror (run (init ifs) h).
Proof. exact mirror_refuted_deleted_pending. Qed.
Print Assumptions C20_mirror_refuted_deleted_pending.

(* ---- the rewrite module exists iff at least one installed route uses it *)
Theorem C20_update_module_iff_used_partial : forall ifs h, run_ok goodu_ev (init ifs) h = true ->
  forall u mac, lookup u (upd (bs (run (init ifs) h))) = Some mac ->
    exists p nh i g, lookup p (kern (run (init ifs) h)) = Some (nh, i) /\
                     lookup (i, p) (lpm (bs (run (init ifs) h))) = Some g /\
                     lookup (MRoutes i, g) (links (bs (run (init ifs) h))) = Some (u, 0).
Proof. exact update_used_goodu. Qed.
Print Assumptions C20_update_module_iff_used_partial.

Theorem C20_used_update_module_exists_partial : forall ifs h, run_ok good_ev (init ifs) h = true ->
  forall p nh i g, lookup p (kern (run (init ifs) h)) = Some (nh, i) ->
    lookup (i, p) (lpm (bs (run (init ifs) h))) = Some g ->
    exists u mac, lookup (MRoutes i, g) (links (bs (run (init ifs) h))) = Some (u, 0) /\
                  lookup u (upd (bs (run (init ifs) h))) = Some mac /\
                  lookup nh (kneigh (run (init ifs) h)) = Some mac.
Proof. exact used_update_exists. Qed.
Print Assumptions C20_used_update_module_exists_partial.

(* F29c: created under one name, destroyed under another *)
Theorem C20_update_module_iff_used_refuted : exists ifs h, run_ok good_ev (init ifs) h = true /\
  ~ update_used (run (init ifs) h).
Proof. exact update_used_refuted. Qed.
Print Assumptions C20_update_module_iff_used_refuted.

(* ... in fact no history whatsoever removes an Update module once it exists *)
Theorem C20_update_modules_never_removed : forall ifs h1 h2 u m,
  lookup u (upd (bs (run (init ifs) h1))) = Some m ->
  lookup u (upd (bs (run (init ifs) (h1 ++ h2)))) = Some m.
Proof. exact update_modules_never_removed. Qed.
Print Assumptions C20_update_modules_never_removed.

(* ---- non-vacuity: a history that satisfies every guard, on two managed interfaces, with a route
   that waits, routes sharing a next hop, deletions, noise and a route on an unmanaged interface *)
Example C20_guards_inhabited :
  run_ok goodu_ev (init [0; 1]) h_good = true /\
  lpm (bs (run (init [0; 1]) h_good)) = [((0, 1), 0); ((0, 2), 1); ((1, 3), 0); ((0, 0), 2)] /\
  map fst (upd (bs (run (init [0; 1]) h_good))) = [MUpdI 0 101; MUpdI 0 102; MUpdI 1 104; MUpdI 0 103] /\
  map (fun kv => (fst kv, n_count (snd kv))) (ncache (run (init [0; 1]) h_good)) = [(1, 1%Z); (2, 1%Z); (4, 1%Z); (3, 1%Z)].
Proof. vm_compute. repeat split. Qed.
