(* C18 - Configuration loading yields a validated configuration or an error.  Statements only. *)
From Coq Require Import Ascii String List Bool NArith ZArith.
From UPF Require Import Model.Jsonc Model.Config Gen.Samples_gen
  Proofs.JsoncProofs Proofs.ConfigProofs Proofs.ConfigSamplesProofs.
Import ListNotations.
Open Scope string_scope.

(* For every document (as encoding/json reads it) and every behaviour of time.ParseDuration,
   net.ParseCIDR, net.ParseIP and zapcore.Level.UnmarshalText: a configuration that is returned
   has its defaults filled, durations that parse, a mode that fits the datapath, and the addresses
   its consumers parse (access address and UE pool for P4, UE pool for UE-IP allocation, peers always). *)
Theorem C18_validated :
  forall (dur_ok cidr_ok ip_ok : string -> bool) (level_of : string -> option Z) (doc : json) (c : conf),
  load dur_ok cidr_ok ip_ok level_of doc = Ok c ->
  (resp_timeout c <> "" /\ read_timeout c <> 0%N /\ max_req_retries c <> 0%N /\
   (enable_hb c = true -> hb_interval c <> "")) /\
  (dur_ok (resp_timeout c) = true /\ (enable_hb c = true -> dur_ok (hb_interval c) = true)) /\
  (if enable_p4rt c then mode c = "" else In (mode c) ["af_xdp"; "af_packet"; "cndp"; "dpdk"; "sim"]) /\
  ((enable_p4rt c = true -> cidr_ok (access_ip c) = true /\ cidr_ok (ue_ip_pool c) = true) /\
   (enable_ue_ip_alloc c = true -> cidr_ok (ue_ip_pool c) = true) /\
   Forall (fun p => ip_ok p = true) (peers c)).
Proof. exact load_validated. Qed.
Print Assumptions C18_validated.

(* The documented defaults survive every combination of the other members: a member the document
   does not name (under Go's case-insensitive matching) has its documented value. *)
Theorem C18_defaults_when_absent :
  forall (dur_ok cidr_ok ip_ok : string -> bool) (level_of : string -> option Z) kv (c : conf),
  load dur_ok cidr_ok ip_ok level_of (JObj kv) = Ok c ->
  (names is_FRespTimeout kv = false -> resp_timeout c = "2s") /\
  (names is_FReadTimeout kv = false -> read_timeout c = 15%N) /\
  (names is_FMaxReqRetries kv = false -> max_req_retries c = 5%N) /\
  (names is_FHBInterval kv = false -> enable_hb c = true -> hb_interval c = "5s") /\
  (names is_FLogLevel kv = false -> log_level c = 0%Z) /\
  (names is_FP4rtciface kv = false -> default_tc c = 3%N).
Proof. exact defaults_when_absent. Qed.
Print Assumptions C18_defaults_when_absent.

(* ... and an explicit empty / zero value counts as missing. *)
Theorem C18_defaults_exact :
  forall (dur_ok cidr_ok ip_ok : string -> bool) (level_of : string -> option Z) (doc : json) (c : conf),
  load dur_ok cidr_ok ip_ok level_of doc = Ok c ->
  exists raw, decode ip_ok level_of doc = Some raw /\
    resp_timeout c = (if String.eqb (resp_timeout raw) "" then "2s" else resp_timeout raw) /\
    read_timeout c = (if (read_timeout raw =? 0)%N then 15%N else read_timeout raw) /\
    max_req_retries c = (if (max_req_retries raw =? 0)%N then 5%N else max_req_retries raw) /\
    hb_interval c = (if enable_hb raw then if String.eqb (hb_interval raw) "" then "5s" else hb_interval raw
                     else hb_interval raw) /\
    log_level c = log_level raw /\ default_tc c = default_tc raw.
Proof. exact defaults_exact. Qed.
Print Assumptions C18_defaults_exact.

(* Comments between tokens.  A document is gap0 tok1 gap1 ... tokn gapn; every gap is any sequence of
   white-space bytes, line comments (any body without newline, closed by a newline) and one-line block
   comments (any body without newline and without the closer).  If every token is a well-formed JSON
   token that contains no comment marker ([safe]: no slash followed by slash or star, no trailing
   slash) and no two word tokens (numbers, literals) are separated by comments only, then the
   stripper leaves exactly the tokens with the white space of the gaps, and the token sequence is
   the original one whatever the comments contain and wherever they stand. *)
Theorem C18_comments : forall (g0 : gap) (tgs : list (token * gap)),
  Forall (fun i => item_ok i = true) g0 ->
  Forall (fun tg => tok_wf (fst tg) = true /\ safe (tok_bytes (fst tg)) = true /\
                    Forall (fun i => item_ok i = true) (snd tg)) tgs ->
  separated tgs = true ->
  strip (render g0 tgs) = render_blank g0 tgs /\
  lex (strip (render g0 tgs)) = Some (map fst tgs).
Proof. exact comments_ignored. Qed.
Print Assumptions C18_comments.

Theorem C18_comments_placement_irrelevant : forall g0 g0' tgs tgs',
  gap_ok g0 -> gap_ok g0' -> Forall piece_good tgs -> Forall piece_good tgs' ->
  separated tgs = true -> separated tgs' = true -> map fst tgs = map fst tgs' ->
  lex (strip (render g0 tgs)) = lex (strip (render g0' tgs')).
Proof. exact comments_placement_irrelevant. Qed.
Print Assumptions C18_comments_placement_irrelevant.

(* Both guards are needed: the expression deletes a comment instead of replacing it by a blank, so
   two word tokens separated only by a block comment are glued (1 slash-star star-slash 5 reads 15) ... *)
Theorem C18_comments_glued_words_refuted : exists g0 tgs,
  gap_ok g0 /\ Forall piece_good tgs /\ lex (strip (render g0 tgs)) <> Some (map fst tgs).
Proof. exact glued_words_witness. Qed.
Print Assumptions C18_comments_glued_words_refuted.

(* ... and a string value that contains a comment opener is not protected by its quotes: here the
   opener inside the first string pairs with the closer inside the last one, the members between
   them vanish and the text still lexes (the document loads, silently changed). *)
Theorem C18_comments_marker_in_string_refuted : exists g0 tgs,
  gap_ok g0 /\ Forall (fun tg => tok_wf (fst tg) = true /\ gap_ok (snd tg)) tgs /\ separated tgs = true /\
  exists toks, lex (strip (render g0 tgs)) = Some toks /\ toks <> map fst tgs.
Proof. exact marker_in_string_witness. Qed.
Print Assumptions C18_comments_marker_in_string_refuted.

(* Every shipped sample (regenerated from the repository on every run) is, after comment removal, a
   sequence of well-formed JSON tokens none of which contains a comment marker.  That the UPF samples
   then load is checked on the implementation and on the model by the driver (tie C18_samples). *)
Theorem C18_samples : forall path upf text,
  In (path, upf, text) Samples_gen.all -> clean_after_strip text = true.
Proof. exact all_samples_clean. Qed.
Print Assumptions C18_samples.

(* T1: the comment expression, the supported modes and the defaults read from config.go on this run
   are the ones the models are about. *)
Theorem C18_source_constants :
  src_regexp = "(?m)//.*$|/\*.*?\*/" /\
  (forall m, In m src_modes <-> In m supported_modes) /\
  src_max_req_retries = max_req_retries_default /\ src_read_timeout = read_timeout_default /\
  src_resp_timeout = resp_timeout_default /\ src_hb_interval = hb_interval_default.
Proof. exact source_constants_match. Qed.
Print Assumptions C18_source_constants.

(* the boolean the driver evaluates on what the implementation returned is the statement of C18_validated *)
Theorem C18_monitor_is_the_statement :
  forall (dur_ok cidr_ok ip_ok : string -> bool) (c : conf),
  validated_b dur_ok cidr_ok ip_ok c = true <->
  defaults_filled c /\ durations_ok dur_ok c /\ mode_ok c /\ addresses_ok cidr_ok ip_ok c.
Proof. exact validated_b_spec. Qed.
Print Assumptions C18_monitor_is_the_statement.

(* ---------------------------------------------------------------------------- non-vacuity *)
Definition ex_dur (s : string) : bool := existsb (String.eqb s) ["2s"; "5s"; "500ms"].
Definition ex_cidr (s : string) : bool := existsb (String.eqb s) ["172.17.0.1/32"; "10.250.0.0/16"].
Definition ex_ip (s : string) : bool := existsb (String.eqb s) ["148.162.12.214"; "::1"].
Definition ex_level (s : string) : option Z := if String.eqb s "debug" then Some (-1)%Z else None.

(* a BESS document with comments-free JSON: loads, defaults filled in *)
Example C18_loads_bess :
  load ex_dur ex_cidr ex_ip ex_level
    (JObj [("mode", JStr "dpdk"); ("Enable_HBTimer", JBool true); ("workers", JNum (NInt false 1));
           ("cpiface", JObj [("peers", JArr [JStr "148.162.12.214"; JStr "::1"])]);
           ("cpiface", JObj [("dnn", JStr "internet"); ("peers", JArr [JNull])])])
  = Ok (Conf "dpdk" false "" 3 ["148.162.12.214"; "::1"] 1 false "" 15 0 5 "2s" true "5s").
Proof. vm_compute. reflexivity. Qed.

(* a P4 document: mode absent, addresses parse *)
Example C18_loads_p4 :
  load ex_dur ex_cidr ex_ip ex_level
    (JObj [("enable_p4rt", JBool true); ("log_level", JStr "debug"); ("resp_timeout", JStr "500ms");
           ("p4rtciface", JObj [("access_ip", JStr "172.17.0.1/32"); ("default_tc", JNum (NInt false 2))]);
           ("cpiface", JObj [("ue_ip_pool", JStr "10.250.0.0/16")]); ("read_timeout", JNum (NInt false 0))])
  = Ok (Conf "" true "172.17.0.1/32" 2 [] 0 false "10.250.0.0/16" 15 (-1) 5 "500ms" false "").
Proof. vm_compute. reflexivity. Qed.

(* refusals: P4 with a mode, an unparsable peer, a fractional retry count, heartbeat garbage *)
Example C18_refuses :
  load ex_dur ex_cidr ex_ip ex_level
    (JObj [("enable_p4rt", JBool true); ("mode", JStr "dpdk");
           ("p4rtciface", JObj [("access_ip", JStr "172.17.0.1/32")]);
           ("cpiface", JObj [("ue_ip_pool", JStr "10.250.0.0/16")])]) = ErrInvalid SModeP4 /\
  load ex_dur ex_cidr ex_ip ex_level
    (JObj [("mode", JStr "sim"); ("cpiface", JObj [("peers", JArr [JStr "::1"; JStr "upf.example"])])]) = ErrInvalid SPeers /\
  load ex_dur ex_cidr ex_ip ex_level (JObj [("mode", JStr "sim"); ("max_req_retries", JNum NFrac)]) = ErrDecode /\
  load ex_dur ex_cidr ex_ip ex_level
    (JObj [("mode", JStr "sim"); ("enable_hbTimer", JBool true); ("heart_beat_interval", JStr "5 s")]) = ErrInvalid SHBInterval.
Proof. vm_compute. repeat split; reflexivity. Qed.

(* the hypotheses of C18_comments are met by a document with a comment of each kind in its gaps,
   including comment bodies that contain markers themselves and a string value with single slashes *)
Definition ex_gap0 : gap := [GLine (list_ascii_of_string " SPDX // header /* x"); GWs " "%char].
Definition ex_doc : list (token * gap) :=
  [(TPunct "{", [GBlock (list_ascii_of_string " // not a line comment ")]);
   (TStr (list_ascii_of_string "notify_sockaddr"), [GBlock []]);
   (TPunct ":", [GWs " "%char; GBlock (list_ascii_of_string "*")]);
   (TStr (list_ascii_of_string "/pod-share/notifycp"), [GLine []]);
   (TPunct ",", [GWs nl]);
   (TStr (list_ascii_of_string "read_timeout"), []);
   (TPunct ":", [GBlock (list_ascii_of_string "/")]);
   (TWord (list_ascii_of_string "25"), [GLine (list_ascii_of_string """mode"": ""sim"",")]);
   (TPunct "}", [GWs nl])].
Example C18_comments_nonvacuous :
  gap_ok ex_gap0 /\ Forall piece_good ex_doc /\ separated ex_doc = true /\
  string_of_list_ascii (render ex_gap0 ex_doc) <> string_of_list_ascii (render_blank ex_gap0 ex_doc) /\
  lex (strip (render ex_gap0 ex_doc)) = Some (map fst ex_doc).
Proof.
  split; [repeat constructor|]. split; [repeat constructor|]. split; [reflexivity|].
  split; [vm_compute; discriminate|vm_compute; reflexivity].
Qed.

Example C18_samples_nonvacuous : existsb (fun x => snd (fst x)) Samples_gen.all = true.
Proof. vm_compute. reflexivity. Qed.
