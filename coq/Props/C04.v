(* C04 - placeholder while the proofs are being written *)
From UPF Require Import Model.Up4.
