(* C04 - UP4 tables are exactly the image of the live sessions' rules.  Statements only.
   Model: Model/Up4.v - the UP4 plug-in (bookkeeping, pools with an oracle for golang-set Pop(), sendCreate / sendUpdate /
   sendDelete / modifyUP4ForwardingConfiguration / clearDatapathState in source order) over a switch with the P4Runtime Write
   semantics of the harness server; table entries are the named entries of Model/P4Build.v.  A table key is
   (table, match fields, priority); [get_key k es] is the entry bound to k. *)
From Coq Require Import NArith List String Bool.
From UPF Require Model.PortRange Model.Agent.
From UPF Require Import Model.P4Info Model.P4Valid Model.P4Build Model.Up4 Proofs.Up4Proofs.
Import ListNotations.
Open Scope N_scope.

(* ---- P4Runtime table semantics: what one table update does to every key and which status it returns
   (INSERT of a bound key -> ALREADY_EXISTS and no change; MODIFY / DELETE of a free key -> NOT_FOUND and no change) *)
Theorem C04_write_semantics : forall ty e s k,
  get_key k (sw_entries (fst (sw_apply (NUTable ty e) s))) =
    (if nkey_eqb (key_of e) k then fst (expect_table ty e s) else get_key k (sw_entries s)) /\
  snd (sw_apply (NUTable ty e) s) = snd (expect_table ty e s).
Proof. exact sw_apply_table. Qed.
Print Assumptions C04_write_semantics.

(* ---- action selection, for ALL FAR x QER combinations (statement: "drop when the FAR drops or the gate of that direction is
   closed, buffer when the FAR buffers, otherwise forward with the FAR's TEID, the tunnel peer ..., the QER's QFI and the TC") *)
Theorem C04_action_uplink : forall ue p idx f app_id tc q,
  let te := n_termination_uplink ue p idx (far_drops f) app_id tc q in
  ne_table te = "PreQosPipeTerminationsUplink"%string /\
  ne_match te = [("ue_address"%string, NExact ue); ("app_id"%string, NExact app_id)] /\
  match verdict_of true f q with
  | VDrop => ne_action te = "PreQosPipeUplinkTermDrop"%string /\ param te "ctr_idx" = Some (pd_ctr p)
  | _ => ne_action te = "PreQosPipeUplinkTermFwd"%string /\ param te "tc" = Some tc /\ param te "app_meter_idx" = Some idx /\
         param te "ctr_idx" = Some (pd_ctr p)
  end.
Proof. exact action_uplink. Qed.
Print Assumptions C04_action_uplink.

Theorem C04_action_downlink : forall ue p sidx aidx peer f app_id qfi tc q,
  let te := n_termination_downlink ue p aidx f app_id qfi tc q in
  let se := n_session_downlink p sidx peer (far_buffers f) in
  ne_table te = "PreQosPipeTerminationsDownlink"%string /\ ne_table se = "PreQosPipeSessionsDownlink"%string /\
  ne_match te = [("ue_address"%string, NExact ue); ("app_id"%string, NExact app_id)] /\
  ne_match se = [("ue_address"%string, NExact (pd_ue p))] /\
  match verdict_of false f q with
  | VDrop => ne_action te = "PreQosPipeDownlinkTermDrop"%string /\ param te "ctr_idx" = Some (pd_ctr p)
  | VBuffer => ne_action se = "PreQosPipeSetSessionDownlinkBuff"%string /\ ne_action te = "PreQosPipeDownlinkTermFwd"%string
  | VForward => ne_action se = "PreQosPipeSetSessionDownlink"%string /\ param se "tunnel_peer_id" = Some peer /\
                ne_action te = "PreQosPipeDownlinkTermFwd"%string /\ param te "teid" = Some (fr_teid f) /\
                param te "qfi" = Some qfi /\ param te "tc" = Some tc /\ param te "app_meter_idx" = Some aidx /\
                param te "ctr_idx" = Some (pd_ctr p)
  end.
Proof. exact action_downlink. Qed.
Print Assumptions C04_action_downlink.

(* ---- what the batch written for one PDR contains, in whatever state [xr] it is built: related FAR, precedence <= 65535, the
   tunnel peer of the FAR's outer header (or no outer header), the sessions entry under (N3, TEID) resp. the UE address, the
   terminations entry under (UE address, application id) built from the FAR, the related (first) QER, its QFI and
   [tc_of c qfi] = the TC configured for that QFI, else the default TC - for ALL QFI->TC maps, slice ids and default TCs;
   an applications entry only for a non-empty filter *)
Theorem C04_batch_content : forall c ty fars qers r xr es,
  batch_of c ty fars qers r xr es ->
  let p := rp_pdr r in
  exists f ue ae app_id sidx aidx,
    find_far (Agent.p_far p) fars = Some f /\ Agent.p_prec p <= max_uint16 /\
    (peer_get (Agent.a_tdst f) (Agent.a_tport f) (u_peers xr) <> None \/ Agent.a_teid f = 0) /\
    (ae = None \/ ae = Some (n_application (to_pdr r ue) (cf_slice c) app_id)) /\
    (app_filter_empty (to_pdr r ue) = true -> ae = None /\ app_id = 0) /\
    ((is_uplink r = true /\ m_get (Agent.p_fseid p) (u_f2ue xr) = Some ue /\
      es = pdr_batch (n_session_uplink (to_pdr r (Agent.p_ue p)) sidx) ae
                     (n_termination_uplink ue (to_pdr r ue) aidx (far_drops (to_far f)) app_id
                                           (tc_of c (qr_qfi (related_qer p qers))) (related_qer p qers))) \/
     (is_downlink r = true /\ ue = Agent.p_ue p /\
      es = pdr_batch (n_session_downlink (to_pdr r (Agent.p_ue p)) sidx (peer_id_of f xr) (far_buffers (to_far f))) ae
                     (n_termination_downlink ue (to_pdr r ue) aidx (to_far f) app_id (related_qfi p qers)
                                             (tc_of c (qr_qfi (related_qer p qers))) (related_qer p qers)))).
Proof. exact batch_content. Qed.
Print Assumptions C04_batch_content.

(* ---- accepted establishment (any state, any oracle choices): no entry outside tunnel_peers that existed changes; for every
   PDR of the session its batch (built in a state with the final tunnel peers, meters and UE mapping) is bound afterwards -
   to the PDR's own entry, unless the key was already bound when the batch was written ("PDRs with the same key share it") *)
Theorem C04_establishment_installs_image : forall c all upd x orc x' log all',
  send_create c all upd x orc = (x', Out ROk log all') ->
  (forall k v, table_of k <> t_peers -> get_key k (sw_entries (u_sw x)) = Some v -> get_key k (sw_entries (u_sw x')) = Some v) /\
  forall r, In r all' -> exists xr es,
    batch_of c UInsert (r_fars all) (r_qers all) r xr es /\ same_bk xr x' /\
    (forall k v, table_of k <> t_peers -> get_key k (sw_entries (u_sw x)) = Some v -> get_key k (sw_entries (u_sw xr)) = Some v) /\
    forall e, In e es -> exists e', get_key (key_of e) (sw_entries (u_sw x')) = Some e' /\
                                    (e' = e \/ has_key (key_of e) (sw_entries (u_sw xr)) = true).
Proof. exact create_installs. Qed.
Print Assumptions C04_establishment_installs_image.

(* ---- accepted deletion: nothing becomes bound; every key of every deleted PDR's batch is free afterwards *)
Theorem C04_deletion_removes_image : forall c del x x' log all',
  send_delete c del x = (x', Out ROk log all') ->
  (forall k, get_key k (sw_entries (u_sw x)) = None -> get_key k (sw_entries (u_sw x')) = None) /\
  forall r, In r (r_pdrs del) -> exists xr es,
    batch_of c UDelete (r_fars del) (r_qers del) r xr es /\ same_bk xr x /\
    forall e, In e es -> get_key (key_of e) (sw_entries (u_sw x')) = None.
Proof. exact delete_removes. Qed.
Print Assumptions C04_deletion_removes_image.

(* ---- reference sets of tunnel peers: users of a peer = the live FARs that denote it (forward to access with an outer header
   to that address and port); the peer exists iff it has users.  Per step ... *)
Theorem C04_refcount_establishment : forall c all upd x orc x' log all' live,
  send_create c all upd x orc = (x', Out ROk log all') -> refcount_ok x live -> refcount_ok x' (live ++ r_fars upd).
Proof. exact create_refcount. Qed.
Print Assumptions C04_refcount_establishment.
Theorem C04_refcount_deletion : forall c del x x' log all' live,
  send_delete c del x = (x', Out ROk log all') -> refcount_ok x live -> (forall f, In f (r_fars del) -> sole_holder live f) ->
  refcount_ok x' (drop_refs (r_fars del) live).
Proof. exact delete_refcount. Qed.
Print Assumptions C04_refcount_deletion.
(* ... and over every history of accepted establishments, accepted deletions and restarts, from any state with the invariant *)
Theorem C04_refcount : forall g h x live,
  refcount_ok x live -> est_del_history g x h live -> refcount_ok (run g x h) (live_fars h live).
Proof. exact run_refcount. Qed.
Print Assumptions C04_refcount.
Theorem C04_peer_iff_used : forall x live d p,
  refcount_ok x live -> (peer_get d p (u_peers x) <> None <-> users_of live d p <> []).
Proof. exact refcount_present. Qed.
Print Assumptions C04_peer_iff_used.

(* ---- the interfaces table holds the N3 and UE pool entries throughout: for ALL histories - establishments, modifications,
   deletions, accepted or refused, any oracle choices, restarts anywhere - and all configurations with two distinct prefixes *)
Theorem C04_interfaces_throughout : forall g h,
  prefixes_differ (uc g) -> ifaces (u_sw (run g (init g) h)) = interfaces (uc g).
Proof. exact interfaces_throughout. Qed.
Print Assumptions C04_interfaces_throughout.

(* ---- kill and restart at every point of every history: the new incarnation comes up, the tables hold the two interfaces
   entries and nothing else, its bookkeeping is empty *)
Theorem C04_restart : forall g h,
  prefixes_differ (uc g) ->
  let r := step g (run g (init g) h) CRestart [] in
  o_res (snd r) = ROk /\ sw_entries (u_sw (fst r)) = interfaces (uc g) /\
  u_peers (fst r) = [] /\ u_apps (fst r) = [] /\ u_meters (fst r) = [] /\ u_ue2f (fst r) = [] /\ u_f2ue (fst r) = [].
Proof. exact restart_anywhere. Qed.
Print Assumptions C04_restart.
(* meter cells and counters are not tables: a restart leaves them as they were (DESIGN: outside the statement) *)
Theorem C04_restart_keeps_meter_cells : forall g s,
  closed s -> nodup_keys s -> prefixes_differ (uc g) ->
  let x := fst (boot g s) in
  o_res (snd (boot g s)) = ROk /\ sw_entries (u_sw x) = interfaces (uc g) /\
  sw_meters (u_sw x) = sw_meters s /\ sw_counters (u_sw x) = sw_counters s /\
  u_peers x = [] /\ u_apps x = [] /\ u_meters x = [] /\ u_ue2f x = [] /\ u_f2ue x = [] /\
  u_ctr_pool x = range 0 (uc_ctr_size g) /\ u_app_cells x = range 1 (uc_appm_size g) /\ u_sess_cells x = range 1 (uc_sessm_size g) /\
  u_peer_pool x = range 2 (max_tunnel_peer_ids + 2) /\ u_app_pool x = range 1 (max_application_ids + 1).
Proof. exact boot_effect. Qed.
Print Assumptions C04_restart_keeps_meter_cells.

(* ---- modifications (DESIGN F26).  What is TRUE of every sendUpdate, accepted or not: outside tunnel_peers the set of bound
   keys is exactly what it was (an entry is never moved, created or removed), and no meter cell and no counter is touched (a QER
   created or changed by a modification gets no meter) *)
Theorem C04_update_moves_nothing_configures_no_meter : forall c all upd x x' o,
  send_update c all upd x = (x', o) ->
  fixed_keys (u_sw x') = fixed_keys (u_sw x) /\ sw_meters (u_sw x') = sw_meters (u_sw x) /\ sw_counters (u_sw x') = sw_counters (u_sw x).
Proof. exact send_update_effect. Qed.
Print Assumptions C04_update_moves_nothing_configures_no_meter.

(* partial: when the updated FARs denote the peers they denoted before (same outer-header address and action class; the TEID
   may change) the reference sets remain those of the live FARs *)
Theorem C04_modification_refcount_partial : forall c all upd x x' log all' live,
  send_update c all upd x = (x', Out ROk log all') -> refcount_ok x live -> stable_fars live (r_fars upd) -> refcount_ok x' live.
Proof. exact update_refcount_partial. Qed.
Print Assumptions C04_modification_refcount_partial.

(* refuted without the guard (F26a): an accepted Update FAR to another gNB leaves the old peer and its table entry although
   no live FAR denotes it *)
Theorem C04_modification_refcount_refuted :
  exists g x all upd x' log all' live live',
    refcount_ok x live /\ send_update (uc g) all upd x = (x', Out ROk log all') /\ live' = r_fars all /\ ~ refcount_ok x' live'.
Proof. exact update_refcount_refuted. Qed.
Print Assumptions C04_modification_refcount_refuted.
Theorem C04_update_far_new_peer_refuted :
  o_res (snd Wit.x1) = ROk /\ o_res (snd Wit.x2) = ROk /\
  peer_get 900 2152 (u_peers (fst Wit.x2)) <> None /\ users_of (r_fars Wit.s1') 900 2152 = [] /\
  has_key (key_of (n_tunnel_peer 2 100 900 2152)) (sw_entries (u_sw (fst Wit.x2))) = true /\
  ~ refcount_ok (fst Wit.x2) (r_fars Wit.s1').
Proof. exact wit_update_far_new_peer. Qed.
Print Assumptions C04_update_far_new_peer_refuted.

(* F26b: a key-changing Update PDR is refused (NOT_FOUND), leaving an application id without entry *)
Theorem C04_update_pdr_key_refuted :
  o_res (snd Wit.x1) = ROk /\ o_res (snd Wit.x3) = RErr /\ List.length (u_apps (fst Wit.x3)) = 1%nat /\ Wit.apps_of (fst Wit.x3) = [].
Proof. exact wit_update_pdr_key. Qed.
Print Assumptions C04_update_pdr_key_refuted.

(* F0401: "every accepted establishment can be deleted again" is false: two downlink PDRs share the sessions_downlink entry *)
Theorem C04_delete_shared_key_refuted :
  o_res (snd Wit.y1) = ROk /\ o_res (snd Wit.y2) = RErr /\
  get_key (Wit.sdl_key 60) (sw_entries (u_sw (fst Wit.y1))) <> None /\ get_key (Wit.sdl_key 60) (sw_entries (u_sw (fst Wit.y2))) = None /\
  List.length (sw_entries (u_sw (fst Wit.y2))) = 5%nat /\ used_of (u_peers (fst Wit.y2)) 900 2152 = [(6, 2); (6, 4)].
Proof. exact wit_delete_shared_key. Qed.
Print Assumptions C04_delete_shared_key_refuted.

(* F0402: an accepted Remove PDR takes the shared sessions_downlink entry and the UE mapping of the PDR that stays *)
Theorem C04_remove_shared_key_refuted :
  o_res (snd Wit.y1) = ROk /\ o_res (snd Wit.y3) = ROk /\
  get_key (Wit.sdl_key 60) (sw_entries (u_sw (fst Wit.y3))) = None /\ u_f2ue (fst Wit.y3) = [] /\ u_f2ue (fst Wit.y1) = [(6, 60)].
Proof. exact wit_remove_shared_key. Qed.
Print Assumptions C04_remove_shared_key_refuted.

(* F0403: one application filter under two precedences: the last user's deletion is refused, the entry stays without id *)
Theorem C04_delete_app_priority_refuted :
  o_res (snd Wit.z1) = ROk /\ o_res (snd Wit.z2) = ROk /\ o_res (snd Wit.z3) = ROk /\ o_res (snd Wit.z4) = RErr /\
  u_apps (fst Wit.z4) = [] /\ List.length (Wit.apps_of (fst Wit.z4)) = 1%nat.
Proof. exact wit_delete_app_priority. Qed.
Print Assumptions C04_delete_app_priority_refuted.

(* ---- hypotheses are satisfiable by non-trivial cases *)
(* a history of two sessions sharing a gNB, one deleted (the peer stays, used by the other), restart, a new establishment *)
Example C04_history_inhabited :
  est_del_history Wit.g0 (init Wit.g0) h_share [] /\
  used_of (u_peers (run Wit.g0 (init Wit.g0) (firstn 3 h_share))) 900 2152 = [(8, 2)] /\
  List.length (sw_entries (u_sw (run Wit.g0 (init Wit.g0) (firstn 3 h_share)))) = 7%nat /\
  used_of (u_peers (run Wit.g0 (init Wit.g0) h_share)) 900 2152 = [(7, 2)].
Proof. exact h_share_good. Qed.
(* the guard of the modification theorem admits an accepted TEID-changing Update FAR *)
Example C04_modification_guard_inhabited :
  stable_fars (r_fars Wit.s1) [Wit.dlfar 2 5 900 99] /\
  o_res (snd (step Wit.g0 (fst Wit.x1) (CMod s1t (Rules [] [Wit.dlfar 2 5 900 99] [])) [])) = ROk.
Proof. exact stable_inhabited. Qed.
(* the configuration of the witnesses has two distinct interface prefixes *)
Example C04_prefixes_inhabited : prefixes_differ (uc Wit.g0).
Proof. intros H. inversion H. Qed.
