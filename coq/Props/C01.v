(* C01 - no PFCP datagram can crash or wedge the agent.  Statements only.
   The model (Model/Agent.v) takes the datagram as go-pfcp decodes it; every place where the Go code
   would index or dereference unguardedly is an explicit [Crash] outcome of the model, and every handler
   is a total structurally recursive function (no fuel), so "does not block" is totality. *)
From Coq Require Import NArith List Bool.
From UPF Require Import Model.IPPool Model.Fteid Model.PortRange Model.Agent Proofs.AgentProofs.
Import ListNotations.
Open Scope N_scope.

(* for every agent state, every connection state, every decoded datagram whatsoever (any combination of
   absent / repeated / unreadable IEs in any order), every datapath connectivity and every stream of
   random draws: the handler returns - it never reaches a Crash site *)
Theorem C01_no_crash : forall burst a c connected m draws, exists r, handle burst a c connected m draws = Done r.
Proof. exact handle_done. Qed.
Print Assumptions C01_no_crash.

(* the two loops with computed indices: MarkSessionQer never indexes outside its slices *)
Theorem C01_mark_session_qer_in_bounds : forall pdrs qers, exists r, mark_session_qer pdrs qers = Done r.
Proof. exact mark_session_qer_done. Qed.
Print Assumptions C01_mark_session_qer_in_bounds.

(* dropped or answered: at most one reply, of the type that answers the request; responses and
   unsupported / undecodable datagrams are dropped *)
Theorem C01_dropped_or_answered : forall burst a c connected m draws a' c' o,
  handle burst a c connected m draws = Done (a', c', o) -> reply_matches m (o_reply o).
Proof. exact handle_reply_matches. Qed.
Print Assumptions C01_dropped_or_answered.

(* a valid request afterwards is processed normally: whatever state the previous datagrams left, a
   heartbeat is answered (no precondition on the state: the theorem above is unconditional too) *)
Theorem C01_heartbeat_always_answered : forall burst a c connected draws,
  handle burst a c connected MHeartbeat draws = Done (a, c, just RHeartbeat).
Proof. reflexivity. Qed.
Print Assumptions C01_heartbeat_always_answered.

(* non-vacuity: an establishment without any PDR but with two QERs reaches MarkSessionQer with an empty
   PDR list - the shape that used to index s.pdrs[-1] - and is answered *)
Example C01_nonvacuous :
  exists r, handle (fun _ _ _ => 0) (Agent (Cfg 1 2 true) None (Gen 0 []) 0 no_tables) (Conn 7 [] [] 0) true
                   (MEst (Some (IOk 7)) (Some (IOk (9, None))) [] []
                         [QerIE (IOk 1) 0 0 0 0 0 0 0; QerIE (IOk 2) 0 0 0 0 0 0 0]) [5] = Done r
            /\ o_reply (snd r) = Some (REst 9 CAUSE_OK true (Some 5) []).
Proof. eexists; split; vm_compute; reflexivity. Qed.

(* ---- histories (Model/World.v: any number of associations sharing one agent; datagrams, teardown triggers and
   restarts in any order): no history reaches a Crash site, and after ANY history a heartbeat on the same or on
   another association is answered - "a valid request sent afterwards is still processed normally" *)
From UPF Require Import Model.World Proofs.WorldProofs.
Theorem C01_no_history_crashes : forall burst es w, exists w', wrun burst w es = Done w'.
Proof. exact wrun_done. Qed.
Print Assumptions C01_no_history_crashes.

Theorem C01_alive_after_any_history : forall burst es w w' ci connected draws,
  wrun burst w es = Done w' ->
  exists w'', wstep burst w' (WMsg ci connected MHeartbeat draws) = Done (w'', just RHeartbeat) /\ w_agent w'' = w_agent w'.
Proof. exact heartbeat_after_any_history. Qed.
Print Assumptions C01_alive_after_any_history.
