(* placeholder until the agent model lands: keeps the build target alive *)
From Coq Require Import NArith.
Theorem C01_placeholder : (0 = 0)%N. Proof. reflexivity. Qed.
Print Assumptions C01_placeholder.
