(* C09 - QoS is enforced as signalled; the session-wide limiter is chosen soundly.  Statements only.
   Model: Model/Qer.v.  `add_qer conf q` is the pair of QosCommandAddArg messages bess.addQER sends for one QER
   (uplink, downlink); `establish` / `modify` are the PDR/QER part of the two session handlers (two MarkSessionQer
   calls each); `run_history` is one establishment followed by modifications, with the command batch of each. *)
From Coq Require Import NArith List Bool.
From UPF Require Import Model.Qer Proofs.QerProofs Proofs.QerMarkProofs Proofs.QerBurstProofs.
Import ListNotations.
Open Scope N_scope.

(* ---------------------------------------------------------------- each QER reaches the datapath as sent *)

(* a direction whose gate is not open is dropped, whatever the other fields are *)
Theorem C09_gate : forall conf q, lvl_ok q -> exists c1 c2, add_qer conf q = [c1; c2] /\
  (q_uls q <> 0 -> k_gate c1 = 5) /\ (q_dls q <> 0 -> k_gate c2 = 5).
Proof. exact c09_gate. Qed.
Print Assumptions C09_gate.

(* open gate, GBR <= MBR, 40-bit rates: metered, pir = MBR x 125, cir = max(GBR x 125, 1); no 64-bit overflow *)
Theorem C09_rates : forall conf q, lvl_ok q -> r40 q -> exists c1 c2, add_qer conf q = [c1; c2] /\
  (q_uls q = 0 -> (q_ulmbr q <> 0 \/ q_ulgbr q <> 0) -> q_ulgbr q <= q_ulmbr q ->
     k_gate c1 = 0 /\ k_pir c1 = q_ulmbr q * 125 /\ k_cir c1 = N.max (q_ulgbr q * 125) 1) /\
  (q_dls q = 0 -> (q_dlmbr q <> 0 \/ q_dlgbr q <> 0) -> q_dlgbr q <= q_dlmbr q ->
     k_gate c2 = 0 /\ k_pir c2 = q_dlmbr q * 125 /\ k_cir c2 = N.max (q_dlgbr q * 125) 1).
Proof. exact c09_rates. Qed.
Print Assumptions C09_rates.

Theorem C09_no_overflow : forall x, x < 2 ^ 40 -> wrap64 (x * 1000) / 8 = x * 125.
Proof. exact rate_bytes. Qed.
Print Assumptions C09_no_overflow.

(* both rates zero and the gate open: unmetered *)
Theorem C09_unmetered : forall conf q, lvl_ok q -> exists c1 c2, add_qer conf q = [c1; c2] /\
  (q_uls q = 0 -> q_ulmbr q = 0 -> q_ulgbr q = 0 -> k_gate c1 = 6) /\
  (q_dls q = 0 -> q_dlmbr q = 0 -> q_dlgbr q = 0 -> k_gate c2 = 6).
Proof. exact c09_unmetered. Qed.
Print Assumptions C09_unmetered.

(* ... and only then: an open gate with any signalled rate is metered *)
Theorem C09_metered_when_rate_signalled : forall conf q, lvl_ok q -> exists c1 c2, add_qer conf q = [c1; c2] /\
  (q_uls q = 0 -> (q_ulmbr q <> 0 \/ q_ulgbr q <> 0) -> k_gate c1 = 0) /\
  (q_dls q = 0 -> (q_dlmbr q <> 0 \/ q_dlgbr q <> 0) -> k_gate c2 = 0).
Proof. exact c09_metered_when_rate. Qed.
Print Assumptions C09_metered_when_rate_signalled.

(* the label decides the table and the key: application QERs per (interface, QER id, F-SEID), the session QER per
   (interface, F-SEID) - one entry per session and direction *)
Theorem C09_table : forall conf q, lvl_ok q -> exists c1 c2, add_qer conf q = [c1; c2] /\
  (q_level q = 0 -> k_tbl c1 = AppTbl /\ k_fields c1 = [1; q_id q; q_fseid q] /\ k_values c1 = [q_qfi q] /\
                    k_tbl c2 = AppTbl /\ k_fields c2 = [2; q_id q; q_fseid q] /\ k_values c2 = [q_qfi q]) /\
  (q_level q = 1 -> k_tbl c1 = SessTbl /\ k_fields c1 = [1; q_fseid q] /\
                    k_tbl c2 = SessTbl /\ k_fields c2 = [2; q_fseid q]).
Proof. exact c09_table. Qed.
Print Assumptions C09_table.

(* parseQER keeps every signalled value; only a missing QER ID is refused *)
Theorem C09_parse : forall id qfi gate mbr gbr seid,
  parse_qer (mkQerIE (Some id) qfi gate mbr gbr) seid =
  Some (mkQer id 0 (dflt qfi) ((dflt gate / 4) mod 4) (dflt gate mod 4)
              (fst (match mbr with Some p => p | None => (0, 0) end)) (snd (match mbr with Some p => p | None => (0, 0) end))
              (fst (match gbr with Some p => p | None => (0, 0) end)) (snd (match gbr with Some p => p | None => (0, 0) end)) seid).
Proof. reflexivity. Qed.
Print Assumptions C09_parse.

(* ---------------------------------------------------------------- bursts *)

(* which configuration applies to a QFI: the last entry of that QCI, else entry 0, else 32 MTU / 10 ms *)
Theorem C09_burst_config : forall conf qfi,
  (forall c, conf_find conf qfi = Some c -> cfg_for conf qfi = c) /\
  (conf_find conf qfi = None -> qfi <> 0 -> forall c, conf_find conf 0 = Some c -> cfg_for conf qfi = c) /\
  (conf_find conf qfi = None -> conf_find conf 0 = None -> cfg_for conf qfi = mkCfg 48448 48448 48448 10).
Proof. exact c09_cfg_choice. Qed.
Print Assumptions C09_burst_config.

(* FULL statement (every burst >= floor(rate x 125 x duration / 1000)) is false of the code: binary64 truncation *)
Theorem C09_burst_refuted :
  exists conf q, lvl_ok q /\ r40 q /\ ~ (exists c1 c2, add_qer conf q = [c1; c2] /\ bursts_cover conf q c1 c2).
Proof. exact c09_burst_refuted. Qed.
Print Assumptions C09_burst_refuted.

Theorem C09_burst_float_witness : calc_burst 42056 87 = 457358 /\ burst_exact 42056 87 = 457359.
Proof. exact burst_float_short. Qed.
Print Assumptions C09_burst_float_witness.

(* PARTIAL: the configured minimum always; rate x duration for every 40-bit rate whenever the duration passes the
   boolean guard dur_ok (its binary64 quotient ms/1000 is not below ms/1000, and ms < 32768) *)
Theorem C09_burst_partial : forall conf q, lvl_ok q -> r40 q ->
  exists c1 c2, add_qer conf q = [c1; c2] /\ bursts_min conf q c1 c2 /\
                (dur_ok (c_dur (cfg_for conf (q_qfi q))) = true -> bursts_cover conf q c1 c2).
Proof. exact c09_burst_partial. Qed.
Print Assumptions C09_burst_partial.

(* the float product itself, all 40-bit rates, guarded durations; and the default duration *)
Theorem C09_burst_float_guarded : forall k ms, k < 2 ^ 40 -> ratio_ok ms = true -> k * 125 * (ms + 1) <= 1000 * 2 ^ 52 ->
  burst_exact k ms <= calc_burst k ms.
Proof. exact burst_ge_guarded. Qed.
Print Assumptions C09_burst_float_guarded.

Theorem C09_burst_default_duration : forall k, k < 2 ^ 40 -> burst_exact k 10 <= calc_burst k 10.
Proof. exact burst_10ms_ge. Qed.
Print Assumptions C09_burst_default_duration.

Example C09_guard_durations : dur_ok 10 = true /\ dur_ok 1 = true /\ dur_ok 1000 = true /\ dur_ok 20 = true /\ dur_ok 87 = false.
Proof. exact dur_ok_examples. Qed.

(* ---------------------------------------------------------------- UP4 *)

(* pir = MBR x 125 (0 for MBR 0), nothing committed, peak burst = the 10 ms product, which is never short *)
Theorem C09_up4_rates : forall mbr gbr, mbr < 2 ^ 40 ->
  m_pir (up4_meter_cfg mbr gbr) = mbr * 125 /\ m_cir (up4_meter_cfg mbr gbr) = 0 /\ m_cburst (up4_meter_cfg mbr gbr) = 0 /\
  m_pburst (up4_meter_cfg mbr gbr) = calc_burst mbr 10.
Proof. exact up4_meter_rate. Qed.
Print Assumptions C09_up4_rates.

Theorem C09_up4_burst : forall mbr gbr, mbr < 2 ^ 40 -> burst_exact mbr 10 <= m_pburst (up4_meter_cfg mbr gbr).
Proof. exact c09_up4_burst. Qed.
Print Assumptions C09_up4_burst.

Theorem C09_up4_unmetered : forall gbr, up4_meter_cfg 0 gbr = mkMeter 0 0 0 0.
Proof. exact up4_meter_zero. Qed.
Print Assumptions C09_up4_unmetered.

(* the QFI of the PDR's application QER selects the configured traffic class (default when unmapped); a closed gate drops *)
Theorem C09_tc : forall qfi_tc dtc ul fd plist qers q, related_qer plist qers = Some q ->
  t_tc (up4_term qfi_tc dtc ul fd plist qers) = tc_of qfi_tc dtc (q_qfi q) /\
  t_qfi (up4_term qfi_tc dtc ul fd plist qers) = q_qfi q /\
  ((if ul then q_uls q else q_dls q) = 1 -> t_drop (up4_term qfi_tc dtc ul fd plist qers) = true).
Proof. exact up4_tc. Qed.
Print Assumptions C09_tc.

Theorem C09_tc_lookup : forall m d k, (forall t, tc_find m k = Some t -> tc_of m d k = t) /\ (tc_find m k = None -> tc_of m d k = d).
Proof. exact tc_of_spec. Qed.
Print Assumptions C09_tc_lookup.

(* downlink peak rate of an application QER on UP4: exact when the QER is alone in its message ... *)
Theorem C09_up4_dl_rate_partial : forall q, q_level q = 0 -> q_dlmbr q < 2 ^ 40 ->
  exists m, configure_meters [q] = [m] /\ m_pir (dl_cfg m) = q_dlmbr q * 125.
Proof. exact up4_dl_rate_alone. Qed.
Print Assumptions C09_up4_dl_rate_partial.
(* ... and REFUTED otherwise: one shared cell, programmed from the uplink MBR *)
Theorem C09_up4_dl_rate_refuted :
  let q1 := mkQer 1 0 9 0 0 1000 8 0 0 1 in let q2 := mkQer 2 1 9 0 0 5000 5000 0 0 1 in
  exists m, In m (configure_meters [q1; q2]) /\ um_qer m = 1 /\ m_pir (dl_cfg m) <> q_dlmbr q1 * 125.
Proof. exact up4_dl_rate_shared_refuted. Qed.
Print Assumptions C09_up4_dl_rate_refuted.

(* ---------------------------------------------------------------- the session-wide limiter *)
(* sound s sent: every QER labelled session-level, in the stored session or among the QERs handed to the datapath,
   is referenced by every PDR of the session *)

(* FULL statement `forall cp cq, all_app cq -> sound (establish cp cq)` is false: three minimal shapes *)
Theorem C09_session_qer_sound_refuted_no_candidate :
  exists cp cq, all_app cq /\ ~ sound (fst (establish cp cq)) (snd (establish cp cq)).
Proof. exact c09_sound_refuted_no_candidate. Qed.
Print Assumptions C09_session_qer_sound_refuted_no_candidate.

(* even when a QER without GBR that every PDR references exists *)
Theorem C09_session_qer_sound_refuted_stale_list :
  exists cp cq, all_app cq /\
    (exists q, In q cq /\ candidate (last_list cp) q /\ forall p, In p cp -> In (q_id q) (p_qers p)) /\
    ~ sound (fst (establish cp cq)) (snd (establish cp cq)).
Proof. exact c09_sound_refuted_stale_list. Qed.
Print Assumptions C09_session_qer_sound_refuted_stale_list.

Theorem C09_session_qer_sound_refuted_three_qers :
  exists cp cq, all_app cq /\ length cq = 3%nat /\ ~ sound (fst (establish cp cq)) (snd (establish cp cq)).
Proof. exact c09_sound_refuted_three_qers. Qed.
Print Assumptions C09_session_qer_sound_refuted_three_qers.

(* PARTIAL: under est_guard (PDRs exist, >= 2 QERs, every id the last PDR lists is listed by every PDR, one of them
   belongs to a QER without GBR) exactly one QER is marked, the stored and the message's copy agree, and it is sound *)
Theorem C09_session_qer_sound_partial : forall cp cq, est_guard cp cq = true -> all_app cq ->
  snd (establish cp cq) = s_qers (fst (establish cp cq)) /\
  count_sess (s_qers (fst (establish cp cq))) = 1%nat /\
  sound (fst (establish cp cq)) (snd (establish cp cq)).
Proof. exact establish_guarded. Qed.
Print Assumptions C09_session_qer_sound_partial.

(* fewer than two QERs: nothing is marked at all *)
Theorem C09_no_session_qer_below_two : forall cp cq, (length cq < 2)%nat -> establish cp cq = (mkSess cp cq, cq).
Proof. exact establish_single. Qed.
Print Assumptions C09_no_session_qer_below_two.

(* at most one: FULL for every establishment ... *)
Theorem C09_at_most_one_establishment : forall cp cq, all_app cq ->
  (count_sess (s_qers (fst (establish cp cq))) <= 1)%nat /\ (count_sess (snd (establish cp cq)) <= 1)%nat.
Proof. exact at_most_one_establishment. Qed.
Print Assumptions C09_at_most_one_establishment.

(* ... REFUTED over histories: updating another QER with a larger MBR leaves two stored session-level QERs *)
Theorem C09_at_most_one_refuted : exists conf cp cq ms st, In st (run_history conf cp cq ms) /\ count_sess (s_qers (fst st)) = 2%nat /\
  est_guard cp cq = true /\ all_app cq /\ Forall parsed ms.
Proof. exact c09_at_most_one_refuted. Qed.
Print Assumptions C09_at_most_one_refuted.

(* stable, label: FULL - no modification that does not update that QER changes a session-level label *)
Theorem C09_stable_label : forall s m i q, nth_error (s_qers s) i = Some q -> q_level q = 1 ->
  (forall u, In u (m_uqers m) -> q_id q <> q_id u) -> nth_error (s_qers (fst (modify s m))) i = Some q.
Proof. exact stable_label. Qed.
Print Assumptions C09_stable_label.

(* stable, datapath entry: REFUTED - a modification creating two QERs and touching nothing else writes sessionQERLookup *)
Theorem C09_stable_refuted : exists conf cp cq m, est_guard cp cq = true /\ all_app cq /\ parsed m /\ m_cpdrs m = [] /\ m_updrs m = [] /\
  (forall q, In q (s_qers (fst (establish cp cq))) -> untouched m q) /\
  exists c, In c (snd (bess_modify conf (fst (establish cp cq)) m)) /\ k_tbl c = SessTbl.
Proof. exact c09_stable_refuted. Qed.
Print Assumptions C09_stable_refuted.

(* PARTIAL: a modification carrying at most one QER never writes sessionQERLookup *)
Theorem C09_stable_partial : forall conf s m, (length (m_cqers m) + length (m_uqers m) <= 1)%nat -> all_app (m_cqers m) -> all_app (m_uqers m) ->
  forall c, In c (snd (bess_modify conf s m)) -> k_tbl c = AppTbl.
Proof. exact stable_datapath_single. Qed.
Print Assumptions C09_stable_partial.

(* PARTIAL over all histories: after a guarded establishment, along any sequence of modifications each passing
   mod_guard (PDRs untouched, at most one QER, the re-run of the selection lands on a QER that is already
   session-level), every state has at most one stored session-level QER, every PDR references it, and only the
   establishment writes sessionQERLookup *)
Theorem C09_history_partial : forall conf cp cq ms, est_guard cp cq = true -> all_app cq -> guarded (fst (establish cp cq)) ms = true ->
  Forall (fun st => (count_sess (s_qers (fst st)) <= 1)%nat /\ sound (fst st) []) (run_history conf cp cq ms) /\
  Forall (fun st => forall c, In c (snd st) -> k_tbl c = AppTbl) (tl (run_history conf cp cq ms)).
Proof. exact history_guarded. Qed.
Print Assumptions C09_history_partial.

(* non-vacuity: guards are satisfied by non-trivial inputs *)
Example C09_est_guard_inhabited :
  est_guard [mkPdr 1 [3; 1; 2]; mkPdr 2 [2; 1]; mkPdr 3 [1; 2]] [q_plain 1 100 5; q_plain 2 500 0; q_plain 3 900 0] = true /\
  map q_level (s_qers (fst (establish [mkPdr 1 [3; 1; 2]; mkPdr 2 [2; 1]; mkPdr 3 [1; 2]] [q_plain 1 100 5; q_plain 2 500 0; q_plain 3 900 0]))) = [0; 1; 0] /\
  map p_qers (s_pdrs (fst (establish [mkPdr 1 [3; 1; 2]; mkPdr 2 [2; 1]; mkPdr 3 [1; 2]] [q_plain 1 100 5; q_plain 2 500 0; q_plain 3 900 0]))) = [[3; 1; 2]; [1; 2]; [1; 2]].
Proof. exact est_guard_example. Qed.

Example C09_history_guard_inhabited :
  let cp := [mkPdr 1 [1; 2]; mkPdr 2 [2; 1]] in let cq := [q_plain 1 100 0; q_plain 2 500 0] in
  let ms := [mkMod [] [q_plain 3 900 0] [] []; mkMod [] [] [] [q_plain 1 300 0]; mkMod [] [q_plain 4 50 5] [] []] in
  est_guard cp cq = true /\ guarded (fst (establish cp cq)) ms = true /\
  map (fun st => map q_level (s_qers (fst st))) (run_history [] cp cq ms) = [[0; 1]; [0; 1; 0]; [0; 1; 0]; [0; 1; 0; 0]].
Proof. exact guarded_example. Qed.

Example C09_rates_inhabited :
  add_qer [] (mkQer 7 0 9 0 1 1000 2000 100 0 5) =
  [mkCmd AppTbl true 0 12500 125000 48448 48448 48448 [1; 7; 5] [9]; mkCmd AppTbl true 5 12500 125000 48448 48448 48448 [2; 7; 5] [9]].
Proof. vm_compute. reflexivity. Qed.
