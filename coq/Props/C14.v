(* C14 - end markers go to the old tunnel, once.  Statements only. *)
From Coq Require Import NArith List Bool.
From UPF Require Import Model.IPPool Model.Fteid Model.PortRange Model.Agent Proofs.AgentProofs Model.ModDp Proofs.ModDpProofs.
Import ListNotations.
Open Scope N_scope.

(* the specification (Proofs/AgentProofs.v: spec_markers): walk the Update FAR IEs in order over the
   current FAR list; an update of a known id with the flag yields ONE marker carrying source, destination
   and TEID of the FAR as stored BEFORE that update; then the update is applied *)

(* 1. only Session Modification emits end markers: none for creations (establishment) or anything else *)
Theorem C14_only_modifications : forall burst a c connected m draws a' c' o,
  handle burst a c connected m draws = Done (a', c', o) ->
  (forall seid cpf cp cf cq up uf uq rp rf rq, m <> MMod seid cpf cp cf cq up uf uq rp rf rq) -> o_markers o = [].
Proof. exact other_messages_no_markers. Qed.
Print Assumptions C14_only_modifications.

(* 2. a modification emits nothing (rejected before the datapath was programmed, or no flagged update),
      or exactly spec_markers of its Update FAR IEs over the FAR list the session has at that point
      (stored FARs plus the FARs created earlier in the same message) - and only if end markers are enabled *)
Theorem C14_exact : forall burst a c seid cpf cp cf cq up uf uq rp rf rq a' c' o,
  handle_mod burst a c seid cpf cp cf cq up uf uq rp rf rq = Done (a', c', o) ->
  o_markers o = [] \/
  exists w w', mod_update_f uf seid (g_access (a_cfg a)) (g_core (a_cfg a)) w = (w', true) /\ w_marks w = [] /\
               (exists ups, parse_all (fun i => parse_far i seid (g_access (a_cfg a)) (g_core (a_cfg a)) true) uf = Some ups /\
                            o_markers o = if g_end_marker (a_cfg a) then spec_markers ups (view (w_f w)) else []).
Proof. exact mod_markers. Qed.
Print Assumptions C14_exact.

(* 3. consequences of the specification: updates without the flag emit none; updates of unknown FAR ids
      (failed updates) emit none; never more than one marker per flagged update *)
Theorem C14_unflagged_none : forall ups cur, (forall f, In f ups -> a_em f = false) -> spec_markers ups cur = [].
Proof. exact spec_markers_unflagged. Qed.
Print Assumptions C14_unflagged_none.
Theorem C14_unknown_none : forall ups cur,
  (forall f, In f ups -> find_idx (fun x => a_id x =? a_id f) cur = None) -> spec_markers ups cur = [].
Proof. exact spec_markers_unknown. Qed.
Print Assumptions C14_unknown_none.
Theorem C14_at_most_one_per_flagged_update : forall ups cur, (length (spec_markers ups cur) <= length (filter a_em ups))%nat.
Proof. exact spec_markers_length. Qed.
Print Assumptions C14_at_most_one_per_flagged_update.

(* 4. old - not new - tunnel: one flagged update of a known FAR yields exactly the marker of the stored value *)
Theorem C14_old_tunnel : forall f old cur k, find_idx (fun x => a_id x =? a_id f) cur = Some k -> nth k cur far0 = old ->
  a_em f = true -> spec_markers [f] cur = [Marker (a_tsrc old) (a_tdst old) (a_teid old)].
Proof. intros f old cur k Hk Ho He. cbn [spec_markers]. rewrite Hk, Ho, He. reflexivity. Qed.
Print Assumptions C14_old_tunnel.

(* non-vacuity: a session whose FAR 2 points to tunnel (src 100, dst 9, TEID 4); the update moves it to
   (dst 8, TEID 6) with the flag: one marker, to the OLD tunnel; the stored FAR is the new one *)
Example C14_nonvacuous :
  let a := Agent (Cfg 100 200 true) None (Gen 0 []) 1 no_tables in
  let s := Sess 5 77 (s_of []) (s_of [Far 2 5 0 false 2 1 100 9 4 2152]) (s_of []) in
  let upd := FarIE (IOk 2) (IOk 2) IErr (IOk [FDst (IOk 0); FOhc (IOk (6, Some 8)); FSm (IOk 2)]) in
  exists a' c', handle (fun _ _ _ => 0) a (Conn 7 [] [s] 0) true (MMod 5 None [] [] [] [] [upd] [] [] [] []) []
                = Done (a', c', Out (Some (RMod 77 CAUSE_OK)) [Cmd MFar true [2; 5] [1; 0; 1; 100; 8; 6; 2152]] [Marker 100 9 4] false)
                /\ map (fun x => view (s_fars x)) (c_sessions c') = [[Far 2 5 0 true 2 1 100 8 6 2152]].
Proof. eexists; eexists; split; vm_compute; reflexivity. Qed.

(* ---- 5. under the guard of C03's history theorem (Proofs/ModWorld.v: mod_ok - in particular no FAR id is written
   twice by one message) the specification simplifies: every flagged Update FAR of an existing FAR yields exactly one
   marker, computed from the FAR list as STORED BEFORE the message ([static_markers]: no dependence on the order of the
   updates); a rejected or unknown-session modification emits none *)
From UPF Require Import Model.World Proofs.WorldProofs Proofs.ModImage Proofs.ModWorld Proofs.ModMarkers.
Theorem C14_guarded_markers_static : forall burst w ci seid cpf cp cf cq up uf uq rp rf rq a' c' o,
  let a := w_agent w in let c := get_conn ci (w_conns w) in
  mod_ok burst w ci (MMod seid cpf cp cf cq up uf uq rp rf rq) = true ->
  handle_mod burst a c seid cpf cp cf cq up uf uq rp rf rq = Done (a', c', o) ->
  o_markers o = [] \/
  exists s0 fs ups,
    find_session seid (c_sessions c) = Some s0 /\
    parse_all (fun i => parse_far i seid (g_access (a_cfg a)) (g_core (a_cfg a)) false) cf = Some fs /\
    parse_all (fun i => parse_far i seid (g_access (a_cfg a)) (g_core (a_cfg a)) true) uf = Some ups /\
    o_reply o = Some (RMod (new_rseid cpf s0) CAUSE_OK) /\
    o_markers o = if g_end_marker (a_cfg a) then static_markers ups (view (s_fars s0) ++ fs) else [].
Proof. exact mod_markers_guarded. Qed.
Print Assumptions C14_guarded_markers_static.

(* ---- 6. over HISTORIES: after any guarded history (the hypotheses of C03_image_invariant_mod_partial), every end
   marker emitted by a guarded modification without Create FAR carries source, destination and TEID of a FAR stored
   for that session and named by a flagged Update FAR of the message - and these are exactly the tunnel parameters
   farLookup holds under that FAR's key at that moment: the marker goes to the tunnel the datapath was forwarding to *)
Theorem C14_markers_to_installed_tunnel : forall burst es w w' ci cn seid cpf cp cq up uf uq rp rf rq draws w'' o,
  (forall x, In x (states burst w es) -> envelope burst x /\ alloc_backed x) ->
  guarded_hist burst w es = true -> image_ok burst w -> wrun burst w es = Done w' ->
  mod_ok burst w' ci (MMod seid cpf cp [] cq up uf uq rp rf rq) = true ->
  wstep burst w' (WMsg ci cn (MMod seid cpf cp [] cq up uf uq rp rf rq) draws) = Done (w'', o) ->
  forall m, In m (o_markers o) ->
    exists s0 f u ups,
      find_session seid (c_sessions (get_conn ci (w_conns w'))) = Some s0 /\ In s0 (all_sessions w') /\
      parse_all (fun i => parse_far i seid (g_access (a_cfg (w_agent w'))) (g_core (a_cfg (w_agent w'))) true) uf = Some ups /\
      In u ups /\ a_em u = true /\ a_id f = a_id u /\
      In f (view (s_fars s0)) /\ m = marker_of f /\ g_end_marker (a_cfg (w_agent w')) = true /\
      t_get [a_id f; a_fseid f] (t_far (a_tables (w_agent w'))) =
      Some [a_ttype f; far_action f; a_ttype f; a_tsrc f; a_tdst f; a_teid f; a_tport f].
Proof. exact markers_to_installed_tunnel. Qed.
Print Assumptions C14_markers_to_installed_tunnel.

(* non-vacuity: setup, establishment (FAR 2 -> tunnel 100 -> 8, TEID 6), then the handover modification with Update
   FAR 2 (new tunnel 9 / TEID 7, flag set), an unknown FAR 99 and Update FAR 1 (no flag): all hypotheses hold, one
   marker is emitted, and it equals the farLookup entry of FAR 2 before the step *)
Example C14_history_nonvacuous :
  let burst := fun _ _ _ : N => 0 in
  let w0 := World (Agent (Cfg 100 200 true) None (Gen 0 []) 0 no_tables) [] in
  let pdr1 := PdrIE (IOk 1) (IOk 10) (IOk [PSrc (IOk 0); PFteid (IOk (false, 11, Some 100))]) true (IOk 1) true [1; 2] in
  let pdr2 := PdrIE (IOk 2) (IOk 10) (IOk [PSrc (IOk 1); PUeip (IOk (2, Some 50))]) false (IOk 2) true [1; 2] in
  let far1 := FarIE (IOk 1) (IOk 2) (IOk [FDst (IOk 1)]) IErr in
  let far2 := FarIE (IOk 2) (IOk 2) (IOk [FDst (IOk 0); FOhc (IOk (6, Some 8))]) IErr in
  let qer1 := QerIE (IOk 1) 9 0 0 1000 1000 0 0 in
  let qer2 := QerIE (IOk 2) 9 0 0 5000 5000 0 0 in
  let ufar2 := FarIE (IOk 2) (IOk 2) IErr (IOk [FDst (IOk 0); FOhc (IOk (7, Some 9)); FSm (IOk 2)]) in
  let ufar1 := FarIE (IOk 1) (IOk 2) IErr (IOk [FDst (IOk 1)]) in
  let ufar99 := FarIE (IOk 99) (IOk 2) IErr (IOk [FDst (IOk 1)]) in
  let es := [WMsg 0 true (MSetup (Some (IOk 7)) (Some (IOk 1))) [];
             WMsg 0 true (MEst (Some (IOk 7)) (Some (IOk (77, Some 3))) [pdr1; pdr2] [far1; far2] [qer1; qer2]) [5]] in
  exists w' w'' o,
    (forall x, In x (states burst w0 es) -> envelope burst x /\ alloc_backed x) /\
    guarded_hist burst w0 es = true /\ image_ok burst w0 /\ wrun burst w0 es = Done w' /\
    mod_ok burst w' 0 (MMod 5 None [] [] [] [] [ufar2; ufar99; ufar1] [] [] [] []) = true /\
    wstep burst w' (WMsg 0 true (MMod 5 None [] [] [] [] [ufar2; ufar99; ufar1] [] [] [] []) []) = Done (w'', o) /\
    o_markers o = [Marker 100 8 6] /\
    t_get [2; 5] (t_far (a_tables (w_agent w'))) = Some [1; 0; 1; 100; 8; 6; 2152] /\
    t_get [2; 5] (t_far (a_tables (w_agent w''))) = Some [1; 0; 1; 100; 9; 7; 2152].
Proof.
  intros burst w0 pdr1 pdr2 far1 far2 qer1 qer2 ufar2 ufar1 ufar99 es.
  eexists. eexists. eexists.
  split; [apply states_ok_b; vm_compute; reflexivity|]. split; [vm_compute; reflexivity|]. split; [apply image_empty|].
  split; [vm_compute; reflexivity|]. split; [vm_compute; reflexivity|]. split; [vm_compute; reflexivity|].
  split; [vm_compute; reflexivity|]. split; vm_compute; reflexivity.
Qed.

(* 5. both datapaths ("failed updates emit none", "after the new rule has been programmed").  Model/ModDp.v is the
      modification handler with the answer of SendMsgToUPF(Mod) as a parameter: with an accepting datapath it IS handle_mod
      (so 1-4 speak about it); when the datapath refuses the update (UP4: a P4Runtime Write failed) the request is answered
      with a rejection and no end marker is emitted; hence markers are emitted only after a successful update *)
Theorem C14_dp_handler_is_handle_mod : forall burst a c seid cpf cp cf cq up uf uq rp rf rq,
  handle_mod_dp burst true a c seid cpf cp cf cq up uf uq rp rf rq = handle_mod burst a c seid cpf cp cf cq up uf uq rp rf rq.
Proof. exact handle_mod_dp_ok. Qed.
Print Assumptions C14_dp_handler_is_handle_mod.
Theorem C14_failed_update_none : forall burst a c seid cpf cp cf cq up uf uq rp rf rq a' c' o,
  handle_mod_dp burst false a c seid cpf cp cf cq up uf uq rp rf rq = Done (a', c', o) ->
  o_markers o = [] /\ exists r, o_reply o = Some (RMod r CAUSE_REJ).
Proof. exact mod_dp_failed. Qed.
Print Assumptions C14_failed_update_none.
Theorem C14_markers_only_after_successful_update : forall burst dp_ok a c seid cpf cp cf cq up uf uq rp rf rq a' c' o,
  handle_mod_dp burst dp_ok a c seid cpf cp cf cq up uf uq rp rf rq = Done (a', c', o) -> o_markers o <> [] -> dp_ok = true.
Proof. exact mod_dp_markers_need_success. Qed.
Print Assumptions C14_markers_only_after_successful_update.

(* non-vacuity: the flagged update of C14_nonvacuous with a refusing datapath: rejected, no marker (the stored FAR is already the new one: the
   in-place effect of UpdateFAR) *)
Example C14_failed_update_nonvacuous :
  let a := Agent (Cfg 100 200 true) None (Gen 0 []) 1 no_tables in
  let s := Sess 5 77 (s_of []) (s_of [Far 2 5 0 false 2 1 100 9 4 2152]) (s_of []) in
  let upd := FarIE (IOk 2) (IOk 2) IErr (IOk [FDst (IOk 0); FOhc (IOk (6, Some 8)); FSm (IOk 2)]) in
  exists a' c' cmds, handle_mod_dp (fun _ _ _ => 0) false a (Conn 7 [] [s] 0) 5 None [] [] [] [] [upd] [] [] [] []
                = Done (a', c', Out (Some (RMod 77 CAUSE_REJ)) cmds [] false)
                /\ map (fun x => view (s_fars x)) (c_sessions c') = [[Far 2 5 0 true 2 1 100 8 6 2152]].
Proof. eexists; eexists; eexists; split; vm_compute; reflexivity. Qed.
