(* C14 - end markers go to the old tunnel, once.  Statements only. *)
From Coq Require Import NArith List Bool.
From UPF Require Import Model.IPPool Model.Fteid Model.PortRange Model.Agent Proofs.AgentProofs Model.ModDp Proofs.ModDpProofs.
Import ListNotations.
Open Scope N_scope.

(* the specification (Proofs/AgentProofs.v: spec_markers): walk the Update FAR IEs in order over the
   current FAR list; an update of a known id with the flag yields ONE marker carrying source, destination
   and TEID of the FAR as stored BEFORE that update; then the update is applied *)

(* 1. only Session Modification emits end markers: none for creations (establishment) or anything else *)
Theorem C14_only_modifications : forall burst a c connected m draws a' c' o,
  handle burst a c connected m draws = Done (a', c', o) ->
  (forall seid cpf cp cf cq up uf uq rp rf rq, m <> MMod seid cpf cp cf cq up uf uq rp rf rq) -> o_markers o = [].
Proof. exact other_messages_no_markers. Qed.
Print Assumptions C14_only_modifications.

(* 2. a modification emits nothing (rejected before the datapath was programmed, or no flagged update),
      or exactly spec_markers of its Update FAR IEs over the FAR list the session has at that point
      (stored FARs plus the FARs created earlier in the same message) - and only if end markers are enabled *)
Theorem C14_exact : forall burst a c seid cpf cp cf cq up uf uq rp rf rq a' c' o,
  handle_mod burst a c seid cpf cp cf cq up uf uq rp rf rq = Done (a', c', o) ->
  o_markers o = [] \/
  exists w w', mod_update_f uf seid (g_access (a_cfg a)) (g_core (a_cfg a)) w = (w', true) /\ w_marks w = [] /\
               (exists ups, parse_all (fun i => parse_far i seid (g_access (a_cfg a)) (g_core (a_cfg a)) true) uf = Some ups /\
                            o_markers o = if g_end_marker (a_cfg a) then spec_markers ups (view (w_f w)) else []).
Proof. exact mod_markers. Qed.
Print Assumptions C14_exact.

(* 3. consequences of the specification: updates without the flag emit none; updates of unknown FAR ids
      (failed updates) emit none; never more than one marker per flagged update *)
Theorem C14_unflagged_none : forall ups cur, (forall f, In f ups -> a_em f = false) -> spec_markers ups cur = [].
Proof. exact spec_markers_unflagged. Qed.
Print Assumptions C14_unflagged_none.
Theorem C14_unknown_none : forall ups cur,
  (forall f, In f ups -> find_idx (fun x => a_id x =? a_id f) cur = None) -> spec_markers ups cur = [].
Proof. exact spec_markers_unknown. Qed.
Print Assumptions C14_unknown_none.
Theorem C14_at_most_one_per_flagged_update : forall ups cur, (length (spec_markers ups cur) <= length (filter a_em ups))%nat.
Proof. exact spec_markers_length. Qed.
Print Assumptions C14_at_most_one_per_flagged_update.

(* 4. old - not new - tunnel: one flagged update of a known FAR yields exactly the marker of the stored value *)
Theorem C14_old_tunnel : forall f old cur k, find_idx (fun x => a_id x =? a_id f) cur = Some k -> nth k cur far0 = old ->
  a_em f = true -> spec_markers [f] cur = [Marker (a_tsrc old) (a_tdst old) (a_teid old)].
Proof. intros f old cur k Hk Ho He. cbn [spec_markers]. rewrite Hk, Ho, He. reflexivity. Qed.
Print Assumptions C14_old_tunnel.

(* non-vacuity: a session whose FAR 2 points to tunnel (src 100, dst 9, TEID 4); the update moves it to
   (dst 8, TEID 6) with the flag: one marker, to the OLD tunnel; the stored FAR is the new one *)
Example C14_nonvacuous :
  let a := Agent (Cfg 100 200 true) None (Gen 0 []) 1 no_tables in
  let s := Sess 5 77 (s_of []) (s_of [Far 2 5 0 false 2 1 100 9 4 2152]) (s_of []) in
  let upd := FarIE (IOk 2) (IOk 2) IErr (IOk [FDst (IOk 0); FOhc (IOk (6, Some 8)); FSm (IOk 2)]) in
  exists a' c', handle (fun _ _ _ => 0) a (Conn 7 [] [s] 0) true (MMod 5 None [] [] [] [] [upd] [] [] [] []) []
                = Done (a', c', Out (Some (RMod 77 CAUSE_OK)) [Cmd MFar true [2; 5] [1; 0; 1; 100; 8; 6; 2152]] [Marker 100 9 4] false)
                /\ map (fun x => view (s_fars x)) (c_sessions c') = [[Far 2 5 0 true 2 1 100 8 6 2152]].
Proof. eexists; eexists; split; vm_compute; reflexivity. Qed.

(* 5. both datapaths ("failed updates emit none", "after the new rule has been programmed").  Model/ModDp.v is the
      modification handler with the answer of SendMsgToUPF(Mod) as a parameter: with an accepting datapath it IS handle_mod
      (so 1-4 speak about it); when the datapath refuses the update (UP4: a P4Runtime Write failed) the request is answered
      with a rejection and no end marker is emitted; hence markers are emitted only after a successful update *)
Theorem C14_dp_handler_is_handle_mod : forall burst a c seid cpf cp cf cq up uf uq rp rf rq,
  handle_mod_dp burst true a c seid cpf cp cf cq up uf uq rp rf rq = handle_mod burst a c seid cpf cp cf cq up uf uq rp rf rq.
Proof. exact handle_mod_dp_ok. Qed.
Print Assumptions C14_dp_handler_is_handle_mod.
Theorem C14_failed_update_none : forall burst a c seid cpf cp cf cq up uf uq rp rf rq a' c' o,
  handle_mod_dp burst false a c seid cpf cp cf cq up uf uq rp rf rq = Done (a', c', o) ->
  o_markers o = [] /\ exists r, o_reply o = Some (RMod r CAUSE_REJ).
Proof. exact mod_dp_failed. Qed.
Print Assumptions C14_failed_update_none.
Theorem C14_markers_only_after_successful_update : forall burst dp_ok a c seid cpf cp cf cq up uf uq rp rf rq a' c' o,
  handle_mod_dp burst dp_ok a c seid cpf cp cf cq up uf uq rp rf rq = Done (a', c', o) -> o_markers o <> [] -> dp_ok = true.
Proof. exact mod_dp_markers_need_success. Qed.
Print Assumptions C14_markers_only_after_successful_update.

(* non-vacuity: the flagged update of C14_nonvacuous with a refusing datapath: rejected, no marker (the stored FAR is already the new one: the
   in-place effect of UpdateFAR) *)
Example C14_failed_update_nonvacuous :
  let a := Agent (Cfg 100 200 true) None (Gen 0 []) 1 no_tables in
  let s := Sess 5 77 (s_of []) (s_of [Far 2 5 0 false 2 1 100 9 4 2152]) (s_of []) in
  let upd := FarIE (IOk 2) (IOk 2) IErr (IOk [FDst (IOk 0); FOhc (IOk (6, Some 8)); FSm (IOk 2)]) in
  exists a' c' cmds, handle_mod_dp (fun _ _ _ => 0) false a (Conn 7 [] [s] 0) 5 None [] [] [] [] [upd] [] [] [] []
                = Done (a', c', Out (Some (RMod 77 CAUSE_REJ)) cmds [] false)
                /\ map (fun x => view (s_fars x)) (c_sessions c') = [[Far 2 5 0 true 2 1 100 8 6 2152]].
Proof. eexists; eexists; eexists; split; vm_compute; reflexivity. Qed.
