(* List facts missing from the 8.16 standard library. *)
From Coq Require Import List.
Import ListNotations.

Lemma nodup_app {A} (l1 l2 : list A) :
  NoDup (l1 ++ l2) <-> NoDup l1 /\ NoDup l2 /\ (forall a, In a l1 -> ~ In a l2).
Proof.
  induction l1 as [|x l1 IH]; cbn.
  - split; [intros H; repeat split; [constructor|exact H|tauto]|tauto].
  - split.
    + intros H. inversion H as [|? ? Hn Hd]; subst. apply IH in Hd. destruct Hd as (H1 & H2 & H3).
      repeat split; [constructor; [|exact H1]|exact H2|].
      * intros Hin. apply Hn. apply in_or_app. now left.
      * intros a [<-|Ha] Hin; [apply Hn; apply in_or_app; now right | now apply (H3 a)].
    + intros (H1 & H2 & H3). inversion H1 as [|? ? Hn Hd]; subst. constructor.
      * intros Hin. apply in_app_or in Hin. destruct Hin as [Hin|Hin]; [tauto|]. apply (H3 x); auto.
      * apply IH. repeat split; auto.
Qed.
