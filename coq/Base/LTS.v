(* Labelled transition systems of threads: Go channels, sync.Once, schedules, and a reflective
   explorer with its soundness lemma.  Generic part; the agent's teardown system is Model/Teardown.v. *)
From Coq Require Import NArith String List Bool Arith FMapPositive.
Import ListNotations.

(* ------------------------------------------------------------------ outcome of one atomic step *)
Inductive res (A : Type) : Type :=
| Ok (a : A)
| Blocked                 (* the operation is disabled in this state *)
| Panic (site : string).  (* the Go runtime would panic here *)
Arguments Ok {A} a.
Arguments Blocked {A}.
Arguments Panic {A} site.

(* ------------------------------------------------------------------ Go channels *)
Record chan := Chan { ccap : nat; cbuf : list N; cclosed : bool }.

Definition mkchan (cap : nat) : chan := Chan cap [] false.

(* ch <- v : panic on a closed channel; disabled when the buffer is full.  A rendezvous on an
   unbuffered channel is not modelled (the anchored code only sends on buffered channels), so a send
   on a channel of capacity 0 is disabled. *)
Definition ch_send (c : chan) (v : N) : res chan :=
  if cclosed c then Panic "send on closed channel"
  else if length (cbuf c) <? ccap c then Ok (Chan (ccap c) (cbuf c ++ [v]) false)
  else Blocked.

(* v, ok := <-ch : buffered values first; a closed empty channel yields the zero value at once;
   an open empty channel disables the receive. *)
Definition ch_recv (c : chan) : res (chan * option N) :=
  match cbuf c with
  | v :: r => Ok (Chan (ccap c) r (cclosed c), Some v)
  | [] => if cclosed c then Ok (c, None) else Blocked
  end.

Definition ch_ready (c : chan) : bool :=
  match cbuf c with _ :: _ => true | [] => cclosed c end.

(* close(ch) : panic when already closed *)
Definition ch_close (c : chan) : res chan :=
  if cclosed c then Panic "close of closed channel" else Ok (Chan (ccap c) (cbuf c) true).

(* context cancel functions are idempotent *)
Definition ch_cancel (c : chan) : chan := Chan (ccap c) (cbuf c) true.

(* ------------------------------------------------------------------ schedules *)
Section Sys.
  Variables St Lbl : Type.
  Variable step : St -> Lbl -> option St.

  (* a schedule is a list of labels (thread ids); a label that is not enabled is skipped, so every
     list is a schedule and `run` is total *)
  Fixpoint run (s : St) (sch : list Lbl) : St :=
    match sch with
    | [] => s
    | l :: r => match step s l with Some s' => run s' r | None => run s r end
    end.

  (* strict variant: every label must be enabled *)
  Fixpoint run_strict (s : St) (sch : list Lbl) : option St :=
    match sch with
    | [] => Some s
    | l :: r => match step s l with Some s' => run_strict s' r | None => None end
    end.

  Inductive reach (s0 : St) : St -> Prop :=
  | reach_refl : reach s0 s0
  | reach_step s l s' : reach s0 s -> step s l = Some s' -> reach s0 s'.

  Lemma reach_run s0 sch : reach s0 (run s0 sch).
  Proof.
    assert (G : forall s, reach s0 s -> reach s0 (run s sch)).
    { induction sch as [|l r IH]; intros s H; cbn; [exact H|].
      destruct (step s l) eqn:E; [apply IH; eapply reach_step; eauto | apply IH; exact H]. }
    apply G. constructor.
  Qed.

  Lemma reach_is_run s0 s : reach s0 s -> exists sch, run s0 sch = s.
  Proof.
    induction 1 as [|s l s' _ [sch IH] Hs].
    - exists []. reflexivity.
    - exists (sch ++ [l]). subst s.
      assert (G : forall a x, run a (x ++ [l]) = match step (run a x) l with Some b => b | None => run a x end).
      { intros a x; revert a; induction x as [|y x IHx]; intros a; cbn.
        - destruct (step a l); reflexivity.
        - destruct (step a y); apply IHx. }
      rewrite G, Hs. reflexivity.
  Qed.

  (* an invariant of all steps holds after every schedule *)
  Lemma reach_inv (P : St -> Prop) s0 :
    P s0 -> (forall s l s', P s -> step s l = Some s' -> P s') -> forall s, reach s0 s -> P s.
  Proof. intros H0 Hs s H. induction H; eauto. Qed.

  Lemma run_inv (P : St -> Prop) :
    (forall s l s', P s -> step s l = Some s' -> P s') -> forall sch s, P s -> P (run s sch).
  Proof.
    intros Hs sch. induction sch as [|l r IH]; intros s H; cbn; [exact H|].
    destruct (step s l) eqn:E; [apply IH; eauto | apply IH; exact H].
  Qed.

  (* a measure that strictly decreases with every step bounds the length of every strict schedule *)
  Lemma measure_bounds (mu : St -> nat) :
    (forall s l s', step s l = Some s' -> mu s' < mu s) ->
    forall sch s s', run_strict s sch = Some s' -> length sch + mu s' <= mu s.
  Proof.
    intros Hd sch. induction sch as [|l r IH]; intros s s' H; cbn in *.
    - injection H as <-. apply le_n.
    - destruct (step s l) eqn:E; [|discriminate].
      apply Hd in E. apply IH in H.
      apply Nat.le_trans with (S (length r + mu s')); [apply le_n|].
      apply Nat.le_trans with (S (mu s0)); [apply le_n_S; exact H | exact E].
  Qed.

  (* ---------------------------------------------------------------- reflective explorer *)
  (* a boolean equality that is sound (true -> equal); completeness is not needed: a state that is
     not recognised is merely explored twice.  `key` is any hash: the visited set is a map from keys
     to buckets, correctness does not depend on the choice. *)
  Variable eqb : St -> St -> bool.
  Hypothesis eqb_sound : forall a b, eqb a b = true -> a = b.
  Variable key : St -> positive.
  Variable labels : St -> list Lbl.     (* the labels to try in a state; must cover the enabled ones *)
  Variable bad : St -> bool.

  Definition sset := PositiveMap.t (list St).
  Definition bucket (k : positive) (m : sset) : list St :=
    match PositiveMap.find k m with Some l => l | None => [] end.
  Definition smem (s : St) (m : sset) : bool := existsb (eqb s) (bucket (key s) m).
  Definition sadd (s : St) (m : sset) : sset := PositiveMap.add (key s) (s :: bucket (key s) m) m.
  Definition InS (s : St) (m : sset) : Prop := exists k, In s (bucket k m).
  Definition to_list (m : sset) : list St := flat_map snd (PositiveMap.elements m).

  Lemma smem_in s m : smem s m = true -> InS s m.
  Proof.
    unfold smem. intros H. apply existsb_exists in H. destruct H as (x & Hx & He).
    apply eqb_sound in He. subst x. exists (key s). exact Hx.
  Qed.
  Lemma sadd_same s m : InS s (sadd s m).
  Proof. exists (key s). unfold sadd, bucket at 1. rewrite PositiveMap.gss. left. reflexivity. Qed.
  Lemma sadd_other a s m : InS a m -> InS a (sadd s m).
  Proof.
    intros [k Hk]. exists k. unfold sadd, bucket at 1.
    destruct (Pos.eq_dec k (key s)) as [->|Hne].
    - rewrite PositiveMap.gss. right. exact Hk.
    - rewrite PositiveMap.gso by exact Hne. exact Hk.
  Qed.
  Lemma sadd_inv a s m : InS a (sadd s m) -> a = s \/ InS a m.
  Proof.
    intros [k Hk]. unfold sadd, bucket at 1 in Hk.
    destruct (Pos.eq_dec k (key s)) as [->|Hne].
    - rewrite PositiveMap.gss in Hk. destruct Hk as [<-|Hk]; [left; reflexivity|right; exists (key s); exact Hk].
    - rewrite PositiveMap.gso in Hk by exact Hne. right. exists k. exact Hk.
  Qed.
  Lemma empty_none a : ~ InS a (PositiveMap.empty _).
  Proof. intros [k Hk]. unfold bucket in Hk. rewrite PositiveMap.gempty in Hk. exact Hk. Qed.
  Lemma to_list_in a m : In a (to_list m) <-> InS a m.
  Proof.
    unfold to_list, InS, bucket. rewrite in_flat_map. split.
    - intros ([k l] & H1 & H2). apply PositiveMap.elements_complete in H1. exists k. rewrite H1. exact H2.
    - intros [k Hk]. destruct (PositiveMap.find k m) as [l|] eqn:E; [|destruct Hk].
      exists (k, l). split; [apply PositiveMap.elements_correct; exact E | exact Hk].
  Qed.

  Definition succs (s : St) : list St :=
    flat_map (fun l => match step s l with Some s' => [s'] | None => [] end) (labels s).

  Inductive verdict := Safe (seen : list St) | Unsafe (s : St) | OutOfFuel.

  Fixpoint explore_set (fuel : nat) (todo : list St) (seen : sset) : verdict :=
    match fuel with
    | O => OutOfFuel
    | S f =>
      match todo with
      | [] => Safe (to_list seen)
      | s :: rest =>
        if smem s seen then explore_set f rest seen
        else if bad s then Unsafe s
        else explore_set f (succs s ++ rest) (sadd s seen)
      end
    end.
  Definition explore (fuel : nat) (s0 : St) : verdict := explore_set fuel [s0] (PositiveMap.empty _).

  Definition closed_set (todo : list St) (seen : St -> Prop) : Prop :=
    (forall s, seen s -> bad s = false) /\
    (forall s s', seen s -> In s' (succs s) -> seen s' \/ In s' todo).

  Lemma explore_sound fuel : forall todo seen final,
    closed_set todo (fun s => InS s seen) -> explore_set fuel todo seen = Safe final ->
    closed_set [] (fun s => In s final) /\ (forall s, InS s seen \/ In s todo -> In s final).
  Proof.
    induction fuel as [|f IH]; intros todo seen final Hc H; cbn in H; [discriminate|].
    destruct todo as [|s rest].
    - injection H as <-. split.
      + destruct Hc as [H1 H2]. split.
        * intros a Ha. apply H1. apply to_list_in. exact Ha.
        * intros a b Ha Hb. apply to_list_in in Ha. destruct (H2 a b Ha Hb) as [Hs|[]].
          left. apply to_list_in. exact Hs.
      + intros a [Ha|[]]. apply to_list_in. exact Ha.
    - destruct (smem s seen) eqn:Hm.
      + pose proof (smem_in _ _ Hm) as Hin. apply IH in H.
        * destruct H as [H1 H2]. split; [exact H1|]. intros a [Ha|[<-|Ha]]; apply H2; auto.
        * destruct Hc as [H1 H2]. split; [exact H1|]. intros a b Ha Hb.
          destruct (H2 a b Ha Hb) as [|[<-|]]; auto.
      + destruct (bad s) eqn:Eb; [discriminate|].
        apply IH in H.
        * destruct H as [H1 H2]. split; [exact H1|].
          intros a [Ha|[<-|Ha]]; apply H2;
            [left; apply sadd_other; exact Ha | left; apply sadd_same | right; apply in_or_app; right; exact Ha].
        * destruct Hc as [H1 H2]. split.
          -- intros a Ha. apply sadd_inv in Ha. destruct Ha as [->|Ha]; [exact Eb | apply H1; exact Ha].
          -- intros a b Ha Hb. apply sadd_inv in Ha. destruct Ha as [->|Ha].
             ++ right. apply in_or_app. left. exact Hb.
             ++ destruct (H2 a b Ha Hb) as [Hs|[<-|Hs]];
                  [left; apply sadd_other; exact Hs | left; apply sadd_same | right; apply in_or_app; right; exact Hs].
  Qed.

  Hypothesis labels_cover : forall s l s', step s l = Some s' -> In l (labels s).

  Lemma succs_complete s l s' : step s l = Some s' -> In s' (succs s).
  Proof.
    intros H. unfold succs. apply in_flat_map. exists l. split; [eapply labels_cover; eauto|].
    rewrite H. left. reflexivity.
  Qed.

  (* the theorem used by the bounded statements: if the explorer answers Safe, every state reachable
     by ANY schedule is in the returned list and is not bad *)
  Theorem explore_safe fuel s0 final :
    explore fuel s0 = Safe final ->
    forall s, reach s0 s -> In s final /\ bad s = false.
  Proof.
    intros H. apply explore_sound in H.
    2:{ split; [intros ? Hs; destruct (empty_none _ Hs) | intros ? ? Hs; destruct (empty_none _ Hs)]. }
    destruct H as [[H1 H2] H3].
    assert (G : forall s, reach s0 s -> In s final).
    { induction 1 as [|s l s' _ IH Hs]; [apply H3; right; left; reflexivity|].
      destruct (H2 s s' IH (succs_complete _ _ _ Hs)) as [|[]]; assumption. }
    intros s Hr. split; [apply G; exact Hr | apply H1; apply G; exact Hr].
  Qed.

  (* ---------------------------------------------------------------- bounded termination by levels *)
  Definition dedup (l : list St) : list St :=
    to_list (fold_right (fun s m => if smem s m then m else sadd s m) (PositiveMap.empty _) l).
  Lemma dedup_in x l : In x (dedup l) <-> In x l.
  Proof.
    unfold dedup. rewrite to_list_in. induction l as [|y r IH]; cbn.
    - split; [intros H; destruct (empty_none _ H)|intros []].
    - set (m := fold_right _ _ r) in *. destruct (smem y m) eqn:Hm.
      + rewrite IH. split; [auto|]. intros [<-|H]; [|exact H]. apply IH. apply smem_in. exact Hm.
      + split.
        * intros H. apply sadd_inv in H. destruct H as [->|H]; [left; reflexivity|right; apply IH; exact H].
        * intros [<-|H]; [apply sadd_same | apply sadd_other; apply IH; exact H].
  Qed.

  Fixpoint level (k : nat) (s0 : St) : list St :=
    match k with
    | O => [s0]
    | S k' => dedup (flat_map succs (level k' s0))
    end.

  Lemma level_complete : forall sch s0 s, run_strict s0 sch = Some s -> In s (level (length sch) s0).
  Proof.
    intros sch. induction sch as [|l r IH] using rev_ind; intros s0 s H; cbn in *.
    - injection H as <-. left. reflexivity.
    - rewrite app_length, Nat.add_comm. cbn.
      assert (G : forall a, run_strict a (r ++ [l]) = match run_strict a r with Some b => step b l | None => None end).
      { clear. induction r as [|y x IHx]; intros a; cbn; [destruct (step a l); reflexivity|].
        destruct (step a y); [apply IHx|reflexivity]. }
      rewrite G in H. destruct (run_strict s0 r) as [b|] eqn:E; [|discriminate].
      apply dedup_in. apply in_flat_map. exists b. split; [apply IH; exact E|].
      eapply succs_complete; eauto.
  Qed.

  (* no state at level k: every schedule of enabled steps is shorter than k *)
  Theorem level_empty_bounds k s0 : level k s0 = [] ->
    forall sch s, run_strict s0 sch = Some s -> length sch < k.
  Proof.
    intros He sch s H.
    destruct (le_lt_dec k (length sch)) as [Hle|Hlt]; [exfalso|exact Hlt].
    assert (G : forall a x, run_strict a (firstn k x) <> None \/ run_strict a x = None).
    { clear. induction k as [|k IH]; intros a x; cbn; [left; discriminate|].
      destruct x as [|y x]; cbn; [left; discriminate|]. destruct (step a y); [apply IH|right; reflexivity]. }
    destruct (G s0 sch) as [Hn|Hn]; [|congruence].
    destruct (run_strict s0 (firstn k sch)) as [b|] eqn:E; [|congruence].
    apply level_complete in E. rewrite firstn_length_le in E by exact Hle. rewrite He in E. exact E.
  Qed.
End Sys.

Arguments Safe {St} seen.
Arguments Unsafe {St} s.
Arguments OutOfFuel {St}.
