(* Bit-level facts about N used by several models. *)
From Coq Require Import ZArith NArith Lia ZifyN ZifyNat ZifyBool Bool.
Ltac Zify.zify_post_hook ::= Z.div_mod_to_equations.
Open Scope N_scope.

(* high mask with k low zero bits, below 2^w *)
Definition himask (w k : N) : N := N.ldiff (N.ones w) (N.ones k).

Lemma land_himask (w k p : N) : p < 2 ^ w -> N.land p (himask w k) = N.shiftl (N.shiftr p k) k.
Proof.
  intros Hp. apply N.bits_inj. intros i. unfold himask.
  rewrite N.land_spec, N.ldiff_spec.
  destruct (N.ltb_spec i k) as [Hik|Hik].
  - rewrite N.shiftl_spec_low by assumption.
    rewrite (N.ones_spec_low k i) by assumption. cbn [negb]. now rewrite !andb_false_r.
  - rewrite N.shiftl_spec_high' by assumption. rewrite N.shiftr_spec'.
    replace (i - k + k) with i by lia.
    rewrite (N.ones_spec_high k i) by assumption. cbn [negb]. rewrite andb_true_r.
    destruct (N.ltb_spec i w) as [Hiw|Hiw].
    + rewrite N.ones_spec_low by assumption. now rewrite andb_true_r.
    + rewrite N.ones_spec_high by assumption. rewrite andb_false_r.
      symmetry. destruct (N.eq_dec p 0) as [->|Hnz]; [apply N.bits_0|].
      apply N.bits_above_log2. apply N.log2_lt_pow2; [lia|].
      eapply N.lt_le_trans; [exact Hp|]. apply N.pow_le_mono_r; lia.
Qed.

Lemma land_himask_arith (w k p : N) : p < 2 ^ w -> N.land p (himask w k) = (p / 2 ^ k) * 2 ^ k.
Proof. intros H. rewrite land_himask by assumption. now rewrite N.shiftl_mul_pow2, N.shiftr_div_pow2. Qed.
