(* Model of pfcpiface/fteid.go (FTEIDGenerator) and of the local-SEID choice in
   sessions.go NewPFCPSession.  No proofs here. *)
From Coq Require Import NArith List Bool.
Import ListNotations.
Open Scope N_scope.

Definition U32 : N := 4294967296.
Definition MAXV : N := 4294967295.      (* maxValue = math.MaxUint32 *)
Definition MINV : N := 1.               (* minValue *)

Record gen := Gen { offset : N; used : list N }.   (* usedMap: set of offsets *)

Definition mem (x : N) (l : list N) : bool := existsb (N.eqb x) l.
Fixpoint del (x : N) (l : list N) : list N :=
  match l with [] => [] | y :: r => if x =? y then del x r else y :: del x r end.

(* offset++ ; offset = offset % maxValue   (uint32) *)
Definition update_offset (o : N) : N := ((o + 1) mod U32) mod MAXV.

Inductive ares := AOk (id : N) (g : gen) | AErr (g : gen) | AFuel.

(* the for { } loop of Allocate; fuel bounds the iterations *)
Fixpoint find_free (fuel : nat) (begin off : N) (u : list N) : option (option N) :=
  match fuel with
  | O => None
  | S f =>
    if mem off u then
      let off' := update_offset off in
      if off' =? begin then Some None       (* full cycle: error, offset left at begin *)
      else find_free f begin off' u
    else Some (Some off)
  end.

Definition allocate (g : gen) : ares :=
  match find_free (S (length (used g))) (offset g) (offset g) (used g) with
  | None => AFuel
  | Some None => AErr (Gen (offset g) (used g))
  | Some (Some off) => AOk (off + MINV) (Gen (update_offset off) (off :: used g))
  end.

Definition free_id (id : N) (g : gen) : gen :=
  if id <? MINV then g else Gen (offset g) (del (id - MINV) (used g)).

Definition is_allocated (id : N) (g : gen) : bool :=
  if id <? MINV then false else mem (id - MINV) (used g).

Inductive op := OAlloc | OFree (id : N).
Inductive out := ROk (id : N) | RErr | RFuel | RNone.

Definition step (g : gen) (o : op) : gen * out :=
  match o with
  | OAlloc => match allocate g with
              | AOk id g' => (g', ROk id) | AErr g' => (g', RErr) | AFuel => (g, RFuel) end
  | OFree id => (free_id id g, RNone)
  end.

Fixpoint run (g : gen) (ops : list op) : gen * list out :=
  match ops with
  | [] => (g, [])
  | o :: r => let '(g', x) := step g o in let '(g'', xs) := run g' r in (g'', x :: xs)
  end.

(* ---- NewPFCPSession: first of at most [retries] draws that is not a stored local SEID ---- *)
Fixpoint new_seid (retries : nat) (draws : list N) (store : list N) : option N * list N :=
  match retries with
  | O => (None, draws)
  | S r =>
    match draws with
    | [] => (None, [])                      (* stream exhausted: not reachable with an infinite source *)
    | d :: ds => if mem d store then new_seid r ds store else (Some d, ds)
    end
  end.
Definition MAX_RETRIES : nat := 100.
