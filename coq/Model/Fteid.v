(* Model of pfcpiface/fteid.go (FTEIDGenerator), of the local-SEID choice in sessions.go
   NewPFCPSession, and of the part of messages_session.go handleSessionEstablishmentRequest that
   carries the chosen identifiers into the PDRs, the datapath call and the response.
   No proofs here. *)
From Coq Require Import NArith List Bool.
Import ListNotations.
Open Scope N_scope.

Definition U32 : N := 4294967296.
Definition MAXV : N := 4294967295.      (* maxValue = math.MaxUint32 *)
Definition MINV : N := 1.               (* minValue *)

(* offset: uint32 cursor; usedMap: the set of offsets marked used (a Go map: keys are unique) *)
Record gen := Gen { offset : N; used : list N }.

Definition new_gen : gen := Gen 0 [].   (* NewFTEIDGenerator *)

Definition mem (x : N) (l : list N) : bool := existsb (N.eqb x) l.
Fixpoint del (x : N) (l : list N) : list N :=
  match l with [] => [] | y :: r => if x =? y then del x r else y :: del x r end.

(* updateOffset:  offset++ (uint32, wraps at 2^32) ; offset = offset % maxValue *)
Definition update_offset (o : N) : N := ((o + 1) mod U32) mod MAXV.

Inductive ares := AOk (id : N) (g : gen) | AErr (g : gen) | AFuel.

(* the for { } loop of Allocate; [fuel] bounds the iterations (sufficiency is proved in
   Proofs/FteidProofs.v: AFuel is never returned).
   result: None = out of fuel, Some None = full cycle (error), Some (Some off) = free offset *)
Fixpoint find_free (fuel : nat) (begin off : N) (u : list N) : option (option N) :=
  match fuel with
  | O => None
  | S f =>
    if mem off u then
      let off' := update_offset off in
      if off' =? begin then Some None       (* back at offsetBegin: error, offset == offsetBegin *)
      else find_free f begin off' u
    else Some (Some off)
  end.

(* Allocate: usedMap[offset] = true; id := offset + minValue (uint32); updateOffset() *)
Definition allocate (g : gen) : ares :=
  match find_free (S (length (used g))) (offset g) (offset g) (used g) with
  | None => AFuel
  | Some None => AErr (Gen (offset g) (used g))
  | Some (Some off) => AOk ((off + MINV) mod U32) (Gen (update_offset off) (off :: used g))
  end.

Definition free_id (id : N) (g : gen) : gen :=
  if id <? MINV then g else Gen (offset g) (del (id - MINV) (used g)).

Definition is_allocated (id : N) (g : gen) : bool :=
  if id <? MINV then false else mem (id - MINV) (used g).

Inductive op := OAlloc | OFree (id : N) | OIsAlloc (id : N).
Inductive out := ROk (id : N) | RErr | RFuel | RNone | RBool (b : bool).

Definition step (g : gen) (o : op) : gen * out :=
  match o with
  | OAlloc => match allocate g with
              | AOk id g' => (g', ROk id) | AErr g' => (g', RErr) | AFuel => (g, RFuel) end
  | OFree id => (free_id id g, RNone)
  | OIsAlloc id => (g, RBool (is_allocated id g))
  end.

Fixpoint run (g : gen) (ops : list op) : gen * list out :=
  match ops with
  | [] => (g, [])
  | o :: r => let '(g', x) := step g o in let '(g'', xs) := run g' r in (g'', x :: xs)
  end.

(* the TEIDs currently handed out *)
Definition live_ids (g : gen) : list N := map (fun o => o + MINV) (used g).

(* The TEID sentence of the property as a boolean monitor over one observed history:
   [held] = ids handed out and not yet released.  Every id returned is in [1, 2^32-1] and not
   currently held; a refusal is justified only when all 2^32-1 ids are held; IsAllocated tells
   the truth.  Evaluated on the model (theorem C07_teid_history) and on the implementation. *)
Fixpoint hist_ok (held : list N) (ops : list op) (outs : list out) : bool :=
  match ops, outs with
  | [], [] => true
  | OAlloc :: r, ROk id :: s =>
      (MINV <=? id) && (id <=? MAXV) && negb (mem id held) && hist_ok (id :: held) r s
  | OAlloc :: r, RErr :: s => (N.of_nat (length held) =? MAXV) && hist_ok held r s
  | OFree id :: r, RNone :: s => hist_ok (del id held) r s
  | OIsAlloc id :: r, RBool b :: s => Bool.eqb b (mem id held) && hist_ok held r s
  | _, _ => false
  end.

(* ---- NewPFCPSession: the first of at most [retries] draws that is neither 0 nor a stored local
   SEID.  The random source is an arbitrary stream of draws (nat -> N); [i] is the index of the
   next draw; the result carries the index after the last draw consumed. ---- *)
Definition stream := nat -> N.

Fixpoint new_seid (retries : nat) (draws : stream) (i : nat) (store : list N) : option N * nat :=
  match retries with
  | O => (None, i)
  | S r =>
    let d := draws i in
    if (d =? 0) || mem d store then new_seid r draws (S i) store else (Some d, S i)
  end.
Definition MAX_RETRIES : nat := 100.      (* maxRetries in NewPFCPConn *)

(* a draw that NewPFCPSession skips *)
Definition bad_draw (store : list N) (d : N) : bool := (d =? 0) || mem d store.

(* ---- Session establishment, reduced to what concerns the UP-chosen identifiers ---- *)
Definition CAUSE_ACCEPTED : N := 1.
Definition CAUSE_REJECTED : N := 64.
Definition CAUSE_NO_ASSOC : N := 72.
Definition CAUSE_NO_RESOURCES : N := 75.

(* a Create PDR as far as the F-TEID is concerned: parse outcome, CHOOSE flag, and the TEID / IPv4
   address of a CP-provided F-TEID *)
Record cpdr := CPdr { cp_id : N; cp_parse_ok : bool; cp_choose : bool; cp_teid : N; cp_ip : N }.
(* the pdr handed to the datapath: fseID, pdrID, tunnelTEID, tunnelIP4Dst, UPAllocateFteid *)
Record dpdr := DPdr { d_fseid : N; d_id : N; d_teid : N; d_ip : N; d_choose : bool }.

(* the Create PDR loop: parsePDR, then Allocate for CHOOSE PDRs, then session.CreatePDR.
   Result: generator, the PDRs added to the session so far, and the refusal cause if the loop
   stopped early *)
Fixpoint build_pdrs (lseid access : N) (g : gen) (ps : list cpdr) : gen * list dpdr * option N :=
  match ps with
  | [] => (g, [], None)
  | p :: r =>
    if negb (cp_parse_ok p) then (g, [], Some CAUSE_REJECTED)
    else if cp_choose p then
      match allocate g with
      | AOk id g' =>
        let '(g2, ds, c) := build_pdrs lseid access g' r in
        (g2, DPdr lseid (cp_id p) id access true :: ds, c)
      | AErr g' => (g', [], Some CAUSE_NO_RESOURCES)
      | AFuel => (g, [], Some 0)
      end
    else
      let d := if cp_teid p =? 0 then DPdr lseid (cp_id p) 0 0 false
               else DPdr lseid (cp_id p) (cp_teid p) (cp_ip p) false in
      let '(g2, ds, c) := build_pdrs lseid access g r in (g2, d :: ds, c)
  end.

(* the TEIDs the UPF chose for a list of PDRs *)
Definition chosen (ds : list dpdr) : list N := map d_teid (filter d_choose ds).

(* releaseAllocatedFTEIDs: FreeID(tunnelTEID) for every pdr with UPAllocateFteid, in order *)
Definition release (ts : list N) (g : gen) : gen := fold_left (fun g t => free_id t g) ts g.

(* addPdrInfo: one Created PDR (pdr id, TEID, IPv4) per PDR with UPAllocateFteid *)
Definition created_of (ds : list dpdr) : list (N * N * N) :=
  map (fun d => (d_id d, d_teid d, d_ip d)) (filter d_choose ds).

Inductive eres :=
| EAccepted (lseid : N) (created : list (N * N * N)) (batch : list dpdr)
| ERefused (cause : N) (batch : option (list dpdr)).   (* batch = what reached the datapath, if anything *)

(* [st] = local SEIDs stored on the association, [i] = position in its draw stream.
   Every rejection after NewPFCPSession rolls back: the TEIDs chosen so far are released. *)
Definition establish (retries : nat) (access : N) (draws : stream) (assoc_ok dp_ok : bool)
           (ps : list cpdr) (st : list N) (i : nat) (g : gen) : eres * nat * gen :=
  if negb assoc_ok then (ERefused CAUSE_NO_ASSOC None, i, g)
  else
    match new_seid retries draws i st with
    | (None, j) => (ERefused CAUSE_NO_RESOURCES None, j, g)
    | (Some l, j) =>
      match build_pdrs l access g ps with
      | (g', ds, Some cause) => (ERefused cause None, j, release (chosen ds) g')
      | (g', ds, None) =>
        if dp_ok then (EAccepted l (created_of ds) ds, j, g')
        else (ERefused CAUSE_REJECTED (Some ds), j, release (chosen ds) g')
      end
    end.

(* histories over several associations sharing one generator *)
Inductive ev :=
| EvEst (k : nat) (assoc_ok dp_ok : bool) (ps : list cpdr)
| EvDel (k : nat) (seid : N)           (* Session Deletion Request for local SEID [seid] *)
| EvMod (k : nat) (seid : N) (ch : bool) (teid : N).
  (* Session Modification Request that leaves on session [seid] a new PDR with UPAllocateFteid = ch
     and tunnelTEID = teid.  parseFTEID sets the flag for a CHOOSE F-TEID and the TEID for any other
     F-TEID of the PDI; the modification handler allocates nothing, so the generator is untouched,
     but the session will release [teid] when it ends (FreeID(0) is a no-op: a zero TEID is not
     recorded). *)

(* a live session: association, local SEID, the TEIDs chosen for it *)
Record sess := Sess { s_conn : nat; s_seid : N; s_teids : list N }.

Record world := World { w_sess : list sess; w_drawn : nat -> nat; w_gen : gen }.

Definition store_of (k : nat) (ss : list sess) : list N :=
  map s_seid (filter (fun s => Nat.eqb (s_conn s) k) ss).
Definition is_sess (k : nat) (seid : N) (s : sess) : bool := Nat.eqb (s_conn s) k && (s_seid s =? seid).
Definition all_teids (ss : list sess) : list N := concat (map s_teids ss).

Definition ev_step (retries : nat) (access : N) (draws : nat -> stream) (w : world) (e : ev)
  : world * option eres :=
  match e with
  | EvEst k assoc_ok dp_ok ps =>
    let '(r, j, g') := establish retries access (draws k) assoc_ok dp_ok ps
                                 (store_of k (w_sess w)) (w_drawn w k) (w_gen w) in
    let dr := fun k' => if Nat.eqb k' k then j else w_drawn w k' in
    (World (match r with
            | EAccepted l _ batch => Sess k l (chosen batch) :: w_sess w
            | ERefused _ _ => w_sess w
            end) dr g', Some r)
  | EvDel k seid =>
    (* handleSessionDeletionRequest: unknown SEID -> rejected, nothing changes; otherwise the
       TEIDs of the session are released and the session is removed *)
    (World (filter (fun s => negb (is_sess k seid s)) (w_sess w)) (w_drawn w)
           (release (all_teids (filter (is_sess k seid) (w_sess w))) (w_gen w)), None)
  | EvMod k seid ch teid =>
    (World (map (fun s => if is_sess k seid s && ch && negb (teid =? 0)
                          then Sess (s_conn s) (s_seid s) (s_teids s ++ [teid]) else s) (w_sess w))
           (w_drawn w) (w_gen w), None)
  end.

(* the shape of modification that makes a session claim a TEID it was never given *)
Definition ev_claims (e : ev) : bool :=
  match e with EvMod _ _ ch teid => ch && negb (teid =? 0) | _ => false end.

Fixpoint ev_run (retries : nat) (access : N) (draws : nat -> stream) (w : world) (es : list ev)
  : world * list (option eres) :=
  match es with
  | [] => (w, [])
  | e :: r =>
    let '(w1, x) := ev_step retries access draws w e in
    let '(w2, xs) := ev_run retries access draws w1 r in (w2, x :: xs)
  end.
