(* Model of pfcpiface/fteid.go (FTEIDGenerator), of the local-SEID choice in sessions.go
   NewPFCPSession, and of the part of messages_session.go handleSessionEstablishmentRequest that
   carries the chosen identifiers into the PDRs, the datapath call and the response.
   No proofs here. *)
From Coq Require Import NArith List Bool.
Import ListNotations.
Open Scope N_scope.

Definition U32 : N := 4294967296.
Definition MAXV : N := 4294967295.      (* maxValue = math.MaxUint32 *)
Definition MINV : N := 1.               (* minValue *)

(* offset: uint32 cursor; usedMap: the set of offsets marked used (a Go map: keys are unique) *)
Record gen := Gen { offset : N; used : list N }.

Definition new_gen : gen := Gen 0 [].   (* NewFTEIDGenerator *)

Definition mem (x : N) (l : list N) : bool := existsb (N.eqb x) l.
Fixpoint del (x : N) (l : list N) : list N :=
  match l with [] => [] | y :: r => if x =? y then del x r else y :: del x r end.

(* updateOffset:  offset++ (uint32, wraps at 2^32) ; offset = offset % maxValue *)
Definition update_offset (o : N) : N := ((o + 1) mod U32) mod MAXV.

Inductive ares := AOk (id : N) (g : gen) | AErr (g : gen) | AFuel.

(* the for { } loop of Allocate; [fuel] bounds the iterations (sufficiency is proved in
   Proofs/FteidProofs.v: AFuel is never returned).
   result: None = out of fuel, Some None = full cycle (error), Some (Some off) = free offset *)
Fixpoint find_free (fuel : nat) (begin off : N) (u : list N) : option (option N) :=
  match fuel with
  | O => None
  | S f =>
    if mem off u then
      let off' := update_offset off in
      if off' =? begin then Some None       (* back at offsetBegin: error, offset == offsetBegin *)
      else find_free f begin off' u
    else Some (Some off)
  end.

(* Allocate: usedMap[offset] = true; id := offset + minValue (uint32); updateOffset() *)
Definition allocate (g : gen) : ares :=
  match find_free (S (length (used g))) (offset g) (offset g) (used g) with
  | None => AFuel
  | Some None => AErr (Gen (offset g) (used g))
  | Some (Some off) => AOk ((off + MINV) mod U32) (Gen (update_offset off) (off :: used g))
  end.

Definition free_id (id : N) (g : gen) : gen :=
  if id <? MINV then g else Gen (offset g) (del (id - MINV) (used g)).

Definition is_allocated (id : N) (g : gen) : bool :=
  if id <? MINV then false else mem (id - MINV) (used g).

Inductive op := OAlloc | OFree (id : N) | OIsAlloc (id : N).
Inductive out := ROk (id : N) | RErr | RFuel | RNone | RBool (b : bool).

Definition step (g : gen) (o : op) : gen * out :=
  match o with
  | OAlloc => match allocate g with
              | AOk id g' => (g', ROk id) | AErr g' => (g', RErr) | AFuel => (g, RFuel) end
  | OFree id => (free_id id g, RNone)
  | OIsAlloc id => (g, RBool (is_allocated id g))
  end.

Fixpoint run (g : gen) (ops : list op) : gen * list out :=
  match ops with
  | [] => (g, [])
  | o :: r => let '(g', x) := step g o in let '(g'', xs) := run g' r in (g'', x :: xs)
  end.

(* the TEIDs currently handed out *)
Definition live_ids (g : gen) : list N := map (fun o => o + MINV) (used g).

(* The TEID sentence of the property as a boolean monitor over one observed history:
   [held] = ids handed out and not yet released.  Every id returned is in [1, 2^32-1] and not
   currently held; a refusal is justified only when all 2^32-1 ids are held; IsAllocated tells
   the truth.  Evaluated on the model (theorem C07_teid_history) and on the implementation. *)
Fixpoint hist_ok (held : list N) (ops : list op) (outs : list out) : bool :=
  match ops, outs with
  | [], [] => true
  | OAlloc :: r, ROk id :: s =>
      (MINV <=? id) && (id <=? MAXV) && negb (mem id held) && hist_ok (id :: held) r s
  | OAlloc :: r, RErr :: s => (N.of_nat (length held) =? MAXV) && hist_ok held r s
  | OFree id :: r, RNone :: s => hist_ok (del id held) r s
  | OIsAlloc id :: r, RBool b :: s => Bool.eqb b (mem id held) && hist_ok held r s
  | _, _ => false
  end.

(* ---- NewPFCPSession: the first of at most [retries] draws that is neither 0 nor a stored local
   SEID.  The random source is an arbitrary stream of draws (nat -> N); [i] is the index of the
   next draw; the result carries the index after the last draw consumed. ---- *)
Definition stream := nat -> N.

Fixpoint new_seid (retries : nat) (draws : stream) (i : nat) (store : list N) : option N * nat :=
  match retries with
  | O => (None, i)
  | S r =>
    let d := draws i in
    if (d =? 0) || mem d store then new_seid r draws (S i) store else (Some d, S i)
  end.
Definition MAX_RETRIES : nat := 100.      (* maxRetries in NewPFCPConn *)

(* a draw that NewPFCPSession skips *)
Definition bad_draw (store : list N) (d : N) : bool := (d =? 0) || mem d store.

(* ---- Session establishment, reduced to what concerns the UP-chosen identifiers ---- *)
Definition CAUSE_ACCEPTED : N := 1.
Definition CAUSE_REJECTED : N := 64.
Definition CAUSE_NO_ASSOC : N := 72.
Definition CAUSE_NO_RESOURCES : N := 73.

(* a Create PDR as far as the F-TEID is concerned: parse outcome, CHOOSE flag, and the TEID / IPv4
   address of a CP-provided F-TEID *)
Record cpdr := CPdr { cp_id : N; cp_parse_ok : bool; cp_choose : bool; cp_teid : N; cp_ip : N }.
(* the pdr handed to the datapath: fseID, pdrID, tunnelTEID, tunnelIP4Dst, UPAllocateFteid *)
Record dpdr := DPdr { d_fseid : N; d_id : N; d_teid : N; d_ip : N; d_choose : bool }.

(* the Create PDR loop: parsePDR, then Allocate for CHOOSE PDRs.  Left = refusal cause *)
Fixpoint build_pdrs (lseid access : N) (g : gen) (ps : list cpdr) : gen * (N + list dpdr) :=
  match ps with
  | [] => (g, inr [])
  | p :: r =>
    if negb (cp_parse_ok p) then (g, inl CAUSE_REJECTED)
    else
      let '(g1, x) :=
        if cp_choose p then
          match allocate g with
          | AOk id g' => (g', inr (DPdr lseid (cp_id p) id access true))
          | AErr g' => (g', inl CAUSE_NO_RESOURCES)
          | AFuel => (g, inl 0)
          end
        else if cp_teid p =? 0 then (g, inr (DPdr lseid (cp_id p) 0 0 false))
        else (g, inr (DPdr lseid (cp_id p) (cp_teid p) (cp_ip p) false)) in
      match x with
      | inl c => (g1, inl c)
      | inr d =>
        let '(g2, y) := build_pdrs lseid access g1 r in
        (g2, match y with inl c => inl c | inr ds => inr (d :: ds) end)
      end
  end.

(* addPdrInfo: one Created PDR (pdr id, TEID, IPv4) per PDR with UPAllocateFteid *)
Definition created_of (ds : list dpdr) : list (N * N * N) :=
  map (fun d => (d_id d, d_teid d, d_ip d)) (filter d_choose ds).

Inductive eres :=
| EAccepted (lseid : N) (created : list (N * N * N)) (batch : list dpdr)
| ERefused (cause : N) (batch : option (list dpdr)).   (* batch = what reached the datapath, if anything *)

(* one association's view: its session store (local SEIDs) and the position in its draw stream *)
Record conn := Conn { store : list N; drawn : nat }.

Definition establish (retries : nat) (access : N) (draws : stream) (assoc_ok dp_ok : bool)
           (ps : list cpdr) (c : conn) (g : gen) : eres * conn * gen :=
  if negb assoc_ok then (ERefused CAUSE_NO_ASSOC None, c, g)
  else
    match new_seid retries draws (drawn c) (store c) with
    | (None, i) => (ERefused CAUSE_NO_RESOURCES None, Conn (store c) i, g)
    | (Some l, i) =>
      match build_pdrs l access g ps with
      | (g', inl cause) => (ERefused cause None, Conn (store c) i, g')
      | (g', inr ds) =>
        if dp_ok then (EAccepted l (created_of ds) ds, Conn (l :: store c) i, g')
        else (ERefused CAUSE_REJECTED (Some ds), Conn (store c) i, g')
      end
    end.

(* histories over several associations sharing one generator *)
Inductive ev :=
| EvEst (k : nat) (assoc_ok dp_ok : bool) (ps : list cpdr)
| EvDel (k : nat) (seid : N) (freed : list N).   (* session deletion; [freed] = TEIDs the
     implementation released (oracle input: none today, FreeID has no caller) *)

Fixpoint set_nth {A} (n : nat) (x : A) (l : list A) : list A :=
  match l, n with
  | [], _ => []
  | _ :: r, O => x :: r
  | y :: r, S m => y :: set_nth m x r
  end.

Record world := World { w_conns : list conn; w_gen : gen }.

Definition ev_step (retries : nat) (access : N) (draws : nat -> stream) (w : world) (e : ev)
  : world * option eres :=
  match e with
  | EvEst k assoc_ok dp_ok ps =>
    match nth_error (w_conns w) k with
    | None => (w, None)
    | Some c =>
      let '(r, c', g') := establish retries access (draws k) assoc_ok dp_ok ps c (w_gen w) in
      (World (set_nth k c' (w_conns w)) g', Some r)
    end
  | EvDel k seid freed =>
    match nth_error (w_conns w) k with
    | None => (w, None)
    | Some c =>
      (World (set_nth k (Conn (del seid (store c)) (drawn c)) (w_conns w))
             (fold_left (fun g id => free_id id g) freed (w_gen w)), None)
    end
  end.

Fixpoint ev_run (retries : nat) (access : N) (draws : nat -> stream) (w : world) (es : list ev)
  : world * list (option eres) :=
  match es with
  | [] => (w, [])
  | e :: r =>
    let '(w1, x) := ev_step retries access draws w e in
    let '(w2, xs) := ev_run retries access draws w1 r in (w2, x :: xs)
  end.
