(* Model of the slice-configuration REST endpoint (property C19).

   Go code modelled (pfcpiface/):
     web_service.go  ConfigHandler.ServeHTTP, sendHTTPResp (status writes only), calculateBitRates,
                     handleSliceConfig
     upf.go          upf.addSliceInfo (stores the SliceInfo, then calls the datapath)
     bess.go         bess.AddSliceInfo, addSliceMeter, processSliceMeter  (two "sliceMeter"/"add" commands)
     up4.go          UP4.AddSliceInfo (connected plug-in), p4rt_translator.go BuildMeterEntry,
                     p4rtc.go ApplyMeterEntries (one MODIFY of one meter cell)
     utils.go        GetSliceTCMeterIndex

   Outside the model, entering as inputs: reading the body (io.ReadAll: fails or not) and
   encoding/json (json.Unmarshal into NetworkSlice: error, or the decoded field values).
   No proofs in this file. *)
From Coq Require Import ZArith NArith List Bool String.
Import ListNotations.
Open Scope N_scope.

(* ---------------------------------------------------------------- constants (bess.go, p4constants) *)
Definition KB : Z := 1000.
Definition MB : Z := 1000000.
Definition GB : Z := 1000000000.
Definition DefaultBurstSize : N := 32 * 1514.
Definition sliceMeterGateMeter : N := 0.
Definition sliceMeterGateUnmeter : N := 6.
Definition farForwardD : N := 0.
Definition farForwardU : N := 1.
Definition MeterPreQosPipeSliceTcMeter : N := 336833095.
Definition BitwidthMfSliceId : N := 4.
Definition BitwidthApTc : N := 2.
Definition Update_MODIFY : N := 2.

Definition StatusCreated : N := 201.
Definition StatusBadRequest : N := 400.
Definition StatusMethodNotAllowed : N := 405.

(* ---------------------------------------------------------------- 64-bit integers *)
(* int64 values are Z in [-2^63, 2^63); uint64 values are N below 2^64 *)
Definition int64_wrap (z : Z) : Z := ((z + 2 ^ 63) mod 2 ^ 64 - 2 ^ 63)%Z.   (* two's complement truncation *)
Definition int64_of_uint64 (n : N) : Z := int64_wrap (Z.of_N n).              (* Go: int64(u) *)
Definition uint64_of_int64 (z : Z) : N := Z.to_N (z mod 2 ^ 64).               (* Go: uint64(i) *)
Definition max_int64 : N := 2 ^ 63 - 1.                                       (* uint64(math.MaxInt64) *)
Definition wrap8 (n : N) : N := n mod 256.

(* ---------------------------------------------------------------- calculateBitRates *)
(* None: "bps", the value is returned unchanged, without any multiplication or test *)
Definition unit_factor (u : string) : option Z :=
  if (u =? "bps")%string then None
  else if (u =? "Kbps")%string then Some KB
  else if (u =? "Gbps")%string then Some GB
  else Some MB.                                   (* "Mbps", and every other string incl. "" (absent) *)

Definition calculate_bit_rates (mbr : N) (u : string) : N :=
  match unit_factor u with
  | None => mbr
  | Some k =>
      let val := int64_wrap (int64_of_uint64 mbr * k) in      (* val = int64(mbr) * KB|MB|GB, wraps *)
      if (0 <? val)%Z then uint64_of_int64 val else max_int64
  end.

(* ---------------------------------------------------------------- documents and SliceInfo *)
(* the NetworkSlice value json.Unmarshal produced; absent members have Go's zero value (0, "") *)
Record doc := Doc {
  d_name : string;                 (* sliceName *)
  d_ul : N; d_dl : N;              (* sliceQos.uplinkMbr / downlinkMbr        (uint64) *)
  d_unit : string;                 (* sliceQos.bitrateUnit *)
  d_ulb : N; d_dlb : N;            (* sliceQos.uplinkBurstSize / downlinkBurstSize (uint64) *)
  d_ue : list (string * string)    (* ueResourceInfo: (dnn, uePoolId) *)
}.

Record slice_info := SliceInfo {
  s_name : string; s_ul : N; s_dl : N; s_ulb : N; s_dlb : N;
  s_ue : list (string * string)    (* ueResList: (name, dnn) *)
}.

Definition slice_info_of (d : doc) : slice_info :=
  SliceInfo (d_name d)
            (calculate_bit_rates (d_ul d) (d_unit d))
            (calculate_bit_rates (d_dl d) (d_unit d))
            (d_ulb d) (d_dlb d)
            (map (fun r => (snd r, fst r)) (d_ue d)).

(* ---------------------------------------------------------------- BESS: addSliceMeter *)
Record qos_add := QosAdd {
  q_gate : N; q_cir : N; q_pir : N; q_cbs : N; q_pbs : N; q_ebs : N;
  q_deduct : N;                    (* OptionalDeductLen *)
  q_fields : list N                (* Fields: action, tunnel_out_type *)
}.
Record bess_cmd := BessCmd { b_module : string; b_cmd : string; b_arg : qos_add }.

(* gate, cir and pir are declared once for both halves of addSliceMeter: a zero N3 rate leaves
   the cir / pir computed for N6 in place (only the gate changes) *)
Definition add_slice_meter (n6rate n3rate n6burst n3burst : N) : list bess_cmd :=
  let '(gate1, cir1, pir1) :=
    if n6rate =? 0 then (sliceMeterGateUnmeter, 0, 0) else (sliceMeterGateMeter, 1, n6rate / 8) in
  let pbs1 := if n6burst =? 0 then DefaultBurstSize else n6burst in
  let '(gate2, cir2, pir2) :=
    if n3rate =? 0 then (sliceMeterGateUnmeter, cir1, pir1) else (sliceMeterGateMeter, 1, n3rate / 8) in
  let pbs2 := if n3burst =? 0 then DefaultBurstSize else n3burst in
  [ BessCmd "sliceMeter" "add" (QosAdd gate1 cir1 pir1 1 pbs1 0 0 [farForwardU; 0]);
    BessCmd "sliceMeter" "add" (QosAdd gate2 cir2 pir2 1 pbs2 0 50 [farForwardD; 1]) ].

Definition bess_add_slice_info (s : slice_info) : list bess_cmd :=
  add_slice_meter (s_ul s) (s_dl s) (s_ulb s) (s_dlb s).

(* ---------------------------------------------------------------- UP4: AddSliceInfo *)
(* sliceID and TC are uint8; every operation wraps at 2^8 *)
Definition get_slice_tc_meter_index (slice_id tc : N) : option Z :=
  if 2 ^ BitwidthMfSliceId <=? slice_id then None
  else if 2 ^ BitwidthApTc <=? tc then None
  else Some (Z.of_N (wrap8 (wrap8 (N.shiftl slice_id 2) + N.land tc 3))).

Record meter_write := MeterWrite {
  m_update : N;                    (* p4.Update_Type *)
  m_meter : N;                     (* MeterEntry.meter_id *)
  m_index : Z;                     (* MeterEntry.index.index (int64) *)
  m_cir : Z; m_cburst : Z; m_pir : Z; m_pburst : Z    (* MeterConfig, all int64 *)
}.

Definition up4_add_slice_info (slice_id tc : N) (s : slice_info) : list meter_write :=
  let '(mbr, burst) := if s_dl s <? s_ul s then (s_ul s, s_ulb s) else (s_dl s, s_dlb s) in
  (* P4Runtime carries the burst as int64: clamped to math.MaxInt64 *)
  let burst := if max_int64 <? burst then max_int64 else burst in
  match get_slice_tc_meter_index slice_id tc with
  | None => []                                                  (* error returned, logged by the handler *)
  | Some cell =>
      (* uint32(meterCellId) and back to int64: identity on 0..63 *)
      [ MeterWrite Update_MODIFY MeterPreQosPipeSliceTcMeter (cell mod 2 ^ 32)%Z
                   0 0 (int64_of_uint64 mbr) (int64_of_uint64 burst) ]
  end.

(* ---------------------------------------------------------------- the handler *)
Inductive body :=
| Unreadable               (* io.ReadAll returned an error *)
| Malformed                (* json.Unmarshal returned an error: not JSON, truncated, wrong shape *)
| Decoded (d : doc).

(* the connected datapath plug-in behind upf.datapath, with the configuration it reads *)
Inductive datapath := Bess | Up4 (slice_id tc : N).

Inductive write := WBess (c : bess_cmd) | WUp4 (m : meter_write).

Record result := Result {
  r_statuses : list N;             (* every WriteHeader call, in order *)
  r_writes : list write;           (* what reached the datapath, in order *)
  r_stored : option slice_info     (* Some: upf.sliceInfo was replaced by this value *)
}.

Definition add_slice_info (dp : datapath) (s : slice_info) : list write :=
  match dp with
  | Bess => map WBess (bess_add_slice_info s)
  | Up4 slice_id tc => map WUp4 (up4_add_slice_info slice_id tc s)
  end.

Definition accepts (meth : string) : bool := ((meth =? "PUT") || (meth =? "POST"))%string.

Definition serve (dp : datapath) (meth : string) (b : body) : result :=
  if accepts meth then
    match b with
    | Unreadable => Result [StatusBadRequest] [] None
    | Malformed => Result [StatusBadRequest] [] None
    | Decoded d =>
        let s := slice_info_of d in
        (* the datapath's error, if any, is only logged; the answer is 201 regardless *)
        Result [StatusCreated] (add_slice_info dp s) (Some s)
    end
  else Result [StatusMethodNotAllowed] [] None.

(* ---------------------------------------------------------------- the handler over a history *)
(* One ConfigHandler + upf serve many requests; what survives a request inside the agent is
   upf.sliceInfo.  upf.addSliceInfo is
       u.sliceInfo = sliceInfo; return u.AddSliceInfo(sliceInfo)
   the previous value is overwritten and never read, and the datapath's answer (accepted, refused,
   failed) is only logged.  The state is threaded explicitly so that the theorems can say so. *)
Definition state := option slice_info.

Definition upf_add_slice_info (st : state) (dp : datapath) (s : slice_info) : state * list write :=
  (Some s, add_slice_info dp s).

Definition serve_st (st : state) (dp : datapath) (meth : string) (b : body) : result * state :=
  if accepts meth then
    match b with
    | Unreadable => (Result [StatusBadRequest] [] None, st)
    | Malformed => (Result [StatusBadRequest] [] None, st)
    | Decoded d =>
        let s := slice_info_of d in
        let '(st', ws) := upf_add_slice_info st dp s in
        (Result [StatusCreated] ws (Some s), st')
    end
  else (Result [StatusMethodNotAllowed] [] None, st).

Record request := Req { q_meth : string; q_body : body }.

Fixpoint run (st : state) (dp : datapath) (reqs : list request) : list result * state :=
  match reqs with
  | [] => ([], st)
  | q :: rest =>
      let '(r, st') := serve_st st dp (q_meth q) (q_body q) in
      let '(rs, st'') := run st' dp rest in
      (r :: rs, st'')
  end.

(* what the slice meter holds after a history: the writes of the last request that sent any *)
Definition meter_after (m : list write) (rs : list result) : list write :=
  fold_left (fun m r => match r_writes r with [] => m | w => w end) rs m.

(* ---------------------------------------------------------------- specification-side vocabulary *)
(* the multiplier the property text assigns to a unit string; unstated (or unrecognised) = Mbps *)
Definition unit_of (u : string) : N :=
  if (u =? "bps")%string then 1
  else if (u =? "Kbps")%string then 1000
  else if (u =? "Gbps")%string then 1000000000
  else 1000000.

Definition wf_doc (d : doc) : Prop :=
  d_ul d < 2 ^ 64 /\ d_dl d < 2 ^ 64 /\ d_ulb d < 2 ^ 64 /\ d_dlb d < 2 ^ 64.

(* the posted rate is one the property speaks about: non-zero, converted value fits in 63 bits *)
Definition rate_ok (mbr : N) (u : string) : Prop := mbr <> 0 /\ mbr * unit_of u < 2 ^ 63.

(* what a BESS slice meter must be told for converted rates cu / cd and posted bursts *)
Definition bess_meter_spec (cu cd ulb dlb : N) : list write :=
  [ WBess (BessCmd "sliceMeter" "add"
       (QosAdd 0 1 (cu / 8) 1 (if ulb =? 0 then 48448 else ulb) 0 0 [1; 0]));
    WBess (BessCmd "sliceMeter" "add"
       (QosAdd 0 1 (cd / 8) 1 (if dlb =? 0 then 48448 else dlb) 0 50 [0; 1])) ].

(* what the UP4 slice/TC meter cell must be told: the larger rate with the burst of that side,
   the burst saturated at 2^63-1 (the largest value P4Runtime's int64 pburst can carry) *)
Definition up4_meter_spec (slice_id tc : N) (cu cd ulb dlb : N) : list write :=
  [ WUp4 (MeterWrite 2 336833095 (Z.of_N (4 * slice_id + tc)) 0 0
                     (Z.of_N (N.max cu cd)) (Z.of_N (N.min (if cd <? cu then ulb else dlb) (2 ^ 63 - 1)))) ].
