(* C16: conformance of one P4Runtime update to a P4Info - the sentence-by-sentence reading of the property.
   Byte strings are numbers (the 4-byte encoding of a Go int in an 8-bit parameter is fine when the number
   fits).  No proofs here. *)
From Coq Require Import NArith List String Bool.
From UPF Require Import Model.P4Info.
Import ListNotations.
Open Scope N_scope.

(* --- what a Write carries (p4.v1.Update restricted to the entity kinds the agent writes) --- *)
Inductive fmatch :=
| FExact (v : N) | FLpm (v plen : N) | FTernary (v m : N) | FRange (lo hi : N) | FOptional (v : N)
| FOther.                                   (* no / unknown match oneof *)
Record field := Fld { f_id : N; f_m : fmatch }.
Record aparam := AP { ap_id : N; ap_v : N }.
Inductive taction := ANone | AAct (id : N) (ps : list aparam) | AOther.   (* AOther: profile member / group / action set *)
Record tentry := TE { te_table : N; te_match : list field; te_action : taction; te_prio : N }.
Inductive entity :=
| ETable (e : tentry)
| EMeter (id : N) (idx : option N) (has_config : bool)
| ECounter (id : N) (idx : option N)
| EOtherEnt.                                (* nil entity or a kind the agent has no business writing *)
Inductive utype := UInsert | UModify | UDelete | UUnspec.
Record update := Upd { u_type : utype; u_ent : entity }.

(* --- value-level predicates (kept as named functions: proofs unfold them only after name resolution) --- *)
Definition fitsb (w v : N) : bool := v <? 2 ^ w.                                   (* value fits the declared bit width *)
Definition lpm_okb (w v p : N) : bool := fitsb w v && (p <=? w) && (v mod 2 ^ (w - p) =? 0).   (* prefix <= width, low bits zero *)
Definition tern_okb (w v m : N) : bool := fitsb w m && (N.land v m =? v).          (* mask fits, value within mask *)
Definition range_okb (w lo hi : N) : bool := fitsb w hi && (lo <=? hi).
(* tables with ternary / range (/ optional) fields get a non-zero priority (an int32), the others priority 0 *)
Definition prio_okb (needs : bool) (p : N) : bool := if needs then (0 <? p) && (p <? 2 ^ 31) else p =? 0.
Definition index_okb (size i : N) : bool := i <? size.

Definition kind_of (m : fmatch) : option match_kind :=
  match m with
  | FExact _ => Some MK_EXACT | FLpm _ _ => Some MK_LPM | FTernary _ _ => Some MK_TERNARY
  | FRange _ _ => Some MK_RANGE | FOptional _ => Some MK_OPTIONAL | FOther => None
  end.

Definition match_value_ok (w : N) (m : fmatch) : bool :=
  match m with
  | FExact v => fitsb w v
  | FLpm v p => lpm_okb w v p
  | FTernary v m => tern_okb w v m
  | FRange lo hi => range_okb w lo hi
  | FOptional v => fitsb w v
  | FOther => false
  end.

(* each match field belongs to the table, has the declared match kind, and its value fits *)
Definition field_ok (t : table) (f : field) : bool :=
  match field_by_id t (f_id f) with
  | None => false
  | Some mf =>
    match kind_of (f_m f) with
    | None => false
    | Some k => mk_eqb k (mf_kind mf) && match_value_ok (mf_width mf) (f_m f)
    end
  end.

Fixpoint nodup_ids (l : list N) : bool :=
  match l with [] => true | x :: r => negb (existsb (ideqb x) r) && nodup_ids r end.

Definition param_ok (a : action) (p : aparam) : bool :=
  match param_by_id a (ap_id p) with None => false | Some d => fitsb (p_width d) (ap_v p) end.

(* the action is one the table allows for entries and carries exactly its declared parameters, each fitting *)
Definition action_ok (i : p4info) (t : table) (ty : utype) (a : taction) : bool :=
  match a with
  | ANone => match ty with UDelete => true | _ => false end     (* only the key of a DELETE matters *)
  | AOther => false
  | AAct id ps =>
    existsb (fun r => ideqb (ar_id r) id && match ar_scope r with SC_DEFAULT => false | _ => true end) (t_refs t) &&
    match action_by_id i id with
    | None => false
    | Some d =>
      Nat.eqb (List.length ps) (List.length (a_params d)) && nodup_ids (map ap_id ps) && forallb (param_ok d) ps
    end
  end.

Definition entry_ok (i : p4info) (ty : utype) (e : tentry) : bool :=
  match table_by_id i (te_table e) with
  | None => false
  | Some t =>
    nodup_ids (map f_id (te_match e)) && forallb (field_ok t) (te_match e) &&
    action_ok i t ty (te_action e) && prio_okb (needs_priority t) (te_prio e)
  end.

Definition cell_ok (o : option sized) (idx : option N) : bool :=
  match o with
  | None => false
  | Some m => match idx with None => true | Some k => index_okb (s_size m) k end
  end.

Definition valid_update (i : p4info) (u : update) : bool :=
  match u_ent u with
  | ETable e => entry_ok i (u_type u) e
  | EMeter id idx _ => cell_ok (meter_by_id i id) idx
  | ECounter id idx => cell_ok (counter_by_id i id) idx
  | EOtherEnt => false
  end.

(* --- structural equality of updates (for the correspondence run) --- *)
Definition fmatch_eqb (a b : fmatch) : bool :=
  match a, b with
  | FExact x, FExact y | FOptional x, FOptional y => x =? y
  | FLpm x p, FLpm y q | FTernary x p, FTernary y q | FRange x p, FRange y q => (x =? y) && (p =? q)
  | FOther, FOther => true
  | _, _ => false
  end.
Fixpoint list_eqb {A} (eq : A -> A -> bool) (x y : list A) : bool :=
  match x, y with
  | [], [] => true
  | a :: x', b :: y' => eq a b && list_eqb eq x' y'
  | _, _ => false
  end.
Definition field_eqb (a b : field) := (f_id a =? f_id b) && fmatch_eqb (f_m a) (f_m b).
Definition aparam_eqb (a b : aparam) := (ap_id a =? ap_id b) && (ap_v a =? ap_v b).
Definition taction_eqb (a b : taction) : bool :=
  match a, b with
  | ANone, ANone | AOther, AOther => true
  | AAct i p, AAct j q => (i =? j) && list_eqb aparam_eqb p q
  | _, _ => false
  end.
Definition tentry_eqb (a b : tentry) : bool :=
  (te_table a =? te_table b) && list_eqb field_eqb (te_match a) (te_match b) &&
  taction_eqb (te_action a) (te_action b) && (te_prio a =? te_prio b).
Definition optN_eqb (a b : option N) : bool :=
  match a, b with Some x, Some y => x =? y | None, None => true | _, _ => false end.
Definition entity_eqb (a b : entity) : bool :=
  match a, b with
  | ETable x, ETable y => tentry_eqb x y
  | EMeter i k c, EMeter j l d => (i =? j) && optN_eqb k l && Bool.eqb c d
  | ECounter i k, ECounter j l => (i =? j) && optN_eqb k l
  | EOtherEnt, EOtherEnt => true
  | _, _ => false
  end.
Definition utype_eqb (a b : utype) : bool :=
  match a, b with UInsert, UInsert | UModify, UModify | UDelete, UDelete | UUnspec, UUnspec => true | _, _ => false end.
Definition update_eqb (a b : update) : bool := utype_eqb (u_type a) (u_type b) && entity_eqb (u_ent a) (u_ent b).
