(* The Session Modification handler with the answer of the datapath as a parameter (no proofs here).

   Model/Agent.v describes the agent over a datapath whose batch always succeeds (BESS: SendMsgToUPF returns "accepted"
   whenever the plug-in is connected).  On UP4 the call `cause := upf.SendMsgToUPF(upfMsgTypeMod, ...)` of
   handleSessionModificationRequest can return CauseRequestRejected (a P4Runtime Write failed); the handler then returns
   sendError(ErrWriteToDatapath) at once: no End Marker is handed to the datapath, the Remove IEs are not processed, the
   session is not put back.  handle_mod_dp is handle_mod, statement by statement, with that answer as the boolean
   dp_ok; Proofs/ModDpProofs.v shows handle_mod_dp true = handle_mod (so everything proved about handle_mod is about the
   dp_ok = true half) and that dp_ok = false emits no marker.  What a failed batch leaves in the datapath tables is
   datapath-specific and not described: the tables are left as they were and o_cmds lists the commands attempted. *)
From Coq Require Import NArith List Bool.
From UPF Require Import Model.IPPool Model.Fteid Model.PortRange Model.Agent.
Import ListNotations.
Open Scope N_scope.

Section ModDp.
  Variable burst : N -> N -> N -> N.

  Definition handle_mod_dp (dp_ok : bool) (a : agent) (c : conn) (seid : N) (cpfseid : option (acc (N * option N)))
             (cp : list pdr_ie) (cf : list far_ie) (cq : list qer_ie) (up : list pdr_ie) (uf : list far_ie) (uq : list qer_ie)
             (rp rf rq : list (acc N)) : outcome (agent * conn * out) :=
    match find_session seid (c_sessions c) with
    | None => Done (a, c, just (RMod 0 CAUSE_REJ))
    | Some s0 =>
      let rseid := match cpfseid with Some (IOk (r, _)) => r | _ => s_rseid s0 end in
      let access_ip := g_access (a_cfg a) in
      let core_ip := g_core (a_cfg a) in
      let w0 := Work (s_pdrs s0) (s_fars s0) (s_qers s0) (a_pool a) [] [] [] [] in
      let reject (w : work) (pl : option pool) (g : gen) (tb : tables) (cmds : list cmd) :=
          Done (Agent (a_cfg a) pl g (a_gauge a) tb,
                Conn (c_remote c) (c_pfds c) (replace_session (alias_back s0 (w_p w) (w_f w) (w_q w)) (c_sessions c)) (c_seq c),
                Out (Some (RMod rseid CAUSE_REJ)) cmds [] false) in
      let early (w : work) := reject w (w_pool w) (a_teids a) (a_tables a) [] in
      match mod_create_p cp seid (c_pfds c) w0 with
      | (w1, false) => early w1
      | (w1, true) =>
      match mod_create_f cf seid access_ip core_ip w1 with
      | (w2, false) => early w2
      | (w2, true) =>
      match mod_create_q cq seid w2 with
      | (w3, false) => early w3
      | (w3, true) =>
      match mod_update_p up seid (c_pfds c) w3 with
      | (w4, false) => early w4
      | (w4, true) =>
      match mod_update_f uf seid access_ip core_ip w4 with
      | (w5, false) => early w5
      | (w5, true) =>
      match mod_update_q uq seid w5 with
      | (w6, false) => early w6
      | (w6, true) =>
        match mark_session_qer (view (w_p w6)) (view (w_q w6)) with
        | Crash st => Crash st
        | Done (ps1, qs1) =>
          let wp1 := write_back O ps1 (w_p w6) in
          let wq1 := write_back_q O qs1 (w_q w6) in
          match mark_session_qer (view wp1) (w_addq w6) with
          | Crash st => Crash st
          | Done (ps2, addq) =>
            let wp2 := write_back O ps2 wp1 in
            (* the message's PDRs share their QER lists with the session's *)
            let addp := flat_map (fun id => match find_idx (fun x => p_id x =? id) (view wp2) with
                                            | Some k => [nth k (view wp2) pdr0] | None => [] end) (w_addp w6) in
            let cmds1 := add_cmds burst addp (w_addf w6) addq in
            let tb1 := apply_cmds cmds1 (a_tables a) in
            let marks := if g_end_marker (a_cfg a) then w_marks w6 else [] in
            if negb dp_ok then
              (* cause == CauseRequestRejected -> return sendError(ErrWriteToDatapath): before SendEndMarkers, before the
                 Remove IEs, without PutSession (the stored session keeps the in-place effects of the IEs) *)
              Done (Agent (a_cfg a) (w_pool w6) (a_teids a) (a_gauge a) (a_tables a),
                    Conn (c_remote c) (c_pfds c) (replace_session (alias_back s0 wp2 (w_f w6) wq1) (c_sessions c)) (c_seq c),
                    Out (Some (RMod rseid CAUSE_REJ)) cmds1 [] false)
            else
            match mod_remove_p rp wp2 (a_teids a) [] with
            | (wp3, g3, None) =>
              Done (Agent (a_cfg a) (w_pool w6) g3 (a_gauge a) tb1,
                    Conn (c_remote c) (c_pfds c) (replace_session (alias_back s0 wp3 (w_f w6) wq1) (c_sessions c)) (c_seq c),
                    Out (Some (RMod rseid CAUSE_REJ)) cmds1 marks false)
            | (wp3, g3, Some dp) =>
              match mod_remove_f rf (w_f w6) [] with
              | (wf3, None) =>
                Done (Agent (a_cfg a) (w_pool w6) g3 (a_gauge a) tb1,
                      Conn (c_remote c) (c_pfds c) (replace_session (alias_back s0 wp3 wf3 wq1) (c_sessions c)) (c_seq c),
                      Out (Some (RMod rseid CAUSE_REJ)) cmds1 marks false)
              | (wf3, Some df) =>
                match mod_remove_q rq wq1 [] with
                | (wq3, None) =>
                  Done (Agent (a_cfg a) (w_pool w6) g3 (a_gauge a) tb1,
                        Conn (c_remote c) (c_pfds c) (replace_session (alias_back s0 wp3 wf3 wq3) (c_sessions c)) (c_seq c),
                        Out (Some (RMod rseid CAUSE_REJ)) cmds1 marks false)
                | (wq3, Some dq) =>
                  let cmds2 := del_cmds dp df dq in
                  let s' := Sess (s_lseid s0) rseid wp3 wf3 wq3 in
                  Done (Agent (a_cfg a) (w_pool w6) g3 (a_gauge a) (apply_cmds cmds2 tb1),
                        Conn (c_remote c) (c_pfds c) (replace_session s' (c_sessions c)) (c_seq c),
                        Out (Some (RMod rseid CAUSE_OK)) (cmds1 ++ cmds2) marks false)
                end
              end
            end
          end
        end
      end end end end end end
    end.

End ModDp.
