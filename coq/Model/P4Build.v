(* C16: the entry builders of pfcpiface/p4rt_translator.go and the Write batches up4.go assembles from them,
   as Gallina functions.  Builders produce *named* entries; [resolve] turns the names into ids the way the
   Go code does: table / action / meter / counter ids are the constants of internal/p4constants (looked up in
   Gen/P4Const_gen by Go identifier), match fields and action parameters are looked up BY NAME in the P4Info
   (with*MatchField / withActionParam).  A failed lookup is the Go `return nil, err` = [None] (no write).
   Identifiers the plug-in chooses (counter cell, meter cells, tunnel peer id, application id) are arguments.
   No proofs here. *)
From Coq Require Import NArith List String Bool.
From UPF Require Import Model.P4Info Model.P4Valid.
Import ListNotations.
Open Scope string_scope.
Open Scope list_scope.
Open Scope N_scope.

(* ------------------------------------------------------------------ inputs (parse_pdr.go, parse_far.go, parse_qer.go) *)
Record port_range := PR { pr_lo : N; pr_hi : N }.
Record app_filter := AF { af_src_ip : N; af_dst_ip : N; af_src_ports : port_range; af_dst_ports : port_range;
                          af_proto : N; af_src_mask : N; af_dst_mask : N; af_proto_mask : N }.
Record pdr := Pdr { pd_src_iface : N; pd_tun_ip : N; pd_teid : N; pd_ue : N; pd_af : app_filter; pd_prec : N;
                    pd_id : N; pd_ctr : N; pd_far : N; pd_qers : list N }.
Record far := Far { fr_id : N; fr_dst_intf : N; fr_action : N; fr_tun_dst : N; fr_teid : N; fr_port : N }.
Record qer := Qer { qr_id : N; qr_level : N; qr_qfi : N; qr_ul_status : N; qr_dl_status : N }.
(* P4rtcInfo: slice id, default TC, QFI -> TC map; N3 address/prefix and UE pool/prefix as parsed by MustParseStrIP *)
Record config := Cfg { cf_slice : N; cf_default_tc : N; cf_qfi_tc : list (N * N);
                       cf_n3 : N; cf_n3_plen : N; cf_pool : N; cf_pool_plen : N }.
Record meter_cells := MC { mc_ul : N; mc_dl : N }.

Definition access : N := 1.          (* upf.go *)
Definition core : N := 2.
Definition direction_uplink : N := 1.    (* p4rt_translator.go *)
Definition direction_downlink : N := 2.
Definition action_drop : N := 1.     (* parse_far.go *)
Definition action_forward : N := 2.
Definition action_buffer : N := 4.
Definition gate_closed : N := 1.     (* go-pfcp ie.GateStatusClosed *)
Definition dst_interface_access : N := 0.
Definition default_qfi : N := 9.     (* up4.go DefaultQFI *)
Definition app_qos : N := 0.         (* session_qer.go *)
Definition session_qos : N := 1.
Definition max_uint16 : N := 65535.

Definition far_drops (f : far) : bool := negb (N.land (fr_action f) action_drop =? 0).
Definition far_buffers (f : far) : bool := negb (N.land (fr_action f) action_buffer =? 0).
Definition far_forwards (f : far) : bool := negb (N.land (fr_action f) action_forward =? 0).

Definition is_wildcard (r : port_range) : bool :=
  ((pr_lo r =? 0) && (pr_hi r =? max_uint16)) || ((pr_lo r =? 0) && (pr_hi r =? 0)).

(* bits.TrailingZeros32 *)
Fixpoint tz_pos (p : positive) : N := match p with xO q => 1 + tz_pos q | _ => 0 end.
Definition tz32 (m : N) : N := match m with N0 => 32 | Npos p => tz_pos p end.

(* pdr.IsAppFilterEmpty *)
Definition app_filter_empty (p : pdr) : bool :=
  (af_proto (pd_af p) =? 0) &&
  (((pd_src_iface p =? access) && (af_dst_ip (pd_af p) =? 0) && is_wildcard (af_dst_ports (pd_af p))) ||
   ((pd_src_iface p =? core) && (af_src_ip (pd_af p) =? 0) && is_wildcard (af_src_ports (pd_af p)))).

(* ------------------------------------------------------------------ named entries and their resolution *)
Inductive nmatch := NExact (v : N) | NLpm (v p : N) | NRange (lo hi : N) | NTernary (v m : N).
Record nentry := NE { ne_table : string; ne_match : list (string * nmatch);
                      ne_action : string; ne_params : list (string * N); ne_prio : N }.

Section Resolve.
  Variable info : p4info.
  Variable consts : list (string * string * N).      (* Gen/P4Const_gen.consts *)

  Fixpoint const_lookup (cs : list (string * string * N)) (kind ident : string) : option N :=
    match cs with
    | [] => None
    | (k, i, v) :: r => if String.eqb k kind && String.eqb i ident then Some v else const_lookup r kind ident
    end.
  Definition const_id := const_lookup consts.

  Definition to_fmatch (m : nmatch) : fmatch :=
    match m with NExact v => FExact v | NLpm v p => FLpm v p | NRange l h => FRange l h | NTernary v m => FTernary v m end.

  Fixpoint resolve_fields (t : table) (l : list (string * nmatch)) : option (list field) :=
    match l with
    | [] => Some []
    | (n, m) :: r =>
      match field_by_name t n, resolve_fields t r with
      | Some mf, Some fs => Some (Fld (mf_id mf) (to_fmatch m) :: fs)
      | _, _ => None
      end
    end.
  Fixpoint resolve_params (a : action) (l : list (string * N)) : option (list aparam) :=
    match l with
    | [] => Some []
    | (n, v) :: r =>
      match param_by_name a n, resolve_params a r with
      | Some p, Some ps => Some (AP (p_id p) v :: ps)
      | _, _ => None
      end
    end.

  Definition resolve (ne : nentry) : option tentry :=
    match const_id "Table" (ne_table ne), const_id "Action" (ne_action ne) with
    | Some tid, Some aid =>
      match table_by_id info tid, action_by_id info aid with
      | Some t, Some a =>
        match resolve_fields t (ne_match ne), resolve_params a (ne_params ne) with
        | Some fs, Some ps => Some (TE tid fs (AAct aid ps) (ne_prio ne))
        | _, _ => None
        end
      | _, _ => None
      end
    | _, _ => None
    end.

  (* ---------------------------------------------------------------- the builders, named form *)
  (* BuildInterfaceTableEntry(ipNet, sliceID, isCore); srcIface and direction are Go ints (4 bytes on the wire) *)
  Definition n_interface (ip plen slice : N) (is_core : bool) : nentry :=
    NE "PreQosPipeInterfaces" [("ipv4_dst_prefix", NLpm ip plen)]
       "PreQosPipeSetSourceIface"
       [("src_iface", if is_core then core else access);
        ("direction", if is_core then direction_downlink else direction_uplink);
        ("slice_id", slice)] 0.

  (* BuildApplicationsTableEntry(pdr, sliceID, internalAppID) *)
  Definition app_ip (p : pdr) : N * N :=
    if pd_src_iface p =? access then (af_dst_ip (pd_af p), af_dst_mask (pd_af p))
    else if pd_src_iface p =? core then (af_src_ip (pd_af p), af_src_mask (pd_af p)) else (0, 0).
  Definition app_ports (p : pdr) : port_range :=
    if pd_src_iface p =? access then af_dst_ports (pd_af p)
    else if pd_src_iface p =? core then af_src_ports (pd_af p) else PR 0 0.
  Definition app_prefix_len (mask : N) : N := 32 - tz32 mask.
  Definition n_application_raw (ip mask : N) (ports : port_range) (proto pmask prec slice app_id : N) : nentry :=
    NE "PreQosPipeApplications"
       ([("slice_id", NExact slice)]
        ++ (if 0 <? app_prefix_len mask then [("app_ip_addr", NLpm ip (app_prefix_len mask))] else [])
        ++ (if is_wildcard ports then [] else [("app_l4_port", NRange (pr_lo ports) (pr_hi ports))])
        ++ (if negb (proto =? 0) && negb (pmask =? 0) then [("app_ip_proto", NTernary proto pmask)] else []))
       "PreQosPipeSetAppId" [("app_id", app_id)]
       (max_uint16 - prec).            (* int32(math.MaxUint16 - pdr.precedence); verifyPDR bounds precedence *)
  Definition n_application (p : pdr) (slice app_id : N) : nentry :=
    n_application_raw (fst (app_ip p)) (snd (app_ip p)) (app_ports p)
                      (af_proto (pd_af p)) (af_proto_mask (pd_af p)) (pd_prec p) slice app_id.

  (* BuildSessionsTableEntry *)
  Definition n_session_uplink (p : pdr) (sess_meter_idx : N) : nentry :=
    NE "PreQosPipeSessionsUplink" [("n3_address", NExact (pd_tun_ip p)); ("teid", NExact (pd_teid p))]
       "PreQosPipeSetSessionUplink" [("session_meter_idx", sess_meter_idx)] 0.
  Definition n_session_downlink (p : pdr) (sess_meter_idx peer : N) (buffering : bool) : nentry :=
    if buffering then
      NE "PreQosPipeSessionsDownlink" [("ue_address", NExact (pd_ue p))]
         "PreQosPipeSetSessionDownlinkBuff" [("session_meter_idx", sess_meter_idx)] 0
    else
      NE "PreQosPipeSessionsDownlink" [("ue_address", NExact (pd_ue p))]
         "PreQosPipeSetSessionDownlink" [("tunnel_peer_id", peer); ("session_meter_idx", sess_meter_idx)] 0.
  Definition n_session (p : pdr) (sess : meter_cells) (peer : N) (buffering : bool) : option nentry :=
    if pd_src_iface p =? access then Some (n_session_uplink p (mc_ul sess))
    else if pd_src_iface p =? core then Some (n_session_downlink p (mc_dl sess) peer buffering)
    else None.

  (* BuildTerminationsTableEntry; [ue] is the address the caller put into pdr.ueAddress *)
  Definition n_termination_uplink (ue : N) (p : pdr) (app_meter_idx : N) (drop : bool) (app_id tc : N) (q : qer) : nentry :=
    let drop := drop || (qr_ul_status q =? gate_closed) in
    if drop then
      NE "PreQosPipeTerminationsUplink" [("ue_address", NExact ue); ("app_id", NExact app_id)]
         "PreQosPipeUplinkTermDrop" [("ctr_idx", pd_ctr p)] 0
    else
      NE "PreQosPipeTerminationsUplink" [("ue_address", NExact ue); ("app_id", NExact app_id)]
         "PreQosPipeUplinkTermFwd" [("tc", tc); ("app_meter_idx", app_meter_idx); ("ctr_idx", pd_ctr p)] 0.
  Definition n_termination_downlink (ue : N) (p : pdr) (app_meter_idx : N) (f : far) (app_id qfi tc : N) (q : qer) : nentry :=
    let drop := far_drops f || (qr_dl_status q =? gate_closed) in
    if drop then
      NE "PreQosPipeTerminationsDownlink" [("ue_address", NExact ue); ("app_id", NExact app_id)]
         "PreQosPipeDownlinkTermDrop" [("ctr_idx", pd_ctr p)] 0
    else
      NE "PreQosPipeTerminationsDownlink" [("ue_address", NExact ue); ("app_id", NExact app_id)]
         "PreQosPipeDownlinkTermFwd"
         [("teid", fr_teid f); ("qfi", qfi); ("tc", tc); ("app_meter_idx", app_meter_idx); ("ctr_idx", pd_ctr p)] 0.
  Definition n_termination (ue : N) (p : pdr) (app : meter_cells) (f : far) (app_id qfi tc : N) (q : qer) : option nentry :=
    if pd_src_iface p =? access then Some (n_termination_uplink ue p (mc_ul app) (far_drops f) app_id tc q)
    else if pd_src_iface p =? core then Some (n_termination_downlink ue p (mc_dl app) f app_id qfi tc q)
    else None.

  (* BuildGTPTunnelPeerTableEntry(tunnelPeerID, tunnelParams{n3, far.tunnelIP4Dst, far.tunnelPort}) *)
  Definition n_tunnel_peer (peer src dst port : N) : nentry :=
    NE "PreQosPipeTunnelPeers" [("tunnel_peer_id", NExact peer)]
       "PreQosPipeLoadTunnelParam" [("src_addr", src); ("dst_addr", dst); ("sport", port)] 0.

  Definition tbl (ty : utype) (ne : nentry) : option update :=
    option_map (fun e => Upd ty (ETable e)) (resolve ne).

  (* ---------------------------------------------------------------- the Write batches of up4.go *)
  Fixpoint all_some {A} (l : list (option A)) : option (list A) :=
    match l with
    | [] => Some []
    | None :: _ => None
    | Some x :: r => option_map (cons x) (all_some r)
    end.

  (* initInterfaces: UE pool (core) then N3 address (access), one INSERT batch *)
  Definition w_interfaces (c : config) : option (list update) :=
    all_some [tbl UInsert (n_interface (cf_pool c) (cf_pool_plen c) (cf_slice c) true);
              tbl UInsert (n_interface (cf_n3 c) (cf_n3_plen c) (cf_slice c) false)].

  (* utils.go GetSliceTCMeterIndex + AddSliceInfo: one MODIFY of the slice_tc_meter cell (slice << 2) + (tc & 3) *)
  Definition slice_tc_index (slice tc : N) : option N :=
    match const_id "BitwidthMf" "SliceId", const_id "BitwidthAp" "Tc" with
    | Some ws, Some wt =>
      if (2 ^ ws <=? slice) || (2 ^ wt <=? tc) then None       (* sliceID >= 1 << BitwidthMfSliceId, TC >= 1 << BitwidthApTc *)
      else Some ((((slice * 4) mod 256) + N.land tc 3) mod 256)  (* uint8 arithmetic *)
    | _, _ => None
    end.
  Definition meter_upd (kind_ident : string) (cell : N) (has_cfg : bool) : option update :=
    option_map (fun id => Upd UModify (EMeter id (Some cell) has_cfg)) (const_id "Meter" kind_ident).
  Definition w_slice (c : config) : option (list update) :=
    match slice_tc_index (cf_slice c) (cf_default_tc c) with
    | None => None
    | Some k => all_some [meter_upd "PreQosPipeSliceTcMeter" k true]
    end.

  (* resetCounter: both counters at pdr.ctrID, one MODIFY batch *)
  Definition counter_upd (ident : string) (cell : N) : option update :=
    option_map (fun id => Upd UModify (ECounter id (Some cell))) (const_id "Counter" ident).
  Definition w_counter_reset (ctr : N) : option (list update) :=
    all_some [counter_upd "PreQosPipePreQosCounter" ctr; counter_upd "PostQosPipePostQosCounter" ctr].

  (* configureApplicationMeter / configureSessionMeter (cells chosen by the pools) and resetMeter *)
  Definition meter_ident (level : N) : string :=
    if level =? app_qos then "PreQosPipeAppMeter" else "PreQosPipeSessionMeter".
  Definition w_meter_config (level : N) (m : meter_cells) : option (list update) :=
    if level =? app_qos then
      all_some ((if mc_ul m =? 0 then [] else [meter_upd "PreQosPipeAppMeter" (mc_ul m) true])
                ++ (if mc_dl m =? mc_ul m then [] else [meter_upd "PreQosPipeAppMeter" (mc_dl m) true]))
    else if level =? session_qos then
      all_some [meter_upd "PreQosPipeSessionMeter" (mc_ul m) true; meter_upd "PreQosPipeSessionMeter" (mc_dl m) true]
    else None.
  Definition w_meter_reset (level : N) (m : meter_cells) : option (list update) :=
    all_some (meter_upd (meter_ident level) (mc_ul m) false
              :: (if mc_dl m =? mc_ul m then [] else [meter_upd (meter_ident level) (mc_dl m) false])).

  (* updateTunnelPeersBasedOnFARs / addOrUpdateGTPTunnelPeer / removeGTPTunnelPeer *)
  Definition far_needs_peer (f : far) : bool :=
    far_forwards f && (fr_dst_intf f =? dst_interface_access) && negb (fr_teid f =? 0).
  Definition w_tunnel_peer (ty : utype) (c : config) (f : far) (peer : N) : option (list update) :=
    all_some [tbl ty (n_tunnel_peer peer (cf_n3 c) (fr_tun_dst f) (fr_port f))].

  (* the loop body of modifyUP4ForwardingConfiguration for one PDR.
     Oracle (the plug-in's bookkeeping at that moment): the tunnel peer id found for the FAR (0 when absent),
     the session / application meter cells found for the PDR's QER ids (zero cells when absent), the UE address
     recorded for the F-SEID (uplink), the application id and whether an applications entry goes into the batch. *)
  Record pdr_oracle := PO { po_peer_exists : bool; po_peer : N; po_sess : meter_cells; po_app : meter_cells; po_ue : N;
                            po_app_id : N; po_app_entry : bool }.
  Fixpoint tc_lookup (m : list (N * N)) (qfi : N) : option N :=
    match m with [] => None | (k, v) :: r => if k =? qfi then Some v else tc_lookup r qfi end.
  Definition zero_qer : qer := Qer 0 0 0 0 0.
  Definition w_pdr (ty : utype) (c : config) (p : pdr) (f : far) (q : option qer) (o : pdr_oracle) : option (list update) :=
    if max_uint16 <? pd_prec p then None else                          (* verifyPDR *)
    if negb (po_peer_exists o) && negb (fr_teid f =? 0) then None else   (* no allocated GTP tunnel peer ID *)
    let sess := match pd_qers p with [_; _] => po_sess o | _ => MC 0 0 end in
    let ue := if pd_src_iface p =? access then po_ue o else pd_ue p in
    let app_id := if app_filter_empty p then 0 else po_app_id o in
    let appm := match pd_qers p with [] => MC 0 0 | _ => po_app o end in
    let rq := match q with Some x => x | None => zero_qer end in
    let qfi := match q with Some x => qr_qfi x | None => default_qfi end in
    let tc := match tc_lookup (cf_qfi_tc c) (qr_qfi rq) with Some t => t | None => cf_default_tc c end in
    match n_session p sess (po_peer o) (far_buffers f), n_termination ue p appm f app_id qfi tc rq with
    | Some s, Some t =>
      all_some ([tbl ty s]
                ++ (if negb (app_filter_empty p) && po_app_entry o then [tbl ty (n_application p (cf_slice c) (po_app_id o))] else [])
                ++ [tbl ty t])
    | _, _ => None
    end.
End Resolve.
