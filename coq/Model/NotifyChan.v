(* C13 - the hand-off between the downlink data notifier and the reader of the report channel.

   notifier.go: Notify(fseid) = { if !shouldNotify(fseid) { return }; notifyChan <- fseid }.  The send blocks while
   the channel (capacity [cap]; reportNotifyChan has 1024 places) is full: a busy reader delays a report, it never
   loses one.  Model: one caller (the datapath listener calls Notify sequentially), one reader, every schedule of
   the three atomic actions.  The skeleton of Notify is regenerated from the source on every run
   (Gen/NotifySkel_gen.v, harness/skel) and must equal [notify_skel]: a `select` with a `default` branch around
   the send (drop when full) is a different skeleton.

   The rate limiter itself (timestamps, interval) is Model/Notifier.v; here [seen] stands for "a report of this
   session was forwarded within the interval" - the scripts of the backlog scenario stay inside one interval. *)
From Coq Require Import NArith List Bool String.
Import ListNotations.

Definition notify_skel : string := "if{return};send(notifyChan)".

Record st := St {
  todo : list N;        (* reports the datapath will still make, in order *)
  seen : list N;        (* sessions with a forwarded report inside the current interval *)
  decided : list N;     (* values Notify decided to forward, in order *)
  pend : option N;      (* the caller is inside `notifyChan <- v` *)
  q : list N;           (* channel contents, oldest first *)
  consumed : list N     (* what the reader has received, in order *)
}.

Inductive act := ACall | ASend | ARecv.

Definition memN (v : N) (l : list N) : bool := existsb (N.eqb v) l.

(* disabled actions leave the state alone (the scheduler may pick them; nothing happens) *)
Definition step (cap : nat) (s : st) (a : act) : st :=
  match a with
  | ACall =>
    match pend s, todo s with
    | None, f :: rest =>
      if memN f (seen s) then St rest (seen s) (decided s) None (q s) (consumed s)
      else St rest (f :: seen s) (decided s ++ [f]) (Some f) (q s) (consumed s)
    | _, _ => s
    end
  | ASend =>
    match pend s with
    | Some v => if Nat.ltb (List.length (q s)) cap then St (todo s) (seen s) (decided s) None (q s ++ [v]) (consumed s) else s
    | None => s
    end
  | ARecv =>
    match q s with
    | v :: r => St (todo s) (seen s) (decided s) (pend s) r (consumed s ++ [v])
    | [] => s
    end
  end.

Definition init (reports : list N) : st := St reports [] [] None [] [].
Definition run (cap : nat) (s : st) (sched : list act) : st := fold_left (step cap) sched s.

Definition opt_list (o : option N) : list N := match o with Some v => [v] | None => [] end.

(* first occurrences, in order: what a rate limiter that never loses a first report forwards inside one interval *)
Fixpoint firsts (acc l : list N) : list N :=
  match l with
  | [] => []
  | f :: r => if memN f acc then firsts acc r else f :: firsts (f :: acc) r
  end.

(* a fair schedule that finishes [n] reports through a channel of any positive capacity *)
Fixpoint drain_sched (n : nat) : list act :=
  match n with O => [] | S k => [ACall; ASend; ARecv] ++ drain_sched k end.
