(* Model of LoadConfigFile / validateConf in pfcpiface/config.go after comment removal:

     var conf Conf; conf.LogLevel = info; conf.P4rtcIface.DefaultTC = 3     (defaults pre-set)
     json.Unmarshal(text, &conf)                                            (decode)
     fill the defaults for resp_timeout, read_timeout, max_req_retries, heart_beat_interval
     validateConf(conf)                                                     (validate, in order)

   The input is the JSON value as encoding/json reads it (object members in document order,
   duplicate keys kept, number literals kept as text classes); JSON *syntax* is not modelled.
   The decoder below is encoding/json's typing for the Go types of the Conf struct:
   case-insensitive member names (with the two non-ASCII runes that fold to ASCII letters),
   unknown members ignored, null leaves the target as it is (slices and maps become nil),
   unsigned integers accept only plain non-negative integer literals in range, a repeated member
   decodes again into the same target (nested structs merge, a slice re-uses its backing array).
   Only the fields the property talks about are kept in the record; every other field of the Go
   struct is type-checked only (an ill-typed value anywhere makes the load fail).
   time.ParseDuration, net.ParseCIDR, net.ParseIP and zapcore.Level.UnmarshalText are Section
   variables: every theorem holds for all their possible behaviours.  No proofs here. *)
From Coq Require Import Ascii String List Bool NArith ZArith.
Import ListNotations.
Open Scope string_scope.

(* ------------------------------------------------------------------------------ JSON values *)
Inductive numlit :=
| NInt (neg : bool) (mag : N)      (* -?digits ; neg=true also for the literal -0 *)
| NFrac.                           (* a literal with a fraction or an exponent *)

Inductive json :=
| JNull
| JBool (b : bool)
| JNum (n : numlit)
| JStr (s : string)
| JArr (l : list json)
| JObj (kv : list (string * json)).

(* ------------------------------------------------------------------------------ member names *)
(* encoding/json foldName: ASCII letters to upper case; of all other runes only U+017F (long s,
   bytes C5 BF) and U+212A (Kelvin sign, bytes E2 84 AA) fold to an ASCII letter. *)
Definition upper (c : ascii) : ascii :=
  let n := N_of_ascii c in
  if ((97 <=? n) && (n <=? 122))%N then ascii_of_N (n - 32) else c.

Fixpoint fold_name (s : string) : string :=
  match s with
  | EmptyString => EmptyString
  | String c r =>
    match r with
    | String d r' =>
      if (Ascii.eqb c "197" && Ascii.eqb d "191")%bool then String "S" (fold_name r')
      else match r' with
           | String e r'' =>
             if (Ascii.eqb c "226" && Ascii.eqb d "132" && Ascii.eqb e "170")%bool
             then String "K" (fold_name r'')
             else String (upper c) (fold_name r)
           | EmptyString => String (upper c) (fold_name r)
           end
    | EmptyString => String (upper c) EmptyString
    end
  end.

Fixpoint lookup_name {A} (k : string) (fs : list (string * A)) : option A :=
  match fs with
  | [] => None
  | (n, a) :: r => if String.eqb (fold_name k) (fold_name n) then Some a else lookup_name k r
  end.

(* ------------------------------------------------------------------------------ Go types *)
Inductive textkind := KIP | KLevel.          (* encoding.TextUnmarshaler targets *)
Inductive ty :=
| TyStr | TyBool
| TyUint (bits : N)
| TyText (k : textkind)
| TyStruct (fs : list (string * ty))
| TySlice (e : ty)
| TyMapU8 (e : ty).                          (* map[uint8]e *)

Definition u8 := TyUint 8.
Definition u32 := TyUint 32.
Definition u64 := TyUint 64.

Definition ty_iface := TyStruct [("ifname", TyStr)].
Definition ty_qci := TyStruct [("qci", u8); ("cbs", u32); ("pbs", u32); ("ebs", u32);
                               ("burst_duration_ms", u32); ("priority", u32)].
Definition ty_slice_meter := TyStruct [("n6_bps", u64); ("n6_burst_bytes", u64); ("n3_bps", u64);
                                       ("n3_burst_bytes", u64)].
Definition ty_sim := TyStruct [("max_sessions", u32); ("start_ue_ip", TyText KIP); ("start_enb_ip", TyText KIP);
                               ("start_aupf_ip", TyText KIP); ("n6_app_ip", TyText KIP); ("n9_app_ip", TyText KIP);
                               ("start_n3_teid", TyStr); ("start_n9_teid", TyStr); ("uplink_mbr", u64);
                               ("downlink_mbr", u64); ("uplink_gbr", u64); ("downlink_gbr", u64)].

(* members of Conf: tracked ones have their own constructor, the others carry their Go type *)
Inductive topfld :=
| FMode | FCpiface | FP4rtciface | FEnableP4rt | FReadTimeout | FLogLevel | FMaxReqRetries
| FRespTimeout | FEnableHB | FHBInterval
| FPlain (t : ty).

Definition top_schema : list (string * topfld) :=
  [("mode", FMode); ("access", FPlain ty_iface); ("core", FPlain ty_iface); ("cpiface", FCpiface);
   ("p4rtciface", FP4rtciface); ("enable_p4rt", FEnableP4rt);
   ("enable_gtpu_path_monitoring", FPlain TyBool); ("measure_flow", FPlain TyBool);
   ("sim", FPlain ty_sim); ("conn_timeout", FPlain u32); ("read_timeout", FReadTimeout);
   ("enable_notify_bess", FPlain TyBool); ("enable_end_marker", FPlain TyBool);
   ("notify_sockaddr", FPlain TyStr); ("endmarker_sockaddr", FPlain TyStr); ("log_level", FLogLevel);
   ("qci_qos_config", FPlain (TySlice ty_qci)); ("slice_rate_limit_config", FPlain ty_slice_meter);
   ("max_req_retries", FMaxReqRetries); ("resp_timeout", FRespTimeout); ("enable_hbTimer", FEnableHB);
   ("heart_beat_interval", FHBInterval); ("n4_addr", FPlain TyStr)].

Inductive cpfld := CPeers | CEnableAlloc | CPool | CPlain (t : ty).
Definition cp_schema : list (string * cpfld) :=
  [("peers", CPeers); ("use_fqdn", CPlain TyBool); ("hostname", CPlain TyStr); ("http_port", CPlain TyStr);
   ("dnn", CPlain TyStr); ("enable_ue_ip_alloc", CEnableAlloc); ("ue_ip_pool", CPool)].

Inductive p4fld := PAccessIP | PDefaultTC | PPlain (t : ty).
Definition p4_schema : list (string * p4fld) :=
  [("slice_id", PPlain u8); ("access_ip", PAccessIP); ("p4rtc_server", PPlain TyStr);
   ("p4rtc_port", PPlain TyStr); ("qfi_tc_mapping", PPlain (TyMapU8 u8)); ("default_tc", PDefaultTC);
   ("clear_state_on_restart", PPlain TyBool)].

(* ------------------------------------------------------------------------------ the record *)
Record conf := Conf {
  mode : string;
  enable_p4rt : bool;
  access_ip : string;
  default_tc : N;
  peers_back : list string;      (* Go slice: every element of the backing array written so far *)
  peers_len : nat;               (* ... and its length *)
  enable_ue_ip_alloc : bool;
  ue_ip_pool : string;
  read_timeout : N;
  log_level : Z;
  max_req_retries : N;
  resp_timeout : string;
  enable_hb : bool;
  hb_interval : string }.

Definition peers (c : conf) : list string := firstn (peers_len c) (peers_back c).

Definition level_info : Z := 0%Z.
Definition tc_elastic : N := 3%N.

Definition init : conf :=
  Conf "" false "" tc_elastic [] 0 false "" 0%N level_info 0%N "" false "".

(* record updates *)
Definition set_mode v c := Conf v (enable_p4rt c) (access_ip c) (default_tc c) (peers_back c) (peers_len c) (enable_ue_ip_alloc c) (ue_ip_pool c) (read_timeout c) (log_level c) (max_req_retries c) (resp_timeout c) (enable_hb c) (hb_interval c).
Definition set_enable_p4rt v c := Conf (mode c) v (access_ip c) (default_tc c) (peers_back c) (peers_len c) (enable_ue_ip_alloc c) (ue_ip_pool c) (read_timeout c) (log_level c) (max_req_retries c) (resp_timeout c) (enable_hb c) (hb_interval c).
Definition set_access_ip v c := Conf (mode c) (enable_p4rt c) v (default_tc c) (peers_back c) (peers_len c) (enable_ue_ip_alloc c) (ue_ip_pool c) (read_timeout c) (log_level c) (max_req_retries c) (resp_timeout c) (enable_hb c) (hb_interval c).
Definition set_default_tc v c := Conf (mode c) (enable_p4rt c) (access_ip c) v (peers_back c) (peers_len c) (enable_ue_ip_alloc c) (ue_ip_pool c) (read_timeout c) (log_level c) (max_req_retries c) (resp_timeout c) (enable_hb c) (hb_interval c).
Definition set_peers b n c := Conf (mode c) (enable_p4rt c) (access_ip c) (default_tc c) b n (enable_ue_ip_alloc c) (ue_ip_pool c) (read_timeout c) (log_level c) (max_req_retries c) (resp_timeout c) (enable_hb c) (hb_interval c).
Definition set_alloc v c := Conf (mode c) (enable_p4rt c) (access_ip c) (default_tc c) (peers_back c) (peers_len c) v (ue_ip_pool c) (read_timeout c) (log_level c) (max_req_retries c) (resp_timeout c) (enable_hb c) (hb_interval c).
Definition set_pool v c := Conf (mode c) (enable_p4rt c) (access_ip c) (default_tc c) (peers_back c) (peers_len c) (enable_ue_ip_alloc c) v (read_timeout c) (log_level c) (max_req_retries c) (resp_timeout c) (enable_hb c) (hb_interval c).
Definition set_read_timeout v c := Conf (mode c) (enable_p4rt c) (access_ip c) (default_tc c) (peers_back c) (peers_len c) (enable_ue_ip_alloc c) (ue_ip_pool c) v (log_level c) (max_req_retries c) (resp_timeout c) (enable_hb c) (hb_interval c).
Definition set_log_level v c := Conf (mode c) (enable_p4rt c) (access_ip c) (default_tc c) (peers_back c) (peers_len c) (enable_ue_ip_alloc c) (ue_ip_pool c) (read_timeout c) v (max_req_retries c) (resp_timeout c) (enable_hb c) (hb_interval c).
Definition set_max_req_retries v c := Conf (mode c) (enable_p4rt c) (access_ip c) (default_tc c) (peers_back c) (peers_len c) (enable_ue_ip_alloc c) (ue_ip_pool c) (read_timeout c) (log_level c) v (resp_timeout c) (enable_hb c) (hb_interval c).
Definition set_resp_timeout v c := Conf (mode c) (enable_p4rt c) (access_ip c) (default_tc c) (peers_back c) (peers_len c) (enable_ue_ip_alloc c) (ue_ip_pool c) (read_timeout c) (log_level c) (max_req_retries c) v (enable_hb c) (hb_interval c).
Definition set_enable_hb v c := Conf (mode c) (enable_p4rt c) (access_ip c) (default_tc c) (peers_back c) (peers_len c) (enable_ue_ip_alloc c) (ue_ip_pool c) (read_timeout c) (log_level c) (max_req_retries c) (resp_timeout c) v (hb_interval c).
Definition set_hb_interval v c := Conf (mode c) (enable_p4rt c) (access_ip c) (default_tc c) (peers_back c) (peers_len c) (enable_ue_ip_alloc c) (ue_ip_pool c) (read_timeout c) (log_level c) (max_req_retries c) (resp_timeout c) (enable_hb c) v.

(* defaults of config.go *)
Definition resp_timeout_default : string := "2s".       (* respTimeoutDefault.String() *)
Definition hb_interval_default : string := "5s".        (* hbIntervalDefault.String() *)
Definition read_timeout_default : N := 15.              (* uint32(readTimeoutDefault.Seconds()) *)
Definition max_req_retries_default : N := 5.

Definition supported_modes : list string := ["af_xdp"; "af_packet"; "cndp"; "dpdk"; "sim"].

Inductive site :=
| SAccessIP | SUEPoolP4 | SModeP4 | SModeBess | SUEPoolAlloc | SPeers | SRespTimeout | SReadTimeout
| SMaxReqRetries | SHBInterval.

Inductive result := Ok (c : conf) | ErrDecode | ErrInvalid (s : site).

Fixpoint fold_opt {A B} (f : A -> B -> option A) (a : A) (l : list B) : option A :=
  match l with
  | [] => Some a
  | b :: r => match f a b with Some a' => fold_opt f a' r | None => None end
  end.

Definition uint_ok (bits : N) (n : numlit) : bool :=
  match n with NInt false m => (m <? 2 ^ bits)%N | _ => false end.

(* strconv.ParseUint(key, 10, 64) and the uint8 overflow check, for map[uint8] keys *)
Definition digit_val (c : ascii) : option N :=
  let n := N_of_ascii c in if ((48 <=? n) && (n <=? 57))%N then Some (n - 48)%N else None.
Fixpoint digits_val (acc : N) (s : string) : option N :=
  match s with
  | EmptyString => Some acc
  | String c r => match digit_val c with Some d => digits_val (acc * 10 + d)%N r | None => None end
  end.
Definition u8_key (s : string) : bool :=
  match s with
  | EmptyString => false
  | _ => match digits_val 0 s with Some v => (v <? 256)%N | None => false end
  end.

Section WithOracles.
  Variable dur_ok : string -> bool.            (* time.ParseDuration(s) succeeds *)
  Variable cidr_ok : string -> bool.           (* net.ParseCIDR(s) succeeds *)
  Variable ip_ok : string -> bool.             (* net.ParseIP(s) != nil *)
  Variable level_of : string -> option Z.      (* zapcore.Level.UnmarshalText(s) *)

  (* does decoding [j] into a target of Go type [t] succeed (the value itself is not kept) *)
  Fixpoint accepts (t : ty) (j : json) {struct j} : bool :=
    match j with
    | JNull => true
    | JBool _ => match t with TyBool => true | _ => false end
    | JNum n => match t with TyUint bits => uint_ok bits n | _ => false end
    | JStr s =>
      match t with
      | TyStr => true
      | TyText KIP => match s with EmptyString => true | _ => ip_ok s end      (* net.IP.UnmarshalText *)
      | TyText KLevel => match level_of s with Some _ => true | None => false end
      | _ => false
      end
    | JArr l => match t with TySlice e => forallb (accepts e) l | _ => false end
    | JObj kv =>
      match t with
      | TyStruct fs =>
        forallb (fun p => let '(k, v) := p in
                          match lookup_name k fs with Some ft => accepts ft v | None => true end) kv
      | TyMapU8 e => forallb (fun p => let '(k, v) := p in u8_key k && accepts e v) kv
      | _ => false
      end
    end.

  Definition dec_str (j : json) (old : string) : option string :=
    match j with JNull => Some old | JStr s => Some s | _ => None end.
  Definition dec_bool (j : json) (old : bool) : option bool :=
    match j with JNull => Some old | JBool b => Some b | _ => None end.
  Definition dec_uint (bits : N) (j : json) (old : N) : option N :=
    match j with
    | JNull => Some old
    | JNum (NInt false m) => if (m <? 2 ^ bits)%N then Some m else None
    | _ => None
    end.
  Definition dec_level (j : json) (old : Z) : option Z :=
    match j with JNull => Some old | JStr s => level_of s | _ => None end.

  (* array into the []string peers: element i decodes into what the backing array holds at i *)
  Fixpoint dec_elems (l : list json) (back : list string) : option (list string) :=
    match l with
    | [] => Some back
    | j :: l' =>
      match dec_str j (hd "" back) with
      | Some s => match dec_elems l' (tl back) with Some b => Some (s :: b) | None => None end
      | None => None
      end
    end.
  Definition dec_peers (j : json) (c : conf) : option conf :=
    match j with
    | JNull => Some (set_peers [] 0 c)
    | JArr [] => Some (set_peers [] 0 c)              (* fresh empty slice *)
    | JArr l => match dec_elems l (peers_back c) with
                | Some b => Some (set_peers b (length l) c)
                | None => None
                end
    | _ => None
    end.

  Definition omap {A B} (f : A -> B) (o : option A) : option B :=
    match o with Some a => Some (f a) | None => None end.

  Definition step_cp (c : conf) (p : string * json) : option conf :=
    let '(k, v) := p in
    match lookup_name k cp_schema with
    | None => Some c
    | Some CPeers => dec_peers v c
    | Some CEnableAlloc => omap (fun b => set_alloc b c) (dec_bool v (enable_ue_ip_alloc c))
    | Some CPool => omap (fun s => set_pool s c) (dec_str v (ue_ip_pool c))
    | Some (CPlain t) => if accepts t v then Some c else None
    end.

  Definition step_p4 (c : conf) (p : string * json) : option conf :=
    let '(k, v) := p in
    match lookup_name k p4_schema with
    | None => Some c
    | Some PAccessIP => omap (fun s => set_access_ip s c) (dec_str v (access_ip c))
    | Some PDefaultTC => omap (fun n => set_default_tc n c) (dec_uint 8 v (default_tc c))
    | Some (PPlain t) => if accepts t v then Some c else None
    end.

  Definition dec_struct (step : conf -> string * json -> option conf) (j : json) (c : conf) : option conf :=
    match j with
    | JNull => Some c
    | JObj kv => fold_opt step c kv
    | _ => None
    end.

  Definition apply_top (f : topfld) (v : json) (c : conf) : option conf :=
    match f with
    | FMode => omap (fun s => set_mode s c) (dec_str v (mode c))
    | FCpiface => dec_struct step_cp v c
    | FP4rtciface => dec_struct step_p4 v c
    | FEnableP4rt => omap (fun b => set_enable_p4rt b c) (dec_bool v (enable_p4rt c))
    | FReadTimeout => omap (fun n => set_read_timeout n c) (dec_uint 32 v (read_timeout c))
    | FLogLevel => omap (fun l => set_log_level l c) (dec_level v (log_level c))
    | FMaxReqRetries => omap (fun n => set_max_req_retries n c) (dec_uint 8 v (max_req_retries c))
    | FRespTimeout => omap (fun s => set_resp_timeout s c) (dec_str v (resp_timeout c))
    | FEnableHB => omap (fun b => set_enable_hb b c) (dec_bool v (enable_hb c))
    | FHBInterval => omap (fun s => set_hb_interval s c) (dec_str v (hb_interval c))
    | FPlain t => if accepts t v then Some c else None
    end.

  Definition step_top (c : conf) (p : string * json) : option conf :=
    let '(k, v) := p in
    match lookup_name k top_schema with
    | None => Some c                                  (* unknown member: skipped *)
    | Some f => apply_top f v c
    end.

  (* json.Unmarshal(text, &conf) on the pre-set record *)
  Definition decode (doc : json) : option conf := dec_struct step_top doc init.

  (* "Set defaults, when missing." *)
  Definition fill (c : conf) : conf :=
    let c1 := if String.eqb (resp_timeout c) "" then set_resp_timeout resp_timeout_default c else c in
    let c2 := if (read_timeout c1 =? 0)%N then set_read_timeout read_timeout_default c1 else c1 in
    let c3 := if (max_req_retries c2 =? 0)%N then set_max_req_retries max_req_retries_default c2 else c2 in
    if enable_hb c3 then
      if String.eqb (hb_interval c3) "" then set_hb_interval hb_interval_default c3 else c3
    else c3.

  Definition mode_supported (m : string) : bool := existsb (String.eqb m) supported_modes.

  (* validateConf, first failing check *)
  Definition validate_common (c : conf) : option site :=
    if enable_ue_ip_alloc c && negb (cidr_ok (ue_ip_pool c)) then Some SUEPoolAlloc
    else if existsb (fun p => negb (ip_ok p)) (peers c) then Some SPeers
    else if negb (dur_ok (resp_timeout c)) then Some SRespTimeout
    else if (read_timeout c =? 0)%N then Some SReadTimeout
    else if (max_req_retries c =? 0)%N then Some SMaxReqRetries
    else if enable_hb c && negb (dur_ok (hb_interval c)) then Some SHBInterval
    else None.

  Definition validate (c : conf) : option site :=
    if enable_p4rt c then
      if negb (cidr_ok (access_ip c)) then Some SAccessIP
      else if negb (cidr_ok (ue_ip_pool c)) then Some SUEPoolP4
      else if negb (String.eqb (mode c) "") then Some SModeP4
      else validate_common c
    else
      if negb (mode_supported (mode c)) then Some SModeBess
      else validate_common c.

  Definition load (doc : json) : result :=
    match decode doc with
    | None => ErrDecode
    | Some raw =>
      let c := fill raw in
      match validate c with
      | Some s => ErrInvalid s
      | None => Ok c
      end
    end.

  (* ---------------------------------------------------------------- the property, as a boolean *)
  Definition defaults_filled_b (c : conf) : bool :=
    negb (String.eqb (resp_timeout c) "") && negb (read_timeout c =? 0)%N && negb (max_req_retries c =? 0)%N
    && (negb (enable_hb c) || negb (String.eqb (hb_interval c) "")).
  Definition durations_ok_b (c : conf) : bool :=
    dur_ok (resp_timeout c) && (negb (enable_hb c) || dur_ok (hb_interval c)).
  Definition mode_ok_b (c : conf) : bool :=
    if enable_p4rt c then String.eqb (mode c) "" else mode_supported (mode c).
  Definition addresses_ok_b (c : conf) : bool :=
    (negb (enable_p4rt c) || (cidr_ok (access_ip c) && cidr_ok (ue_ip_pool c)))
    && (negb (enable_ue_ip_alloc c) || cidr_ok (ue_ip_pool c))
    && forallb ip_ok (peers c).
  Definition validated_b (c : conf) : bool :=
    defaults_filled_b c && durations_ok_b c && mode_ok_b c && addresses_ok_b c.
End WithOracles.

(* does a document mention a member (under Go's name matching) *)
Definition names (f : topfld -> bool) (kv : list (string * json)) : bool :=
  existsb (fun p => match lookup_name (fst p) top_schema with Some g => f g | None => false end) kv.
Definition is_FRespTimeout f := match f with FRespTimeout => true | _ => false end.
Definition is_FReadTimeout f := match f with FReadTimeout => true | _ => false end.
Definition is_FMaxReqRetries f := match f with FMaxReqRetries => true | _ => false end.
Definition is_FHBInterval f := match f with FHBInterval => true | _ => false end.
Definition is_FLogLevel f := match f with FLogLevel => true | _ => false end.
Definition is_FP4rtciface f := match f with FP4rtciface => true | _ => false end.
