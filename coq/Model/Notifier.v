(* Model of the downlink-data-notification path of pfcpiface:
     notifier.go            NewDownlinkDataNotifier / Notify / shouldNotify
     bess.go                notifyListen (datagram -> F-SEID, little-endian, fresh zeroed 512-byte buffer)
     up4.go                 listenToDDNs (4-byte big-endian UE address -> F-SEID through ueAddrToFSEID)
     node.go                Serve, reportNotifyChan branch (first association only)
     messages_session.go    handleDigestReport (session lookup, first core PDR, FAR NOTIFY check, pdrID 0,
                            Session Report Request header and IEs)
     conn.go                getSeqNum (uint32 counter, pre-increment); go-pfcp puts 24 bits on the wire
   Time enters as fields of each event (nanoseconds on the monotonic clock).  No proofs here. *)
From Coq Require Import NArith List Bool.
Import ListNotations.
Open Scope N_scope.

(* ------------------------------------------------------------------ notifier.go *)

(* downlinkDataNotifier.state: sync.Map F-SEID -> time.Time.  Keys are unique (Store replaces). *)
Definition nstate := list (N * N).

Fixpoint nlookup (k : N) (st : nstate) : option N :=
  match st with
  | [] => None
  | (k', v) :: r => if k =? k' then Some v else nlookup k r
  end.

Fixpoint nstore (k v : N) (st : nstate) : nstate :=
  match st with
  | [] => [(k, v)]
  | (k', v') :: r => if k =? k' then (k, v) :: r else (k', v') :: nstore k v r
  end.

(* One datapath report as shouldNotify sees it.  shouldNotify reads the clock twice: [r_check] is
   the reading inside time.Since(lastTimestamp), [r_store] the later time.Now() that is stored
   (for an unknown F-SEID only the second reading happens). *)
Record report := Report { r_fseid : N; r_check : N; r_store : N }.

(* shouldNotify: unknown F-SEID -> store now, true;
   time.Since(last) >= interval -> store now, true; else false and the entry is left alone. *)
Definition should_notify (interval : N) (st : nstate) (r : report) : nstate * bool :=
  match nlookup (r_fseid r) st with
  | None => (nstore (r_fseid r) (r_store r) st, true)
  | Some last =>
      if last + interval <=? r_check r
      then (nstore (r_fseid r) (r_store r) st, true)
      else (st, false)
  end.

(* Notify: what is sent on notifyChan by one call. *)
Definition notify (interval : N) (st : nstate) (r : report) : nstate * list N :=
  let '(st', b) := should_notify interval st r in (st', if b then [r_fseid r] else []).

(* The calls of one listener goroutine, in order, with the decision taken for each. *)
Fixpoint trace_from (interval : N) (st : nstate) (rs : list report) : list (report * bool) :=
  match rs with
  | [] => []
  | r :: rest => let '(st', b) := should_notify interval st r in (r, b) :: trace_from interval st' rest
  end.
Fixpoint state_after (interval : N) (st : nstate) (rs : list report) : nstate :=
  match rs with
  | [] => st
  | r :: rest => state_after interval (fst (should_notify interval st r)) rest
  end.
Definition trace (interval : N) (rs : list report) : list (report * bool) := trace_from interval [] rs.
Definition decisions (interval : N) (rs : list report) : list bool := map snd (trace interval rs).

(* ------------------------------------------------------------------ event sources *)

(* binary.LittleEndian.Uint64(buf[0:8]) where buf is a fresh zeroed 512-byte slice into which the
   datagram was read: missing bytes are 0, bytes after the eighth are ignored. *)
Fixpoint le_bytes (n : nat) (bs : list N) : N :=
  match n with
  | O => 0
  | S k => match bs with
           | [] => 0
           | b :: r => b mod 256 + 256 * le_bytes k r
           end
  end.
Definition bess_event_fseid (datagram : list N) : N := le_bytes 8 datagram.

(* notifyListen: Read error ends the loop.  On the unixpacket (SOCK_SEQPACKET) socket a zero-length
   datagram reads as (0, io.EOF), so it ends the listener like a closed socket does. *)
Fixpoint bess_fseids (datagrams : list (list N)) : list N :=
  match datagrams with
  | [] => []
  | [] :: _ => []
  | d :: rest => bess_event_fseid d :: bess_fseids rest
  end.

(* binary.BigEndian.Uint32(digestData): panics (in the listener goroutine) on fewer than 4 bytes. *)
Definition be32 (bs : list N) : option N :=
  match bs with
  | a :: b :: c :: d :: _ => Some (((a mod 256 * 256 + b mod 256) * 256 + c mod 256) * 256 + d mod 256)
  | _ => None
  end.
Inductive digest_result := DCrash | DIgnored | DFseid (fseid : N).
Definition up4_digest_fseid (ue_to_fseid : list (N * N)) (digest : list N) : digest_result :=
  match be32 digest with
  | None => DCrash
  | Some ue => match nlookup ue ue_to_fseid with
               | None => DIgnored
               | Some f => DFseid f
               end
  end.

(* ------------------------------------------------------------------ handleDigestReport *)

Record pdr := Pdr { p_src : N; p_id : N; p_far : N }.          (* srcIface uint8, pdrID uint32, farID uint32 *)
Record far := Far { f_id : N; f_action : N }.                   (* farID uint32, applyAction uint8 *)
Record session := Session { s_local : N; s_remote : N; s_pdrs : list pdr; s_fars : list far }.
Definition store := list session.                                (* InMemoryStore: sync.Map localSEID -> session *)

Definition core : N := 2.             (* upf.go  core = 0x2 *)
Definition action_notify : N := 8.    (* parse_far.go  ActionNotify = 0x8 *)

Fixpoint get_session (fseid : N) (st : store) : option session :=
  match st with
  | [] => None
  | s :: r => if fseid =? s_local s then Some s else get_session fseid r
  end.

(* PutSession: refuses localSEID 0, otherwise inserts or replaces. *)
Fixpoint put_nonzero (s : session) (st : store) : store :=
  match st with
  | [] => [s]
  | s' :: r => if s_local s =? s_local s' then s :: r else s' :: put_nonzero s r
  end.
Definition put_session (s : session) (st : store) : store :=
  if s_local s =? 0 then st else put_nonzero s st.

(* for _, pdr := range session.pdrs { if pdr.srcIface == core { pdrID, farID = ...; break } } *)
Fixpoint first_core (ps : list pdr) : N * N :=
  match ps with
  | [] => (0, 0)
  | p :: r => if p_src p =? core then (p_id p, p_far p) else first_core r
  end.

(* some FAR with that id has applyAction & ActionNotify == 0 *)
Definition far_blocks (far_id : N) (fars : list far) : bool :=
  existsb (fun f => (f_id f =? far_id) && (N.land (f_action f) action_notify =? 0)) fars.

(* a Session Report Request as it appears on the wire *)
Record srr := Srr { m_seid : N;          (* header SEID (S flag set) *)
                    m_seq : N;           (* 24-bit sequence number field *)
                    m_report_type : N;   (* Report Type octet: DLDR = 1 *)
                    m_pdr_ids : list N   (* PDR ID IEs inside the Downlink Data Report *) }.

(* result: the connection's sequence counter afterwards, and the messages written to the peer *)
Definition handle_digest_report (st : store) (seq : N) (fseid : N) : N * list srr :=
  match get_session fseid st with
  | None => (seq, [])                                   (* return before getSeqNum *)
  | Some s =>
      let seq' := (seq + 1) mod 2 ^ 24 in               (* getSeqNum: seq = (seq + 1) & 0xFFFFFF *)
      let '(pid, fid) := first_core (s_pdrs s) in
      if far_blocks fid (s_fars s) then (seq', [])
      else if pid =? 0 then (seq', [])
      else (seq', [Srr (s_remote s) (seq' mod 2 ^ 24) 1 (pid mod 2 ^ 16 :: nil)])
  end.

(* ------------------------------------------------------------------ node.go Serve *)

(* reportNotifyChan branch: pConns.Range(... return false): only the first association visited
   gets the report ("TODO: Logic to distinguish PFCPConn based on SEID"); none -> dropped.
   One association is modelled; an association = its store and its sequence counter. *)
Record assoc := Assoc { a_store : store; a_seq : N }.
Definition serve_report (a : option assoc) (fseid : N) : option assoc * list srr :=
  match a with
  | None => (None, [])
  | Some c => let '(seq', out) := handle_digest_report (a_store c) (a_seq c) fseid in
              (Some (Assoc (a_store c) seq'), out)
  end.

(* reports flowing through the whole agent: listener -> notifier -> channel -> Serve -> handleDigestReport *)
Fixpoint pipeline_from (interval : N) (ns : nstate) (st : store) (seq : N) (rs : list report)
  : list (report * bool * list srr) :=
  match rs with
  | [] => []
  | r :: rest =>
      let '(ns', b) := should_notify interval ns r in
      if b then let '(seq', out) := handle_digest_report st seq (r_fseid r) in
                (r, true, out) :: pipeline_from interval ns' st seq' rest
      else (r, false, []) :: pipeline_from interval ns' st seq rest
  end.
Definition pipeline (interval : N) (st : store) (seq : N) (rs : list report) := pipeline_from interval [] st seq rs.
