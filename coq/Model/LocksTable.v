(* C11: the restrictions of the generated lock table (Gen/Locks_gen.v) that the theorems speak about.
   No proofs here. *)
From Coq Require Import String List Bool.
From UPF Require Import Model.Locks Gen.Locks_gen.
Import ListNotations.
Local Open Scope string_scope.

(* the plain Go maps of the UP4 plug-in (F22, repaired by UP4.sessionStateMu) *)
Definition session_state_fields : list string := ["UP4.fseidToUEAddr"; "UP4.meters"; "UP4.ueAddrToFSEID"].
(* fields that UP4.tryConnect re-creates (under tryConnectMu only) when the datapath connection was lost *)
Definition reconnect_fields : list string :=
  ["UP4.appMeterCellIDsPool"; "UP4.endMarkerChan"; "UP4.p4RtTranslator"; "UP4.p4client";
   "UP4.sessMeterCellIDsPool"; "counter.counterIDsPool"].

Definition bess_table : list access := request_fields_of bess_owners tbl.
Definition pool_table : list access := request_fields_of pool_owners tbl.
Definition up4_table : list access := request_fields_of up4_owners tbl.
Definition up4_run_table : list access := without_reinit up4_table.
(* the rows of the three maps: all of them hold this lock *)
Definition session_state_rows : list access := filter (fun a => mem_s (a_field a) session_state_fields) up4_run_table.

Definition has_conflict (t : list access) : bool := existsb (fun a1 => existsb (conflict a1) t) t.
Definition has_field (t : list access) (f : string) : bool := existsb (fun a => String.eqb (a_field a) f) t.


(* The atomic steps the C11 argument relies on, with the source function that has to implement each as ONE lock
   region ([true]: including the datapath write):
   - IP pool and TEID generator methods are the operations of Model/IPPool.v and Model/Fteid.v whose interleavings
     C11_ippool_renaming / C11_teid_fresh (and C06 / C07) quantify over;
   - "find or create the tunnel peer, write it to the switch, record it" and "drop the reference, and if it was the last
     one delete the entry and release the id" are single steps of the tunnel-peer protocol: only then is every reachable
     state one in which tunnel_peers holds exactly the peers that live sessions refer to;
   - the two UE-address maps are updated together;
   - the application bookkeeping (reference sets, id pool) is one step each way; its datapath write is NOT part of the
     step in the code (see C11_application_write_outside_refuted, F1102). *)
Definition atomic_steps : list atomic_req :=
  [("IPPool.LookupOrAllocIP", false); ("IPPool.DeallocIP", false);
   ("FTEIDGenerator.Allocate", false); ("FTEIDGenerator.FreeID", false); ("FTEIDGenerator.IsAllocated", false);
   ("UP4.addOrUpdateGTPTunnelPeer", true); ("UP4.removeGTPTunnelPeer", true); ("UP4.getGTPTunnelPeer", false);
   ("UP4.updateUEAddrAndFSEIDMappings", false); ("UP4.removeUeAddrAndFSEIDMappings", false);
   ("UP4.addInternalApplicationIDAndGetP4rtEntry", false); ("UP4.removeInternalApplicationIDAndGetP4rtEntry", false)].
Definition application_steps_with_write : list atomic_req :=
  [("UP4.addInternalApplicationIDAndGetP4rtEntry", true); ("UP4.removeInternalApplicationIDAndGetP4rtEntry", true)].
