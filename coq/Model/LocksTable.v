(* C11: the restrictions of the generated lock table (Gen/Locks_gen.v) that the theorems speak about.
   No proofs here. *)
From Coq Require Import String List Bool.
From UPF Require Import Model.Locks Gen.Locks_gen.
Import ListNotations.
Local Open Scope string_scope.

(* the plain Go maps of the UP4 plug-in (F22, repaired by UP4.sessionStateMu) *)
Definition session_state_fields : list string := ["UP4.fseidToUEAddr"; "UP4.meters"; "UP4.ueAddrToFSEID"].
(* fields that UP4.tryConnect re-creates (under tryConnectMu only) when the datapath connection was lost *)
Definition reconnect_fields : list string :=
  ["UP4.appMeterCellIDsPool"; "UP4.endMarkerChan"; "UP4.p4RtTranslator"; "UP4.p4client";
   "UP4.sessMeterCellIDsPool"; "counter.counterIDsPool"].

Definition bess_table : list access := request_fields_of bess_owners tbl.
Definition pool_table : list access := request_fields_of pool_owners tbl.
Definition up4_table : list access := request_fields_of up4_owners tbl.
Definition up4_run_table : list access := without_reinit up4_table.
(* the rows of the three maps: all of them hold this lock *)
Definition session_state_rows : list access := filter (fun a => mem_s (a_field a) session_state_fields) up4_run_table.

Definition has_conflict (t : list access) : bool := existsb (fun a1 => existsb (conflict a1) t) t.
Definition has_field (t : list access) (f : string) : bool := existsb (fun a => String.eqb (a_field a) f) t.

