(* Model of pfcpiface/parse_sdf.go (parseFlowDesc, parseNet, parsePort, parseL4Proto, parseAction,
   parseDirection), of the filter part of parse_pdr.go (parsePDI pre-fill, parseSDFFilter,
   parseApplicationID, parsePDR's tolerance of errBadFilterDesc) and of messages_conn.go
   handlePFDMgmtRequest with pfd.go.

   Strings are [list ascii] (bytes).  The library calls are modelled on ASCII text:
     strings.Fields      - split on \t \n \v \f \r and space, empty fields dropped
     strings.Split       - [split_on]
     strconv.ParseUint   - base 10: non-empty, digits only (no sign, no underscore), value < 2^bits
     net.ParseCIDR       - IPv4 text only (Go 1.24: netip.ParseAddr, octets 0..255 WITHOUT leading
                           zeros; prefix length through dtoi: digits, leading zeros allowed, <= 32);
                           IPv6 text (a ':' in the token) is outside the model
     net.IP.String       - dotted decimal of a 4-byte address ([print_ip])
   Where the Go code indexes a slice the model uses [nth_error] and yields [PCrash] when the index
   is out of range, so "never crashes" is a theorem about the bounds checks, not a convention.
   No proofs in this file. *)
From Coq Require Import NArith List Bool Ascii String.
From UPF Require Import Base.Words Model.PortRange.
Import ListNotations.
Open Scope N_scope.

Definition str := list ascii.
Definition K (s : string) : str := list_ascii_of_string s.

Fixpoint leqb (a b : str) : bool :=
  match a, b with
  | [], [] => true
  | x :: a', y :: b' => Ascii.eqb x y && leqb a' b'
  | _, _ => false
  end.

(* ---------------------------------------------------------------- library functions on ASCII *)

Definition is_space (c : ascii) : bool :=
  let n := N_of_ascii c in ((9 <=? n) && (n <=? 13)) || (n =? 32).

(* strings.Fields *)
Fixpoint fields (s : str) : list str :=
  match s with
  | [] => []
  | c :: r =>
    if is_space c then fields r
    else match r with
         | [] => [[c]]
         | d :: _ =>
           if is_space d then [c] :: fields r
           else match fields r with
                | t :: ts => (c :: t) :: ts
                | [] => [[c]]
                end
         end
  end.

(* strings.Split(s, sep) for a one-byte separator: always at least one part *)
Fixpoint split_on (sep : ascii) (s : str) : list str :=
  match s with
  | [] => [[]]
  | c :: r =>
    if Ascii.eqb c sep then [] :: split_on sep r
    else match split_on sep r with
         | t :: ts => (c :: t) :: ts
         | [] => [[c]]
         end
  end.

(* s[:i], s[i+1:] at the first occurrence of sep (bytealg.IndexByteString) *)
Fixpoint cut_first (sep : ascii) (s : str) : option (str * str) :=
  match s with
  | [] => None
  | c :: r =>
    if Ascii.eqb c sep then Some ([], r)
    else match cut_first sep r with
         | Some (a, b) => Some (c :: a, b)
         | None => None
         end
  end.

Definition digit_of (c : ascii) : option N :=
  let n := N_of_ascii c in if (48 <=? n) && (n <=? 57) then Some (n - 48) else None.

Fixpoint dec_acc (s : str) (acc : N) : option N :=
  match s with
  | [] => Some acc
  | c :: r => match digit_of c with Some d => dec_acc r (10 * acc + d) | None => None end
  end.
(* non-empty, digits only *)
Definition parse_dec (s : str) : option N :=
  match s with [] => None | _ => dec_acc s 0 end.

(* strconv.ParseUint(s, 10, bits): err == nil *)
Definition parse_uint (bits : N) (s : str) : option N :=
  match parse_dec s with
  | Some v => if v <? 2 ^ bits then Some v else None
  | None => None
  end.

(* decimal printer (strconv / fmt of a non-negative integer) *)
Definition digit_char (d : N) : ascii := ascii_of_N (48 + d).
Fixpoint print_dec_fuel (fuel : nat) (n : N) : str :=
  match fuel with
  | O => [digit_char (n mod 10)]
  | S f => if n <? 10 then [digit_char n] else print_dec_fuel f (n / 10) ++ [digit_char (n mod 10)]
  end.
(* 20 decimal digits of fuel: exact for every n < 10^21, i.e. for all 64-bit values *)
Definition DEC_FUEL : nat := 20.
Definition print_dec (n : N) : str := print_dec_fuel DEC_FUEL n.

Definition dot : ascii := "."%char.
Definition slash : ascii := "/"%char.
Definition dash : ascii := "-"%char.

(* net.IP.String of int2ip(n) *)
Definition print_ip (n : N) : str :=
  print_dec (n / 2 ^ 24) ++ dot :: print_dec ((n / 2 ^ 16) mod 256) ++ dot ::
  print_dec ((n / 2 ^ 8) mod 256) ++ dot :: print_dec (n mod 256).

(* one octet of netip.parseIPv4: digits, value <= 255, no leading zero *)
Definition parse_octet (s : str) : option N :=
  match s with
  | [] => None
  | c :: r =>
    if Ascii.eqb c "0"%char && negb (match r with [] => true | _ => false end) then None
    else match parse_dec s with
         | Some v => if v <=? 255 then Some v else None
         | None => None
         end
  end.

Definition parse_ipv4 (s : str) : option N :=
  match split_on dot s with
  | [a; b; c; d] =>
    match parse_octet a, parse_octet b, parse_octet c, parse_octet d with
    | Some a, Some b, Some c, Some d => Some (a * 2 ^ 24 + b * 2 ^ 16 + c * 2 ^ 8 + d)
    | _, _, _, _ => None
    end
  | _ => None
  end.

(* net.CIDRMask(len, 32) as a number *)
Definition mask_of (len : N) : N := himask 32 (32 - len).

(* net.ParseCIDR on IPv4 text; result = (IPNet.IP, IPNet.Mask) as numbers, IP already masked *)
Definition parse_cidr (s : str) : option (N * N) :=
  match cut_first slash s with
  | None => None
  | Some (addr, m) =>
    match parse_ipv4 addr with
    | None => None
    | Some ip =>
      match parse_dec m with          (* dtoi: all of m are digits, at least one *)
      | Some len => if len <=? 32 then Some (N.land ip (mask_of len), mask_of len) else None
      | None => None
      end
    end
  end.

(* ---------------------------------------------------------------- parse_sdf.go *)

Definition RESERVED_PROTO : N := 255.
Definition WILDCARD_NET : str := K "0.0.0.0/0".
Definition wild_ports : prange := PR 0 MAX16.             (* newWildcardPortRange *)

(* endpoint.parseNet *)
Definition parse_net (s : str) : option (N * N) :=
  match split_on slash s with
  | [a] => parse_cidr (a ++ K "/32")
  | [_; _] => parse_cidr s
  | _ => None
  end.

(* endpoint.parsePort *)
Definition parse_port (s : str) : option prange :=
  let parts := match split_on dash s with [a] => [a; a] | l => l end in
  match parts with
  | [a; b] =>
    match parse_uint 16 a with
    | None => None
    | Some low =>
      match parse_uint 16 b with
      | None => None
      | Some high => if high <? low then None else Some (new_range low high)
      end
    end
  | _ => None
  end.

Definition parse_action (s : str) : bool := leqb s (K "permit") || leqb s (K "deny").
Definition parse_direction (s : str) : bool := leqb s (K "in") || leqb s (K "out").

(* parseL4Proto; the caller ignores the error *)
Definition parse_proto (s : str) : N :=
  match parse_uint 8 s with
  | Some p => p
  | None => if leqb s (K "udp") then 17 else if leqb s (K "tcp") then 6 else RESERVED_PROTO
  end.

(* the xform closure *)
Definition xform (ue t : str) : str :=
  if leqb t (K "any") then WILDCARD_NET
  else if leqb t (K "assigned") then
    if leqb ue (K "0.0.0.0") then WILDCARD_NET
    else if negb (leqb ue []) && negb (leqb ue (K "<nil>")) then ue
    else WILDCARD_NET
  else t.

Record rule := Rule {
  r_action : str; r_dir : str; r_proto : N;
  r_src : option (N * N); r_sports : prange;        (* src.IPNet (nil = None), src.ports *)
  r_dst : option (N * N); r_dports : prange }.

(* PErrBad = errBadFilterDesc, PErrOther = any other error, PCrash = index out of range / nil
   dereference, PFuel = the model's loop fuel ran out (proved impossible) *)
Inductive pres (A : Type) := POk (a : A) | PErrBad | PErrOther | PCrash | PFuel.
Arguments POk {A} a. Arguments PErrBad {A}. Arguments PErrOther {A}. Arguments PCrash {A}. Arguments PFuel {A}.

Definition set_src (r : rule) (n : N * N) := Rule (r_action r) (r_dir r) (r_proto r) (Some n) (r_sports r) (r_dst r) (r_dports r).
Definition set_sports (r : rule) (p : prange) := Rule (r_action r) (r_dir r) (r_proto r) (r_src r) p (r_dst r) (r_dports r).
Definition set_dst (r : rule) (n : N * N) := Rule (r_action r) (r_dir r) (r_proto r) (r_src r) (r_sports r) (Some n) (r_dports r).
Definition set_dports (r : rule) (p : prange) := Rule (r_action r) (r_dir r) (r_proto r) (r_src r) (r_sports r) (r_dst r) p.

(* for i := 3; i < len(fields); i++ { switch fields[i] ... } with the code's index arithmetic.
   [i] is the loop variable at the top of an iteration; every fields[...] is an [nth_error]. *)
Fixpoint loop (fuel : nat) (fs : list str) (ue : str) (i : nat) (st : rule) : pres rule :=
  match fuel with
  | O => PFuel
  | S f =>
    if Nat.leb (List.length fs) i then POk st                       (* i < len(fields) fails *)
    else
      match nth_error fs i with
      | None => PCrash
      | Some t =>
        if leqb t (K "from") then
          let i := S i in                                      (* i++ *)
          if Nat.leb (List.length fs) i then PErrBad                (* i >= len(fields) *)
          else match nth_error fs i with
               | None => PCrash
               | Some a =>
                 match parse_net (xform ue a) with
                 | None => PErrOther
                 | Some n =>
                   let st := set_src st n in
                   if Nat.ltb (S i) (List.length fs) then           (* i+1 < len(fields) && ... *)
                     match nth_error fs (S i) with
                     | None => PCrash
                     | Some p =>
                       if leqb p (K "to") then loop f fs ue (S i) st
                       else
                         let i := S i in                       (* i++ *)
                         match parse_port p with
                         | None => PErrOther
                         | Some pr => loop f fs ue (S i) (set_sports st pr)
                         end
                     end
                   else loop f fs ue (S i) st
                 end
               end
        else if leqb t (K "to") then
          let i := S i in
          if Nat.leb (List.length fs) i then PErrBad
          else match nth_error fs i with
               | None => PCrash
               | Some a =>
                 match parse_net (xform ue a) with
                 | None => PErrOther
                 | Some n =>
                   let st := set_dst st n in
                   if Nat.ltb i (List.length fs - 1) then           (* i < len(fields)-1 *)
                     let i := S i in
                     match nth_error fs i with
                     | None => PCrash
                     | Some p =>
                       match parse_port p with
                       | None => PErrOther
                       | Some pr => loop f fs ue (S i) (set_dports st pr)
                       end
                     end
                   else loop f fs ue (S i) st
                 end
               end
        else loop f fs ue (S i) st
      end
  end.

Definition parse_tokens (fs : list str) (ue : str) : pres rule :=
  if Nat.ltb (List.length fs) 3 then PErrBad
  else
    match nth_error fs 0, nth_error fs 1, nth_error fs 2 with
    | Some a, Some d, Some p =>
      if negb (parse_action a) then PErrBad
      else if negb (parse_direction d) then PErrBad
      else
        let st0 := Rule a d (parse_proto p) None wild_ports None wild_ports in
        match loop (S (List.length fs)) fs ue 3 st0 with
        | POk st =>
          match r_src st, r_dst st with
          | Some _, Some _ => POk st
          | _, _ => PErrBad                                    (* the final nil check *)
          end
        | e => e
        end
    | _, _, _ => PCrash
    end.

(* parseFlowDesc(flowDesc, ueIP) *)
Definition parse_flow_desc (desc ue : str) : pres rule := parse_tokens (fields desc) ue.

(* ---------------------------------------------------------------- parse_pdr.go (filter part) *)

Record afilter := AF {
  f_src_ip : N; f_dst_ip : N; f_sports : prange; f_dports : prange; f_proto : N;
  f_src_mask : N; f_dst_mask : N; f_proto_mask : N }.

Definition zero_filter : afilter := AF 0 0 (PR 0 0) (PR 0 0) 0 0 0 0.

(* p.srcIface after parseSourceInterfaceIE: access = 1, core = 2, anything else leaves 0 *)
Inductive iface := Access | Core | NoIface.

Definition MAX32 : N := 4294967295.

(* parsePDI: "initialize application filter with UE address" *)
Definition prefill (i : iface) (ue : N) : afilter :=
  if ue =? 0 then zero_filter
  else match i with
       | Core => AF 0 ue (PR 0 0) (PR 0 0) 0 0 MAX32 0
       | Access => AF ue 0 (PR 0 0) (PR 0 0) 0 MAX32 0 0
       | NoIface => zero_filter
       end.

Definition with_proto (f : afilter) (p : N) : afilter :=
  if p =? RESERVED_PROTO then f
  else AF (f_src_ip f) (f_dst_ip f) (f_sports f) (f_dports f) p (f_src_mask f) (f_dst_mask f) 255.

Definition net_ip (n : option (N * N)) : N := match n with Some (ip, _) => ip | None => 0 end.
Definition net_mask (n : option (N * N)) : N := match n with Some (_, m) => m | None => 0 end.

(* the body of parseSDFFilter after a successful parseFlowDesc *)
Definition orient_sdf (i : iface) (r : rule) (f : afilter) : afilter :=
  let f := with_proto f (r_proto r) in
  match i with
  | Core =>
    let sp := r_sports r in let dp := r_dports r in
    let '(sp, dp) := if negb (is_wild dp) then (dp, wild_ports) else (sp, dp) in
    AF (net_ip (r_src r)) (net_ip (r_dst r)) sp dp (f_proto f)
       (net_mask (r_src r)) (net_mask (r_dst r)) (f_proto_mask f)
  | Access =>
    let dp := r_sports r in let sp := r_dports r in
    let '(sp, dp) := if negb (is_wild sp) then (wild_ports, sp) else (sp, dp) in
    AF (net_ip (r_dst r)) (net_ip (r_src r)) sp dp (f_proto f)
       (net_mask (r_dst r)) (net_mask (r_src r)) (f_proto_mask f)
  | NoIface => f
  end.

(* the assignment block of parseApplicationID: the flow description taken as it is *)
Definition verbatim (r : rule) (f : afilter) : afilter :=
  let f := with_proto f (r_proto r) in
  AF (net_ip (r_src r)) (net_ip (r_dst r)) (r_sports r) (r_dports r) (f_proto f)
     (net_mask (r_src r)) (net_mask (r_dst r)) (f_proto_mask f).

(* error classes seen by parsePDR *)
Inductive ferr := EBad | EOther.

Definition ue_text (ue : N) : str := print_ip ue.       (* int2ip(p.ueAddress).String() *)

(* parseSDFFilter; [o] is the outcome of ie.SDFFilter(): None = accessor error, else FlowDescription *)
Definition parse_sdf_filter (i : iface) (ue : N) (o : option str) (f : afilter) : afilter * option ferr :=
  match o with
  | None => (f, Some EOther)
  | Some [] => (f, Some EOther)                                 (* "empty filter description" *)
  | Some desc =>
    match parse_flow_desc desc (ue_text ue) with
    | POk r => (orient_sdf i r f, None)
    | _ => (f, Some EBad)          (* every parseFlowDesc error is turned into errBadFilterDesc *)
    end
  end.

(* application PFD table: a Go map; keys unique by construction *)
Definition table := list (str * list str).
Fixpoint tbl_lookup (k : str) (t : table) : option (list str) :=
  match t with
  | [] => None
  | (k', v) :: r => if leqb k k' then Some v else tbl_lookup k r
  end.
Fixpoint tbl_remove (k : str) (t : table) : table :=
  match t with
  | [] => []
  | (k', v) :: r => if leqb k k' then tbl_remove k r else (k', v) :: tbl_remove k r
  end.
Definition tbl_set (k : str) (v : list str) (t : table) : table := (k, v) :: tbl_remove k t.

Definition dir_matches (i : iface) (d : str) : bool :=
  match i with
  | Access => leqb d (K "out")
  | Core => leqb d (K "in")
  | NoIface => false
  end.

(* the loop of parseApplicationID over apfd.flowDescs *)
Fixpoint app_scan (i : iface) (ue : N) (descs : list str) (f : afilter) : afilter * option ferr :=
  match descs with
  | [] => (f, None)
  | d :: r =>
    match parse_flow_desc d (ue_text ue) with
    | POk rl => if dir_matches i (r_dir rl) then (verbatim rl f, None) else app_scan i ue r f
    | _ => (f, Some EBad)
    end
  end.

Definition parse_application_id (i : iface) (ue : N) (t : table) (o : option str) (f : afilter)
  : afilter * option ferr :=
  match o with
  | None => (f, Some EOther)
  | Some id =>
    match tbl_lookup id t with
    | None => (f, Some EOther)                                   (* ErrNotFoundWithParam *)
    | Some descs => app_scan i ue descs f
    end
  end.

Inductive item := ISdf (o : option str) | IApp (o : option str).

(* second loop of parsePDI: stops at the first error *)
Fixpoint pdi_items (i : iface) (ue : N) (t : table) (its : list item) (f : afilter)
  : afilter * option ferr :=
  match its with
  | [] => (f, None)
  | it :: r =>
    let '(f', e) := match it with
                    | ISdf o => parse_sdf_filter i ue o f
                    | IApp o => parse_application_id i ue t o f
                    end in
    match e with
    | Some _ => (f', e)
    | None => pdi_items i ue t r f'
    end
  end.

Inductive pdr_res := Rejected | Accepted (f : afilter).

(* parsePDR as far as the application filter is concerned: errBadFilterDesc is tolerated *)
Definition parse_pdr (i : iface) (ue : N) (t : table) (its : list item) : pdr_res :=
  match pdi_items i ue t its (prefill i ue) with
  | (_, Some EOther) => Rejected
  | (f, _) => Accepted f
  end.

(* parseSourceInterfaceIE on the PFCP Source Interface value: Access 0, Core 1, CP-function 3 is
   refused (the PDR is rejected before any filter work), every other value leaves srcIface 0 *)
Definition src_iface_of (v : N) : option iface :=
  if v =? 0 then Some Access else if v =? 1 then Some Core else if v =? 3 then None else Some NoIface.

Definition parse_pdr_wire (v ue : N) (t : table) (its : list item) : pdr_res :=
  match src_iface_of v with
  | None => Rejected
  | Some i => parse_pdr i ue t its
  end.

(* ---------------------------------------------------------------- handlePFDMgmtRequest *)

(* one Application ID's PFDs IE as seen through the go-pfcp accessors the handler calls:
   ApplicationID() (None = error) and the PFD Context IEs it carries, in order; a context is None
   when its PFDContext() accessor fails, else the list of its children with the outcome of
   PFDContents() (None = error, Some fd = FlowDescription).
   allPFDContents (messages_conn.go) walks every PFD Context child in order: the first unreadable
   one is an error, no context at all is ErrIENotFound, otherwise the children are concatenated. *)
Record app_ie := AppIE { a_id : option str; a_ctxs : list (option (list (option str))) }.

Fixpoint all_contents (cs : list (option (list (option str)))) : option (list (option str)) :=
  match cs with
  | [] => Some []
  | None :: _ => None
  | Some c :: r => match all_contents r with Some l => Some (c ++ l) | None => None end
  end.

Definition a_ctx (a : app_ie) : option (list (option str)) :=
  match a_ctxs a with [] => None | cs => all_contents cs end.

Inductive fill_res := FillOk (ds : list str) | FillErrRemove | FillErrKeep.

Fixpoint fill (cs : list (option str)) (acc : list str) : fill_res :=
  match cs with
  | [] => FillOk acc
  | None :: _ => FillErrRemove                    (* RemoveAppPFD(id); errUnmarshalReply *)
  | Some [] :: _ => FillErrKeep                   (* errFlowDescAbsent: no RemoveAppPFD *)
  | Some d :: r => fill r (acc ++ [d])
  end.

(* errUnmarshalReply: pConn.appPFDs = currentAppPFDs, whatever the new map holds by then *)
Definition restore (old new : table) : table * bool := (old, false).

Fixpoint pfd_loop (old new : table) (req : list app_ie) : table * bool :=
  match req with
  | [] => (new, true)
  | a :: r =>
    match a_id a with
    | None => restore old new
    | Some id =>
      let new1 := tbl_set id [] new in                              (* NewAppPFD(id) *)
      match a_ctx a with
      | None => restore old (tbl_remove id new1)
      | Some cs =>
        match fill cs [] with
        | FillErrRemove => restore old (tbl_remove id new1)
        | FillErrKeep => restore old new1
        | FillOk ds => pfd_loop old (tbl_set id ds new1) r
        end
      end
    end
  end.

(* returns the table afterwards and whether the cause is Request accepted *)
Definition handle_pfd (old : table) (req : list app_ie) : table * bool := pfd_loop old [] req.

(* ---------------------------------------------------------------- meaning of a filter *)

Record packet := Pkt { k_src : N; k_dst : N; k_sport : N; k_dport : N; k_proto : N }.

(* value/mask match as the datapaths do it (the value is stored masked), ports as in C17 *)
Definition fmatch (f : afilter) (k : packet) : bool :=
  (N.land (k_src k) (f_src_mask f) =? f_src_ip f) &&
  (N.land (k_dst k) (f_dst_mask f) =? f_dst_ip f) &&
  (N.land (k_proto k) (f_proto_mask f) =? f_proto f) &&
  in_range (f_sports f) (k_sport k) && in_range (f_dports f) (k_dport k).
