(* Model of the sequential PFCP agent: messages.go (dispatch), messages_conn.go, messages_session.go,
   parse_pdr.go / parse_far.go / parse_qer.go (IE -> rule), session_*.go (rule lists with Go slice
   aliasing, MarkSessionQer), sessions.go, local_store.go, conn.go (Shutdown, sequentially) and the
   BESS plug-in's translation of rules into module commands (bess.go).

   Input is the datagram as go-pfcp decodes it: for every IE the handler reads, the outcome of the
   accessor it calls ([IErr] = the accessor returned an error, [None] = the IE is absent).  Flow
   descriptions arrive already tokenised and parsed (FlowDesc model is separate): [flow] is the
   symbolic result of parseFlowDesc in which "assigned" is still a marker.  Strings (node ids,
   application ids) are interned as numbers by the harness, 0 being the empty string.
   No proofs here. *)
From Coq Require Import NArith List Bool.
From UPF Require Import Model.IPPool Model.Fteid Model.PortRange.
Import ListNotations.
Open Scope N_scope.

Definition M32 : N := 4294967295.
Definition M8 : N := 255.

(* ------------------------------------------------------------------ decoded input *)
Inductive acc (A : Type) := IErr | IOk (a : A).
Arguments IErr {A}.
Arguments IOk {A} a.

Record ep := EP { e_assigned : bool; e_ip : N; e_mask : N; e_lo : N; e_hi : N }.
(* direction: 0 = "in", 1 = "out" *)
Inductive flow := FlowErr | Flow (dirn proto : N) (src dst : ep).

Inductive pdi_el :=
| PSrc (v : acc N)
| PFteid (v : acc (bool * N * option N))
| PUeip (v : acc (N * option N))
| PSdf (v : acc flow)            (* IErr: accessor error or empty description *)
| PApp (v : acc N)
| POther.

Record pdr_ie := PdrIE { pi_id : acc N; pi_prec : acc N; pi_pdi : acc (list pdi_el); pi_decap : bool;
                         pi_far : acc N; pi_group_ok : bool; pi_qers : list N }.

Inductive fwd_el := FOhc (v : acc (N * option N)) | FDst (v : acc N) | FSm (v : acc N) | FOther.
(* fi_fwd_c: ForwardingParameters() of a Create FAR; fi_fwd_u: UpdateForwardingParameters() of an Update FAR *)
Record far_ie := FarIE { fi_id : acc N; fi_action : acc N; fi_fwd_c : acc (list fwd_el); fi_fwd_u : acc (list fwd_el) }.
Record qer_ie := QerIE { qi_id : acc N; qi_qfi : N; qi_gul : N; qi_gdl : N; qi_mul : N; qi_mdl : N; qi_gbul : N; qi_gbdl : N }.

(* one PFD content: accessor error | flow description (interned text, parsed); text 0 = empty *)
Definition pfd_content := acc (N * flow).
Record pfd_app := PfdApp { pa_id : acc N; pa_ctx : acc (list pfd_content) }.

Inductive msg :=
| MHeartbeat
| MSetup (nodeid : option (acc N)) (rts : option (acc N))
| MRelease
| MPfd (apps : list pfd_app)
| MEst (nodeid : option (acc N)) (cpfseid : option (acc (N * option N))) (pdrs : list pdr_ie) (fars : list far_ie) (qers : list qer_ie)
| MMod (seid : N) (cpfseid : option (acc (N * option N)))
       (cp : list pdr_ie) (cf : list far_ie) (cq : list qer_ie)
       (up : list pdr_ie) (uf : list far_ie) (uq : list qer_ie)
       (rp rf rq : list (acc N))
| MDel (seid : N)
| MReportRsp (seid : N) (cause : option (acc N))
| MResponse
| MOther.

(* ------------------------------------------------------------------ rules *)
Record pdr := Pdr {
  p_id : N; p_fseid : N; p_iface : N; p_iface_m : N; p_tdst : N; p_tdst_m : N; p_teid : N; p_teid_m : N;
  p_ue : N; p_prec : N; p_far : N; p_qers : list N; p_decap : N; p_alloc : bool; p_choose : bool;
  f_sip : N; f_sip_m : N; f_dip : N; f_dip_m : N; f_sp : prange; f_dp : prange; f_proto : N; f_proto_m : N }.

Record far := Far { a_id : N; a_fseid : N; a_dst : N; a_em : bool; a_action : N; a_ttype : N; a_tsrc : N; a_tdst : N;
                    a_teid : N; a_tport : N }.
Record qer := Qer { q_id : N; q_fseid : N; q_level : N; q_qfi : N; q_ul : N; q_dl : N; q_mul : N; q_mdl : N; q_gul : N; q_gdl : N }.

Definition pdr0 : pdr := Pdr 0 0 0 0 0 0 0 0 0 0 0 [] 0 false false 0 0 0 0 (PR 0 0) (PR 0 0) 0 0.
Definition far0 : far := Far 0 0 0 false 0 0 0 0 0 0.

Definition ip2int (o : option N) : N := match o with Some a => a | None => 0 end.
Definition wild_range : prange := PR 0 65535.

Definition set_tunnel (p : pdr) (teid tdst : N) : pdr :=
  Pdr (p_id p) (p_fseid p) (p_iface p) (p_iface_m p) tdst M32 teid M32 (p_ue p) (p_prec p) (p_far p) (p_qers p) (p_decap p)
      (p_alloc p) (p_choose p) (f_sip p) (f_sip_m p) (f_dip p) (f_dip_m p) (f_sp p) (f_dp p) (f_proto p) (f_proto_m p).
Definition clear_tunnel (p : pdr) : pdr :=
  Pdr (p_id p) (p_fseid p) (p_iface p) (p_iface_m p) 0 0 0 0 (p_ue p) (p_prec p) (p_far p) (p_qers p) (p_decap p)
      (p_alloc p) (p_choose p) (f_sip p) (f_sip_m p) (f_dip p) (f_dip_m p) (f_sp p) (f_dp p) (f_proto p) (f_proto_m p).
Definition set_choose (p : pdr) : pdr :=
  Pdr (p_id p) (p_fseid p) (p_iface p) (p_iface_m p) (p_tdst p) (p_tdst_m p) (p_teid p) (p_teid_m p) (p_ue p) (p_prec p) (p_far p)
      (p_qers p) (p_decap p) (p_alloc p) true (f_sip p) (f_sip_m p) (f_dip p) (f_dip_m p) (f_sp p) (f_dp p) (f_proto p) (f_proto_m p).
Definition set_iface (p : pdr) (i : N) : pdr :=
  Pdr (p_id p) (p_fseid p) i M8 (p_tdst p) (p_tdst_m p) (p_teid p) (p_teid_m p) (p_ue p) (p_prec p) (p_far p)
      (p_qers p) (p_decap p) (p_alloc p) (p_choose p) (f_sip p) (f_sip_m p) (f_dip p) (f_dip_m p) (f_sp p) (f_dp p) (f_proto p) (f_proto_m p).
Definition set_ue (p : pdr) (ue : N) (al : bool) : pdr :=
  Pdr (p_id p) (p_fseid p) (p_iface p) (p_iface_m p) (p_tdst p) (p_tdst_m p) (p_teid p) (p_teid_m p) ue (p_prec p) (p_far p)
      (p_qers p) (p_decap p) al (p_choose p) (f_sip p) (f_sip_m p) (f_dip p) (f_dip_m p) (f_sp p) (f_dp p) (f_proto p) (f_proto_m p).
Definition set_filter (p : pdr) (sip sipm dip dipm : N) (sp dp : prange) (pr prm : N) : pdr :=
  Pdr (p_id p) (p_fseid p) (p_iface p) (p_iface_m p) (p_tdst p) (p_tdst_m p) (p_teid p) (p_teid_m p) (p_ue p) (p_prec p) (p_far p)
      (p_qers p) (p_decap p) (p_alloc p) (p_choose p) sip sipm dip dipm sp dp pr prm.
Definition set_qers (p : pdr) (l : list N) : pdr :=
  Pdr (p_id p) (p_fseid p) (p_iface p) (p_iface_m p) (p_tdst p) (p_tdst_m p) (p_teid p) (p_teid_m p) (p_ue p) (p_prec p) (p_far p)
      l (p_decap p) (p_alloc p) (p_choose p) (f_sip p) (f_sip_m p) (f_dip p) (f_dip_m p) (f_sp p) (f_dp p) (f_proto p) (f_proto_m p).
Definition set_final (p : pdr) (id prec farid decap : N) (qs : list N) : pdr :=
  Pdr id (p_fseid p) (p_iface p) (p_iface_m p) (p_tdst p) (p_tdst_m p) (p_teid p) (p_teid_m p) (p_ue p) prec farid
      qs decap (p_alloc p) (p_choose p) (f_sip p) (f_sip_m p) (f_dip p) (f_dip_m p) (f_sp p) (f_dp p) (f_proto p) (f_proto_m p).

Definition ACCESS : N := 1.
Definition CORE : N := 2.

(* application table of a connection: interned id -> flow descriptions (interned text, parsed) *)
Definition pfd_table := list (N * list (N * flow)).
Fixpoint pfd_lookup (id : N) (t : pfd_table) : option (list (N * flow)) :=
  match t with [] => None | (k, v) :: r => if k =? id then Some v else pfd_lookup id r end.

(* "assigned" -> the UE address, or the wildcard when the address is 0.0.0.0 *)
Definition resolve (e : ep) (ue : N) : N * N :=
  if e_assigned e then (if ue =? 0 then (0, 0) else (ue, M32)) else (e_ip e, e_mask e).
Definition ep_ports (e : ep) : prange := PR (e_lo e) (e_hi e).
Definition RESERVED_PROTO : N := 255.

Inductive perr := Hard | Soft.    (* Soft = errBadFilterDesc *)

(* ---- parsePDI, first loop *)
Fixpoint pdi_first (els : list pdi_el) (seid : N) (pl : option pool) (p : pdr) : option pool * option pdr :=
  match els with
  | [] => (pl, Some p)
  | e :: r =>
    match e with
    | PUeip IErr => (pl, None)
    | PUeip (IOk (flags, v4)) =>
      if need_alloc flags then
        match pl with
        | None => (pl, None)
        | Some po =>
          match alloc seid po with
          | (po', IPPool.RIp a) => pdi_first r seid (Some po') (set_ue p a true)
          | (po', _) => (Some po', None)
          end
        end
      else match v4 with
           | None => (pl, None)
           | Some a => pdi_first r seid pl (set_ue p a (p_alloc p))
           end
    | PSrc IErr => (pl, None)
    | PSrc (IOk v) =>
      if v =? 3 then (pl, None)
      else if v =? 0 then pdi_first r seid pl (set_iface p ACCESS)
      else if v =? 1 then pdi_first r seid pl (set_iface p CORE)
      else pdi_first r seid pl p
    | PFteid IErr => (pl, None)
    | PFteid (IOk (ch, teid, v4)) =>
      (* CHOOSE: the flag is set and any explicit tunnel of the same PDI is dropped; an explicit F-TEID does not
         apply once CHOOSE was seen *)
      if ch then pdi_first r seid pl (clear_tunnel (set_choose p))
      else if negb (teid =? 0) && negb (p_choose p) then pdi_first r seid pl (set_tunnel p teid (ip2int v4))
      else pdi_first r seid pl p
    | _ => pdi_first r seid pl p
    end
  end.

Definition prefill (p : pdr) : pdr :=
  if (p_iface p =? CORE) && negb (p_ue p =? 0) then
    set_filter p (f_sip p) (f_sip_m p) (p_ue p) M32 (f_sp p) (f_dp p) (f_proto p) (f_proto_m p)
  else if (p_iface p =? ACCESS) && negb (p_ue p =? 0) then
    set_filter p (p_ue p) M32 (f_dip p) (f_dip_m p) (f_sp p) (f_dp p) (f_proto p) (f_proto_m p)
  else p.

Definition apply_sdf (p : pdr) (proto : N) (src dst : ep) : pdr :=
  let pr := if proto =? RESERVED_PROTO then f_proto p else proto in
  let prm := if proto =? RESERVED_PROTO then f_proto_m p else M8 in
  let '(sip, sipm) := resolve src (p_ue p) in
  let '(dip, dipm) := resolve dst (p_ue p) in
  if p_iface p =? CORE then
    let dp := ep_ports dst in let sp := ep_ports src in
    if negb (is_wild dp) then set_filter p sip sipm dip dipm dp wild_range pr prm
    else set_filter p sip sipm dip dipm sp dp pr prm
  else if p_iface p =? ACCESS then
    let dp := ep_ports src in let sp := ep_ports dst in
    if negb (is_wild sp) then set_filter p dip dipm sip sipm wild_range sp pr prm
    else set_filter p dip dipm sip sipm sp dp pr prm
  else set_filter p (f_sip p) (f_sip_m p) (f_dip p) (f_dip_m p) (f_sp p) (f_dp p) pr prm.

Definition apply_app (p : pdr) (proto : N) (src dst : ep) : pdr :=
  let pr := if proto =? RESERVED_PROTO then f_proto p else proto in
  let prm := if proto =? RESERVED_PROTO then f_proto_m p else M8 in
  let '(sip, sipm) := resolve src (p_ue p) in
  let '(dip, dipm) := resolve dst (p_ue p) in
  set_filter p sip sipm dip dipm (ep_ports src) (ep_ports dst) pr prm.

Fixpoint app_flows (fl : list (N * flow)) (p : pdr) : pdr + perr :=
  match fl with
  | [] => inl p
  | (_, FlowErr) :: _ => inr Soft
  | (_, Flow d proto src dst) :: r =>
    if ((p_iface p =? ACCESS) && (d =? 1)) || ((p_iface p =? CORE) && (d =? 0)) then inl (apply_app p proto src dst)
    else app_flows r p
  end.

Fixpoint pdi_second (els : list pdi_el) (pf : pfd_table) (p : pdr) : pdr + (perr * pdr) :=
  match els with
  | [] => inl p
  | PApp IErr :: _ => inr (Hard, p)
  | PApp (IOk id) :: r =>
    match pfd_lookup id pf with
    | None => inr (Hard, p)
    | Some fl => match app_flows fl p with inl p' => pdi_second r pf p' | inr e => inr (e, p) end
    end
  | PSdf IErr :: _ => inr (Hard, p)
  | PSdf (IOk FlowErr) :: _ => inr (Soft, p)
  | PSdf (IOk (Flow _ proto src dst)) :: r => pdi_second r pf (apply_sdf p proto src dst)
  | _ :: r => pdi_second r pf p
  end.

(* parsePDR: pool threads through (an allocation made before a later error stays) *)
Definition parse_pdr (i : pdr_ie) (seid : N) (pf : pfd_table) (pl : option pool) : option pool * option pdr :=
  let p0 := Pdr 0 seid 0 0 0 0 0 0 0 0 0 [] 0 false false 0 0 0 0 (PR 0 0) (PR 0 0) 0 0 in
  match pi_id i, pi_prec i, pi_pdi i with
  | IOk id, IOk prec, IOk els =>
    match pdi_first els seid pl p0 with
    | (pl', None) => (pl', None)
    | (pl', Some p1) =>
      let p2 := prefill p1 in
      let r := pdi_second els pf p2 in
      match r with
      | inr (Hard, _) => (pl', None)
      | _ =>
        let p3 := match r with inl p => p | inr (_, p) => p end in
        match pi_far i with
        | IErr => (pl', None)
        | IOk farid =>
          if pi_group_ok i then (pl', Some (set_final p3 id prec farid (if pi_decap i then 1 else 0) (pi_qers i)))
          else (pl', None)
        end
      end
    end
  | _, _, _ => (pl, None)
  end.

(* ---- parseFAR *)
Definition has2nd_bit (f : N) : bool := N.shiftr (N.land f 2) 1 =? 1.
Fixpoint fwd_loop (els : list fwd_el) (access_ip core_ip : N) (f : far) : far :=
  match els with
  | [] => f
  | FOhc (IOk (teid, v4)) :: r =>
    fwd_loop r access_ip core_ip (Far (a_id f) (a_fseid f) (a_dst f) (a_em f) (a_action f) 1 (a_tsrc f) (ip2int v4) teid 2152)
  | FDst IErr :: r => fwd_loop r access_ip core_ip (Far (a_id f) (a_fseid f) 0 (a_em f) (a_action f) (a_ttype f) (a_tsrc f) (a_tdst f) (a_teid f) (a_tport f))
  | FDst (IOk d) :: r =>
    let src := if d =? 0 then access_ip else if d =? 1 then core_ip else a_tsrc f in
    fwd_loop r access_ip core_ip (Far (a_id f) (a_fseid f) d (a_em f) (a_action f) (a_ttype f) src (a_tdst f) (a_teid f) (a_tport f))
  | FSm (IOk fl) :: r =>
    if has2nd_bit fl then fwd_loop r access_ip core_ip (Far (a_id f) (a_fseid f) (a_dst f) true (a_action f) (a_ttype f) (a_tsrc f) (a_tdst f) (a_teid f) (a_tport f))
    else fwd_loop r access_ip core_ip f
  | _ :: r => fwd_loop r access_ip core_ip f
  end.

Definition parse_far (i : far_ie) (seid : N) (access_ip core_ip : N) (update : bool) : option far :=
  match fi_id i, fi_action i with
  | IOk id, IOk act =>
    if act =? 0 then None
    else
      let f := Far id seid 0 false act 0 0 0 0 0 in
      if update then
        match fi_fwd_u i with IErr => None | IOk els => Some (fwd_loop els access_ip core_ip f) end
      else if negb (N.land act 2 =? 0) then
        match fi_fwd_c i with IErr => None | IOk els => Some (fwd_loop els access_ip core_ip f) end
      else Some f
  | _, _ => None
  end.

Definition parse_qer (i : qer_ie) (seid : N) : option qer :=
  match qi_id i with
  | IErr => None
  | IOk id => Some (Qer id seid 0 (qi_qfi i) (qi_gul i) (qi_gdl i) (qi_mul i) (qi_mdl i) (qi_gbul i) (qi_gbdl i))
  end.

(* ------------------------------------------------------------------ Go slices (backing array + length) *)
Record slice (A : Type) := Slice { back : list A; len : nat }.
Arguments Slice {A} back len.
Arguments back {A} s.
Arguments len {A} s.
Definition view {A} (s : slice A) : list A := firstn (len s) (back s).
Fixpoint set_nth {A} (n : nat) (x : A) (l : list A) : list A :=
  match l, n with
  | [], _ => []
  | _ :: r, O => x :: r
  | y :: r, S k => y :: set_nth k x r
  end.
(* append while capacity lasts writes in place; [MaxItems] rules per kind keep us inside the capacity *)
Definition s_append {A} (s : slice A) (x : A) : slice A :=
  if Nat.ltb (len s) (length (back s)) then Slice (set_nth (len s) x (back s)) (S (len s))
  else Slice (back s ++ [x]) (S (len s)).
Definition s_set {A} (s : slice A) (i : nat) (x : A) : slice A := Slice (set_nth i x (back s)) (len s).
(* s = append(s[:i], s[i+1:]...) : elements i+1.. move down, the last one stays behind the new length *)
Definition s_remove {A} (s : slice A) (i : nat) : slice A :=
  Slice (firstn i (back s) ++ firstn (len s - S i) (skipn (S i) (back s)) ++ skipn (len s - 1) (back s)) (len s - 1).
Definition s_of {A} (l : list A) : slice A := Slice l (length l).

Fixpoint find_idx {A} (f : A -> bool) (l : list A) : option nat :=
  match l with [] => None | x :: r => if f x then Some O else option_map S (find_idx f r) end.

Record session := Sess { s_lseid : N; s_rseid : N; s_pdrs : slice pdr; s_fars : slice far; s_qers : slice qer }.

(* ------------------------------------------------------------------ MarkSessionQer *)
Definition mem_n (x : N) (l : list N) : bool := existsb (N.eqb x) l.
Definition intersect (a b : list N) : list N := filter (fun x => mem_n x b) a.
(* copy(dst, src): overwrite the first min(len) elements, dst keeps its length *)
Fixpoint go_copy (dst src : list N) : list N :=
  match dst, src with
  | d :: dr, s :: sr => s :: go_copy dr sr
  | _, _ => dst
  end.
Fixpoint search_list (pdrs : list pdr) (lst : list N) : option (list N) :=
  match pdrs with
  | [] => Some lst
  | p :: r => let sl := intersect lst (p_qers p) in
              match sl with [] => None | _ => search_list r (go_copy lst sl) end
  end.
(* the selection loop: (sessionIdx, sessQerID, sessionMbr) *)
Fixpoint select_qer (qs : list qer) (idx : nat) (lst : list N) (cur : nat * N * N) : nat * N * N :=
  match qs with
  | [] => cur
  | q :: r =>
    let '(ci, cid, cm) := cur in
    if mem_n (q_id q) lst then
      if (0 <? q_gul q) || (0 <? q_gdl q) then select_qer r (S idx) lst cur
      else if cm <=? q_mul q then select_qer r (S idx) lst (idx, q_id q, q_mul q)
      else select_qer r (S idx) lst cur
    else select_qer r (S idx) lst cur
  end.
Fixpoint remove_first (x : N) (l : list N) : list N :=
  match l with [] => [] | y :: r => if x =? y then r else y :: remove_first x r end.
Definition move_last (x : N) (l : list N) : list N := if mem_n x l then remove_first x l ++ [x] else l.
Definition set_level (q : qer) (lv : N) : qer := Qer (q_id q) (q_fseid q) lv (q_qfi q) (q_ul q) (q_dl q) (q_mul q) (q_mdl q) (q_gul q) (q_gdl q).

Inductive outcome (A : Type) := Done (a : A) | Crash (site : N).
Arguments Done {A} a.
Arguments Crash {A} site.

(* returns the PDR list (qer lists re-ordered in place) and the marked QER list *)
Definition mark_session_qer (pdrs : list pdr) (qers : list qer) : outcome (list pdr * list qer) :=
  match pdrs with
  | [] => Done (pdrs, qers)                  (* the guard added by the fix; without it: index -1 *)
  | _ =>
    match nth_error pdrs (length pdrs - 1) with
    | None => Crash 1
    | Some lastp =>
      let lst := p_qers lastp in
      if (Nat.ltb (length lst) 1) || (Nat.ltb (length qers) 2) then Done (pdrs, qers)
      else
        match search_list pdrs lst with
        | None => Done (pdrs, qers)
        | Some lst' =>
          let '(sidx, sid, _) := select_qer qers O lst' (O, 0, 0) in
          match nth_error qers sidx with
          | None => Crash 2
          | Some q =>
            Done (map (fun p => set_qers p (move_last sid (p_qers p))) pdrs, set_nth sidx (set_level q 1) qers)
          end
        end
    end
  end.

(* ------------------------------------------------------------------ BESS translation *)
Inductive module := MPdr | MFar | MAppQer | MSessQer.
Definition module_eqb (a b : module) : bool :=
  match a, b with MPdr, MPdr | MFar, MFar | MAppQer, MAppQer | MSessQer, MSessQer => true | _, _ => false end.
(* command: module, add? , key, value *)
Record cmd := Cmd { c_mod : module; c_add : bool; c_key : list N; c_val : list N }.

Definition pdr_key (p : pdr) (r : prod_rule) : list N :=
  [p_iface p; p_tdst p; p_teid p; f_sip p; f_dip p; sp r; dp r; f_proto p;
   p_iface_m p; p_tdst_m p; p_teid_m p; f_sip_m p; f_dip_m p; sm r; dm r; f_proto_m p].
Definition first_qer (p : pdr) : N := match p_qers p with q :: _ => q | [] => 0 end.
Definition pdr_val (p : pdr) : list N :=
  [p_decap p; M32 - p_prec p; p_id p; p_fseid p; 0; first_qer p; p_far p].
Definition pdr_rules (p : pdr) : list prod_rule :=
  match cartesian (f_sp p) (f_dp p) with Ok rs => rs | _ => [] end.
Definition pdr_add (p : pdr) : list cmd := map (fun r => Cmd MPdr true (pdr_key p r) (pdr_val p)) (pdr_rules p).
Definition pdr_del (p : pdr) : list cmd := map (fun r => Cmd MPdr false (pdr_key p r) []) (pdr_rules p).

Definition far_action (f : far) : N :=
  if negb (N.land (a_action f) 2 =? 0) then
    (if a_dst f =? 0 then 0 else if (a_dst f =? 1) || (a_dst f =? 2) then 1 else 2)
  else if negb (N.land (a_action f) 1 =? 0) then 2
  else if negb (N.land (a_action f) 4 =? 0) then 4
  else if negb (N.land (a_action f) 8 =? 0) then 4
  else 2.
Definition far_add (f : far) : list cmd :=
  [Cmd MFar true [a_id f; a_fseid f] [a_ttype f; far_action f; a_ttype f; a_tsrc f; a_tdst f; a_teid f; a_tport f]].
Definition far_del (f : far) : list cmd := [Cmd MFar false [a_id f; a_fseid f] []].

(* QER values: burst sizes are supplied by the harness-independent model of C09; here they are an
   uninterpreted function of (rate, qfi, which) so that this model stays float free *)
Section QerCmds.
  Variable burst : N -> N -> N -> N.    (* which (0 cbs, 1 pbs, 2 ebs), rate kbps, qfi *)
  Definition qer_dir (q : qer) (iface st mbr gbr : N) (cirpir : N * N) : cmd * (N * N) :=
    let cbs := burst 0 gbr (q_qfi q) in
    let ebs := burst 2 mbr (q_qfi q) in
    let pbs := burst 1 mbr (q_qfi q) in
    let '(gate, cir, pir) :=
      if negb (st =? 0) then (5, fst cirpir, snd cirpir)
      else if negb (mbr =? 0) || negb (gbr =? 0) then
        let cir := N.max (gbr * 1000 / 8) 1 in (0, cir, N.max (mbr * 1000 / 8) cir)
      else (6, fst cirpir, snd cirpir) in
    (if q_level q =? 0 then Cmd MAppQer true [iface; q_id q; q_fseid q] [gate; cir; pir; cbs; pbs; ebs; q_qfi q]
     else Cmd MSessQer true [iface; q_fseid q] [gate; cir; pir; cbs; pbs; ebs], (cir, pir)).
  Definition qer_add (q : qer) : list cmd :=
    let '(c1, cp) := qer_dir q ACCESS (q_ul q) (q_mul q) (q_gul q) (0, 0) in
    let '(c2, _) := qer_dir q CORE (q_dl q) (q_mdl q) (q_gdl q) cp in
    [c1; c2].
End QerCmds.
Definition qer_del (q : qer) : list cmd :=
  if q_level q =? 0 then [Cmd MAppQer false [ACCESS; q_id q; q_fseid q] []; Cmd MAppQer false [CORE; q_id q; q_fseid q] []]
  else [Cmd MSessQer false [ACCESS; q_fseid q] []; Cmd MSessQer false [CORE; q_fseid q] []].

(* tables: key -> value with upsert / delete *)
Definition table := list (list N * list N).
Fixpoint key_eqb (a b : list N) : bool :=
  match a, b with [], [] => true | x :: a', y :: b' => (x =? y) && key_eqb a' b' | _, _ => false end.
Fixpoint t_del (k : list N) (t : table) : table :=
  match t with [] => [] | (k', v) :: r => if key_eqb k k' then t_del k r else (k', v) :: t_del k r end.
Definition t_add (k v : list N) (t : table) : table := (k, v) :: t_del k t.
Fixpoint t_get (k : list N) (t : table) : option (list N) :=
  match t with [] => None | (k', v) :: r => if key_eqb k k' then Some v else t_get k r end.
Record tables := Tables { t_pdr : table; t_far : table; t_app : table; t_sess : table }.
Definition no_tables : tables := Tables [] [] [] [].
Definition apply_cmd (c : cmd) (t : tables) : tables :=
  let f := fun tb => if c_add c then t_add (c_key c) (c_val c) tb else t_del (c_key c) tb in
  match c_mod c with
  | MPdr => Tables (f (t_pdr t)) (t_far t) (t_app t) (t_sess t)
  | MFar => Tables (t_pdr t) (f (t_far t)) (t_app t) (t_sess t)
  | MAppQer => Tables (t_pdr t) (t_far t) (f (t_app t)) (t_sess t)
  | MSessQer => Tables (t_pdr t) (t_far t) (t_app t) (f (t_sess t))
  end.
Definition apply_cmds (cs : list cmd) (t : tables) : tables := fold_left (fun t c => apply_cmd c t) cs t.

(* ------------------------------------------------------------------ agent state *)
Record conn := Conn { c_remote : N;              (* interned remote node id, 0 = "" (never associated) *)
                      c_pfds : pfd_table;
                      c_sessions : list session;
                      c_seq : N }.
Definition conn0 : conn := Conn 0 [] [] 0.

Record cfg := Cfg { g_access : N; g_core : N; g_end_marker : bool }.

Record agent := Agent { a_cfg : cfg; a_pool : option pool; a_teids : gen; a_gauge : N; a_tables : tables }.

(* ------------------------------------------------------------------ outputs *)
Inductive created := CTeid (pdrid teid ip : N) | CUeip (pdrid ip : N).
Inductive reply :=
| RHeartbeat
| RSetup (cause : N)
| RRelease
| RPfd (cause : N)
| REst (seid cause : N) (with_nodeid : bool) (upfseid : option N) (cr : list created)
| RMod (seid cause : N)
| RDel (seid cause : N).
Record marker := Marker { m_src : N; m_dst : N; m_teid : N }.
Record out := Out { o_reply : option reply; o_cmds : list cmd; o_markers : list marker; o_shutdown : bool }.
Definition no_out : out := Out None [] [] false.
Definition just (r : reply) : out := Out (Some r) [] [] false.

Definition CAUSE_OK : N := 1.
Definition CAUSE_REJ : N := 64.
Definition CAUSE_NOTFOUND : N := 65.
Definition CAUSE_MISSING : N := 66.
Definition CAUSE_NOASSOC : N := 72.
Definition CAUSE_NORES : N := 75.

Fixpoint find_session (l : N) (ss : list session) : option session :=
  match ss with [] => None | s :: r => if s_lseid s =? l then Some s else find_session l r end.
Fixpoint del_session (l : N) (ss : list session) : list session :=
  match ss with [] => [] | s :: r => if s_lseid s =? l then del_session l r else s :: del_session l r end.
Definition put_session (s : session) (ss : list session) : list session :=
  if s_lseid s =? 0 then ss else s :: del_session (s_lseid s) ss.

Definition free_teids (g : gen) (pdrs : list pdr) : gen :=
  fold_left (fun g p => if p_choose p then free_id (p_teid p) g else g) pdrs g.
(* releaseAllocatedIPs: first PDR with allocIPFlag on the core interface triggers DeallocIP(lseid) *)
Definition release_ips (pl : option pool) (lseid : N) (pdrs : list pdr) : option pool * bool :=
  if existsb (fun p => p_alloc p && (p_iface p =? CORE)) pdrs then
    match pl with
    | None => (None, true)       (* unreachable: allocIPFlag needs a pool *)
    | Some po => let '(po', r) := dealloc lseid po in (Some po', match r with IPPool.RErr => false | _ => true end)
    end
  else (pl, true).

(* NewPFCPSession: the first of at most [retries] draws that is neither 0 nor a stored local SEID *)
Fixpoint pick_seid (retries : nat) (draws : list N) (stored : list N) : option N :=
  match retries, draws with
  | S r, d :: ds => if (d =? 0) || mem_n d stored then pick_seid r ds stored else Some d
  | _, _ => None
  end.
Definition SEID_RETRIES : nat := 100.

Section Handlers.
  Variable burst : N -> N -> N -> N.

  Definition add_cmds (pdrs : list pdr) (fars : list far) (qers : list qer) : list cmd :=
    flat_map pdr_add pdrs ++ flat_map far_add fars ++ flat_map (qer_add burst) qers.
  Definition del_cmds (pdrs : list pdr) (fars : list far) (qers : list qer) : list cmd :=
    flat_map pdr_del pdrs ++ flat_map far_del fars ++ flat_map qer_del qers.

  Definition created_of (pdrs : list pdr) : list created :=
    flat_map (fun p => (if p_choose p then [CTeid (p_id p) (p_teid p) (p_tdst p)] else []) ++
                       (if p_alloc p && (p_iface p =? CORE) then [CUeip (p_id p) (p_ue p)] else [])) pdrs.

  (* ---- Session Establishment *)
  Fixpoint est_pdrs (is : list pdr_ie) (lseid : N) (pf : pfd_table) (access_ip : N) (pl : option pool) (g : gen)
           (acc_p : list pdr) : option pool * gen * (list pdr + (N * list pdr)) :=
    match is with
    | [] => (pl, g, inl acc_p)
    | i :: r =>
      match parse_pdr i lseid pf pl with
      | (pl', None) => (pl', g, inr (CAUSE_REJ, acc_p))
      | (pl', Some p) =>
        if p_choose p then
          match allocate g with
          | AOk id g' => est_pdrs r lseid pf access_ip pl' g' (acc_p ++ [set_tunnel p id access_ip])
          | AErr g' => (pl', g', inr (CAUSE_NORES, acc_p))
          | AFuel => (pl', g, inr (CAUSE_NORES, acc_p))
          end
        else est_pdrs r lseid pf access_ip pl' g (acc_p ++ [p])
      end
    end.
  Fixpoint parse_all {I R} (f : I -> option R) (is : list I) : option (list R) :=
    match is with
    | [] => Some []
    | i :: r => match f i with None => None | Some x => option_map (cons x) (parse_all f r) end
    end.

  Definition rollback (a : agent) (lseid : N) (pdrs : list pdr) (pl : option pool) (g : gen) : agent :=
    let g' := free_teids g pdrs in
    let pl' := match pl with None => None | Some po => Some (fst (dealloc lseid po)) end in
    Agent (a_cfg a) pl' g' (a_gauge a) (a_tables a).   (* the gauge unit taken by NewPFCPSession is returned *)

  Definition handle_est (a : agent) (c : conn) (nodeid : option (acc N)) (cpfseid : option (acc (N * option N)))
             (pdrs : list pdr_ie) (fars : list far_ie) (qers : list qer_ie) (draws : list N)
    : outcome (agent * conn * out) :=
    match nodeid, cpfseid with
    | Some nid, Some cpf =>
      match nid, cpf with
      | IOk n, IOk (rseid, v4) =>
        if (c_remote c =? 0) || negb (n =? c_remote c) then Done (a, c, just (REst rseid CAUSE_NOASSOC true None []))
        else
          match pick_seid SEID_RETRIES draws (map s_lseid (c_sessions c)) with
          | None => Done (a, c, just (REst rseid CAUSE_NORES true None []))
          | Some lseid =>
            let access_ip := g_access (a_cfg a) in
            let '(pl, g, rp) := est_pdrs pdrs lseid (c_pfds c) access_ip (a_pool a) (a_teids a) [] in
            match rp with
            | inr (cause, ps) => Done (rollback a lseid ps pl g, c, just (REst rseid cause true None []))
            | inl ps =>
              match parse_all (fun i => parse_far i lseid access_ip (g_core (a_cfg a)) false) fars with
              | None => Done (rollback a lseid ps pl g, c, just (REst rseid CAUSE_REJ true None []))
              | Some fs =>
                match parse_all (fun i => parse_qer i lseid) qers with
                | None => Done (rollback a lseid ps pl g, c, just (REst rseid CAUSE_REJ true None []))
                | Some qs =>
                  (* MarkSessionQer(session.qers); MarkSessionQer(addQERs): same lists at establishment *)
                  match mark_session_qer ps qs with
                  | Crash s => Crash s
                  | Done (ps1, qs1) =>
                    match mark_session_qer ps1 qs with
                    | Crash s => Crash s
                    | Done (ps2, qs2) =>
                      (* the datapath batch uses session.PacketForwardingRules (method Add) *)
                      let cmds := add_cmds ps2 fs qs1 in
                      let s := Sess lseid rseid (s_of ps2) (s_of fs) (s_of qs1) in
                      let a' := Agent (a_cfg a) pl g (a_gauge a + 1) (apply_cmds cmds (a_tables a)) in
                      let c' := Conn (c_remote c) (c_pfds c) (put_session s (c_sessions c)) (c_seq c) in
                      Done (a', c', Out (Some (REst rseid CAUSE_OK true (Some lseid) (created_of ps2))) cmds [] false)
                    end
                  end
                end
              end
            end
          end
      | _, _ => Done (a, c, just (REst 0 CAUSE_REJ false None []))
      end
    | _, _ => Done (a, c, just (REst 0 CAUSE_MISSING false None []))
    end.

  (* ---- Session Modification: works on slices that alias the stored session *)
  Record work := Work { w_p : slice pdr; w_f : slice far; w_q : slice qer; w_pool : option pool;
                        w_addp : list N; w_addf : list far; w_addq : list qer; w_marks : list marker }.

  Definition w_with_pool (w : work) (pl : option pool) : work :=
    Work (w_p w) (w_f w) (w_q w) pl (w_addp w) (w_addf w) (w_addq w) (w_marks w).
  (* every loop returns the work done so far and whether it completed: a failing IE leaves the
     in-place effects of the IEs before it *)
  Fixpoint mod_create_p (is : list pdr_ie) (lseid : N) (pf : pfd_table) (w : work) : work * bool :=
    match is with
    | [] => (w, true)
    | i :: r =>
      match parse_pdr i lseid pf (w_pool w) with
      | (pl, None) => (w_with_pool w pl, false)
      | (pl, Some p) => mod_create_p r lseid pf (Work (s_append (w_p w) p) (w_f w) (w_q w) pl (w_addp w ++ [p_id p]) (w_addf w) (w_addq w) (w_marks w))
      end
    end.
  Fixpoint mod_update_p (is : list pdr_ie) (lseid : N) (pf : pfd_table) (w : work) : work * bool :=
    match is with
    | [] => (w, true)
    | i :: r =>
      match parse_pdr i lseid pf (w_pool w) with
      | (pl, None) => (w_with_pool w pl, false)
      | (pl, Some p) =>
        match find_idx (fun x => p_id x =? p_id p) (view (w_p w)) with
        | None => mod_update_p r lseid pf (w_with_pool w pl)
        | Some k => mod_update_p r lseid pf (Work (s_set (w_p w) k p) (w_f w) (w_q w) pl (w_addp w ++ [p_id p]) (w_addf w) (w_addq w) (w_marks w))
        end
      end
    end.
  Fixpoint mod_create_f (is : list far_ie) (lseid access_ip core_ip : N) (w : work) : work * bool :=
    match is with
    | [] => (w, true)
    | i :: r =>
      match parse_far i lseid access_ip core_ip false with
      | None => (w, false)
      | Some f => mod_create_f r lseid access_ip core_ip (Work (w_p w) (s_append (w_f w) f) (w_q w) (w_pool w) (w_addp w) (w_addf w ++ [f]) (w_addq w) (w_marks w))
      end
    end.
  Fixpoint mod_update_f (is : list far_ie) (lseid access_ip core_ip : N) (w : work) : work * bool :=
    match is with
    | [] => (w, true)
    | i :: r =>
      match parse_far i lseid access_ip core_ip true with
      | None => (w, false)
      | Some f =>
        match find_idx (fun x => a_id x =? a_id f) (view (w_f w)) with
        | None => mod_update_f r lseid access_ip core_ip w
        | Some k =>
          let old := nth k (view (w_f w)) far0 in
          let ms := if a_em f then w_marks w ++ [Marker (a_tsrc old) (a_tdst old) (a_teid old)] else w_marks w in
          mod_update_f r lseid access_ip core_ip (Work (w_p w) (s_set (w_f w) k f) (w_q w) (w_pool w) (w_addp w) (w_addf w ++ [f]) (w_addq w) ms)
        end
      end
    end.
  Fixpoint mod_create_q (is : list qer_ie) (lseid : N) (w : work) : work * bool :=
    match is with
    | [] => (w, true)
    | i :: r =>
      match parse_qer i lseid with
      | None => (w, false)
      | Some q => mod_create_q r lseid (Work (w_p w) (w_f w) (s_append (w_q w) q) (w_pool w) (w_addp w) (w_addf w) (w_addq w ++ [q]) (w_marks w))
      end
    end.
  Fixpoint mod_update_q (is : list qer_ie) (lseid : N) (w : work) : work * bool :=
    match is with
    | [] => (w, true)
    | i :: r =>
      match parse_qer i lseid with
      | None => (w, false)
      | Some q =>
        match find_idx (fun x => q_id x =? q_id q) (view (w_q w)) with
        | None => mod_update_q r lseid w
        | Some k => mod_update_q r lseid (Work (w_p w) (w_f w) (s_set (w_q w) k q) (w_pool w) (w_addp w) (w_addf w) (w_addq w ++ [q]) (w_marks w))
        end
      end
    end.

  (* write the re-ordered QER lists back into the backing array (s.pdrs[i].qerIDList = ...) *)
  Fixpoint write_back (k : nat) (ps : list pdr) (s : slice pdr) : slice pdr :=
    match ps with [] => s | p :: r => write_back (S k) r (s_set s k p) end.
  Fixpoint write_back_q (k : nat) (qs : list qer) (s : slice qer) : slice qer :=
    match qs with [] => s | q :: r => write_back_q (S k) r (s_set s k q) end.

  (* Remove PDR / FAR / QER: returns removed rules; None = unknown id or unreadable id *)
  Fixpoint mod_remove_p (ids : list (acc N)) (s : slice pdr) (g : gen) (del : list pdr) : slice pdr * gen * option (list pdr) :=
    match ids with
    | [] => (s, g, Some del)
    | IErr :: _ => (s, g, None)
    | IOk id :: r =>
      match find_idx (fun x => p_id x =? id) (view s) with
      | None => (s, g, None)
      | Some k => let p := nth k (view s) pdr0 in
                  mod_remove_p r (s_remove s k) (if p_choose p then free_id (p_teid p) g else g) (del ++ [p])
      end
    end.
  Fixpoint mod_remove_f (ids : list (acc N)) (s : slice far) (del : list far) : slice far * option (list far) :=
    match ids with
    | [] => (s, Some del)
    | IErr :: _ => (s, None)
    | IOk id :: r =>
      match find_idx (fun x => a_id x =? id) (view s) with
      | None => (s, None)
      | Some k => mod_remove_f r (s_remove s k) (del ++ [nth k (view s) far0])
      end
    end.
  Definition qer0 : qer := Qer 0 0 0 0 0 0 0 0 0 0.
  Fixpoint mod_remove_q (ids : list (acc N)) (s : slice qer) (del : list qer) : slice qer * option (list qer) :=
    match ids with
    | [] => (s, Some del)
    | IErr :: _ => (s, None)
    | IOk id :: r =>
      match find_idx (fun x => q_id x =? id) (view s) with
      | None => (s, None)
      | Some k => mod_remove_q r (s_remove s k) (del ++ [nth k (view s) qer0])
      end
    end.

  (* the stored session after a rejected modification: same lengths, the backing arrays as the
     working copy left them (the working slices alias the stored ones) *)
  Definition alias_back (s : session) (wp : slice pdr) (wf : slice far) (wq : slice qer) : session :=
    Sess (s_lseid s) (s_rseid s) (Slice (back wp) (len (s_pdrs s))) (Slice (back wf) (len (s_fars s))) (Slice (back wq) (len (s_qers s))).
  Definition replace_session (s : session) (ss : list session) : list session :=
    map (fun x => if s_lseid x =? s_lseid s then s else x) ss.

  Definition handle_mod (a : agent) (c : conn) (seid : N) (cpfseid : option (acc (N * option N)))
             (cp : list pdr_ie) (cf : list far_ie) (cq : list qer_ie) (up : list pdr_ie) (uf : list far_ie) (uq : list qer_ie)
             (rp rf rq : list (acc N)) : outcome (agent * conn * out) :=
    match find_session seid (c_sessions c) with
    | None => Done (a, c, just (RMod 0 CAUSE_REJ))
    | Some s0 =>
      let rseid := match cpfseid with Some (IOk (r, _)) => r | _ => s_rseid s0 end in
      let access_ip := g_access (a_cfg a) in
      let core_ip := g_core (a_cfg a) in
      let w0 := Work (s_pdrs s0) (s_fars s0) (s_qers s0) (a_pool a) [] [] [] [] in
      let reject (w : work) (pl : option pool) (g : gen) (tb : tables) (cmds : list cmd) :=
          Done (Agent (a_cfg a) pl g (a_gauge a) tb,
                Conn (c_remote c) (c_pfds c) (replace_session (alias_back s0 (w_p w) (w_f w) (w_q w)) (c_sessions c)) (c_seq c),
                Out (Some (RMod rseid CAUSE_REJ)) cmds [] false) in
      let early (w : work) := reject w (w_pool w) (a_teids a) (a_tables a) [] in
      match mod_create_p cp seid (c_pfds c) w0 with
      | (w1, false) => early w1
      | (w1, true) =>
      match mod_create_f cf seid access_ip core_ip w1 with
      | (w2, false) => early w2
      | (w2, true) =>
      match mod_create_q cq seid w2 with
      | (w3, false) => early w3
      | (w3, true) =>
      match mod_update_p up seid (c_pfds c) w3 with
      | (w4, false) => early w4
      | (w4, true) =>
      match mod_update_f uf seid access_ip core_ip w4 with
      | (w5, false) => early w5
      | (w5, true) =>
      match mod_update_q uq seid w5 with
      | (w6, false) => early w6
      | (w6, true) =>
        match mark_session_qer (view (w_p w6)) (view (w_q w6)) with
        | Crash st => Crash st
        | Done (ps1, qs1) =>
          let wp1 := write_back O ps1 (w_p w6) in
          let wq1 := write_back_q O qs1 (w_q w6) in
          match mark_session_qer (view wp1) (w_addq w6) with
          | Crash st => Crash st
          | Done (ps2, addq) =>
            let wp2 := write_back O ps2 wp1 in
            (* the message's PDRs share their QER lists with the session's *)
            let addp := flat_map (fun id => match find_idx (fun x => p_id x =? id) (view wp2) with
                                            | Some k => [nth k (view wp2) pdr0] | None => [] end) (w_addp w6) in
            let cmds1 := add_cmds addp (w_addf w6) addq in
            let tb1 := apply_cmds cmds1 (a_tables a) in
            let marks := if g_end_marker (a_cfg a) then w_marks w6 else [] in
            match mod_remove_p rp wp2 (a_teids a) [] with
            | (wp3, g3, None) =>
              Done (Agent (a_cfg a) (w_pool w6) g3 (a_gauge a) tb1,
                    Conn (c_remote c) (c_pfds c) (replace_session (alias_back s0 wp3 (w_f w6) wq1) (c_sessions c)) (c_seq c),
                    Out (Some (RMod rseid CAUSE_REJ)) cmds1 marks false)
            | (wp3, g3, Some dp) =>
              match mod_remove_f rf (w_f w6) [] with
              | (wf3, None) =>
                Done (Agent (a_cfg a) (w_pool w6) g3 (a_gauge a) tb1,
                      Conn (c_remote c) (c_pfds c) (replace_session (alias_back s0 wp3 wf3 wq1) (c_sessions c)) (c_seq c),
                      Out (Some (RMod rseid CAUSE_REJ)) cmds1 marks false)
              | (wf3, Some df) =>
                match mod_remove_q rq wq1 [] with
                | (wq3, None) =>
                  Done (Agent (a_cfg a) (w_pool w6) g3 (a_gauge a) tb1,
                        Conn (c_remote c) (c_pfds c) (replace_session (alias_back s0 wp3 wf3 wq3) (c_sessions c)) (c_seq c),
                        Out (Some (RMod rseid CAUSE_REJ)) cmds1 marks false)
                | (wq3, Some dq) =>
                  let cmds2 := del_cmds dp df dq in
                  let s' := Sess (s_lseid s0) rseid wp3 wf3 wq3 in
                  Done (Agent (a_cfg a) (w_pool w6) g3 (a_gauge a) (apply_cmds cmds2 tb1),
                        Conn (c_remote c) (c_pfds c) (replace_session s' (c_sessions c)) (c_seq c),
                        Out (Some (RMod rseid CAUSE_OK)) (cmds1 ++ cmds2) marks false)
                end
              end
            end
          end
        end
      end end end end end end
    end.

  (* ---- Session Deletion / the other endings *)
  Definition end_session (a : agent) (s : session) : agent * list cmd :=
    let cmds := del_cmds (view (s_pdrs s)) (view (s_fars s)) (view (s_qers s)) in
    let g := free_teids (a_teids a) (view (s_pdrs s)) in
    let '(pl, _) := release_ips (a_pool a) (s_lseid s) (view (s_pdrs s)) in
    (Agent (a_cfg a) pl g (a_gauge a - 1) (apply_cmds cmds (a_tables a)), cmds).

  Definition handle_del (a : agent) (c : conn) (seid : N) : agent * conn * out :=
    match find_session seid (c_sessions c) with
    | None => (a, c, just (RDel 0 CAUSE_REJ))
    | Some s =>
      let cmds := del_cmds (view (s_pdrs s)) (view (s_fars s)) (view (s_qers s)) in
      let tb := apply_cmds cmds (a_tables a) in
      match release_ips (a_pool a) seid (view (s_pdrs s)) with
      | (pl, false) => (Agent (a_cfg a) pl (a_teids a) (a_gauge a) tb, c, Out (Some (RDel 0 CAUSE_REJ)) cmds [] false)
      | (pl, true) =>
        (Agent (a_cfg a) pl (free_teids (a_teids a) (view (s_pdrs s))) (a_gauge a - 1) tb,
         Conn (c_remote c) (c_pfds c) (del_session seid (c_sessions c)) (c_seq c),
         Out (Some (RDel (s_rseid s) CAUSE_OK)) cmds [] false)
      end
    end.

  Definition handle_report_rsp (a : agent) (c : conn) (seid : N) (cause : option (acc N)) : agent * conn * out :=
    match cause with
    | Some (IOk cz) =>
      if cz =? CAUSE_NOTFOUND then
        match find_session seid (c_sessions c) with
        | None => (a, c, no_out)
        | Some s => let '(a', cmds) := end_session a s in
                    (a', Conn (c_remote c) (c_pfds c) (del_session seid (c_sessions c)) (c_seq c), Out None cmds [] false)
        end
      else (a, c, no_out)
    | _ => (a, c, no_out)
    end.

  (* Shutdown(): every stored session is removed from the datapath and released *)
  Fixpoint shutdown_sessions (a : agent) (ss : list session) : agent * list cmd :=
    match ss with
    | [] => (a, [])
    | s :: r => let '(a1, c1) := end_session a s in let '(a2, c2) := shutdown_sessions a1 r in (a2, c1 ++ c2)
    end.
  Definition do_shutdown (a : agent) (c : conn) : agent * conn * list cmd :=
    let '(a', cmds) := shutdown_sessions a (c_sessions c) in
    (a', Conn (c_remote c) (c_pfds c) [] (c_seq c), cmds).

  (* ---- PFD management *)
  Fixpoint pfd_contents (cs : list pfd_content) (acc_f : list (N * flow)) : option (list (N * flow)) :=
    match cs with
    | [] => Some acc_f
    | IErr :: _ => None
    | IOk (txt, fl) :: r => if txt =? 0 then None else pfd_contents r (acc_f ++ [(txt, fl)])
    end.
  Definition pfd_put (id : N) (v : list (N * flow)) (t : pfd_table) : pfd_table :=
    (id, v) :: filter (fun kv => negb (fst kv =? id)) t.
  Fixpoint pfd_apps (apps : list pfd_app) (t : pfd_table) : option pfd_table :=
    match apps with
    | [] => Some t
    | ap :: r =>
      match pa_id ap, pa_ctx ap with
      | IOk id, IOk cs => match pfd_contents cs [] with None => None | Some fl => pfd_apps r (pfd_put id fl t) end
      | _, _ => None
      end
    end.

  (* ---- dispatch (HandlePFCPMsg) *)
  Definition handle (a : agent) (c : conn) (connected : bool) (m : msg) (draws : list N) : outcome (agent * conn * out) :=
    match m with
    | MHeartbeat => Done (a, c, just RHeartbeat)
    | MSetup nodeid rts =>
      match nodeid, rts with
      | Some (IOk n), Some (IOk _) =>
        if connected then Done (a, Conn n (c_pfds c) (c_sessions c) (c_seq c), just (RSetup CAUSE_OK))
        else Done (a, c, just (RSetup CAUSE_REJ))
      | _, _ => Done (a, c, no_out)
      end
    | MRelease =>
      let '(a', c', cmds) := do_shutdown a c in
      Done (a', c', Out (Some RRelease) cmds [] true)
    | MPfd apps =>
      match pfd_apps apps [] with
      | None => Done (a, c, just (RPfd CAUSE_REJ))
      | Some t => Done (a, Conn (c_remote c) t (c_sessions c) (c_seq c), just (RPfd CAUSE_OK))
      end
    | MEst nodeid cpf pdrs fars qers => handle_est a c nodeid cpf pdrs fars qers draws
    | MMod seid cpf cp cf cq up uf uq rp rf rq => handle_mod a c seid cpf cp cf cq up uf uq rp rf rq
    | MDel seid => Done (handle_del a c seid)
    | MReportRsp seid cause => Done (handle_report_rsp a c seid cause)
    | MResponse => Done (a, c, no_out)
    | MOther => Done (a, c, no_out)
    end.
End Handlers.

(* a datagram = header sequence number + decoded message; every reply echoes the request's sequence number *)
Record datagram := Dgram { d_seq : N; d_msg : msg }.
Definition handle_datagram (burst : N -> N -> N -> N) (a : agent) (c : conn) (connected : bool) (d : datagram) (draws : list N)
  : outcome (agent * conn * out * option N) :=
  match handle burst a c connected (d_msg d) draws with
  | Crash s => Crash s
  | Done (a', c', o) => Done (a', c', o, match o_reply o with Some _ => Some (d_seq d) | None => None end)
  end.
