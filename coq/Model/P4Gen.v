(* C16: model of cmd/p4info_code_gen (generateConstants + generateP4DataFunctions) at the level of the
   information it emits: the ordered list of constants (kind, P4-side name, value), the id -> name maps and
   the id lists.  The three places where the Go program ranges over a Go map (matchFieldBitwidth,
   actionParamBitwidth, the serializable_enums map of the P4Info) are explicit arguments: the order in which
   the runtime happens to iterate.  The program collects the keys, sort.Strings them, and emits in that order.
   The spelling of Go identifiers (strcase.ToPascal) is not modelled; constants are compared modulo
   [norm_name] (case and the separators '_' '.' ignored) and the spelling itself is covered by the
   byte-for-byte regeneration in the check.  No proofs here. *)
From Coq Require Import NArith List String Ascii Bool.
From UPF Require Import Model.P4Info.
Import ListNotations.
Open Scope string_scope.
Open Scope list_scope.
Open Scope N_scope.

(* ------------------------------------------------------------------ sort.Strings *)
Fixpoint str_leb (a b : string) : bool :=
  match a, b with
  | EmptyString, _ => true
  | String _ _, EmptyString => false
  | String x a', String y b' =>
    let nx := N_of_ascii x in let ny := N_of_ascii y in
    if nx <? ny then true else if nx =? ny then str_leb a' b' else false
  end.
Fixpoint insert (x : string) (l : list string) : list string :=
  match l with
  | [] => [x]
  | y :: r => if str_leb x y then x :: l else y :: insert x r
  end.
Fixpoint sort (l : list string) : list string :=
  match l with [] => [] | x :: r => insert x (sort r) end.

(* ------------------------------------------------------------------ Go maps as association lists *)
Fixpoint assoc {V} (k : string) (m : list (string * V)) : option V :=
  match m with [] => None | (k', v) :: r => if String.eqb k k' then Some v else assoc k r end.
(* m[k] = v *)
Fixpoint upsert {V} (k : string) (v : V) (m : list (string * V)) : list (string * V) :=
  match m with
  | [] => [(k, v)]
  | (k', v') :: r => if String.eqb k k' then (k, v) :: r else (k', v') :: upsert k v r
  end.

(* matchFieldBitwidth[mf.GetName()] = mf.GetBitwidth() over all tables, in file order (last one wins) *)
Definition mf_map (i : p4info) : list (string * N) :=
  fold_left (fun m t => fold_left (fun m f => upsert (mf_name f) (mf_width f) m) (t_fields t) m) (i_tables i) [].
Definition ap_map (i : p4info) : list (string * N) :=
  fold_left (fun m a => fold_left (fun m p => upsert (p_name p) (p_width p) m) (a_params a) m) (i_actions i) [].

(* ------------------------------------------------------------------ the emitted information *)
Definition const := (string * string * N)%type.       (* kind, P4-side name (before ToPascal), value *)

Definition be_value (bytes : list N) : N := fold_left (fun acc b => acc * 256 + b) bytes 0.

(* a section emitted in sorted key order from a Go map iterated in the order [m] *)
Definition sorted_section (kind : string) (m : list (string * N)) : list const :=
  map (fun k => (kind, k, match assoc k m with Some v => v | None => 0 end)) (sort (map fst m)).

Definition enum_consts (e : enum) : list const :=
  flat_map (fun mv => if (4 <? N.of_nat (List.length (snd mv))) then []      (* getUint32FromByteArray fails: skipped *)
                      else [("Enum", (e_name e ++ "_" ++ fst mv)%string, be_value (snd mv))]) (e_members e).
Definition enum_section (en : list enum) : list const :=
  let m := map (fun e => (e_name e, e)) en in
  flat_map (fun k => match assoc k m with Some e => enum_consts e | None => [] end) (sort (map fst m)).

Definition gen_consts (i : p4info) (mf ap : list (string * N)) (en : list enum) : list const :=
  flat_map (fun t => map (fun f => ("Hdr", (t_name t ++ "_" ++ mf_name f)%string, mf_id f)) (t_fields t)) (i_tables i)
  ++ map (fun t => ("Table", t_name t, t_id t)) (i_tables i)
  ++ map (fun a => ("Action", a_name a, a_id a)) (i_actions i)
  ++ flat_map (fun a => map (fun p => ("ActionParam", (a_name a ++ "_" ++ p_name p)%string, p_id p)) (a_params a)) (i_actions i)
  ++ flat_map (fun c => [("Counter", s_name c, s_id c); ("CounterSize", s_name c, s_size c)]) (i_counters i)
  ++ map (fun c => ("DirectCounter", n_name c, n_id c)) (i_direct_counters i)
  ++ map (fun c => ("ActionProfile", s_name c, s_id c)) (i_action_profiles i)
  ++ map (fun c => ("PacketMeta", n_name c, n_id c)) (i_ctrl_metadata i)
  ++ flat_map (fun c => [("Meter", s_name c, s_id c); ("MeterSize", s_name c, s_size c)]) (i_meters i)
  ++ enum_section en
  ++ sorted_section "BitwidthMf" mf
  ++ sorted_section "BitwidthAp" ap.

Definition gen_maps (i : p4info) : list (string * list (N * string)) :=
  [("Table", map (fun t => (t_id t, t_name t)) (i_tables i));
   ("Action", map (fun a => (a_id a, a_name a)) (i_actions i));
   ("ActionProfile", map (fun c => (s_id c, s_name c)) (i_action_profiles i));
   ("Counter", map (fun c => (s_id c, s_name c)) (i_counters i));
   ("DirectCounter", map (fun c => (n_id c, n_name c)) (i_direct_counters i));
   ("Meter", map (fun c => (s_id c, s_name c)) (i_meters i));
   ("DirectMeter", map (fun c => (n_id c, n_name c)) (i_direct_meters i));
   ("ControllerPacketMetadata", map (fun c => (n_id c, n_name c)) (i_ctrl_metadata i));
   ("Register", map (fun c => (s_id c, s_name c)) (i_registers i))].
Definition gen_lists (i : p4info) : list (string * list N) :=
  map (fun kv => (fst kv, map fst (snd kv))) (gen_maps i).

Record gen_output := GO { go_consts : list const; go_maps : list (string * list (N * string)); go_lists : list (string * list N) }.

(* the generator run on [i] when the Go runtime iterates the three maps in the orders mf, ap, en *)
Definition generate (i : p4info) (mf ap : list (string * N)) (en : list enum) : gen_output :=
  GO (gen_consts i mf ap en) (gen_maps i) (gen_lists i).

(* the constants derived from a P4Info (one admissible iteration order; by C16_generator_deterministic any other gives the same) *)
Definition derive_constants (i : p4info) : gen_output := generate i (mf_map i) (ap_map i) (i_enums i).

(* ------------------------------------------------------------------ comparison with the committed Go file *)
Definition lower (c : ascii) : ascii :=
  let n := N_of_ascii c in if (65 <=? n) && (n <=? 90) then ascii_of_N (n + 32) else c.
Fixpoint norm_name (s : string) : string :=
  match s with
  | EmptyString => EmptyString
  | String c r => if Ascii.eqb c "_" || Ascii.eqb c "." then norm_name r else String (lower c) (norm_name r)
  end.
Definition norm_const (c : const) : const := (fst (fst c), norm_name (snd (fst c)), snd c).

Definition const_eqb (a b : const) : bool :=
  String.eqb (fst (fst a)) (fst (fst b)) && String.eqb (snd (fst a)) (snd (fst b)) && (snd a =? snd b).
Definition count (x : const) (l : list const) : nat := List.length (filter (const_eqb x) l).
(* equal as multisets *)
Definition same_consts (l1 l2 : list const) : bool :=
  forallb (fun x => Nat.eqb (count x l1) (count x l2)) (l1 ++ l2).

Definition pair_eqb (a b : N * string) : bool := (fst a =? fst b) && String.eqb (snd a) (snd b).
Fixpoint list_eqb {A} (eq : A -> A -> bool) (x y : list A) : bool :=
  match x, y with
  | [], [] => true
  | a :: x', b :: y' => eq a b && list_eqb eq x' y'
  | _, _ => false
  end.
