(* Model of the request/response machinery of the PFCP agent (property C12).  No proofs here.

   pfcpiface/conn.go           getSeqNum, startHeartBeatMonitor
   pfcpiface/messages.go       newRequest, Request.GetResponse, sendPFCPRequestMessage, HandlePFCPMsg (dispatch)
   pfcpiface/messages_conn.go  sendAssociationRequest, getHeartBeatRequest, handleHeartbeatRequest,
                               handleIncomingResponse, associationIEs, handleAssociationSetupRequest
   pfcpiface/utils.go          setUeipFeature, setFTUPFeature, setEndMarkerFeature
   go-pfcp message/header.go   the sequence number is a uint32 field, 3 octets on the wire
   (the code as of the fix commits 85c666e: 24-bit counter, b3cbab8: entry removed when the exchange ends,
   one-slot reply channel, LoadAndDelete + non-blocking hand-over)

   Time is the trace: [Timeout] is the expiry of the resp_timeout timer started after the latest
   transmission, so "spaced by resp_timeout" reads "exactly one Timeout between two transmissions". *)
From Coq Require Import NArith List Bool.
Import ListNotations.
Open Scope N_scope.

(* ------------------------------------------------------------------------------------------ *)
(** * Sequence numbers *)

Definition two24 : N := 16777216.

(* conn.go getSeqNum: pConn.seqNum.seq = (pConn.seqNum.seq + 1) & 0xFFFFFF  (wraps from 2^24-1 to 0) *)
Definition next_seq (c : N) : N := (c + 1) mod two24.
(* go-pfcp: uint32To24 on marshal, uint24To32 on parse: what the peer sees and what it echoes *)
Definition wire_seq (s : N) : N := s mod two24.

(* ------------------------------------------------------------------------------------------ *)
(** * One request/response exchange: sendPFCPRequestMessage + handleIncomingResponse *)

(* Per-connection state that outlives an exchange: the sequence counter and the keys present in
   pendingReqs.  sendPFCPRequestMessage stores its request under its sequence number and removes the
   entry when it returns (defer Delete), whatever the outcome; handleIncomingResponse does
   LoadAndDelete and hands the message over with a non-blocking send into the request's one-slot
   reply channel.  A request is stored once, so at most one hand-over per request is ever attempted
   and the slot is free when it happens: the hand-over cannot fail and the reader cannot block. *)
Record cst := C { counter : N; table : list N }.

Fixpoint mem (k : N) (l : list N) : bool :=
  match l with [] => false | x :: r => (k =? x) || mem k r end.
Fixpoint del (k : N) (l : list N) : list N :=
  match l with [] => [] | x :: r => if k =? x then del k r else x :: del k r end.

Inductive outcome := Pending | Answered | Dead | Aborted.
(* Resp w: a response datagram whose 3-octet sequence field decodes to [wire_seq w] is read *)
Inductive ev := Timeout | Resp (w : N) | Shutdown.
Inductive out :=
  | Tx (w : N)        (* SendPFCPMsg(r.msg): the request goes out with this wire sequence number *)
  | Deliver           (* LoadAndDelete found this exchange's entry: the message is handed to the requester *)
  | Ignored           (* no entry under that sequence number: nothing happens *)
  | DeliverOther      (* the entry of some other outstanding request was found (and removed) *)
  | Teardown.         (* the caller's reaction to timeout=true: pConn.Shutdown() *)

Record xst := X { retries : N; sent : N; res : outcome; key : N; conn : cst }.

(* deferred pendingReqs.Delete(seq) when sendPFCPRequestMessage returns *)
Definition drop_entry (k : N) (c : cst) : cst := C (counter c) (del k (table c)).

(* LoadAndDelete under a sequence number that is not this exchange's pending one *)
Definition other_hit (c : cst) (k : N) : cst * list out :=
  if mem k (table c) then (drop_entry k c, [DeliverOther]) else (c, [Ignored]).

Definition step (s : xst) (e : ev) : xst * list out :=
  match e with
  | Resp w =>
      let k := wire_seq w in
      match res s with
      | Pending =>
          if (k =? key s) && mem k (table (conn s))
          then (X (retries s) (sent s) Answered (key s) (drop_entry (key s) (conn s)), [Deliver])
          else let '(c', o) := other_hit (conn s) k in (X (retries s) (sent s) Pending (key s) c', o)
      | r => let '(c', o) := other_hit (conn s) k in (X (retries s) (sent s) r (key s) c', o)
      end
  | Timeout =>
      match res s with
      | Pending =>
          if 0 <? retries s
          then (X (retries s - 1) (sent s + 1) Pending (key s) (conn s), [Tx (wire_seq (key s))])
          else (X (retries s) (sent s) Dead (key s) (drop_entry (key s) (conn s)), [Teardown])
      | _ => (s, [])
      end
  | Shutdown =>
      match res s with
      | Pending => (X (retries s) (sent s) Aborted (key s) (drop_entry (key s) (conn s)), [])
      | _ => (s, [])
      end
  end.

Fixpoint run_from (s : xst) (tr : list ev) : xst * list out :=
  match tr with
  | [] => (s, [])
  | e :: r => let '(s1, o1) := step s e in let '(s2, o2) := run_from s1 r in (s2, o1 ++ o2)
  end.

(* getSeqNum; newRequest; pendingReqs.Store(seq, r) (overwrites); first SendPFCPMsg; retriesLeft := n *)
Definition start (n : N) (c : cst) : xst * list out :=
  let k := next_seq (counter c) in
  (X n 1 Pending k (C k (k :: del k (table c))), [Tx (wire_seq k)]).

Definition exchange (n : N) (c : cst) (tr : list ev) : xst * list out :=
  let '(s0, o0) := start n c in let '(s, o) := run_from s0 tr in (s, o0 ++ o).

Definition fresh_conn : cst := C 0 [].

(* ------------------------------------------------------------------------------------------ *)
(** * The two callers: startHeartBeatMonitor's tick and sendAssociationRequest *)

(* [ByAssociation ok]: ok = handleAssociationSetupResponse accepts the reply (cause Accepted and the
   mandatory IEs decode); otherwise the caller shuts the connection down although it was answered. *)
Inductive caller := ByHeartbeat | ByAssociation (resp_ok : bool).

(* one caller invocation: outputs of the exchange, extra teardown, and whether the connection lives on *)
Definition call (n : N) (c : cst) (who : caller) (tr : list ev) : cst * list out * bool :=
  let '(s, o) := exchange n c tr in
  match res s, who with
  | Answered, ByAssociation false => (conn s, o ++ [Teardown], false)
  | Answered, _ => (conn s, o, true)
  | Pending, _ => (conn s, o, true)
  | Dead, _ => (conn s, o, false)          (* Teardown already emitted by the exchange *)
  | Aborted, _ => (conn s, o, false)
  end.

(* a connection's successive exchanges; once it is torn down nothing more is sent *)
Fixpoint calls (n : N) (c : cst) (alive : bool) (xs : list (caller * list ev)) : list (list out) :=
  match xs with
  | [] => []
  | (who, tr) :: r =>
      if alive then let '(c', o, a) := call n c who tr in o :: calls n c' a r
      else [] :: calls n c false r
  end.

(* ------------------------------------------------------------------------------------------ *)
(** * The heartbeat ticker: time.Ticker(hbInterval) inside startHeartBeatMonitor's select loop *)

(* [Wait d]: d time units pass while the monitor sits in its select; [TReset]: a token arrives on
   hbReset (pushed by handleHeartbeatRequest) -> Ticker.Reset(interval); [TCancel]: hbCtx.Done. *)
Inductive tev := Wait (d : N) | TReset | TCancel.
Record tst := T { remaining : N; running : bool }.

(* result: new state and the number of interval expiries (each starts a heartbeat exchange) *)
Definition tstep (i : N) (s : tst) (e : tev) : tst * N :=
  if negb (running s) then (s, 0) else
  match e with
  | Wait d =>
      if d <? remaining s then (T (remaining s - d) true, 0)
      else let over := d - remaining s in (T (i - over mod i) true, 1 + over / i)
  | TReset => (T i true, 0)
  | TCancel => (T (remaining s) false, 0)
  end.

Fixpoint trun (i : N) (s : tst) (tr : list tev) : tst * N :=
  match tr with
  | [] => (s, 0)
  | e :: r => let '(s1, f1) := tstep i s e in let '(s2, f2) := trun i s1 r in (s2, f1 + f2)
  end.

Definition tstart (i : N) : tst := T i true.

Fixpoint waited (tr : list tev) : N :=
  match tr with [] => 0 | Wait d :: r => d + waited r | _ :: r => waited r end.

(* ------------------------------------------------------------------------------------------ *)
(** * The synchronous handlers: Heartbeat Request and Association Setup Request from the peer *)

Record cfg := Cfg { enable_ueip : bool; enable_end_marker : bool; enable_hb_timer : bool; dnn_set : bool }.

(* utils.go set*Feature on  features := make([]uint8, 4)  in the order associationIEs applies them *)
Definition features (c : cfg) : N * N * N * N :=
  let f2 := if enable_ueip c then N.lor 0 4 else 0 in          (* setUeipFeature: features[2] |= 0x04 *)
  let f0 := N.lor 0 16 in                                      (* setFTUPFeature: features[0] |= 0x10 *)
  let f1 := if enable_end_marker c then N.lor 0 1 else 0 in    (* setEndMarkerFeature: features[1] |= 0x01 *)
  (f0, f1, f2, 0).

(* TS 29.244 8.2.25: FTUP = octet 5 bit 5, EMPU = octet 6 bit 1, UEIP = octet 7 bit 3 *)
Definition has_ftup (f : N * N * N * N) : bool := let '(f0, _, _, _) := f in N.testbit f0 4.
Definition has_empu (f : N * N * N * N) : bool := let '(_, f1, _, _) := f in N.testbit f1 0.
Definition has_ueip (f : N * N * N * N) : bool := let '(_, _, f2, _) := f in N.testbit f2 2.

(* User Plane IP Resource Information flags octet: 0x41, with ASSONI (0x61) when a DNN is configured *)
Definition upiri_flags (c : cfg) : N := if dnn_set c then 97 else 65.

Definition hb_reset_cap : N := 100.      (* hbReset: make(chan struct{}, 100) *)
Definition cause_accepted : N := 1.
Definition cause_rejected : N := 64.

Record ast := A { ts_local : N;              (* recoveryTS.local, set once when the PFCPConn is created *)
                  ts_remote : option N;
                  node_remote : option N;    (* nodeID.remote; None = "" = not associated *)
                  queued : N;                (* tokens sitting in hbReset while no monitor drains it *)
                  monitors : N }.            (* how many times  go startHeartBeatMonitor()  was issued *)

(* an IE as the handler sees it: absent | accessor error | decoded value *)
Inductive ie_in := Absent | Bad | Val (v : N).

Inductive aev :=
  | HBReq (seq : N)
  | SetupReq (seq : N) (node : ie_in) (rts : ie_in) (connected : bool).   (* connected = upf.isConnected() now *)

Inductive reply :=
  | HBResp (seq ts : N)
  | SetupResp (seq cause ts : N) (feat : N * N * N * N) (flags : N)
  | NoReply.

(* what the non-blocking push on hbReset did *)
Inductive reset_effect := NoTimer | ToMonitor | Queued | DroppedFull.

Definition handle_hb (c : cfg) (s : ast) (seq : N) : ast * reply * reset_effect :=
  let r := HBResp seq (ts_local s) in
  if enable_hb_timer c then
    if 0 <? monitors s then (s, r, ToMonitor)
    else if queued s <? hb_reset_cap
         then (A (ts_local s) (ts_remote s) (node_remote s) (queued s + 1) (monitors s), r, Queued)
         else (s, r, DroppedFull)
  else (s, r, NoTimer).

Definition newer (old : option N) (ts : N) : option N :=
  match old with None => Some ts | Some o => if o <? ts then Some ts else Some o end.

(* returns the reply and whether isConnected was consulted *)
Definition handle_setup (c : cfg) (s : ast) (seq : N) (node rts : ie_in) (connected : bool)
  : ast * reply * bool :=
  match node, rts with
  | Val nid, Val ts =>
      let build cause := SetupResp seq cause (ts_local s) (features c) (upiri_flags c) in
      if connected
      then (A (ts_local s) (newer (ts_remote s) ts) (Some nid) (if enable_hb_timer c then 0 else queued s)
              (if enable_hb_timer c then monitors s + 1 else monitors s),
            build cause_accepted, true)
      else (s, build cause_rejected, true)
  | _, _ => (s, NoReply, false)      (* nil-IE guard / accessor error: errUnmarshal, nothing is sent *)
  end.

Definition astep (c : cfg) (s : ast) (e : aev) : ast * reply :=
  match e with
  | HBReq seq => let '(s', r, _) := handle_hb c s seq in (s', r)
  | SetupReq seq node rts conn => let '(s', r, _) := handle_setup c s seq node rts conn in (s', r)
  end.

Fixpoint arun (c : cfg) (s : ast) (es : list aev) : ast * list reply :=
  match es with
  | [] => (s, [])
  | e :: r => let '(s1, x) := astep c s e in let '(s2, xs) := arun c s1 r in (s2, x :: xs)
  end.

Definition ainit (ts : N) : ast := A ts None None 0 0.

Definition reply_ts (r : reply) : option N :=
  match r with HBResp _ ts => Some ts | SetupResp _ _ ts _ _ => Some ts | NoReply => None end.
