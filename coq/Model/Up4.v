(* C04: the UP4 plug-in (pfcpiface/up4.go) as an executable model: its bookkeeping (counter / meter-cell /
   tunnel-peer-id / application-id pools, tunnel-peer and application reference sets, meters map, UE address
   maps), the statement order and early returns of sendCreate / sendUpdate / sendDelete /
   modifyUP4ForwardingConfiguration / clearDatapathState, and the switch behind it with the P4Runtime Write
   semantics of the harness server (updates of a batch applied in order, each on its own: INSERT of an
   existing key -> ALREADY_EXISTS, MODIFY / DELETE of a missing key -> NOT_FOUND).

   Rules are the agent model's records (Model/Agent.v) plus the counter cell the plug-in stores in the PDR;
   table entries are the *named* entries of Model/P4Build.v (the Gallina copies of p4rt_translator.go); a
   table key is (table, match fields, priority).  [resolve_batch] turns a batch into the ids on the wire.
   golang-set Pop() takes its element from an oracle list and the model CHECKS that it is in the pool.
   No proofs here. *)
From Coq Require Import NArith List String Bool.
From UPF Require Model.PortRange Model.Agent.
From UPF Require Import Model.P4Info Model.P4Valid Model.P4Build.
Import ListNotations.
Open Scope string_scope.
Open Scope list_scope.
Open Scope N_scope.

(* ------------------------------------------------------------------ rules handed to SendMsgToUPF *)
Record rpdr := RP { rp_pdr : Agent.pdr; rp_ctr : N }.            (* pdr.ctrID lives in the plug-in's copy *)
Record rules := Rules { r_pdrs : list rpdr; r_fars : list Agent.far; r_qers : list Agent.qer }.
Definition no_rules : rules := Rules [] [] [].

Definition to_range (r : PortRange.prange) : port_range := PR (PortRange.lo r) (PortRange.hi r).
Definition to_af (p : Agent.pdr) : app_filter :=
  AF (Agent.f_sip p) (Agent.f_dip p) (to_range (Agent.f_sp p)) (to_range (Agent.f_dp p)) (Agent.f_proto p)
     (Agent.f_sip_m p) (Agent.f_dip_m p) (Agent.f_proto_m p).
(* [ue]: pdr.ueAddress at the time the builders run (an uplink PDR gets it from fseidToUEAddr) *)
Definition to_pdr (r : rpdr) (ue : N) : pdr :=
  let p := rp_pdr r in
  Pdr (Agent.p_iface p) (Agent.p_tdst p) (Agent.p_teid p) ue (to_af p) (Agent.p_prec p) (Agent.p_id p) (rp_ctr r)
      (Agent.p_far p) (Agent.p_qers p).
Definition to_far (f : Agent.far) : far :=
  Far (Agent.a_id f) (Agent.a_dst f) (Agent.a_action f) (Agent.a_tdst f) (Agent.a_teid f) (Agent.a_tport f).
Definition to_qer (q : Agent.qer) : qer :=
  Qer (Agent.q_id q) (Agent.q_level q) (Agent.q_qfi q) (Agent.q_ul q) (Agent.q_dl q).

Definition is_uplink (r : rpdr) : bool := Agent.p_iface (rp_pdr r) =? access.
Definition is_downlink (r : rpdr) : bool := Agent.p_iface (rp_pdr r) =? core.

(* ------------------------------------------------------------------ the switch *)
Inductive code := OK | ALREADY_EXISTS | NOT_FOUND | INVALID_ARGUMENT.
Definition code_eqb (a b : code) : bool :=
  match a, b with OK, OK | ALREADY_EXISTS, ALREADY_EXISTS | NOT_FOUND, NOT_FOUND | INVALID_ARGUMENT, INVALID_ARGUMENT => true | _, _ => false end.

Inductive nupd :=
| NUTable (ty : utype) (e : nentry)
| NUMeter (ident : string) (cell : N) (has_cfg : bool)        (* MODIFY of a meter cell; no config = reset *)
| NUCounter (ident : string) (cell : N).                      (* MODIFY of a counter cell with zero data *)

Definition nkey := (string * list (string * nmatch) * N)%type.
Definition key_of (e : nentry) : nkey := (ne_table e, ne_match e, ne_prio e).

Definition nmatch_eqb (a b : nmatch) : bool :=
  match a, b with
  | NExact x, NExact y => x =? y
  | NLpm x p, NLpm y q | NRange x p, NRange y q | NTernary x p, NTernary y q => (x =? y) && (p =? q)
  | _, _ => false
  end.
Definition nfield_eqb (a b : string * nmatch) : bool := String.eqb (fst a) (fst b) && nmatch_eqb (snd a) (snd b).
Definition nkey_eqb (a b : nkey) : bool :=
  String.eqb (fst (fst a)) (fst (fst b)) && list_eqb nfield_eqb (snd (fst a)) (snd (fst b)) && (snd a =? snd b).
Definition nparam_eqb (a b : string * N) : bool := String.eqb (fst a) (fst b) && (snd a =? snd b).
Definition nentry_eqb (a b : nentry) : bool :=
  nkey_eqb (key_of a) (key_of b) && String.eqb (ne_action a) (ne_action b) && list_eqb nparam_eqb (ne_params a) (ne_params b).

Definition cell := (string * N)%type.
Definition cell_eqb (a b : cell) : bool := String.eqb (fst a) (fst b) && (snd a =? snd b).

Record switch := Sw { sw_entries : list nentry; sw_meters : list cell; sw_counters : list cell }.
Definition empty_switch : switch := Sw [] [] [].

Definition has_key (k : nkey) (l : list nentry) : bool := existsb (fun e => nkey_eqb (key_of e) k) l.
Definition get_key (k : nkey) (l : list nentry) : option nentry := find (fun e => nkey_eqb (key_of e) k) l.
Definition replace_key (e : nentry) (l : list nentry) : list nentry :=
  map (fun x => if nkey_eqb (key_of x) (key_of e) then e else x) l.
Definition remove_key (k : nkey) (l : list nentry) : list nentry := filter (fun x => negb (nkey_eqb (key_of x) k)) l.
Definition cell_add (c : cell) (l : list cell) : list cell := if existsb (cell_eqb c) l then l else l ++ [c].
Definition cell_del (c : cell) (l : list cell) : list cell := filter (fun x => negb (cell_eqb c x)) l.

Definition sw_apply (u : nupd) (s : switch) : switch * code :=
  match u with
  | NUTable UInsert e =>
    if has_key (key_of e) (sw_entries s) then (s, ALREADY_EXISTS)
    else (Sw (sw_entries s ++ [e]) (sw_meters s) (sw_counters s), OK)
  | NUTable UModify e =>
    if has_key (key_of e) (sw_entries s) then (Sw (replace_key e (sw_entries s)) (sw_meters s) (sw_counters s), OK)
    else (s, NOT_FOUND)
  | NUTable UDelete e =>
    if has_key (key_of e) (sw_entries s) then (Sw (remove_key (key_of e) (sw_entries s)) (sw_meters s) (sw_counters s), OK)
    else (s, NOT_FOUND)
  | NUTable UUnspec _ => (s, INVALID_ARGUMENT)
  | NUMeter id c true => (Sw (sw_entries s) (cell_add (id, c) (sw_meters s)) (sw_counters s), OK)
  | NUMeter id c false => (Sw (sw_entries s) (cell_del (id, c) (sw_meters s)) (sw_counters s), OK)
  | NUCounter id c => (Sw (sw_entries s) (sw_meters s) (cell_add (id, c) (sw_counters s)), OK)
  end.

Fixpoint sw_batch (us : list nupd) (s : switch) : switch * list code :=
  match us with
  | [] => (s, [])
  | u :: r => let '(s1, c) := sw_apply u s in let '(s2, cs) := sw_batch r s1 in (s2, c :: cs)
  end.

Definition all_ok (cs : list code) : bool := forallb (fun c => code_eqb c OK) cs.
(* modifyUP4ForwardingConfiguration: "ignore ALREADY_EXISTS or OK" *)
Definition tolerated (cs : list code) : bool := forallb (fun c => code_eqb c OK || code_eqb c ALREADY_EXISTS) cs.

(* one Write RPC: the updates with the status each was answered with *)
Definition batch := list (nupd * code).

(* ------------------------------------------------------------------ the plug-in's bookkeeping *)
Definition ref := (N * N)%type.                          (* <F-SEID; FAR id> or <F-SEID; PDR id> *)
Definition ref_eqb (a b : ref) : bool := (fst a =? fst b) && (snd a =? snd b).
Definition set_add (r : ref) (l : list ref) : list ref := if existsb (ref_eqb r) l then l else l ++ [r].
Definition set_del (r : ref) (l : list ref) : list ref := filter (fun x => negb (ref_eqb r x)) l.
Definition nset_add (x : N) (l : list N) : list N := if existsb (N.eqb x) l then l else l ++ [x].
Definition nset_del (x : N) (l : list N) : list N := filter (fun y => negb (x =? y)) l.

(* tunnelParams.tunnelIP4Src is always the N3 address: the key is (dst, port) *)
Record peer := Peer { pe_dst : N; pe_port : N; pe_id : N; pe_used : list ref }.
(* up4ApplicationFilter{appIP, appL4Port, appProto}: the masks are NOT part of the key *)
Record app := App { ap_ip : N; ap_lo : N; ap_hi : N; ap_proto : N; ap_id : N; ap_used : list ref }.
Record mtr := Mtr { mt_fseid : N; mt_qer : N; mt_type : N; mt_ul : N; mt_dl : N }.
Definition meter_type_app : N := 1.
Definition meter_type_session : N := 2.

Record up4 := Up4 {
  u_sw : switch;
  u_ctr_pool : list N;               (* counters[preQosCounterID].counterIDsPool (a set) *)
  u_app_cells : list N;              (* appMeterCellIDsPool (a set) *)
  u_sess_cells : list N;             (* sessMeterCellIDsPool (a set) *)
  u_peer_pool : list N;              (* tunnelPeerIDsPool (a queue) *)
  u_app_pool : list N;               (* applicationIDsPool (a queue) *)
  u_peers : list peer;
  u_apps : list app;
  u_meters : list mtr;
  u_ue2f : list (N * N);
  u_f2ue : list (N * N) }.

Definition with_sw (x : up4) (s : switch) : up4 :=
  Up4 s (u_ctr_pool x) (u_app_cells x) (u_sess_cells x) (u_peer_pool x) (u_app_pool x) (u_peers x) (u_apps x) (u_meters x) (u_ue2f x) (u_f2ue x).
Definition with_ctr_pool (x : up4) (l : list N) : up4 :=
  Up4 (u_sw x) l (u_app_cells x) (u_sess_cells x) (u_peer_pool x) (u_app_pool x) (u_peers x) (u_apps x) (u_meters x) (u_ue2f x) (u_f2ue x).
Definition with_app_cells (x : up4) (l : list N) : up4 :=
  Up4 (u_sw x) (u_ctr_pool x) l (u_sess_cells x) (u_peer_pool x) (u_app_pool x) (u_peers x) (u_apps x) (u_meters x) (u_ue2f x) (u_f2ue x).
Definition with_sess_cells (x : up4) (l : list N) : up4 :=
  Up4 (u_sw x) (u_ctr_pool x) (u_app_cells x) l (u_peer_pool x) (u_app_pool x) (u_peers x) (u_apps x) (u_meters x) (u_ue2f x) (u_f2ue x).
Definition with_peers (x : up4) (pool : list N) (l : list peer) : up4 :=
  Up4 (u_sw x) (u_ctr_pool x) (u_app_cells x) (u_sess_cells x) pool (u_app_pool x) l (u_apps x) (u_meters x) (u_ue2f x) (u_f2ue x).
Definition with_apps (x : up4) (pool : list N) (l : list app) : up4 :=
  Up4 (u_sw x) (u_ctr_pool x) (u_app_cells x) (u_sess_cells x) (u_peer_pool x) pool (u_peers x) l (u_meters x) (u_ue2f x) (u_f2ue x).
Definition with_meters (x : up4) (l : list mtr) : up4 :=
  Up4 (u_sw x) (u_ctr_pool x) (u_app_cells x) (u_sess_cells x) (u_peer_pool x) (u_app_pool x) (u_peers x) (u_apps x) l (u_ue2f x) (u_f2ue x).
Definition with_ue (x : up4) (a b : list (N * N)) : up4 :=
  Up4 (u_sw x) (u_ctr_pool x) (u_app_cells x) (u_sess_cells x) (u_peer_pool x) (u_app_pool x) (u_peers x) (u_apps x) (u_meters x) a b.

(* Go maps as association lists with unique keys *)
Fixpoint m_get (k : N) (m : list (N * N)) : option N :=
  match m with [] => None | (k', v) :: r => if k' =? k then Some v else m_get k r end.
Definition m_del (k : N) (m : list (N * N)) : list (N * N) := filter (fun kv => negb (fst kv =? k)) m.
Definition m_put (k v : N) (m : list (N * N)) : list (N * N) := m_del k m ++ [(k, v)].

Definition peer_is (dst port : N) (p : peer) : bool := (pe_dst p =? dst) && (pe_port p =? port).
Definition peer_get (dst port : N) (l : list peer) : option peer := find (peer_is dst port) l.
Definition peer_del (dst port : N) (l : list peer) : list peer := filter (fun p => negb (peer_is dst port p)) l.
Definition peer_put (p : peer) (l : list peer) : list peer := peer_del (pe_dst p) (pe_port p) l ++ [p].

Definition app_is (ip lo hi proto : N) (a : app) : bool :=
  (ap_ip a =? ip) && (ap_lo a =? lo) && (ap_hi a =? hi) && (ap_proto a =? proto).
Definition app_get (ip lo hi proto : N) (l : list app) : option app := find (app_is ip lo hi proto) l.
Definition app_del (ip lo hi proto : N) (l : list app) : list app := filter (fun a => negb (app_is ip lo hi proto a)) l.
Definition app_put (a : app) (l : list app) : list app := app_del (ap_ip a) (ap_lo a) (ap_hi a) (ap_proto a) l ++ [a].

Definition mtr_is (fseid qer : N) (m : mtr) : bool := (mt_fseid m =? fseid) && (mt_qer m =? qer).
Definition mtr_get (fseid qer : N) (l : list mtr) : option mtr := find (mtr_is fseid qer) l.
Definition mtr_del (fseid qer : N) (l : list mtr) : list mtr := filter (fun m => negb (mtr_is fseid qer m)) l.
Definition mtr_put (m : mtr) (l : list mtr) : list mtr := mtr_del (mt_fseid m) (mt_qer m) l ++ [m].
(* up4.meters[...] of an absent key: the zero meter *)
Definition cells_of (o : option mtr) : meter_cells := match o with Some m => MC (mt_ul m) (mt_dl m) | None => MC 0 0 end.

(* ------------------------------------------------------------------ configuration *)
(* P4rtcInfo + the sizes of the two indirect counters / meters the pools are built from *)
Record ucfg := UCfg { uc : config; uc_ctr_size : N; uc_appm_size : N; uc_sessm_size : N }.

Definition max_tunnel_peer_ids : N := 253.      (* up4.go *)
Definition max_application_ids : N := 254.
Fixpoint upto (n : nat) (from : N) : list N := match n with O => [] | S k => from :: upto k (from + 1) end.
Definition range (from below : N) : list N := upto (N.to_nat (below - from)) from.   (* from .. below-1 *)

(* ------------------------------------------------------------------ results *)
Inductive res :=
| ROk
| RErr                  (* the function returned an error: the request is rejected *)
| RCrash                (* index out of range *)
| RBadOracle.           (* the oracle's Pop() choice is not in the pool *)
Definition res_eqb (a b : res) : bool :=
  match a, b with ROk, ROk | RErr, RErr | RCrash, RCrash | RBadOracle, RBadOracle => true | _, _ => false end.

Inductive popped := PGot (c : N) (pool orc : list N) | PEmpty | PBad.
Definition pop (pool orc : list N) : popped :=
  match pool with
  | [] => PEmpty
  | _ => match orc with
         | [] => PBad
         | c :: r => if existsb (N.eqb c) pool then PGot c (nset_del c pool) r else PBad
         end
  end.

Definition write (us : list nupd) (x : up4) : up4 * list code :=
  let '(s, cs) := sw_batch us (u_sw x) in (with_sw x s, cs).

(* ------------------------------------------------------------------ counters *)
Definition counter_reset (ctr : N) : list nupd :=
  [NUCounter "PreQosPipePreQosCounter" ctr; NUCounter "PostQosPipePostQosCounter" ctr].

(* sendCreate, first loop: for i := range updated.pdrs { allocate; all.pdrs[i].ctrID = val; resetCounter(all.pdrs[i]) } *)
Fixpoint set_ctr (i : nat) (c : N) (l : list rpdr) : option (list rpdr) :=
  match l, i with
  | [], _ => None
  | p :: r, O => Some (RP (rp_pdr p) c :: r)
  | p :: r, S k => option_map (cons p) (set_ctr k c r)
  end.
Fixpoint alloc_counters (n : nat) (i : nat) (all : list rpdr) (x : up4) (orc : list N) (log : list batch)
  : up4 * list rpdr * list N * list batch * res :=
  match n with
  | O => (x, all, orc, log, ROk)
  | S k =>
    match pop (u_ctr_pool x) orc with
    | PEmpty => (x, all, orc, log, RErr)
    | PBad => (x, all, orc, log, RBadOracle)
    | PGot c pool orc' =>
      let x1 := with_ctr_pool x pool in
      match set_ctr i c all with
      | None => (x1, all, orc', log, RCrash)
      | Some all' =>
        let '(x2, cs) := write (counter_reset c) x1 in
        if all_ok cs then alloc_counters k (S i) all' x2 orc' (log ++ [combine (counter_reset c) cs])
        else (x2, all', orc', log ++ [combine (counter_reset c) cs], RErr)
      end
    end
  end.

(* updateUEAddrAndFSEIDMappings / removeUeAddrAndFSEIDMappings: uplink PDRs are skipped *)
Definition ue_update (x : up4) (r : rpdr) : up4 :=
  if is_uplink r then x
  else with_ue x (m_put (Agent.p_ue (rp_pdr r)) (Agent.p_fseid (rp_pdr r)) (u_ue2f x))
                 (m_put (Agent.p_fseid (rp_pdr r)) (Agent.p_ue (rp_pdr r)) (u_f2ue x)).
Definition ue_remove (x : up4) (r : rpdr) : up4 :=
  if is_uplink r then x
  else with_ue x (m_del (Agent.p_ue (rp_pdr r)) (u_ue2f x)) (m_del (Agent.p_fseid (rp_pdr r)) (u_f2ue x)).

(* ------------------------------------------------------------------ meters *)
Definition meter_cfg (ident : string) (c : N) : nupd := NUMeter ident c true.
Definition meter_rst (ident : string) (c : N) : nupd := NUMeter ident c false.
Definition app_meter : string := "PreQosPipeAppMeter".
Definition session_meter : string := "PreQosPipeSessionMeter".

(* configureApplicationMeter(q, bidirectional) *)
Definition configure_app_meter (bidir : bool) (x : up4) (orc : list N) : up4 * list N * list batch * option (N * N) * res :=
  match pop (u_app_cells x) orc with
  | PEmpty => (x, orc, [], None, RErr)
  | PBad => (x, orc, [], None, RBadOracle)
  | PGot ul pool1 orc1 =>
    let x1 := with_app_cells x pool1 in
    let second :=
        if bidir then
          match pop pool1 orc1 with
          | PEmpty => inr (with_app_cells x (if ul =? 0 then pool1 else nset_add ul pool1), orc1, RErr)   (* releaseAppMeterCellID(uplinkCellID) *)
          | PBad => inr (x1, orc1, RBadOracle)
          | PGot dl pool2 orc2 => inl (dl, with_app_cells x pool2, orc2)
          end
        else inl (ul, x1, orc1) in
    match second with
    | inr (xe, oe, r) => (xe, oe, [], None, r)
    | inl (dl, x2, orc2) =>
      let us := (if ul =? 0 then [] else [meter_cfg app_meter ul]) ++ (if dl =? ul then [] else [meter_cfg app_meter dl]) in
      let '(x3, cs) := write us x2 in
      if all_ok cs then (x3, orc2, [combine us cs], Some (ul, dl), ROk)
      else
        let p1 := if ul =? 0 then u_app_cells x3 else nset_add ul (u_app_cells x3) in
        let p2 := if (dl =? ul) || (dl =? 0) then p1 else nset_add dl p1 in
        (with_app_cells x3 p2, orc2, [combine us cs], None, RErr)
    end
  end.

(* configureSessionMeter(q): always two cells *)
Definition configure_session_meter (x : up4) (orc : list N) : up4 * list N * list batch * option (N * N) * res :=
  match pop (u_sess_cells x) orc with
  | PEmpty => (x, orc, [], None, RErr)
  | PBad => (x, orc, [], None, RBadOracle)
  | PGot ul pool1 orc1 =>
    match pop pool1 orc1 with
    | PEmpty => (with_sess_cells x (if ul =? 0 then pool1 else nset_add ul pool1), orc1, [], None, RErr)
    | PBad => (with_sess_cells x pool1, orc1, [], None, RBadOracle)
    | PGot dl pool2 orc2 =>
      let x2 := with_sess_cells x pool2 in
      let us := [meter_cfg session_meter ul; meter_cfg session_meter dl] in
      let '(x3, cs) := write us x2 in
      if all_ok cs then (x3, orc2, [combine us cs], Some (ul, dl), ROk)
      else
        let p1 := if ul =? 0 then u_sess_cells x3 else nset_add ul (u_sess_cells x3) in
        let p2 := if dl =? 0 then p1 else nset_add dl p1 in
        (with_sess_cells x3 p2, orc2, [combine us cs], None, RErr)
    end
  end.

(* configureMeters(qers) *)
Fixpoint configure_meters_loop (single : bool) (qs : list Agent.qer) (x : up4) (orc : list N) (log : list batch)
  : up4 * list N * list batch * res :=
  match qs with
  | [] => (x, orc, log, ROk)
  | q :: r =>
    if Agent.q_level q =? app_qos then
      let '(x1, orc1, l1, cells, rs) := configure_app_meter single x orc in
      match rs, cells with
      | ROk, Some (ul, dl) =>
        configure_meters_loop single r (with_meters x1 (mtr_put (Mtr (Agent.q_fseid q) (Agent.q_id q) meter_type_app ul dl) (u_meters x1)))
                              orc1 (log ++ l1)
      | ROk, None => (x1, orc1, log ++ l1, RErr)
      | e, _ => (x1, orc1, log ++ l1, e)
      end
    else if Agent.q_level q =? session_qos then
      let '(x1, orc1, l1, cells, rs) := configure_session_meter x orc in
      match rs, cells with
      | ROk, Some (ul, dl) =>
        configure_meters_loop single r (with_meters x1 (mtr_put (Mtr (Agent.q_fseid q) (Agent.q_id q) meter_type_session ul dl) (u_meters x1)))
                              orc1 (log ++ l1)
      | ROk, None => (x1, orc1, log ++ l1, RErr)
      | e, _ => (x1, orc1, log ++ l1, e)
      end
    else configure_meters_loop single r x orc log            (* unknown type of QER: continue *)
  end.
Definition configure_meters (qs : list Agent.qer) (x : up4) (orc : list N) (log : list batch) :=
  configure_meters_loop (Nat.eqb (List.length qs) 1) qs x orc log.

(* resetMeters(qers): errors of the reset write are only logged *)
Definition reset_meter (q : Agent.qer) (x : up4) : up4 * list batch :=
  match mtr_get (Agent.q_fseid q) (Agent.q_id q) (u_meters x) with
  | None => (x, [])
  | Some m =>
    let ident := if mt_type m =? meter_type_app then Some app_meter else if mt_type m =? meter_type_session then Some session_meter else None in
    let '(x1, l1) :=
        match ident with
        | None => (x, [])
        | Some id =>
          let us := meter_rst id (mt_ul m) :: (if mt_dl m =? mt_ul m then [] else [meter_rst id (mt_dl m)]) in
          let '(x', cs) := write us x in (x', [combine us cs])
        end in
    let rel := fun pool => let p1 := if mt_ul m =? 0 then pool else nset_add (mt_ul m) pool in
                           if (mt_dl m =? mt_ul m) || (mt_dl m =? 0) then p1 else nset_add (mt_dl m) p1 in
    let rel2 := fun pool => let p1 := if mt_ul m =? 0 then pool else nset_add (mt_ul m) pool in
                            if mt_dl m =? 0 then p1 else nset_add (mt_dl m) p1 in
    let x2 := if mt_type m =? meter_type_app then with_app_cells x1 (rel (u_app_cells x1))
              else if mt_type m =? meter_type_session then with_sess_cells x1 (rel2 (u_sess_cells x1))
              else x1 in
    (with_meters x2 (mtr_del (Agent.q_fseid q) (Agent.q_id q) (u_meters x2)), l1)
  end.
Fixpoint reset_meters (qs : list Agent.qer) (x : up4) (log : list batch) : up4 * list batch :=
  match qs with
  | [] => (x, log)
  | q :: r => let '(x1, l1) := reset_meter q x in reset_meters r x1 (log ++ l1)
  end.

(* ------------------------------------------------------------------ tunnel peers *)
Section WithConfig.
  Variable c : config.

  Definition needs_peer (f : Agent.far) : bool := far_needs_peer (to_far f).
  Definition fref (f : Agent.far) : ref := (Agent.a_fseid f, Agent.a_id f).

  (* addOrUpdateGTPTunnelPeer *)
  Definition add_or_update_peer (f : Agent.far) (x : up4) : up4 * list batch * res :=
    let dst := Agent.a_tdst f in let port := Agent.a_tport f in
    match peer_get dst port (u_peers x) with
    | None =>
      match u_peer_pool x with
      | [] => (x, [], RErr)
      | id :: pool =>
        let x1 := with_peers x pool (u_peers x) in
        let us := [NUTable UInsert (n_tunnel_peer id (cf_n3 c) dst port)] in
        let '(x2, cs) := write us x1 in
        if all_ok cs then (with_peers x2 (u_peer_pool x2) (peer_put (Peer dst port id [fref f]) (u_peers x2)), [combine us cs], ROk)
        else (x2, [combine us cs], RErr)       (* releaseTnlPeerID finds nothing in the map: the id is lost *)
      end
    | Some p =>
      (* usedBy.Add mutates the shared set before the write *)
      let p' := Peer dst port (pe_id p) (set_add (fref f) (pe_used p)) in
      let x1 := with_peers x (u_peer_pool x) (map (fun q => if peer_is dst port q then p' else q) (u_peers x)) in
      let us := [NUTable UModify (n_tunnel_peer (pe_id p) (cf_n3 c) dst port)] in
      let '(x2, cs) := write us x1 in
      if all_ok cs then (with_peers x2 (u_peer_pool x2) (peer_put p' (u_peers x2)), [combine us cs], ROk)
      else (x2, [combine us cs], RErr)
    end.

  (* updateTunnelPeersBasedOnFARs *)
  Fixpoint update_peers (fs : list Agent.far) (x : up4) (log : list batch) : up4 * list batch * res :=
    match fs with
    | [] => (x, log, ROk)
    | f :: r =>
      if needs_peer f then
        let '(x1, l1, rs) := add_or_update_peer f x in
        match rs with ROk => update_peers r x1 (log ++ l1) | e => (x1, log ++ l1, e) end
      else update_peers r x log
    end.

  (* removeGTPTunnelPeer: for EVERY deleted FAR; a failed DELETE is only logged *)
  Definition remove_peer (f : Agent.far) (x : up4) : up4 * list batch :=
    let dst := Agent.a_tdst f in let port := Agent.a_tport f in
    match peer_get dst port (u_peers x) with
    | None => (x, [])
    | Some p =>
      let used := set_del (fref f) (pe_used p) in
      let p' := Peer dst port (pe_id p) used in
      let x1 := with_peers x (u_peer_pool x) (map (fun q => if peer_is dst port q then p' else q) (u_peers x)) in
      match used with
      | _ :: _ => (x1, [])
      | [] =>
        let us := [NUTable UDelete (n_tunnel_peer (pe_id p) (cf_n3 c) dst port)] in
        let '(x2, cs) := write us x1 in
        (with_peers x2 (u_peer_pool x2 ++ [pe_id p]) (peer_del dst port (u_peers x2)), [combine us cs])
      end
    end.
  Fixpoint remove_peers (fs : list Agent.far) (x : up4) (log : list batch) : up4 * list batch :=
    match fs with
    | [] => (x, log)
    | f :: r => let '(x1, l1) := remove_peer f x in remove_peers r x1 (log ++ l1)
    end.

  (* ---------------------------------------------------------------- applications *)
  (* toUP4ApplicationFilter *)
  Definition app_key (p : pdr) : N * N * N * N :=
    let a := pd_af p in
    if pd_src_iface p =? access then (af_dst_ip a, pr_lo (af_dst_ports a), pr_hi (af_dst_ports a), af_proto a)
    else if pd_src_iface p =? core then (af_src_ip a, pr_lo (af_src_ports a), pr_hi (af_src_ports a), af_proto a)
    else (0, 0, 0, af_proto a).
  Definition pref (fseid : N) (p : pdr) : ref := (fseid, pd_id p).

  (* addInternalApplicationIDAndGetP4rtEntry -> (entry, id, ok) *)
  Definition add_app (fseid : N) (p : pdr) (x : up4) : up4 * option nentry * N * bool :=
    let '(ip, lo, hi, proto) := app_key p in
    match app_get ip lo hi proto (u_apps x) with
    | Some a =>
      let a' := App ip lo hi proto (ap_id a) (set_add (pref fseid p) (ap_used a)) in
      (with_apps x (u_app_pool x) (map (fun q => if app_is ip lo hi proto q then a' else q) (u_apps x)), None, ap_id a, true)
    | None =>
      match u_app_pool x with
      | [] => (x, None, 0, false)
      | id :: pool =>
        (with_apps x pool (app_put (App ip lo hi proto id [pref fseid p]) (u_apps x)), Some (n_application p (cf_slice c) id), id, true)
      end
    end.

  (* removeInternalApplicationIDAndGetP4rtEntry -> (entry, id) *)
  Definition remove_app (fseid : N) (p : pdr) (x : up4) : up4 * option nentry * N :=
    let '(ip, lo, hi, proto) := app_key p in
    match app_get ip lo hi proto (u_apps x) with
    | None => (x, None, 0)
    | Some a =>
      let used := set_del (pref fseid p) (ap_used a) in
      let a' := App ip lo hi proto (ap_id a) used in
      let x1 := with_apps x (u_app_pool x) (map (fun q => if app_is ip lo hi proto q then a' else q) (u_apps x)) in
      match used with
      | _ :: _ => (x1, None, ap_id a)
      | [] => (with_apps x1 (u_app_pool x1 ++ [ap_id a]) (app_del ip lo hi proto (u_apps x1)),
               Some (n_application p (cf_slice c) (ap_id a)), ap_id a)       (* the entry is built from THIS pdr's precedence *)
      end
    end.

  (* ---------------------------------------------------------------- modifyUP4ForwardingConfiguration *)
  Fixpoint find_far (id : N) (fs : list Agent.far) : option Agent.far :=
    match fs with [] => None | f :: r => if Agent.a_id f =? id then Some f else find_far id r end.
  (* findRelatedApplicationQER *)
  Definition find_app_qer (p : Agent.pdr) (qs : list Agent.qer) : option Agent.qer :=
    match Agent.p_qers p with
    | [] => None
    | q0 :: _ => find (fun q => Agent.q_id q =? q0) qs
    end.

  (* the part of the loop body before the application bookkeeping: verifyPDR, related FAR, tunnel peer, session
     meter, sessions entry, UE address -> (FAR, sessions entry, pdr.ueAddress); None = the function returns an error *)
  Definition pdr_pre (fars : list Agent.far) (r : rpdr) (x : up4) : option (Agent.far * nentry * N) :=
    let p := rp_pdr r in
    let fseid := Agent.p_fseid p in
    if max_uint16 <? Agent.p_prec p then None else                                           (* verifyPDR *)
    match find_far (Agent.p_far p) fars with
    | None => None
    | Some f =>
      let po := peer_get (Agent.a_tdst f) (Agent.a_tport f) (u_peers x) in
      match po, Agent.a_teid f =? 0 with
      | None, false => None                                                                  (* allocated GTP tunnel peer ID not found *)
      | _, _ =>
        let peer_id := match po with Some pe => pe_id pe | None => 0 end in
        let sess := match Agent.p_qers p with
                    | [_; q1] => cells_of (mtr_get fseid q1 (u_meters x))
                    | _ => MC 0 0
                    end in
        match n_session (to_pdr r (Agent.p_ue p)) sess peer_id (far_buffers (to_far f)) with
        | None => None                                                                       (* unsupported source interface *)
        | Some se =>
          match (if is_uplink r then m_get fseid (u_f2ue x) else Some (Agent.p_ue p)) with
          | None => None                                                                     (* UE Address not found for uplink PDR *)
          | Some ue => Some (f, se, ue)
          end
        end
      end
    end.

  (* application id of the PDR and, when one is due, the applications entry of the batch *)
  Definition app_step (ty : utype) (fseid : N) (bp : pdr) (x : up4) : up4 * option nentry * N :=
    if app_filter_empty bp then (x, None, 0)
    else match ty with
         | UDelete => remove_app fseid bp x
         | _ => let '(x', e, id, ok) := add_app fseid bp x in
                if ok then (x', e, id) else (x', None, 0)
         end.

  (* application meter, related QER, QFI, TC, terminations entry *)
  Definition pdr_term (qers : list Agent.qer) (r : rpdr) (f : Agent.far) (ue app_id : N) (x : up4) : option nentry :=
    let p := rp_pdr r in
    let appm := match Agent.p_qers p with
                | [] => MC 0 0
                | q0 :: _ => cells_of (mtr_get (Agent.p_fseid p) q0 (u_meters x))
                end in
    let rq := find_app_qer p qers in
    let q := match rq with Some y => to_qer y | None => zero_qer end in
    let qfi := match rq with Some y => Agent.q_qfi y | None => default_qfi end in
    let tc := match tc_lookup (cf_qfi_tc c) (qr_qfi q) with Some t => t | None => cf_default_tc c end in
    n_termination ue (to_pdr r ue) appm (to_far f) app_id qfi tc q.

  Definition pdr_batch (se : nentry) (app_entry : option nentry) (te : nentry) : list nentry :=
    [se] ++ (match app_entry with Some e => [e] | None => [] end) ++ [te].

  Definition one_pdr (ty : utype) (fars : list Agent.far) (qers : list Agent.qer) (r : rpdr) (x : up4)
    : up4 * list batch * res :=
    match pdr_pre fars r x with
    | None => (x, [], RErr)
    | Some (f, se, ue) =>
      let '(x1, app_entry, app_id) := app_step ty (Agent.p_fseid (rp_pdr r)) (to_pdr r ue) x in
      match pdr_term qers r f ue app_id x1 with
      | None => (x1, [], RErr)
      | Some te =>
        let us := map (NUTable ty) (pdr_batch se app_entry te) in
        let '(x2, cs) := write us x1 in
        if tolerated cs then (x2, [combine us cs], ROk) else (x2, [combine us cs], RErr)
      end
    end.

  Fixpoint modify_cfg (ty : utype) (pdrs : list rpdr) (fars : list Agent.far) (qers : list Agent.qer) (x : up4) (log : list batch)
    : up4 * list batch * res :=
    match pdrs with
    | [] => (x, log, ROk)
    | r :: rest =>
      let '(x1, l1, rs) := one_pdr ty fars qers r x in
      match rs with
      | ROk => modify_cfg ty rest fars qers x1 (log ++ l1)
      | e => (x1, log ++ l1, e)
      end
    end.

  (* ---------------------------------------------------------------- sendCreate / sendUpdate / sendDelete *)
  Record outcome := Out { o_res : res; o_log : list batch; o_all : list rpdr }.   (* o_all: all.pdrs with the counter cells written in place *)

  Definition send_create (all upd : rules) (x : up4) (orc : list N) : up4 * outcome :=
    let '(x1, pdrs1, orc1, log1, r1) := alloc_counters (List.length (r_pdrs upd)) O (r_pdrs all) x orc [] in
    match r1 with
    | ROk =>
      let x2 := fold_left ue_update (r_pdrs upd) x1 in
      let '(x3, orc3, log3, r3) := configure_meters (r_qers upd) x2 orc1 log1 in
      match r3 with
      | ROk =>
        let '(x4, log4, r4) := update_peers (r_fars upd) x3 log3 in
        match r4 with
        | ROk =>
          let '(x5, log5, r5) := modify_cfg UInsert pdrs1 (r_fars all) (r_qers all) x4 log4 in
          (x5, Out r5 log5 pdrs1)
        | e => (x4, Out e log4 pdrs1)
        end
      | e => (x3, Out e log3 pdrs1)
      end
    | e => (x1, Out e log1 pdrs1)
    end.

  Definition send_update (all upd : rules) (x : up4) : up4 * outcome :=
    let x1 := fold_left ue_update (r_pdrs upd) x in
    let '(x2, log2, r2) := update_peers (r_fars upd) x1 [] in
    match r2 with
    | ROk =>
      let '(x3, log3, r3) := modify_cfg UModify (r_pdrs all) (r_fars all) (r_qers all) x2 log2 in
      (x3, Out r3 log3 (r_pdrs all))
    | e => (x2, Out e log2 (r_pdrs all))
    end.

  (* sendDelete: the counter cells go back to the pool only after the DELETE batches succeeded *)
  Definition send_delete (del : rules) (x : up4) : up4 * outcome :=
    let '(x2, log2, r2) := modify_cfg UDelete (r_pdrs del) (r_fars del) (r_qers del) x [] in
    match r2 with
    | ROk =>
      let x2' := with_ctr_pool x2 (fold_left (fun pool r => nset_add (rp_ctr r) pool) (r_pdrs del) (u_ctr_pool x2)) in
      let '(x3, log3) := reset_meters (r_qers del) x2' log2 in
      let '(x4, log4) := remove_peers (r_fars del) x3 log3 in
      (fold_left ue_remove (r_pdrs del) x4, Out ROk log4 (r_pdrs del))
    | e => (x2, Out e log2 (r_pdrs del))
    end.
End WithConfig.

(* ------------------------------------------------------------------ start-up: clearDatapathState *)
Definition up4_tables : list string :=
  ["PreQosPipeSessionsUplink"; "PreQosPipeSessionsDownlink"; "PreQosPipeTerminationsUplink"; "PreQosPipeTerminationsDownlink";
   "PreQosPipeTunnelPeers"; "PreQosPipeInterfaces"; "PreQosPipeApplications"].
Definition in_tables (ts : list string) (e : nentry) : bool := existsb (String.eqb (ne_table e)) ts.

(* ClearTables(tableIDs): read each table, one DELETE per entry read, all in one Write.  The DELETEs are independent
   of each other; the model lists them in the switch's order instead of table by table (compared as a set). *)
Definition clear_updates (ts : list string) (s : switch) : list nupd :=
  map (NUTable UDelete) (filter (in_tables ts) (sw_entries s)).

Definition interfaces (c : config) : list nentry :=
  [n_interface (cf_pool c) (cf_pool_plen c) (cf_slice c) true; n_interface (cf_n3 c) (cf_n3_plen c) (cf_slice c) false].

(* a fresh UP4 object (SetUpfInfo) on the given switch, then tryConnect -> clearTables, initAllCounters,
   initMetersPools, initInterfaces.  Meter cells and counters of the switch are NOT touched. *)
Definition boot (g : ucfg) (s : switch) : up4 * outcome :=
  let us1 := clear_updates up4_tables s in
  let '(s1, cs1) := sw_batch us1 s in
  let x0 := Up4 s1 [] [] [] (range 2 (max_tunnel_peer_ids + 2)) (range 1 (max_application_ids + 1)) [] [] [] [] [] in
  if all_ok cs1 then
    let x1 := Up4 s1 (range 0 (uc_ctr_size g)) (range 1 (uc_appm_size g)) (range 1 (uc_sessm_size g))
                  (u_peer_pool x0) (u_app_pool x0) [] [] [] [] [] in
    let us2 := map (NUTable UInsert) (interfaces (uc g)) in
    let '(x2, cs2) := write us2 x1 in
    (x2, Out (if all_ok cs2 then ROk else RErr) [combine us1 cs1; combine us2 cs2] [])
  else (x0, Out RErr [combine us1 cs1] []).

(* ------------------------------------------------------------------ SendMsgToUPF and histories *)
Inductive call :=
| CAdd (all upd : rules)
| CMod (all upd : rules)
| CDel (all : rules)
| CRestart.                          (* the agent is killed and a new incarnation connects to the same switch *)

Definition step (g : ucfg) (x : up4) (k : call) (orc : list N) : up4 * outcome :=
  match k with
  | CAdd all upd => send_create (uc g) all upd x orc
  | CMod all upd => send_update (uc g) all upd x
  | CDel all => send_delete (uc g) all x
  | CRestart => boot g (u_sw x)
  end.
(* ie.CauseRequestAccepted / ie.CauseRequestRejected *)
Definition cause_of (r : res) : N := match r with ROk => 1 | _ => 64 end.

Fixpoint run (g : ucfg) (x : up4) (h : list (call * list N)) : up4 :=
  match h with
  | [] => x
  | (k, orc) :: r => run g (fst (step g x k orc)) r
  end.
Definition init (g : ucfg) : up4 := fst (boot g empty_switch).

(* ------------------------------------------------------------------ the wire form of a batch *)
Section Wire.
  Variable info : p4info.
  Variable consts : list (string * string * N).

  Definition resolve_upd (u : nupd) : option update :=
    match u with
    | NUTable ty e => tbl info consts ty e
    | NUMeter id c has => meter_upd consts id c has
    | NUCounter id c => counter_upd consts id c
    end.
  Definition resolve_batch (b : batch) : option (list (update * code)) :=
    all_some (map (fun uc => option_map (fun u => (u, snd uc)) (resolve_upd (fst uc))) b).
  Definition resolve_entries (l : list nentry) : option (list tentry) := all_some (map (resolve info consts) l).
End Wire.
