(* Model of conf/route_control.py: RouteController.add_new_route_entry / _add_neighbor /
   add_unresolved_new_neighbor / delete_route_entry / _probe_addr / _get_gate_idx, the
   BessController wrappers (five identical retries collapse to "fails"), and a BESS daemon with
   bessd's failure semantics as far as the handlers can observe them.  No proofs here.

   Identifiers are abstract numbers: a prefix id stands for (RTA_DST, dst_len), a next hop id for
   RTA_GATEWAY, an interface id for the interface name, a MAC is its 48-bit value.
   Module names are kept structured:
       MRoutes i      "<iface>Routes"            (IPLookup, created by conf/ports.py)
       MMerge i       "<iface>Merge"             (created by conf/ports.py)
       MUpdI i mac    "<iface>DstMAC<MAC>"       get_update_module_name(route_entry.interface, mac)   (_add_neighbor)
       MUpdR i mac    "<iface>RoutesDstMAC<MAC>" get_update_module_name(route_module, mac)            (delete_route_entry)
   (distinct strings as long as no interface is called "<other interface>Routes").

   Python dicts are association lists with unique keys in insertion order (upsert keeps the
   position of an existing key, like dict assignment).

   The state also carries the kernel's view, which is what the property compares BESS with:
   kneigh (read by fetch_mac) and two ghosts the handlers never read: kern (prefix -> next hop,
   interface: the main routing table) and nhif (the interface a next hop was first used on). *)
From Coq Require Import NArith ZArith List Bool.
Import ListNotations.
Open Scope N_scope.

(* ---------------------------------------------------------------- keys and association lists *)
Class Eqb (K : Type) := eqb : K -> K -> bool.
#[global] Instance Eqb_N : Eqb N := N.eqb.
#[global] Instance Eqb_pair {A B} `{Eqb A} `{Eqb B} : Eqb (A * B) :=
  fun x y => eqb (fst x) (fst y) && eqb (snd x) (snd y).

Inductive modname := MRoutes (i : N) | MMerge (i : N) | MUpdI (i mac : N) | MUpdR (i mac : N).
#[global] Instance Eqb_modname : Eqb modname := fun a b =>
  match a, b with
  | MRoutes i, MRoutes j => N.eqb i j
  | MMerge i, MMerge j => N.eqb i j
  | MUpdI i m, MUpdI j n => N.eqb i j && N.eqb m n
  | MUpdR i m, MUpdR j n => N.eqb i j && N.eqb m n
  | _, _ => false
  end.

Section Assoc.
  Context {K V : Type} `{Eqb K}.
  Fixpoint lookup (k : K) (m : list (K * V)) : option V :=
    match m with
    | [] => None
    | (k', v) :: r => if eqb k k' then Some v else lookup k r
    end.
  Fixpoint upsert (k : K) (v : V) (m : list (K * V)) : list (K * V) :=
    match m with
    | [] => [(k, v)]
    | (k', v') :: r => if eqb k k' then (k, v) :: r else (k', v') :: upsert k v r
    end.
  Fixpoint remove (k : K) (m : list (K * V)) : list (K * V) :=
    match m with
    | [] => []
    | (k', v') :: r => if eqb k k' then remove k r else (k', v') :: remove k r
    end.
End Assoc.

Definition getd (i : N) (m : list (N * N)) : N := match lookup i m with Some n => n | None => 0 end.

(* ---------------------------------------------------------------- data *)
Record route := Route { r_pfx : N; r_nh : N; r_if : N }.                (* RouteEntry *)
Record neigh := Neigh { n_gate : N; n_mac : N; n_count : Z }.           (* NeighborEntry *)

Record bess := Bess {
  lpm   : list ((N * N) * N);                         (* (iface, prefix) -> gate: the table of <iface>Routes *)
  upd   : list (modname * N);                         (* modules created at run time (class Update) and the MAC they write *)
  links : list ((modname * N) * (modname * N)) }.     (* (module, ogate) -> (module, igate) *)

Record st := St {
  cfg_ifs : list N;                 (* RouteController(interfaces=...) *)
  ncache  : list (N * neigh);       (* _neighbor_cache *)
  unres   : list (N * list route);  (* _unresolved_arp_queries_cache: the routes waiting for a next hop, in arrival order *)
  gatecnt : list (N * N);           (* _module_gate_count_cache, keyed by the route module of the interface; default 0 *)
  kneigh  : list (N * N);           (* kernel neighbour table: next hop -> MAC   (ndb.neighbours.dump()) *)
  kern    : list (N * (N * N));     (* ghost: kernel routing table on the managed interfaces: prefix -> (next hop, iface) *)
  nhif    : list (N * N);           (* ghost: next hop -> interface of the first route through it *)
  bs      : bess;
  pings   : list N }.               (* send_ping calls, oldest first *)

Inductive event :=
| NewRoute (r : route)              (* RTM_NEWROUTE with gateway, oif, prefix *)
| DelRoute (r : route)              (* RTM_DELROUTE *)
| NewNeigh (nh mac : N)             (* RTM_NEWNEIGH with NDA_DST, NDA_LLADDR (a resolution; the handler never looks at the
                                       message's ifindex, so the interface it arrives on plays no role); the kernel table already has it *)
| NeighNoAddr (nh : N)              (* RTM_NEWNEIGH with NDA_DST but WITHOUT NDA_LLADDR: the kernel's INCOMPLETE / FAILED notification
                                       after an ARP timeout.  add_unresolved_new_neighbor raises KeyError at
                                       attr_dict[KEY_LINK_LAYER_ADDRESS] before it touches anything: a no-op *)
| DelNeigh (nh : N)                 (* RTM_DELNEIGH: _netlink_neighbor_handler only acts on RTM_NEWNEIGH: a no-op *)
| Noise.                            (* any message _parse_route_entry_msg drops (no gateway / no oif / no prefix) *)

Definition init (ifs : list N) : st := St ifs [] [] [] [] [] [] (Bess [] [] []) [].
Definition managed (s : st) (i : N) : bool := existsb (N.eqb i) (cfg_ifs s).

(* ---------------------------------------------------------------- the BESS daemon *)
(* <iface>Routes and <iface>Merge of managed interfaces always exist; the handlers never name the
   static modules of another interface because the parser drops routes on unmanaged interfaces. *)
Definition mod_exists (b : bess) (m : modname) : bool :=
  match m with
  | MRoutes _ | MMerge _ => true
  | _ => match lookup m (upd b) with Some _ => true | None => false end
  end.

(* IPLookup "add": rte_lpm_add overwrites an existing prefix.  (gate < 8192 is not modelled) *)
Definition lpm_add (b : bess) (i p g : N) : bess := Bess (upsert (i, p) g (lpm b)) (upd b) (links b).
(* IPLookup "delete": an absent prefix is an error *)
Definition lpm_del (b : bess) (i p : N) : option bess :=
  match lookup (i, p) (lpm b) with
  | None => None
  | Some _ => Some (Bess (remove (i, p) (lpm b)) (upd b) (links b))
  end.
Inductive cres := Created (b : bess) | EExist.
Definition create_upd (b : bess) (m : modname) (mac : N) : cres :=
  if mod_exists b m then EExist else Created (Bess (lpm b) (upsert m mac (upd b)) (links b)).
(* connect_modules: ENOENT for a missing module, EBUSY when the output gate is taken *)
Definition connect (b : bess) (src : modname) (og : N) (dst : modname) (ig : N) : option bess :=
  if mod_exists b src && mod_exists b dst then
    match lookup (src, og) (links b) with
    | Some _ => None
    | None => Some (Bess (lpm b) (upd b) (upsert (src, og) (dst, ig) (links b)))
    end
  else None.
(* destroy_module: ENOENT for a missing module; otherwise the module and all its links go.
   (only run-time modules are ever named by the handlers) *)
Definition destroy (b : bess) (m : modname) : option bess :=
  match lookup m (upd b) with
  | None => None
  | Some _ => Some (Bess (lpm b) (remove m (upd b))
                         (filter (fun l => negb (eqb (fst (fst l)) m) && negb (eqb (fst (snd l)) m)) (links b)))
  end.

(* RouteEntry is a dataclass: == compares all fields; `x in list` / list.remove(x) use it *)
#[global] Instance Eqb_route : Eqb route := fun a b =>
  N.eqb (r_pfx a) (r_pfx b) && N.eqb (r_nh a) (r_nh b) && N.eqb (r_if a) (r_if b).
Fixpoint mem (r : route) (l : list route) : bool :=
  match l with [] => false | x :: t => eqb r x || mem r t end.
Fixpoint remove1 (r : route) (l : list route) : list route :=          (* list.remove: the first occurrence *)
  match l with [] => [] | x :: t => if eqb r x then t else x :: remove1 r t end.

(* ---------------------------------------------------------------- setters *)
Definition set_bs (s : st) (b : bess) : st :=
  St (cfg_ifs s) (ncache s) (unres s) (gatecnt s) (kneigh s) (kern s) (nhif s) b (pings s).
Definition set_nc (s : st) (nc : list (N * neigh)) : st :=
  St (cfg_ifs s) nc (unres s) (gatecnt s) (kneigh s) (kern s) (nhif s) (bs s) (pings s).
Definition set_unres (s : st) (u : list (N * list route)) : st :=
  St (cfg_ifs s) (ncache s) u (gatecnt s) (kneigh s) (kern s) (nhif s) (bs s) (pings s).

(* ---------------------------------------------------------------- handlers *)
(* _get_gate_idx *)
Definition gate_of (s : st) (r : route) : N :=
  match lookup (r_nh r) (ncache s) with
  | Some e => n_gate e
  | None => getd (r_if r) (gatecnt s)
  end.

(* _create_update_module followed by _create_module_links for gate g of <iface>Routes *)
Definition create_and_link (b : bess) (i g mac : N) : bess :=
  let un := MUpdI i mac in                                  (* name built from the INTERFACE name *)
  let b2 := match create_upd b un mac with Created b' => b' | EExist => b end in   (* EEXIST is logged and swallowed *)
  match connect b2 (MRoutes i) g un 0 with                  (* _create_module_links: the first failure returns *)
  | None => b2
  | Some b' => match connect b' un 0 (MMerge i) 0 with None => b' | Some b'' => b'' end
  end.

(* _add_neighbor(route_entry, next_hop_mac) *)
Definition add_neighbor (s : st) (r : route) (mac : N) : st :=
  let i := r_if r in
  let nh := r_nh r in
  let g := gate_of s r in
  let b1 := lpm_add (bs s) i (r_pfx r) g in                 (* add_route_to_module: cannot fail on an existing IPLookup *)
  match lookup nh (ncache s) with
  | None =>                                                 (* "Neighbor entry does not exist, creating modules." *)
    St (cfg_ifs s) (upsert nh (Neigh g mac 1) (ncache s)) (unres s)
       (upsert i (getd i (gatecnt s) + 1) (gatecnt s)) (kneigh s) (kern s) (nhif s)
       (create_and_link b1 i g mac) (pings s)
  | Some e =>                                               (* "Neighbor already exists" *)
    St (cfg_ifs s) (upsert nh (Neigh (n_gate e) (n_mac e) (n_count e + 1)) (ncache s)) (unres s)
       (gatecnt s) (kneigh s) (kern s) (nhif s) b1 (pings s)
  end.

(* _probe_addr: the route joins the routes waiting for its next hop (unless it is there already); ping *)
Definition probe_addr (s : st) (r : route) : st :=
  let l := match lookup (r_nh r) (unres s) with Some l => l | None => [] end in      (* setdefault(next_hop, []) *)
  St (cfg_ifs s) (ncache s) (upsert (r_nh r) (if mem r l then l else l ++ [r]) (unres s)) (gatecnt s) (kneigh s)
     (kern s) (nhif s) (bs s) (pings s ++ [r_nh r]).

(* add_new_route_entry: fetch_mac reads the kernel table; unknown -> _probe_addr *)
Definition add_new_route_entry (s : st) (r : route) : st :=
  match lookup (r_nh r) (kneigh s) with
  | None => probe_addr s r
  | Some mac => add_neighbor s r mac
  end.

(* delete_route_entry *)
Definition delete_route_entry (s : st) (r : route) : st :=
  match lookup (r_nh r) (ncache s) with
  | None =>                                                 (* "Neighbor ... does not exist": drop it from the waiting routes *)
    match lookup (r_nh r) (unres s) with
    | None => s
    | Some l =>
      if mem r l then
        match remove1 r l with
        | [] => set_unres s (remove (r_nh r) (unres s))
        | l' => set_unres s (upsert (r_nh r) l' (unres s))
        end
      else s
    end
  | Some e =>
    match lpm_del (bs s) (r_if r) (r_pfx r) with
    | None => s                                             (* five failures, exception logged, return *)
    | Some b1 =>
      let e' := Neigh (n_gate e) (n_mac e) (n_count e - 1) in
      if Z.eqb (n_count e') 0 then
        (* name built from the ROUTE MODULE name *)
        match destroy b1 (MUpdR (r_if r) (n_mac e)) with
        | None => set_nc (set_bs s b1) (upsert (r_nh r) e' (ncache s))      (* return; the decrement stays *)
        | Some b2 => set_nc (set_bs s b2) (remove (r_nh r) (ncache s))
        end
      else set_nc (set_bs s b1) (upsert (r_nh r) e' (ncache s))
    end
  end.

(* add_unresolved_new_neighbor; the kernel table is updated first.  Every waiting route is
   installed, in arrival order, then the key goes (an empty list is falsy: nothing happens) *)
Definition new_neigh (s : st) (nh mac : N) : st :=
  let s1 := St (cfg_ifs s) (ncache s) (unres s) (gatecnt s) (upsert nh mac (kneigh s)) (kern s) (nhif s)
               (bs s) (pings s) in
  match lookup nh (unres s1) with
  | None | Some [] => s1
  | Some l => let s2 := fold_left (fun s' r => add_neighbor s' r mac) l s1 in set_unres s2 (remove nh (unres s2))
  end.

(* kernel ghosts *)
Definition kern_add (s : st) (r : route) : st :=
  St (cfg_ifs s) (ncache s) (unres s) (gatecnt s) (kneigh s) (upsert (r_pfx r) (r_nh r, r_if r) (kern s))
     (match lookup (r_nh r) (nhif s) with Some _ => nhif s | None => upsert (r_nh r) (r_if r) (nhif s) end)
     (bs s) (pings s).
Definition kern_has (s : st) (r : route) : bool :=
  match lookup (r_pfx r) (kern s) with
  | Some x => eqb x (r_nh r, r_if r)
  | None => false
  end.
Definition kern_del (s : st) (r : route) : st :=
  if kern_has s r then
    St (cfg_ifs s) (ncache s) (unres s) (gatecnt s) (kneigh s) (remove (r_pfx r) (kern s)) (nhif s) (bs s) (pings s)
  else s.

(* after NeighNoAddr / DelNeigh the kernel table has no address for nh (fetch_mac finds nothing or an
   entry whose lladdr is None); the controller's own state is untouched *)
Definition no_addr (s : st) (nh : N) : st :=
  St (cfg_ifs s) (ncache s) (unres s) (gatecnt s) (remove nh (kneigh s)) (kern s) (nhif s) (bs s) (pings s).

Definition step (s : st) (ev : event) : st :=
  match ev with
  | NewRoute r => if managed s (r_if r) then add_new_route_entry (kern_add s r) r else s
  | DelRoute r => if managed s (r_if r) then delete_route_entry (kern_del s r) r else s
  | NewNeigh nh mac => new_neigh s nh mac
  | NeighNoAddr nh | DelNeigh nh => no_addr s nh
  | Noise => s
  end.
Definition run (s : st) (h : list event) : st := fold_left step h s.

(* ---------------------------------------------------------------- guards on histories (boolean) *)
Definition is_none {A} (o : option A) : bool := match o with None => true | Some _ => false end.
Definition is_some {A} (o : option A) : bool := negb (is_none o).

(* what the kernel can emit: an addition only for a prefix it does not have, a deletion only of a
   route it has, a neighbour's MAC never changes *)
Definition wf_ev (s : st) (ev : event) : bool :=
  match ev with
  | NewRoute r => negb (managed s (r_if r)) || is_none (lookup (r_pfx r) (kern s))
  | DelRoute r => negb (managed s (r_if r)) || kern_has s r
  | NewNeigh nh mac => match lookup nh (kneigh s) with None => true | Some m => N.eqb m mac end
  | NeighNoAddr nh | DelNeigh nh => is_none (lookup nh (kneigh s))    (* a resolved neighbour is not lost: "MAC known" is stable *)
  | Noise => true
  end.
(* a next hop is reached over one interface *)
Definition bound_ev (s : st) (ev : event) : bool :=
  match ev with
  | NewRoute r => negb (managed s (r_if r)) ||
                  match lookup (r_nh r) (nhif s) with None => true | Some i => N.eqb i (r_if r) end
  | _ => true
  end.
(* a deletion of a route whose next hop is resolved leaves another kernel route through the same
   next hop (its count does not reach 0) *)
Definition keepuser_ev (s : st) (ev : event) : bool :=
  match ev with
  | DelRoute r => negb (managed s (r_if r)) || is_none (lookup (r_nh r) (kneigh s)) ||
                  existsb (fun kv => negb (N.eqb (fst kv) (r_pfx r)) &&
                                     match lookup (fst kv) (kern s) with
                                     | Some (nh, _) => N.eqb nh (r_nh r)
                                     | None => false
                                     end) (kern s)
  | _ => true
  end.

Fixpoint run_ok (chk : st -> event -> bool) (s : st) (h : list event) : bool :=
  match h with
  | [] => true
  | ev :: t => chk s ev && run_ok chk (step s ev) t
  end.
Definition good_ev (s : st) (ev : event) : bool := wf_ev s ev && bound_ev s ev.
Definition wfu_ev (s : st) (ev : event) : bool := wf_ev s ev && keepuser_ev s ev.
Definition goodu_ev (s : st) (ev : event) : bool := good_ev s ev && keepuser_ev s ev.
