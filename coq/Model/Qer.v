(* C09 - executable model of the QoS path of pfcpiface:
     parse_qer.go   parseQER
     utils.go       calcBurstSizeFromRate (IEEE binary64, exactly as written), maxUint64
     bess.go        readQciQosMap, addQER / addApplicationQER / addSessionQER, delQER
     up4.go         getMeterConfigurationFromQER, configureMeters (cell sharing), the QFI -> TC lookup of
                    modifyUP4ForwardingConfiguration, findRelatedApplicationQER
     p4rt_translator.go  build{Uplink,Downlink}TerminationsEntry (gate -> drop, tc / qfi parameters)
     session_qer.go Intersect, contains, findItemIndex, MarkSessionQer, CreateQER, UpdateQER
     session_pdr.go CreatePDR, UpdatePDR
     messages_session.go  the QER / PDR part of the establishment and modification handlers
                    (two MarkSessionQer calls; what is handed to SendMsgToUPF)
   The model is of the code as it is, quirks included; no proofs in this file. *)
From Coq Require Import NArith ZArith List Bool Floats Uint63.
Import ListNotations.
Open Scope N_scope.

(* ------------------------------------------------------------------ words *)
Definition wrap64 (x : N) : N := x mod 2 ^ 64.
Definition maxu (x y : N) : N := if x <? y then y else x.          (* utils.go maxUint64 *)

(* ------------------------------------------------------------------ QER, parseQER *)
(* q_level: 0 = ApplicationQos, 1 = SessionQos *)
Record qer := mkQer { q_id : N; q_level : N; q_qfi : N; q_uls : N; q_dls : N;
                      q_ulmbr : N; q_dlmbr : N; q_ulgbr : N; q_dlgbr : N; q_fseid : N }.

Definition set_level (l : N) (q : qer) : qer :=
  mkQer (q_id q) l (q_qfi q) (q_uls q) (q_dls q) (q_ulmbr q) (q_dlmbr q) (q_ulgbr q) (q_dlgbr q) (q_fseid q).

(* The children of a Create/Update QER IE as go-pfcp hands them out: each accessor either finds its
   child (Some) or fails (None); parseQER ignores every failure except the QER ID's, and a failed
   accessor returns the zero value.  ie_gate is the whole Gate Status octet. *)
Record qer_ie := mkQerIE { ie_id : option N; ie_qfi : option N; ie_gate : option N;
                           ie_mbr : option (N * N); ie_gbr : option (N * N) }.

Definition dflt (o : option N) : N := match o with Some v => v | None => 0 end.

Definition parse_qer (x : qer_ie) (seid : N) : option qer :=
  match ie_id x with
  | None => None
  | Some id =>
    let g := dflt (ie_gate x) in
    let mbr := match ie_mbr x with Some p => p | None => (0, 0) end in
    let gbr := match ie_gbr x with Some p => p | None => (0, 0) end in
    Some (mkQer id 0 (dflt (ie_qfi x)) ((g / 4) mod 4) (g mod 4) (fst mbr) (snd mbr) (fst gbr) (snd gbr) seid)
  end.

(* ------------------------------------------------------------------ calcBurstSizeFromRate *)
(* float64(uint64): exact below 2^63 through the signed conversion; above, the compiler's
   halve-with-sticky-bit-and-double sequence (correctly rounded) *)
Definition f_of_N63 (n : N) : float := PrimFloat.of_uint63 (Uint63.of_Z (Z.of_N n)).
Definition f_of_N (n : N) : float :=
  if n <? 2 ^ 63 then f_of_N63 n else (f_of_N63 (N.lor (n / 2) (n mod 2)) * 2)%float.

(* truncation toward zero of a non-negative finite float *)
Definition f_trunc (f : float) : option N :=
  match Prim2SF f with
  | S754_zero _ => Some 0
  | S754_finite false m e =>
      Some (match e with
            | Z0 => Npos m
            | Zpos p => Npos m * 2 ^ Npos p
            | Zneg p => Npos m / 2 ^ Npos p
            end)
  | S754_finite true _ _ => Some 0
  | _ => None
  end.

(* uint64(float64) on amd64: exact when the value fits; otherwise the "integer indefinite" 2^63 *)
Definition go_u64_of_float (f : float) : N :=
  match f_trunc f with
  | Some v => if v <? 2 ^ 64 then v else 2 ^ 63
  | None => 2 ^ 63
  end.

(* uint64((float64(kbps) * 1000 / 8) * (float64(ms) / 1000)) *)
Definition calc_burst_f (kbps ms : N) : float := ((f_of_N kbps * 1000 / 8) * (f_of_N ms / 1000))%float.
Definition calc_burst (kbps ms : N) : N := go_u64_of_float (calc_burst_f kbps ms).

(* the specification: bytes that flow in ms milliseconds at kbps kilobit/s, rounded down *)
Definition burst_exact (kbps ms : N) : N := kbps * 125 * ms / 1000.

(* ------------------------------------------------------------------ per-QFI burst configuration *)
Record qoscfg := mkCfg { c_cbs : N; c_pbs : N; c_ebs : N; c_dur : N }.
Definition default_burst : N := 32 * 1514.
Definition default_cfg : qoscfg := mkCfg default_burst default_burst default_burst 10.

(* conf.QciQosConfig in file order; readQciQosMap assigns into a Go map, so the last entry of a QCI wins *)
Definition qosconf := list (N * qoscfg).
Fixpoint conf_find (conf : qosconf) (k : N) : option qoscfg :=
  match conf with
  | [] => None
  | (k', c) :: r => match conf_find r k with
                    | Some c' => Some c'
                    | None => if k =? k' then Some c else None
                    end
  end.
(* b.qciQosMap after readQciQosMap: the configured entries plus the default entry 0 when absent *)
Definition qci_map (conf : qosconf) (k : N) : option qoscfg :=
  match conf_find conf k with
  | Some c => Some c
  | None => if k =? 0 then Some default_cfg else None
  end.
(* addQER: qosVal, ok := b.qciQosMap[qfi]; if !ok { qosVal = b.qciQosMap[0] } *)
Definition cfg_for (conf : qosconf) (qfi : N) : qoscfg :=
  match qci_map conf qfi with
  | Some c => c
  | None => match qci_map conf 0 with Some c => c | None => default_cfg end
  end.

(* ------------------------------------------------------------------ BESS addQER / delQER *)
Inductive qtable := AppTbl | SessTbl.
Record qoscmd := mkCmd { k_tbl : qtable; k_add : bool; k_gate : N; k_cir : N; k_pir : N;
                         k_cbs : N; k_pbs : N; k_ebs : N; k_fields : list N; k_values : list N }.

Definition gate_meter : N := 0.
Definition gate_drop : N := 5.
Definition gate_unmeter : N := 6.
Definition if_access : N := 1.
Definition if_core : N := 2.

(* one direction of addQER: (gate, cir, pir) given the values cir/pir hold on entry - the two
   variables are declared once and shared by the uplink and the downlink half *)
Definition dir_rates (status mbr gbr cir0 pir0 : N) : N * N * N :=
  if negb (status =? 0) then (gate_drop, cir0, pir0)
  else if negb (mbr =? 0) || negb (gbr =? 0) then
    let cir := maxu (wrap64 (gbr * 1000) / 8) 1 in
    let pir := maxu (wrap64 (mbr * 1000) / 8) cir in
    (gate_meter, cir, pir)
  else (gate_unmeter, cir0, pir0).

(* (cbs, pbs, ebs) *)
Definition dir_bursts (c : qoscfg) (mbr gbr : N) : N * N * N :=
  (maxu (calc_burst gbr (c_dur c)) (c_cbs c),
   maxu (calc_burst mbr (c_dur c)) (c_pbs c),
   maxu (calc_burst mbr (c_dur c)) (c_ebs c)).

(* switch qer.qosLevel: any other value sends nothing *)
Definition emit_add (q : qer) (src gate cir pir cbs pbs ebs : N) : list qoscmd :=
  if q_level q =? 0 then
    [mkCmd AppTbl true gate cir pir cbs pbs ebs [src; q_id q; q_fseid q] [q_qfi q]]
  else if q_level q =? 1 then
    [mkCmd SessTbl true gate cir pir cbs pbs ebs [src; q_fseid q] []]
  else [].

Definition add_qer (conf : qosconf) (q : qer) : list qoscmd :=
  let c := cfg_for conf (q_qfi q) in
  let '(g1, cir1, pir1) := dir_rates (q_uls q) (q_ulmbr q) (q_ulgbr q) 0 0 in
  let '(cbs1, pbs1, ebs1) := dir_bursts c (q_ulmbr q) (q_ulgbr q) in
  let '(g2, cir2, pir2) := dir_rates (q_dls q) (q_dlmbr q) (q_dlgbr q) cir1 pir1 in
  let '(cbs2, pbs2, ebs2) := dir_bursts c (q_dlmbr q) (q_dlgbr q) in
  emit_add q if_access g1 cir1 pir1 cbs1 pbs1 ebs1 ++ emit_add q if_core g2 cir2 pir2 cbs2 pbs2 ebs2.

Definition emit_del (q : qer) (src : N) : list qoscmd :=
  if q_level q =? 0 then [mkCmd AppTbl false 0 0 0 0 0 0 [src; q_id q; q_fseid q] []]
  else if q_level q =? 1 then [mkCmd SessTbl false 0 0 0 0 0 0 [src; q_fseid q] []]
  else [].
Definition del_qer (q : qer) : list qoscmd := emit_del q if_access ++ emit_del q if_core.

(* bess.SendMsgToUPF restricted to QERs: method 0 = add (all rules), 1 = mod (updated rules), 2 = del *)
Definition bess_send (conf : qosconf) (method : N) (qers : list qer) : list qoscmd :=
  if method =? 2 then flat_map del_qer qers else flat_map (add_qer conf) qers.

(* ------------------------------------------------------------------ UP4 meters, gate, traffic class *)
Record meter_cfg := mkMeter { m_cir : N; m_cburst : N; m_pir : N; m_pburst : N }.  (* int64 fields read as uint64 *)
Definition up4_burst_ms : N := 10.
Definition up4_meter_cfg (mbr gbr : N) : meter_cfg :=
  mkMeter 0 0 (if mbr =? 0 then 0 else maxu (wrap64 (mbr * 1000) / 8) 0) (calc_burst mbr up4_burst_ms).

(* configureMeters: per QER the meter array, the uplink cell's configuration and - when the QER gets
   a cell of its own for the downlink - the downlink cell's; None = both directions share the
   uplink cell (application QER in a message that carries more than one QER) *)
Record up4_meter := mkUp4Meter { um_qer : N; um_session : bool; um_ul : meter_cfg; um_dl : option meter_cfg }.
Definition configure_meters (qers : list qer) : list up4_meter :=
  flat_map (fun q =>
    if q_level q =? 0 then
      [mkUp4Meter (q_id q) false (up4_meter_cfg (q_ulmbr q) (q_ulgbr q))
         (if Nat.eqb (length qers) 1 then Some (up4_meter_cfg (q_dlmbr q) (q_dlgbr q)) else None)]
    else if q_level q =? 1 then
      [mkUp4Meter (q_id q) true (up4_meter_cfg (q_ulmbr q) (q_ulgbr q)) (Some (up4_meter_cfg (q_dlmbr q) (q_dlgbr q)))]
    else []) qers.

Definition default_qfi : N := 9.
Definition empty_qer : qer := mkQer 0 0 0 0 0 0 0 0 0 0.
(* findRelatedApplicationQER: first QER whose id is the first entry of the PDR's list *)
Definition related_qer (plist : list N) (qers : list qer) : option qer :=
  match plist with
  | [] => None
  | h :: _ => find (fun q => q_id q =? h) qers
  end.
Fixpoint tc_find (m : list (N * N)) (k : N) : option N :=
  match m with [] => None | (k', v) :: r => if k =? k' then Some v else tc_find r k end.
Definition tc_of (qfi_tc : list (N * N)) (default_tc qfi : N) : N :=
  match tc_find qfi_tc qfi with Some t => t | None => default_tc end.

(* the terminations entry of one PDR: (drop?, tc, qfi parameter); uplink = source interface access.
   The TC lookup uses the related QER's QFI - the zero value's when there is none - while the QFI
   parameter falls back to DefaultQFI. *)
Record term := mkTerm { t_drop : bool; t_tc : N; t_qfi : N }.
Definition up4_term (qfi_tc : list (N * N)) (default_tc : N) (uplink far_drops : bool) (plist : list N) (qers : list qer) : term :=
  let rq := match related_qer plist qers with Some q => q | None => empty_qer end in
  let qfi := match related_qer plist qers with Some q => q_qfi q | None => default_qfi end in
  let st := if uplink then q_uls rq else q_dls rq in
  mkTerm (far_drops || (st =? 1)) (tc_of qfi_tc default_tc (q_qfi rq)) qfi.

(* ------------------------------------------------------------------ MarkSessionQer *)
Record pdr := mkPdr { p_id : N; p_qers : list N }.

Definition contains (l : list N) (v : N) : bool := existsb (N.eqb v) l.
Definition intersect (a b : list N) : list N := filter (contains b) a.
(* Go's copy(dst, src): min(len) elements are overwritten, dst keeps its length *)
Definition go_copy (dst src : list N) : list N := firstn (length dst) src ++ skipn (length src) dst.

(* the loop over s.pdrs: None = early return on an empty intersection *)
Fixpoint narrow (sl : list N) (pdrs : list pdr) : option (list N) :=
  match pdrs with
  | [] => Some sl
  | p :: r => match intersect sl (p_qers p) with
              | [] => None
              | s :: s' => narrow (go_copy sl (s :: s')) r
              end
  end.

(* the selection loop: acc = (sessionIdx, sessQerID, sessionMbr), all three start at zero *)
Fixpoint select_from (idx : nat) (qers : list qer) (sl : list N) (acc : nat * N * N) : nat * N * N :=
  match qers with
  | [] => acc
  | q :: r =>
    let '(si, sid, smbr) := acc in
    let acc' :=
      if contains sl (q_id q) then
        if (0 <? q_ulgbr q) || (0 <? q_dlgbr q) then acc
        else if smbr <=? q_ulmbr q then (idx, q_id q, q_ulmbr q) else acc
      else acc in
    select_from (S idx) r sl acc'
  end.
Definition select (qers : list qer) (sl : list N) : nat * N * N := select_from 0 qers sl (0%nat, 0, 0).

Fixpoint remove_first (v : N) (l : list N) : list N :=
  match l with [] => [] | h :: t => if v =? h then t else h :: remove_first v t end.
(* idx := findItemIndex(list, id); if idx != len { list = append(list[:idx], list[idx+1:]...); list = append(list, id) } *)
Definition move_last (v : N) (l : list N) : list N := if contains l v then remove_first v l ++ [v] else l.

Fixpoint mark_nth (i : nat) (qers : list qer) : list qer :=
  match qers, i with
  | [], _ => []
  | q :: r, O => set_level 1 q :: r
  | q :: r, S i' => q :: mark_nth i' r
  end.

(* the search list after the early returns, None when MarkSessionQer returns without marking *)
Definition search_list (pdrs : list pdr) (qers : list qer) : option (list N) :=
  match pdrs with
  | [] => None
  | _ :: _ =>
    let sl0 := p_qers (last pdrs (mkPdr 0 [])) in
    if (Nat.ltb (length sl0) 1) || (Nat.ltb (length qers) 2) then None else narrow sl0 pdrs
  end.

Definition mark (pdrs : list pdr) (qers : list qer) : list pdr * list qer :=
  match search_list pdrs qers with
  | None => (pdrs, qers)
  | Some sl =>
    let '(si, sid, _) := select qers sl in
    (map (fun p => mkPdr (p_id p) (move_last sid (p_qers p))) pdrs, mark_nth si qers)
  end.

(* ------------------------------------------------------------------ the handlers (PDR / QER part) *)
Record sess := mkSess { s_pdrs : list pdr; s_qers : list qer }.

(* establishment: CreatePDR*, CreateQER*, MarkSessionQer(session.qers), MarkSessionQer(addQERs).
   Result: the stored session and addQERs after the second call. *)
Definition establish (cp : list pdr) (cq : list qer) : sess * list qer :=
  let '(pdrs1, qers1) := mark cp cq in
  let '(pdrs2, add2) := mark pdrs1 cq in
  (mkSess pdrs2 qers1, add2).

(* UpdatePDR / UpdateQER: the first rule with that id is replaced; None = ErrNotFound *)
Fixpoint update_pdr (p : pdr) (l : list pdr) : option (list pdr) :=
  match l with
  | [] => None
  | h :: t => if p_id h =? p_id p then Some (p :: t)
              else match update_pdr p t with Some t' => Some (h :: t') | None => None end
  end.
Fixpoint update_qer (q : qer) (l : list qer) : option (list qer) :=
  match l with
  | [] => None
  | h :: t => if q_id h =? q_id q then Some (q :: t)
              else match update_qer q t with Some t' => Some (h :: t') | None => None end
  end.

Record modmsg := mkMod { m_cpdrs : list pdr; m_cqers : list qer; m_updrs : list pdr; m_uqers : list qer }.

Definition apply_updrs (ups : list pdr) (pdrs : list pdr) : list pdr :=
  fold_left (fun acc p => match update_pdr p acc with Some l => l | None => acc end) ups pdrs.
(* (session.qers, the updated QERs that were found - they join addQERs) *)
Definition apply_uqers (ups : list qer) (qers : list qer) : list qer * list qer :=
  fold_left (fun acc q => match update_qer q (fst acc) with
                          | Some l => (l, snd acc ++ [q])
                          | None => acc
                          end) ups (qers, []).

Definition modify (s : sess) (m : modmsg) : sess * list qer :=
  let pdrs := apply_updrs (m_updrs m) (s_pdrs s ++ m_cpdrs m) in
  let '(qers, upd) := apply_uqers (m_uqers m) (s_qers s ++ m_cqers m) in
  let add := m_cqers m ++ upd in
  let '(pdrs1, qers1) := mark pdrs qers in
  let '(pdrs2, add2) := mark pdrs1 add in
  (mkSess pdrs2 qers1, add2).

(* what the BESS plug-in is handed: establishment sends all rules of the session (the stored QERs),
   a modification sends the QERs of the message *)
Definition bess_establish (conf : qosconf) (cp : list pdr) (cq : list qer) : sess * list qoscmd :=
  let '(s, _) := establish cp cq in (s, bess_send conf 0 (s_qers s)).
Definition bess_modify (conf : qosconf) (s : sess) (m : modmsg) : sess * list qoscmd :=
  let '(s', add) := modify s m in (s', bess_send conf 1 add).

(* a history: one establishment, then modifications; the command batch of every message is kept *)
Fixpoint run_mods (conf : qosconf) (s : sess) (ms : list modmsg) : list (sess * list qoscmd) :=
  match ms with
  | [] => []
  | m :: r => let '(s', c) := bess_modify conf s m in (s', c) :: run_mods conf s' r
  end.
Definition run_history (conf : qosconf) (cp : list pdr) (cq : list qer) (ms : list modmsg) : list (sess * list qoscmd) :=
  let '(s, c) := bess_establish conf cp cq in (s, c) :: run_mods conf s ms.
