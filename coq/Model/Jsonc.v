(* Model of removeComments in pfcpiface/config.go, which deletes every match of the regular
   expression   (?m) // .* $  |  / \* .*? \* /   (written here with blanks; see config.go).

   Go's regexp is leftmost-first: the text is scanned left to right; at the first position where
   one of the alternatives matches, the match is deleted and scanning resumes behind it.
   - line comment: with flag m the dollar matches before a newline or at the end of the text and
     the dot never matches a newline, so a line comment runs up to, not including, the next newline.
   - block comment: lazy, and the dot still excludes newline, so a block comment is deleted only
     when a closing star-slash follows the opening slash-star ON THE SAME LINE, and then up to the
     first such closer.  An unclosed opener matches nothing there and scanning continues with the
     next byte, so a double slash further right on the same line still starts a line comment.
   Bytes are ascii; UTF-8 needs no special treatment because slash, star and newline are ASCII and
   never occur inside a multi-byte sequence, so the dot consuming a rune or a byte is the same.

   Also a JSON lexer, token level only, used to state that comments between tokens do not change
   the token sequence encoding/json sees.  No proofs here. *)
From Coq Require Import Ascii String List Bool NArith.
Import ListNotations.
Open Scope char_scope.
Open Scope list_scope.

Definition bytes := list ascii.
Definition nl : ascii := "010".
Definition cr : ascii := "013".
Definition tab : ascii := "009".
Definition sp : ascii := " ".
Definition slash : ascii := "/".
Definition star : ascii := "*".
Definition quote : ascii := """".
Definition bslash : ascii := "\".

(* the rest of the text from the next newline on (newline kept) *)
Fixpoint skip_line (s : bytes) : bytes :=
  match s with
  | [] => []
  | c :: r => if Ascii.eqb c nl then s else skip_line r
  end.

(* first star-slash before the end of the line: what follows it *)
Fixpoint find_close (s : bytes) : option bytes :=
  match s with
  | [] => None
  | c :: r =>
    if Ascii.eqb c nl then None
    else match r with
         | d :: r' => if Ascii.eqb c star && Ascii.eqb d slash then Some r' else find_close r
         | [] => None
         end
  end.

Fixpoint strip_fuel (n : nat) (s : bytes) : bytes :=
  match n with
  | O => s
  | S n' =>
    match s with
    | [] => []
    | c :: r =>
      if Ascii.eqb c slash then
        match r with
        | d :: r' =>
          if Ascii.eqb d slash then strip_fuel n' (skip_line r')
          else if Ascii.eqb d star then
            match find_close r' with
            | Some rest => strip_fuel n' rest
            | None => c :: strip_fuel n' r
            end
          else c :: strip_fuel n' r
        | [] => [c]
        end
      else c :: strip_fuel n' r
    end
  end.

Definition strip (s : bytes) : bytes := strip_fuel (S (length s)) s.

Definition strip_string (s : string) : string :=
  string_of_list_ascii (strip (list_ascii_of_string s)).

(* ------------------------------------------------------------------------------------------
   Pieces a JSONC text is rendered from.  *)

(* A piece of text is safe when every slash in it is followed, inside the piece, by a byte other
   than slash and star: it contains neither of the two comment openers and does not end in a
   slash.  For a JSON string token, which ends in a quote, this is exactly: contains no comment
   marker. *)
Fixpoint safe (t : bytes) : bool :=
  match t with
  | [] => true
  | c :: r =>
    if Ascii.eqb c slash then
      match r with
      | d :: _ => negb (Ascii.eqb d slash) && negb (Ascii.eqb d star) && safe r
      | [] => false
      end
    else safe r
  end.

Definition is_ws (c : ascii) : bool :=
  Ascii.eqb c sp || Ascii.eqb c tab || Ascii.eqb c nl || Ascii.eqb c cr.
Definition is_punct (c : ascii) : bool :=
  Ascii.eqb c "{" || Ascii.eqb c "}" || Ascii.eqb c "[" || Ascii.eqb c "]" || Ascii.eqb c "," || Ascii.eqb c ":".
Definition is_word (c : ascii) : bool := negb (is_ws c || is_punct c || Ascii.eqb c quote).

Definition no_nl (b : bytes) : bool := forallb (fun c => negb (Ascii.eqb c nl)) b.
Fixpoint has_close (b : bytes) : bool :=       (* contains star-slash *)
  match b with
  | [] => false
  | c :: r => match r with
              | d :: _ => (Ascii.eqb c star && Ascii.eqb d slash) || has_close r
              | [] => false
              end
  end.

(* what may stand between two tokens *)
Inductive gap_item :=
| GWs (c : ascii)           (* one white-space byte *)
| GLine (body : bytes)      (* slash slash body newline *)
| GBlock (body : bytes).    (* slash star body star slash, on one line *)

Definition item_ok (i : gap_item) : bool :=
  match i with
  | GWs c => is_ws c
  | GLine b => no_nl b
  | GBlock b => no_nl b && negb (has_close b)
  end.
Definition item_bytes (i : gap_item) : bytes :=
  match i with
  | GWs c => [c]
  | GLine b => slash :: slash :: b ++ [nl]
  | GBlock b => slash :: star :: b ++ [star; slash]
  end.
(* what the stripper leaves of it *)
Definition item_blank (i : gap_item) : bytes :=
  match i with
  | GWs c => [c]
  | GLine _ => [nl]
  | GBlock _ => []
  end.
Definition gap := list gap_item.
Definition gap_bytes (g : gap) : bytes := flat_map item_bytes g.
Definition gap_blank (g : gap) : bytes := flat_map item_blank g.

(* ------------------------------------------------------------------------------------------
   JSON tokens and a lexer (structural state machine).  A word is a maximal run of bytes that are
   neither white space, punctuation nor a quote (number and true/false/null literals, or garbage:
   the grammar above the token level is encoding/json's business). *)
Inductive token :=
| TPunct (c : ascii)
| TStr (body : bytes)     (* raw bytes between the quotes, escapes not decoded *)
| TWord (w : bytes).

Definition tok_bytes (t : token) : bytes :=
  match t with
  | TPunct c => [c]
  | TStr b => quote :: b ++ [quote]
  | TWord w => w
  end.

(* body of a string token: no unescaped quote, no dangling backslash *)
Fixpoint body_ok (esc : bool) (b : bytes) : bool :=
  match b with
  | [] => negb esc
  | c :: r =>
    if esc then body_ok false r
    else if Ascii.eqb c quote then false
    else if Ascii.eqb c bslash then body_ok true r
    else body_ok false r
  end.

Definition tok_wf (t : token) : bool :=
  match t with
  | TPunct c => is_punct c
  | TStr b => body_ok false b
  | TWord w => match w with [] => false | _ => forallb is_word w end
  end.

Inductive lmode := LNone | LWord (acc : bytes) | LStr (acc : bytes) | LEsc (acc : bytes).

Definition ocons {A} (a : A) (o : option (list A)) : option (list A) :=
  match o with Some l => Some (a :: l) | None => None end.

Fixpoint lexm (m : lmode) (s : bytes) : option (list token) :=
  match s with
  | [] =>
    match m with
    | LNone => Some []
    | LWord acc => Some [TWord (rev acc)]
    | LStr _ | LEsc _ => None
    end
  | c :: r =>
    match m with
    | LNone =>
      if is_ws c then lexm LNone r
      else if is_punct c then ocons (TPunct c) (lexm LNone r)
      else if Ascii.eqb c quote then lexm (LStr []) r
      else lexm (LWord [c]) r
    | LWord acc =>
      if is_ws c then ocons (TWord (rev acc)) (lexm LNone r)
      else if is_punct c then ocons (TWord (rev acc)) (ocons (TPunct c) (lexm LNone r))
      else if Ascii.eqb c quote then ocons (TWord (rev acc)) (lexm (LStr []) r)
      else lexm (LWord (c :: acc)) r
    | LStr acc =>
      if Ascii.eqb c quote then ocons (TStr (rev acc)) (lexm LNone r)
      else if Ascii.eqb c bslash then lexm (LEsc (c :: acc)) r
      else lexm (LStr (c :: acc)) r
    | LEsc acc => lexm (LStr (c :: acc)) r
    end
  end.
Definition lex (s : bytes) : option (list token) := lexm LNone s.

(* a document = gap0 tok1 gap1 tok2 ... tokn gapn *)
Fixpoint render (g0 : gap) (tgs : list (token * gap)) : bytes :=
  gap_bytes g0 ++ match tgs with
                  | [] => []
                  | (t, g) :: r => tok_bytes t ++ render g r
                  end.
Fixpoint render_blank (g0 : gap) (tgs : list (token * gap)) : bytes :=
  gap_blank g0 ++ match tgs with
                  | [] => []
                  | (t, g) :: r => tok_bytes t ++ render_blank g r
                  end.

Definition is_wordtok (t : token) : bool := match t with TWord _ => true | _ => false end.
(* two word tokens must not become adjacent once the comments between them are gone *)
Fixpoint separated (tgs : list (token * gap)) : bool :=
  match tgs with
  | [] => true
  | (t, g) :: r =>
    match r with
    | (t', _) :: _ =>
      (negb (is_wordtok t && is_wordtok t') || match gap_blank g with [] => false | _ => true end) && separated r
    | [] => true
    end
  end.

(* a text is inside the envelope of the comment theorem when, after stripping, it is a sequence of
   well-formed tokens none of which contains a comment marker *)
Definition clean_after_strip (s : string) : bool :=
  match lex (strip (list_ascii_of_string s)) with
  | Some toks => forallb (fun t => tok_wf t && safe (tok_bytes t)) toks
  | None => false
  end.
