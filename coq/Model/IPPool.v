(* Model of pfcpiface/ip_pool.go (NewIPPool, LookupOrAllocIP, DeallocIP) and of the allocation
   trigger in parse_pdr.go (needAllocIP with utils.go has2ndBit / has5thBit as written).
   Addresses and SEIDs are N.  No proofs here. *)
From Coq Require Import NArith List Bool.
Import ListNotations.
Open Scope N_scope.

Record pool := Pool { free : list N; inv : list (N * N) }.   (* inv: seid -> address, a Go map *)

Fixpoint lookup (k : N) (m : list (N * N)) : option N :=
  match m with
  | [] => None
  | (k', v) :: r => if k =? k' then Some v else lookup k r
  end.
Fixpoint remove (k : N) (m : list (N * N)) : list (N * N) :=
  match m with
  | [] => []
  | (k', v) :: r => if k =? k' then remove k r else (k', v) :: remove k r
  end.

(* addresses base+1 .. base+n *)
Fixpoint addrs_from (n : nat) (a : N) : list N :=
  match n with O => [] | S k => a :: addrs_from k (a + 1) end.

(* NewIPPool on an IPv4 CIDR whose masked base is [base] and prefix length [len] (1..32):
   enumerate the subnet, refuse fewer than 2 addresses, drop first and last. *)
Definition subnet_size (len : N) : N := 2 ^ (32 - len).
Definition new_pool (base len : N) : option pool :=
  let size := subnet_size len in
  if size <? 2 then None
  else Some (Pool (addrs_from (N.to_nat (size - 2)) (base + 1)) []).

Inductive result := RIp (a : N) | RErr | ROk.

Definition alloc (seid : N) (p : pool) : pool * result :=
  match lookup seid (inv p) with
  | Some a => (p, RIp a)
  | None =>
    match free p with
    | [] => (p, RErr)
    | a :: rest => (Pool rest ((seid, a) :: inv p), RIp a)
    end
  end.

Definition dealloc (seid : N) (p : pool) : pool * result :=
  match lookup seid (inv p) with
  | None => (p, RErr)
  | Some a => (Pool (free p ++ [a]) (remove seid (inv p)), ROk)
  end.

Inductive op := Alloc (seid : N) | Dealloc (seid : N).
Definition step (p : pool) (o : op) : pool * result :=
  match o with Alloc s => alloc s p | Dealloc s => dealloc s p end.
Fixpoint run (p : pool) (ops : list op) : pool * list result :=
  match ops with
  | [] => (p, [])
  | o :: r => let '(p', x) := step p o in let '(p'', xs) := run p' r in (p'', x :: xs)
  end.

(* utils.go: has2ndBit f = (f & 0x02) >> 1 == 1 ; has5thBit f = (f & 0x010) == 1  (as written) *)
Definition has2nd (f : N) : bool := N.shiftr (N.land f 2) 1 =? 1.
Definition has5th (f : N) : bool := N.land f 16 =? 1.
Definition need_alloc (flags : N) : bool := negb (has2nd flags && negb (has5th flags)).
