(* Several associations sharing one agent: the state the L1 histories run over.  No proofs here. *)
From Coq Require Import NArith List Bool.
From UPF Require Import Model.IPPool Model.Fteid Model.PortRange Model.Agent.
Import ListNotations.
Open Scope N_scope.

Record world := World { w_agent : agent; w_conns : list (N * conn) }.
Fixpoint get_conn (i : N) (l : list (N * conn)) : conn :=
  match l with [] => conn0 | (k, c) :: r => if k =? i then c else get_conn i r end.
Fixpoint put_conn (i : N) (c : conn) (l : list (N * conn)) : list (N * conn) :=
  match l with
  | [] => [(i, c)]
  | (k, c') :: r => if k =? i then (i, c) :: r else (k, c') :: put_conn i c r
  end.
Fixpoint drop_conn (i : N) (l : list (N * conn)) : list (N * conn) :=
  match l with [] => [] | (k, c) :: r => if k =? i then drop_conn i r else (k, c) :: drop_conn i r end.

Definition all_sessions (w : world) : list session := flat_map (fun kc => c_sessions (snd kc)) (w_conns w).

(* events: a datagram on association [ci]; a teardown trigger (read timeout, heartbeat failure, stop) handled
   sequentially; a restart = a new incarnation [a0] (empty tables after clearState, no associations) *)
Inductive wevent :=
| WMsg (ci : N) (connected : bool) (m : msg) (draws : list N)
| WTeardown (ci : N)
| WRestart (a0 : agent).

Section Run.
  Variable burst : N -> N -> N -> N.
  Definition wstep (w : world) (e : wevent) : outcome (world * out) :=
    match e with
    | WMsg ci connected m draws =>
      match handle burst (w_agent w) (get_conn ci (w_conns w)) connected m draws with
      | Crash s => Crash s
      | Done (a', c', res) =>
        (* after Shutdown the node forgets the connection: the next datagram of that peer starts afresh *)
        Done (World a' (if o_shutdown res then drop_conn ci (w_conns w) else put_conn ci c' (w_conns w)), res)
      end
    | WTeardown ci =>
      let '(a', c', cmds) := do_shutdown (w_agent w) (get_conn ci (w_conns w)) in
      Done (World a' (drop_conn ci (w_conns w)), Out None cmds [] true)
    | WRestart a0 => Done (World a0 [], Out None [] [] false)
    end.
  Fixpoint wrun (w : world) (es : list wevent) : outcome world :=
    match es with
    | [] => Done w
    | e :: r => match wstep w e with Crash s => Crash s | Done (w', _) => wrun w' r end
    end.
End Run.
