(* The part of a P4Info (p4.config.v1) the agent and its constant generator depend on, as plain data.
   Gen/P4Info_gen.v (written by tools/gen_p4info.py from conf/p4/bin/p4info.txt on every run) is a term
   of type [p4info].  No proofs here. *)
From Coq Require Import NArith List String Bool.
Import ListNotations.
Open Scope N_scope.

Inductive match_kind := MK_EXACT | MK_LPM | MK_TERNARY | MK_RANGE | MK_OPTIONAL.
Inductive scope := SC_BOTH | SC_TABLE | SC_DEFAULT.

Record match_field := MF { mf_id : N; mf_name : string; mf_width : N; mf_kind : match_kind }.
Record action_ref := AR { ar_id : N; ar_scope : scope }.
Record table := Tbl { t_id : N; t_name : string; t_alias : string; t_fields : list match_field;
                      t_refs : list action_ref; t_size : N; t_const_default : N }.
Record param := Prm { p_id : N; p_name : string; p_width : N }.
Record action := Act { a_id : N; a_name : string; a_alias : string; a_params : list param }.
Record sized := Sz { s_id : N; s_name : string; s_size : N }.          (* counters, meters, registers, action profiles *)
Record named := Nm { n_id : N; n_name : string }.                      (* direct counters/meters, digests, packet metadata *)
(* a serializable enum: members in file order, each value as its big-endian byte string *)
Record enum := En { e_name : string; e_width : N; e_members : list (string * list N) }.

Record p4info := P4I {
  i_tables : list table; i_actions : list action; i_action_profiles : list sized;
  i_counters : list sized; i_direct_counters : list named; i_meters : list sized; i_direct_meters : list named;
  i_ctrl_metadata : list named; i_registers : list sized; i_digests : list named; i_enums : list enum }.

(* identifiers are compared structurally (closed numerals), kept apart from the value-level N.eqb so that
   proofs can compute name resolution without unfolding arithmetic on universally quantified values *)
Definition ideqb (a b : N) : bool :=
  match a, b with
  | N0, N0 => true
  | Npos p, Npos q => Pos.eqb p q
  | _, _ => false
  end.

Definition mk_eqb (a b : match_kind) : bool :=
  match a, b with
  | MK_EXACT, MK_EXACT | MK_LPM, MK_LPM | MK_TERNARY, MK_TERNARY | MK_RANGE, MK_RANGE | MK_OPTIONAL, MK_OPTIONAL => true
  | _, _ => false
  end.

Fixpoint find_by {A} (p : A -> bool) (l : list A) : option A :=
  match l with [] => None | x :: r => if p x then Some x else find_by p r end.

Definition table_by_id (i : p4info) (id : N) := find_by (fun t => ideqb (t_id t) id) (i_tables i).
Definition action_by_id (i : p4info) (id : N) := find_by (fun a => ideqb (a_id a) id) (i_actions i).
Definition meter_by_id (i : p4info) (id : N) := find_by (fun m => ideqb (s_id m) id) (i_meters i).
Definition counter_by_id (i : p4info) (id : N) := find_by (fun m => ideqb (s_id m) id) (i_counters i).
Definition field_by_id (t : table) (id : N) := find_by (fun f => ideqb (mf_id f) id) (t_fields t).
Definition field_by_name (t : table) (n : string) := find_by (fun f => String.eqb (mf_name f) n) (t_fields t).
Definition param_by_id (a : action) (id : N) := find_by (fun p => ideqb (p_id p) id) (a_params a).
Definition param_by_name (a : action) (n : string) := find_by (fun p => String.eqb (p_name p) n) (a_params a).

(* a table "has ternary or range fields" (P4Runtime: such tables need a priority; optional counts too) *)
Definition needs_priority (t : table) : bool :=
  existsb (fun f => match mf_kind f with MK_TERNARY | MK_RANGE | MK_OPTIONAL => true | _ => false end) (t_fields t).
