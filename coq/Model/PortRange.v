(* Model of pfcpiface/parse_pdr.go: portRange, asTrivialTernaryMatch,
   asComplexTernaryMatches (Exact, Ternary), CreatePortRangeCartesianProduct.
   Ports are N with the uint16 wrap written out.  No proofs in this file. *)
From Coq Require Import NArith List Bool.
Import ListNotations.
Open Scope N_scope.

Definition U16 : N := 65536.
Definition MAX16 : N := 65535.
Definition w16 (x : N) : N := x mod U16.

Record prange := PR { lo : N; hi : N }.
Record trule := TR { t_port : N; t_mask : N }.
Record prod_rule := PRD { sp : N; sm : N; dp : N; dm : N }.

Inductive strategy := Exact | Ternary.

(* newRangeMatchPortRange: low > high yields the zero value *)
Definition new_range (l h : N) : prange := if h <? l then PR 0 0 else PR l h.

Definition is_wild (r : prange) : bool :=
  ((lo r =? 0) && (hi r =? MAX16)) || ((lo r =? 0) && (hi r =? 0)).
Definition is_exact (r : prange) : bool := (lo r =? hi r) && negb (hi r =? 0).
Definition is_range (r : prange) : bool := negb (is_exact r) && negb (is_wild r).

(* uint16: pr.high - pr.low + 1 *)
Definition width (r : prange) : N :=
  if is_wild r then MAX16 else w16 (w16 (hi r + U16 - lo r) + 1).

Definition as_exact_unchecked (r : prange) : trule := TR (lo r) MAX16.

Definition as_trivial (r : prange) : option trule :=
  if is_wild r then Some (TR 0 0)
  else if is_exact r then Some (as_exact_unchecked r)
  else None.

(* maxPort closure: limit - mask + (port & mask), all uint16 *)
Definition max_port (port mask : N) : N := w16 (N.land port mask + w16 (MAX16 + U16 - mask)).

(* portMask closure. State of the for loop; fuel bounds the iterations
   (the real loop runs at most 18 times: testMask reaches 0 after 17 steps). *)
Fixpoint port_mask_loop (fuel : nat) (port e bit mask testMask netPort maximumPort : N)
  : option N :=
  match fuel with
  | O => None
  | S f =>
    if (0 <? netPort) && (maximumPort <? e) then
      let netPort' := N.land port testMask in
      if netPort' <? port then Some mask
      else
        let maximumPort' := max_port netPort' testMask in
        let mask' := if maximumPort' <=? e then testMask else mask in
        let testMask' := w16 (testMask + U16 - bit) in
        let bit' := w16 (bit * 2) in
        port_mask_loop f port e bit' mask' testMask' netPort' maximumPort'
    else Some mask
  end.

Definition PM_FUEL : nat := 20.

Definition port_mask (port e : N) : option N :=
  let netPort := N.land port MAX16 in
  port_mask_loop PM_FUEL port e 1 MAX16 MAX16 netPort (max_port netPort MAX16).

(* outer loop of the Ternary strategy; port is a uint32 there *)
Fixpoint ternary_loop (fuel : nat) (port h : N) : option (list trule) :=
  match fuel with
  | O => if port <=? h then None else Some []
  | S f =>
    if port <=? h then
      match port_mask (w16 port) h with
      | None => None
      | Some m =>
        match ternary_loop f (max_port (w16 port) m + 1) h with
        | None => None
        | Some rs => Some (TR (w16 port) m :: rs)
        end
      end
    else Some []
  end.

(* for port := int(low); port <= int(high); port++ *)
Fixpoint exact_loop (n : nat) (port : N) : list trule :=
  match n with
  | O => []
  | S k => TR port MAX16 :: exact_loop k (port + 1)
  end.

Definition EXACT_LIMIT : N := 100.

Inductive res (A : Type) := Ok (a : A) | Err | OutOfFuel.
Arguments Ok {A} a. Arguments Err {A}. Arguments OutOfFuel {A}.

Definition as_complex (s : strategy) (r : prange) : res (list trule) :=
  if is_exact r then Ok [as_exact_unchecked r]
  else if is_wild r then Ok [TR 0 0]
  else match s with
  | Exact =>
    if EXACT_LIMIT <? width r then Err
    else Ok (exact_loop (N.to_nat (hi r + 1 - lo r)) (lo r))
  | Ternary =>
    match ternary_loop (N.to_nat (hi r + 1 - lo r)) (lo r) (hi r) with
    | Some rs => Ok rs
    | None => OutOfFuel
    end
  end.

Definition cartesian (s d : prange) : res (list prod_rule) :=
  if is_range s && is_range d then Err
  else if is_range s then
    match as_complex Exact s with
    | Ok srs =>
      match as_trivial d with
      | Some t => Ok (map (fun r => PRD (t_port r) (t_mask r) (t_port t) (t_mask t)) srs)
      | None => Err
      end
    | Err => Err | OutOfFuel => OutOfFuel
    end
  else if is_range d then
    match as_complex Exact d with
    | Ok drs =>
      match as_trivial s with
      | Some t => Ok (map (fun r => PRD (t_port t) (t_mask t) (t_port r) (t_mask r)) drs)
      | None => Err
      end
    | Err => Err | OutOfFuel => OutOfFuel
    end
  else
    match as_trivial s, as_trivial d with
    | Some a, Some b => Ok [PRD (t_port a) (t_mask a) (t_port b) (t_mask b)]
    | _, _ => Err
    end.

(* Meaning of a ternary rule and of a range *)
Definition tmatch (t : trule) (x : N) : bool := N.land x (t_mask t) =? N.land (t_port t) (t_mask t).
Definition pmatch (p : prod_rule) (x y : N) : bool :=
  (N.land x (sm p) =? N.land (sp p) (sm p)) && (N.land y (dm p) =? N.land (dp p) (dm p)).
(* denotation: the zero value 0-0 means wildcard by documented design *)
Definition in_range (r : prange) (x : N) : bool :=
  if is_wild r then true else (lo r <=? x) && (x <=? hi r).
