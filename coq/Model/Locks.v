(* C11 - the lock table of pfcpiface (shared field x accessing function x read|write x locks held),
   as extracted syntactically by harness/skel_c11 into Gen/Locks_gen.v, and the lockset discipline
   evaluated on it.  Also the notions used for the serializability statements about the sequential
   agent model (Model/Agent.v): key-disjoint command lists, table equivalence, interleavings.
   No proofs here. *)
From Coq Require Import String List Bool NArith.
From UPF Require Import Model.Agent.
Import ListNotations.
Local Open Scope string_scope.

Inductive rw := R | W.
(* Init: only start-up code (happens before every association goroutine).  Reinit: only reachable through
   the re-initialisation UP4.tryConnect performs when the datapath connection was lost.  Unreached: no
   caller inside the package (tests, dead code). *)
Inductive phase := Run | Reinit | Init | Unreached.
(* a class of goroutines; [tc_multi]: several goroutines of the class may exist at once (one per
   association, one per rule of a request, one per HTTP request) *)
Record tclass := TC { tc_name : string; tc_multi : bool }.
Record access := Acc { a_field : string; a_func : string; a_rw : rw; a_locks : list string;
                       a_phase : phase; a_threads : list tclass }.

Definition is_w (a : access) : bool := match a_rw a with W => true | R => false end.
Definition mem_s (x : string) (l : list string) : bool := existsb (String.eqb x) l.

(* classes that are real goroutines running while associations exist *)
Definition real_class (c : tclass) : bool :=
  negb (String.eqb (tc_name c) "init") && negb (prefix "api:" (tc_name c)).
Definition live_phase (a : access) : bool :=
  match a_phase a with Run | Reinit => true | Init | Unreached => false end.

(* may the two accesses be executed by two different goroutines at the same time? *)
Definition par_classes (c1 c2 : tclass) : bool :=
  real_class c1 && real_class c2 && (negb (String.eqb (tc_name c1) (tc_name c2)) || tc_multi c1).
Definition may_par (a1 a2 : access) : bool :=
  live_phase a1 && live_phase a2 &&
  existsb (fun c1 => existsb (fun c2 => par_classes c1 c2) (a_threads a2)) (a_threads a1).

Definition conflict (a1 a2 : access) : bool :=
  String.eqb (a_field a1) (a_field a2) && (is_w a1 || is_w a2) && may_par a1 a2.
Definition common_lock (a1 a2 : access) : bool := existsb (fun l => mem_s l (a_locks a2)) (a_locks a1).

(* the lockset discipline: every pair of conflicting accesses holds a common lock *)
Definition pair_ok (a1 a2 : access) : bool := implb (conflict a1 a2) (common_lock a1 a2).
Definition lockset_ok (t : list access) : bool := forallb (fun a1 => forallb (pair_ok a1) t) t.

(* the fields on which the discipline fails, each once, in table order *)
Fixpoint dedup (l : list string) : list string :=
  match l with [] => [] | x :: r => if mem_s x r then dedup r else x :: dedup r end.
Definition bad_fields (t : list access) : list string :=
  dedup (map a_field (filter (fun a1 => negb (forallb (pair_ok a1) t)) t)).
(* ... and for one field the unprotected writers *)
Definition unlocked_writers (f : string) (t : list access) : list string :=
  dedup (map a_func (filter (fun a => String.eqb (a_field a) f && is_w a && live_phase a &&
                                       match a_locks a with [] => true | _ => false end) t)).

(* ---- atomic regions (generated next to the lock table): does ONE acquisition of [af_lock] cover every access the
   function (callees included) makes to the fields the lock guards, and the datapath writes it issues? *)
Record atomic_fn := AF { af_func : string; af_lock : string; af_accesses : nat; af_covered : bool;
                         af_dp_calls : nat; af_dp_inside : bool }.
(* a requirement: function name, and whether its datapath write belongs to the step *)
Definition atomic_req := (string * bool)%type.
Definition meets (r : atomic_req) (a : atomic_fn) : bool :=
  String.eqb (af_func a) (fst r) && af_covered a && Nat.ltb 0 (af_accesses a) && (negb (snd r) || af_dp_inside a).
Definition atomic_ok (reqs : list atomic_req) (t : list atomic_fn) : bool :=
  forallb (fun r => existsb (meets r) t) reqs.

(* ---- restrictions of the generated table *)
Definition owner_in (os : list string) (a : access) : bool :=
  existsb (fun o => prefix (o ++ ".") (a_field a)) os.
(* goroutines that handle an association's requests: the per-association goroutines and the per-rule
   goroutines the BESS plug-in starts for every request *)
Definition request_class (c : tclass) : bool :=
  String.eqb (tc_name c) "assoc" || prefix "go:bess." (tc_name c).
Definition on_request_path (a : access) : bool := live_phase a && existsb request_class (a_threads a).
Definition field_on_request_path (t : list access) (f : string) : bool :=
  existsb (fun a => String.eqb (a_field a) f && on_request_path a) t.
(* all rows of the fields of the given owners that per-association request handling touches *)
Definition request_fields_of (os : list string) (t : list access) : list access :=
  filter (fun a => owner_in os a && field_on_request_path t (a_field a)) t.
Definition without_reinit (t : list access) : list access :=
  filter (fun a => match a_phase a with Reinit => false | _ => true end) t.

Definition bess_owners : list string := ["bess"; "upf"; "PFCPNode"; "global"].
Definition pool_owners : list string := ["IPPool"; "FTEIDGenerator"; "InMemoryStore"].
Definition up4_owners : list string := ["UP4"; "counter"; "tunnelPeer"; "internalApp"].

(* the Prop reading of [may_par] *)
Definition may_run_concurrently (a1 a2 : access) : Prop :=
  live_phase a1 = true /\ live_phase a2 = true /\
  exists c1 c2, In c1 (a_threads a1) /\ In c2 (a_threads a2) /\ real_class c1 = true /\ real_class c2 = true /\
                (tc_name c1 <> tc_name c2 \/ tc_multi c1 = true).

(* ---- semantic reading: who holds which lock *)
Definition holders := string -> option nat.          (* lock -> goroutine holding it *)
Definition stands_at (h : holders) (g : nat) (a : access) : Prop := forall l, In l (a_locks a) -> h l = Some g.

(* ------------------------------------------------------------------ tables of the agent model *)
Local Open Scope N_scope.
Definition tab_of (m : module) (t : tables) : table :=
  match m with MPdr => t_pdr t | MFar => t_far t | MAppQer => t_app t | MSessQer => t_sess t end.
(* same content: every key of every module reads the same *)
Definition teq (t1 t2 : tables) : Prop := forall m k, t_get k (tab_of m t1) = t_get k (tab_of m t2).

Definition same_slot (c1 c2 : cmd) : bool := module_eqb (c_mod c1) (c_mod c2) && key_eqb (c_key c1) (c_key c2).
Definition keys_disjoint (cs1 cs2 : list cmd) : Prop :=
  forall c1 c2, In c1 cs1 -> In c2 cs2 -> same_slot c1 c2 = false.
Definition keys_disjointb (cs1 cs2 : list cmd) : bool :=
  forallb (fun c1 => forallb (fun c2 => negb (same_slot c1 c2)) cs2) cs1.
Fixpoint pairwise_disjoint (ts : list (list cmd)) : Prop :=
  match ts with [] => True | t :: r => (forall t', In t' r -> keys_disjoint t t') /\ pairwise_disjoint r end.
Fixpoint pairwise_disjointb (ts : list (list cmd)) : bool :=
  match ts with [] => true | t :: r => forallb (keys_disjointb t) r && pairwise_disjointb r end.

(* is [sched] an interleaving of the threads?  (greedy check is complete when the threads are key-disjoint
   and free of duplicates; it is only used as an evaluator on observed logs) *)
Definition cmd_eqb (a b : cmd) : bool :=
  module_eqb (c_mod a) (c_mod b) && Bool.eqb (c_add a) (c_add b) && key_eqb (c_key a) (c_key b) && key_eqb (c_val a) (c_val b).
Fixpoint take_head (x : cmd) (ts : list (list cmd)) : option (list (list cmd)) :=
  match ts with
  | [] => None
  | (y :: t) :: r => if cmd_eqb x y then Some (t :: r)
                     else match take_head x r with Some r' => Some ((y :: t) :: r') | None => None end
  | [] :: r => match take_head x r with Some r' => Some ([] :: r') | None => None end
  end.
Fixpoint is_merge (ts : list (list cmd)) (sched : list cmd) : bool :=
  match sched with
  | [] => forallb (fun t => match t with [] => true | _ => false end) ts
  | x :: l => match take_head x ts with Some ts' => is_merge ts' l | None => false end
  end.

(* the rules of one session: every FAR / QER carries the session's F-SEID *)
Definition owned_by (s : N) (fs : list far) (qs : list qer) : Prop :=
  (forall f, In f fs -> a_fseid f = s) /\ (forall q, In q qs -> q_fseid q = s).
Definition pdr_cmds (ps : list pdr) : list cmd := flat_map pdr_add ps ++ flat_map pdr_del ps.
(* the commands a session can ever send: adds and deletes of its rules *)
Definition rule_cmds (burst : N -> N -> N -> N) (ps : list pdr) (fs : list far) (qs : list qer) : list cmd :=
  add_cmds burst ps fs qs ++ del_cmds ps fs qs.
(* a FAR / QER slot (module, key) of the session with local SEID [s]; a command addressing such a slot *)
Definition slot_of_fseid (m : module) (k : list N) (s : N) : Prop :=
  (m = MFar /\ exists i, k = [i; s]) \/ (m = MAppQer /\ exists i j, k = [i; j; s]) \/ (m = MSessQer /\ exists i, k = [i; s]).
Definition cmd_of_fseid (c : cmd) (s : N) : Prop := slot_of_fseid (c_mod c) (c_key c) s.

(* ------------------------------------------------------------------ F32: the same local SEID on two associations.
   Two associated connections, one shared agent (datapath, pools); both control planes establish a
   session with FAR 1 and the random sources of both connections yield the same draw. *)
Definition cz_cfg : cfg := Cfg 3323068417 3323133953 false.           (* 198.18.0.1, 198.19.0.1 *)
Definition cz_agent : agent := Agent cz_cfg None (Fteid.Gen 0 []) 0 no_tables.
Definition cz_conn (node : N) : conn := Conn node [] [] 0.
Definition cz_est (node cpseid ue enb teid : N) : msg :=
  MEst (Some (IOk node)) (Some (IOk (cpseid, Some 167772161)))
       [PdrIE (IOk 2) (IOk 100) (IOk [PSrc (IOk 1); PUeip (IOk (2, Some ue))]) false (IOk 1) true []]
       [FarIE (IOk 1) (IOk 2) (IOk [FDst (IOk 0); FOhc (IOk (teid, Some enb))]) IErr]
       [].
Definition cz_burst (which rate qfi : N) : N := 0.
Definition cz_draw : N := 7.
(* tables after association 1's establishment, after association 2's, after association 2 deleted its
   session; the sessions stored on both connections at the end *)
Definition cz_run : option (tables * tables * tables * list session * list session * list cmd) :=
  match handle cz_burst cz_agent (cz_conn 1) true (cz_est 1 100 168430081 3232235777 11) [cz_draw] with
  | Done (a1, c1, o1) =>
    match handle cz_burst a1 (cz_conn 2) true (cz_est 2 200 168430082 3232235778 22) [cz_draw] with
    | Done (a2, c2, o2) =>
      match handle cz_burst a2 c2 true (MDel cz_draw) [] with
      | Done (a3, c3, o3) => Some (a_tables a1, a_tables a2, a_tables a3, c_sessions c1, c_sessions c3, o_cmds o1)
      | Crash _ => None
      end
    | Crash _ => None
    end
  | Crash _ => None
  end.
