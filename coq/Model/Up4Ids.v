(* Identifier bookkeeping of pfcpiface/up4.go (UP4 plug-in) with a FAULT ORACLE, plus the three session
   handlers of messages_session.go as far as they decide which sessions stay live.  No proofs here.

   What is modelled, statement by statement (names as in up4.go):
     allocateCounterID / releaseCounterID, allocate*/release*MeterCellID (golang-set: Pop takes its element
     from the oracle, membership is CHECKED; Add is a no-op on a member), unsafeAllocate/Release of tunnel
     peer ids and application ids (FIFO slices), addOrUpdateGTPTunnelPeer (incl. the releaseTnlPeerID closure
     that finds nothing to release because the map is written only after a successful Write),
     removeGTPTunnelPeer, add/removeInternalApplicationIDAndGetP4rtEntry, configureApplicationMeter /
     configureSessionMeter (release-on-error closures, "0 is not a valid cell"), configureMeters, resetMeters,
     updateTunnelPeersBasedOnFARs, modifyUP4ForwardingConfiguration (early returns; the error of a failed
     application id allocation is dropped; ALREADY_EXISTS / OK statuses and an EMPTY p4 error list are
     tolerated), sendCreate / sendUpdate / sendDelete, SendMsgToUPF's cause; handleSessionEstablishment /
     Modification / DeletionRequest: a rejected establishment drops the session, a rejected deletion KEEPS it,
     a rejected modification keeps the in-place updates (Update PDR/FAR/QER write into the stored slices:
     GetSession returns a copy that shares the backing arrays; Create* append beyond the stored length).
   Every Write RPC consults the next element of the fault list of the event ([] = no further fault).
   What is abstracted: table entries (only WHICH Write happens and how it is answered matters for the ids),
   tunnel parameters and application filters are keys (N), a FAR is reduced to "encapsulates towards access
   with TEID <> 0" / "TEID <> 0" / peer key, a PDR to direction, FAR id, filter key, "precedence <= 65535".
   Envelope of the correspondence (not of the theorems): <= MaxItems (10) rules of a kind per session (no
   slice reallocation), no Remove IEs in a modification (their half-way rejection is F12, property C03),
   the translator's Build* functions do not fail (valid values, property C16), UP4 stays connected. *)
From Coq Require Import NArith List Bool.
Import ListNotations.
Open Scope N_scope.

(* ------------------------------------------------------------------ rules as the plug-in sees them *)
Record pdr := Pdr { p_id : N; p_uplink : bool; p_far : N; p_app : option N; p_prec_ok : bool; p_ctr : N }.
Record far := Far { f_id : N; f_encap : bool; f_teid_nz : bool; f_peer : N }.
Inductive qlevel := QApp | QSess | QOther.
Record qer := Qer { q_id : N; q_level : qlevel }.
Record rules := Rules { r_pdrs : list pdr; r_fars : list far; r_qers : list qer }.
Definition no_rules := Rules [] [] [].
Definition set_ctr (c : N) (p : pdr) : pdr := Pdr (p_id p) (p_uplink p) (p_far p) (p_app p) (p_prec_ok p) c.

Inductive mtype := MApp | MSess.
Definition mtype_eqb (a b : mtype) : bool := match a, b with MApp, MApp | MSess, MSess => true | _, _ => false end.
Record meter := Meter { m_type : mtype; m_ul : N; m_dl : N }.

(* ------------------------------------------------------------------ Go maps / sets / queues as lists *)
Definition pair_eqb (a b : N * N) : bool := (fst a =? fst b) && (snd a =? snd b).

Section Assoc.
  Context {K V : Type} (eqb : K -> K -> bool).
  Fixpoint alookup (k : K) (l : list (K * V)) : option V :=
    match l with [] => None | (k', v) :: r => if eqb k k' then Some v else alookup k r end.
  Fixpoint aremove (k : K) (l : list (K * V)) : list (K * V) :=
    match l with [] => [] | (k', v) :: r => if eqb k k' then aremove k r else (k', v) :: aremove k r end.
  Fixpoint aupsert (k : K) (v : V) (l : list (K * V)) : list (K * V) :=
    match l with [] => [(k, v)] | (k', v') :: r => if eqb k k' then (k, v) :: r else (k', v') :: aupsert k v r end.
End Assoc.

Definition mem (v : N) (l : list N) : bool := existsb (N.eqb v) l.
Definition set_remove (v : N) (l : list N) : list N := filter (fun x => negb (x =? v)) l.
Definition set_add (v : N) (l : list N) : list N := if mem v l then l else l ++ [v].
Definition pmem (v : N * N) (l : list (N * N)) : bool := existsb (pair_eqb v) l.
Definition pset_remove (v : N * N) (l : list (N * N)) : list (N * N) := filter (fun x => negb (pair_eqb x v)) l.
Definition pset_add (v : N * N) (l : list (N * N)) : list (N * N) := if pmem v l then l else l ++ [v].

(* ------------------------------------------------------------------ the plug-in's bookkeeping *)
Record up4 := Up4 {
  ctr_pool : list N;                          (* counters[preQosCounterID].counterIDsPool, a set *)
  app_pool : list N;                          (* appMeterCellIDsPool, a set *)
  sess_pool : list N;                         (* sessMeterCellIDsPool, a set *)
  peer_pool : list N;                         (* tunnelPeerIDsPool, FIFO *)
  appid_pool : list N;                        (* applicationIDsPool, FIFO *)
  meters : list ((N * N) * meter);            (* meters: <QER id, F-SEID> -> meter *)
  peers : list (N * (N * list (N * N)));      (* tunnelPeerIDs: tunnel params -> id, usedBy <F-SEID, FAR id> *)
  apps : list (N * (N * list (N * N)));       (* applicationIDs: filter -> id, usedBy <F-SEID, PDR id> *)
  ue_known : list N }.                        (* domain of fseidToUEAddr *)

Definition set_ctr_pool v u := Up4 v (app_pool u) (sess_pool u) (peer_pool u) (appid_pool u) (meters u) (peers u) (apps u) (ue_known u).
Definition set_app_pool v u := Up4 (ctr_pool u) v (sess_pool u) (peer_pool u) (appid_pool u) (meters u) (peers u) (apps u) (ue_known u).
Definition set_sess_pool v u := Up4 (ctr_pool u) (app_pool u) v (peer_pool u) (appid_pool u) (meters u) (peers u) (apps u) (ue_known u).
Definition set_peer_pool v u := Up4 (ctr_pool u) (app_pool u) (sess_pool u) v (appid_pool u) (meters u) (peers u) (apps u) (ue_known u).
Definition set_appid_pool v u := Up4 (ctr_pool u) (app_pool u) (sess_pool u) (peer_pool u) v (meters u) (peers u) (apps u) (ue_known u).
Definition set_meters v u := Up4 (ctr_pool u) (app_pool u) (sess_pool u) (peer_pool u) (appid_pool u) v (peers u) (apps u) (ue_known u).
Definition set_peers v u := Up4 (ctr_pool u) (app_pool u) (sess_pool u) (peer_pool u) (appid_pool u) (meters u) v (apps u) (ue_known u).
Definition set_apps v u := Up4 (ctr_pool u) (app_pool u) (sess_pool u) (peer_pool u) (appid_pool u) (meters u) (peers u) v (ue_known u).
Definition set_ue v u := Up4 (ctr_pool u) (app_pool u) (sess_pool u) (peer_pool u) (appid_pool u) (meters u) (peers u) (apps u) v.

(* ------------------------------------------------------------------ oracles, trace, monad *)
Inductive wres := WOk | WFail | WExists | WUnk.
  (* WFail: gRPC status other than UNKNOWN, or a p4.Error list with a code other than OK / ALREADY_EXISTS
     WExists: p4.Error list made of OK / ALREADY_EXISTS only;  WUnk: status UNKNOWN without details *)
Inductive method := MIns | MMod | MDel.
Inductive site := SCtrReset | SMeterApp | SMeterSess | SPeer | SPdr (m : method) | SMeterReset | SPeerDel.

Record world := World { w_u : up4; w_pops : list N; w_faults : list wres; w_log : list (site * wres); w_bad : bool }.
Inductive res (A : Type) := Ok (a : A) | Err.
Arguments Ok {A} a.
Arguments Err {A}.
Definition M (A : Type) := world -> world * res A.

Definition ret {A} (a : A) : M A := fun w => (w, Ok a).
Definition fail {A} : M A := fun w => (w, Err).
Definition bind {A B} (m : M A) (k : A -> M B) : M B :=
  fun w => let '(w', r) := m w in match r with Ok a => k a w' | Err => (w', Err) end.
Notation "x <- m ;; k" := (bind m (fun x => k)) (at level 61, m at next level, right associativity).
Notation "m ;;; k" := (bind m (fun _ => k)) (at level 61, right associativity).

Definition modify_u (f : up4 -> up4) : M unit :=
  fun w => (World (f (w_u w)) (w_pops w) (w_faults w) (w_log w) (w_bad w), Ok tt).
Definition get_u : M up4 := fun w => (w, Ok (w_u w)).

Fixpoint forM_ {A} (l : list A) (f : A -> M unit) : M unit :=
  match l with [] => ret tt | a :: r => f a ;;; forM_ r f end.

(* one Write RPC: answered by the next element of the fault list *)
Definition write (s : site) : M wres :=
  fun w => match w_faults w with
           | [] => (World (w_u w) (w_pops w) [] (w_log w ++ [(s, WOk)]) (w_bad w), Ok WOk)
           | r :: rest => (World (w_u w) (w_pops w) rest (w_log w ++ [(s, r)]) (w_bad w), Ok r)
           end.
Definition is_ok (r : wres) : bool := match r with WOk => true | _ => false end.

(* golang-set Pop(): None on an empty set; otherwise the oracle's element if it is a member (checked),
   else the first element with the inadmissible-oracle flag raised; exhausted oracle = first element *)
Inductive spool := PCtr | PApp | PSess.
Definition get_spool (p : spool) (u : up4) : list N :=
  match p with PCtr => ctr_pool u | PApp => app_pool u | PSess => sess_pool u end.
Definition set_spool (p : spool) (v : list N) (u : up4) : up4 :=
  match p with PCtr => set_ctr_pool v u | PApp => set_app_pool v u | PSess => set_sess_pool v u end.
Definition pop_set (p : spool) : M (option N) :=
  fun w =>
    match get_spool p (w_u w) with
    | [] => (w, Ok None)
    | h :: _ =>
      match w_pops w with
      | [] => (World (set_spool p (set_remove h (get_spool p (w_u w))) (w_u w)) [] (w_faults w) (w_log w) (w_bad w), Ok (Some h))
      | v :: rest =>
        if mem v (get_spool p (w_u w))
        then (World (set_spool p (set_remove v (get_spool p (w_u w))) (w_u w)) rest (w_faults w) (w_log w) (w_bad w), Ok (Some v))
        else (World (set_spool p (set_remove h (get_spool p (w_u w))) (w_u w)) rest (w_faults w) (w_log w) true, Ok (Some h))
      end
    end.
Definition add_set (p : spool) (v : N) : M unit := modify_u (fun u => set_spool p (set_add v (get_spool p u)) u).

(* releaseAppMeterCellID / releaseSessionMeterCellID: 0 is not a valid cell ID *)
Definition release_cell (p : spool) (v : N) : M unit := if v =? 0 then ret tt else add_set p v.

(* ------------------------------------------------------------------ meters *)
(* configureApplicationMeter *)
Definition configureApplicationMeter (bidirectional : bool) : M meter :=
  oul <- pop_set PApp ;;
  match oul with
  | None => fail
  | Some ul =>
    odl <- (if bidirectional
            then (o <- pop_set PApp ;; match o with None => release_cell PApp ul ;;; fail | Some c => ret c end)
            else ret ul) ;;
    let dl := odl in
    r <- write SMeterApp ;;
    if is_ok r then ret (Meter MApp ul dl)
    else ((if negb (ul =? 0) then release_cell PApp ul else ret tt) ;;;
          (if negb (dl =? ul) then release_cell PApp dl else ret tt) ;;; fail)
  end.

(* configureSessionMeter *)
Definition configureSessionMeter : M meter :=
  oul <- pop_set PSess ;;
  match oul with
  | None => fail
  | Some ul =>
    odl <- pop_set PSess ;;
    match odl with
    | None => release_cell PSess ul ;;; fail
    | Some dl =>
      r <- write SMeterSess ;;
      if is_ok r then ret (Meter MSess ul dl)
      else (release_cell PSess ul ;;; release_cell PSess dl ;;; fail)
    end
  end.

(* one iteration of configureMeters *)
Definition configureMeter (sid : N) (single : bool) (q : qer) : M unit :=
  match q_level q with
  | QApp => m <- configureApplicationMeter single ;; modify_u (fun u => set_meters (aupsert pair_eqb (q_id q, sid) m (meters u)) u)
  | QSess => m <- configureSessionMeter ;; modify_u (fun u => set_meters (aupsert pair_eqb (q_id q, sid) m (meters u)) u)
  | QOther => ret tt
  end.
Definition configureMeters (sid : N) (qers : list qer) : M unit :=
  forM_ qers (configureMeter sid (Nat.eqb (length qers) 1)).

(* one iteration of resetMeters (errors of resetMeter are logged and ignored) *)
Definition resetOneMeter (sid : N) (q : qer) : M unit :=
  u <- get_u ;;
  match alookup pair_eqb (q_id q, sid) (meters u) with
  | None => ret tt
  | Some m =>
    _ <- write SMeterReset ;;
    (match m_type m with
     | MApp => release_cell PApp (m_ul m) ;;; (if negb (m_dl m =? m_ul m) then release_cell PApp (m_dl m) else ret tt)
     | MSess => release_cell PSess (m_ul m) ;;; release_cell PSess (m_dl m)
     end) ;;;
    modify_u (fun u => set_meters (aremove pair_eqb (q_id q, sid) (meters u)) u)
  end.
Definition resetMeters (sid : N) (qers : list qer) : M unit := forM_ qers (resetOneMeter sid).

(* ------------------------------------------------------------------ tunnel peers *)
Definition pop_peer : M (option N) :=
  fun w => match peer_pool (w_u w) with
           | [] => (w, Ok None)
           | h :: r => (World (set_peer_pool r (w_u w)) (w_pops w) (w_faults w) (w_log w) (w_bad w), Ok (Some h))
           end.
Definition pop_appid : M (option N) :=
  fun w => match appid_pool (w_u w) with
           | [] => (w, Ok None)
           | h :: r => (World (set_appid_pool r (w_u w)) (w_pops w) (w_faults w) (w_log w) (w_bad w), Ok (Some h))
           end.

(* addOrUpdateGTPTunnelPeer *)
Definition addOrUpdateGTPTunnelPeer (sid : N) (f : far) : M unit :=
  u <- get_u ;;
  match alookup N.eqb (f_peer f) (peers u) with
  | None =>
    o <- pop_peer ;;
    match o with
    | None => fail
    | Some id =>
      r <- write SPeer ;;
      (* on error releaseTnlPeerID looks the parameters up in the map, which does not hold them yet *)
      if is_ok r then modify_u (fun u => set_peers (aupsert N.eqb (f_peer f) (id, [(sid, f_id f)]) (peers u)) u)
      else fail
    end
  | Some (id, users) =>
    (* usedBy is a reference: the Add is visible in the map before (and whatever the outcome of) the Write *)
    modify_u (fun u => set_peers (aupsert N.eqb (f_peer f) (id, pset_add (sid, f_id f) users) (peers u)) u) ;;;
    r <- write SPeer ;;
    if is_ok r then ret tt else fail
  end.
Definition updateTunnelPeersBasedOnFARs (sid : N) (fars : list far) : M unit :=
  forM_ fars (fun f => if f_encap f then addOrUpdateGTPTunnelPeer sid f else ret tt).

(* removeGTPTunnelPeer *)
Definition removeGTPTunnelPeer (sid : N) (f : far) : M unit :=
  u <- get_u ;;
  match alookup N.eqb (f_peer f) (peers u) with
  | None => ret tt
  | Some (id, users) =>
    let users' := pset_remove (sid, f_id f) users in
    match users' with
    | _ :: _ => modify_u (fun u => set_peers (aupsert N.eqb (f_peer f) (id, users') (peers u)) u)
    | [] =>
      _ <- write SPeerDel ;;
      modify_u (fun u => set_peer_pool (peer_pool u ++ [id]) (set_peers (aremove N.eqb (f_peer f) (peers u)) u))
    end
  end.

(* ------------------------------------------------------------------ application ids *)
(* addInternalApplicationIDAndGetP4rtEntry; the caller drops its error *)
Definition addInternalApplicationID (sid : N) (pid key : N) : M unit :=
  u <- get_u ;;
  match alookup N.eqb key (apps u) with
  | Some (id, users) => modify_u (fun u => set_apps (aupsert N.eqb key (id, pset_add (sid, pid) users) (apps u)) u)
  | None =>
    o <- pop_appid ;;
    match o with
    | None => ret tt
    | Some id => modify_u (fun u => set_apps (aupsert N.eqb key (id, [(sid, pid)]) (apps u)) u)
    end
  end.
(* removeInternalApplicationIDAndGetP4rtEntry *)
Definition removeInternalApplicationID (sid : N) (pid key : N) : M unit :=
  u <- get_u ;;
  match alookup N.eqb key (apps u) with
  | None => ret tt
  | Some (id, users) =>
    let users' := pset_remove (sid, pid) users in
    match users' with
    | _ :: _ => modify_u (fun u => set_apps (aupsert N.eqb key (id, users') (apps u)) u)
    | [] => modify_u (fun u => set_appid_pool (appid_pool u ++ [id]) (set_apps (aremove N.eqb key (apps u)) u))
    end
  end.

(* ------------------------------------------------------------------ modifyUP4ForwardingConfiguration *)
Fixpoint find_far (id : N) (fars : list far) : option far :=
  match fars with [] => None | f :: r => if f_id f =? id then Some f else find_far id r end.

Definition tolerated (r : wres) : bool := match r with WFail => false | _ => true end.

Definition modifyOnePdr (sid : N) (fars : list far) (m : method) (p : pdr) : M unit :=
  if negb (p_prec_ok p) then fail else
  match find_far (p_far p) fars with
  | None => fail
  | Some f =>
    u <- get_u ;;
    if (match alookup N.eqb (f_peer f) (peers u) with None => f_teid_nz f | Some _ => false end) then fail else
    if (p_uplink p && negb (mem sid (ue_known u))) then fail else
    (match p_app p with
     | None => ret tt
     | Some key => match m with MDel => removeInternalApplicationID sid (p_id p) key | _ => addInternalApplicationID sid (p_id p) key end
     end) ;;;
    r <- write (SPdr m) ;;
    if tolerated r then ret tt else fail
  end.
Definition modifyUP4ForwardingConfiguration (sid : N) (pdrs : list pdr) (fars : list far) (m : method) : M unit :=
  forM_ pdrs (modifyOnePdr sid fars m).

(* ------------------------------------------------------------------ sendCreate / sendUpdate / sendDelete *)
(* the counter loop of sendCreate; returns the PDRs with their counter ids *)
Fixpoint allocCounters (pdrs : list pdr) : M (list pdr) :=
  match pdrs with
  | [] => ret []
  | p :: rest =>
    o <- pop_set PCtr ;;
    match o with
    | None => fail
    | Some c =>
      r <- write SCtrReset ;;
      if is_ok r then (rest' <- allocCounters rest ;; ret (set_ctr c p :: rest')) else fail
    end
  end.

Definition updateUEAddr (sid : N) (pdrs : list pdr) : M unit :=
  forM_ pdrs (fun p => if p_uplink p then ret tt else modify_u (fun u => set_ue (set_add sid (ue_known u)) u)).

(* the only caller (handleSessionEstablishmentRequest) passes the same rules as `all` and `updated` *)
Definition sendCreate (sid : N) (r : rules) : M (list pdr) :=
  pdrs <- allocCounters (r_pdrs r) ;;
  updateUEAddr sid pdrs ;;;
  configureMeters sid (r_qers r) ;;;
  updateTunnelPeersBasedOnFARs sid (r_fars r) ;;;
  modifyUP4ForwardingConfiguration sid pdrs (r_fars r) MIns ;;;
  ret pdrs.

Definition sendUpdate (sid : N) (all updated : rules) : M unit :=
  updateUEAddr sid (r_pdrs updated) ;;;
  updateTunnelPeersBasedOnFARs sid (r_fars updated) ;;;
  modifyUP4ForwardingConfiguration sid (r_pdrs all) (r_fars all) MMod.

Definition sendDelete (sid : N) (r : rules) : M unit :=
  forM_ (r_pdrs r) (fun p => add_set PCtr (p_ctr p)) ;;;
  modifyUP4ForwardingConfiguration sid (r_pdrs r) (r_fars r) MDel ;;;
  resetMeters sid (r_qers r) ;;;
  forM_ (r_fars r) (removeGTPTunnelPeer sid) ;;;
  forM_ (r_pdrs r) (fun p => if p_uplink p then ret tt else modify_u (fun u => set_ue (set_remove sid (ue_known u)) u)).

(* ------------------------------------------------------------------ the session handlers *)
Record modmsg := ModMsg { mm_cpdrs : list pdr; mm_cfars : list far; mm_cqers : list qer;
                          mm_updrs : list pdr; mm_ufars : list far; mm_uqers : list qer }.
Inductive op := OpEst (sid : N) (r : rules) | OpMod (sid : N) (m : modmsg) | OpDel (sid : N).

Section Replace.
  Context {A : Type} (id : A -> N).
  (* s.UpdateX: overwrite the first element with that id, in place *)
  Fixpoint replace_first (x : A) (l : list A) : option (list A) :=
    match l with
    | [] => None
    | y :: r => if id y =? id x then Some (x :: r)
                else match replace_first x r with Some r' => Some (y :: r') | None => None end
    end.
  (* -> (list after all updates, the updates that found their element, in message order) *)
  Fixpoint apply_updates (ups : list A) (l : list A) : list A * list A :=
    match ups with
    | [] => (l, [])
    | x :: r => match replace_first x l with
                | Some l' => let '(l'', found) := apply_updates r l' in (l'', x :: found)
                | None => apply_updates r l
                end
    end.
End Replace.

Record obs := Obs { o_acc : bool; o_log : list (site * wres); o_delfail : bool; o_bad : bool }.
Definition sessions := list (N * rules).
Record state := State { s_u : up4; s_store : sessions }.

Definition start (u : up4) (pops : list N) (faults : list wres) : world := World u pops faults [] false.

Definition step (s : state) (o : op) (pops : list N) (faults : list wres) : state * obs :=
  let w0 := start (s_u s) pops faults in
  match o with
  | OpEst sid r =>
    if (sid =? 0) || (match alookup N.eqb sid (s_store s) with Some _ => true | None => false end)
    then (s, Obs false [] false true)        (* NewPFCPSession never yields 0 or a SEID in use: inadmissible draw *)
    else
      let '(w, x) := sendCreate sid r w0 in
      match x with
      | Ok pdrs => (State (w_u w) (aupsert N.eqb sid (Rules pdrs (r_fars r) (r_qers r)) (s_store s)), Obs true (w_log w) false (w_bad w))
      | Err => (State (w_u w) (s_store s), Obs false (w_log w) false (w_bad w))
      end
  | OpMod sid m =>
    match alookup N.eqb sid (s_store s) with
    | None => (s, Obs false [] false false)
    | Some r0 =>
      let cp := map (set_ctr 0) (mm_cpdrs m) in
      let '(wp, fp) := apply_updates p_id (map (set_ctr 0) (mm_updrs m)) (r_pdrs r0 ++ cp) in
      let '(wf, ff) := apply_updates f_id (mm_ufars m) (r_fars r0 ++ mm_cfars m) in
      let '(wq, fq) := apply_updates q_id (mm_uqers m) (r_qers r0 ++ mm_cqers m) in
      let all := Rules wp wf wq in
      let updated := Rules (cp ++ fp) (mm_cfars m ++ ff) (mm_cqers m ++ fq) in
      let '(w, x) := (sendUpdate sid all updated ;;; sendDelete sid no_rules) w0 in
      match x with
      | Ok _ => (State (w_u w) (aupsert N.eqb sid all (s_store s)), Obs true (w_log w) false (w_bad w))
      | Err =>
        let kept := Rules (firstn (length (r_pdrs r0)) wp) (firstn (length (r_fars r0)) wf) (firstn (length (r_qers r0)) wq) in
        (State (w_u w) (aupsert N.eqb sid kept (s_store s)), Obs false (w_log w) false (w_bad w))
      end
    end
  | OpDel sid =>
    match alookup N.eqb sid (s_store s) with
    | None => (s, Obs false [] false false)
    | Some r =>
      let '(w, x) := sendDelete sid r w0 in
      match x with
      | Ok _ => (State (w_u w) (aremove N.eqb sid (s_store s)), Obs true (w_log w) false (w_bad w))
      | Err => (State (w_u w) (s_store s), Obs false (w_log w) true (w_bad w))
      end
    end
  end.

Definition ev := (op * (list N * list wres))%type.
Fixpoint run (s : state) (evs : list ev) : state * list obs :=
  match evs with
  | [] => (s, [])
  | (o, (pops, faults)) :: r =>
    let '(s', x) := step s o pops faults in
    let '(s'', xs) := run s' r in (s'', x :: xs)
  end.

(* ------------------------------------------------------------------ initial state *)
Record cfg := Cfg { i_ctr : list N; i_app : list N; i_sess : list N; i_peer : list N; i_appid : list N }.
Definition init (c : cfg) : state := State (Up4 (i_ctr c) (i_app c) (i_sess c) (i_peer c) (i_appid c) [] [] [] []) [].

(* ------------------------------------------------------------------ what the property speaks about *)
Inductive kind := KCtr | KAppCell | KSessCell | KPeer | KAppId.
Definition pool (k : kind) (s : state) : list N :=
  match k with KCtr => ctr_pool (s_u s) | KAppCell => app_pool (s_u s) | KSessCell => sess_pool (s_u s)
             | KPeer => peer_pool (s_u s) | KAppId => appid_pool (s_u s) end.
Definition init_pool (k : kind) (c : cfg) : list N :=
  match k with KCtr => i_ctr c | KAppCell => i_app c | KSessCell => i_sess c | KPeer => i_peer c | KAppId => i_appid c end.
Definition mcells (m : meter) : list N := if m_ul m =? m_dl m then [m_ul m] else [m_ul m; m_dl m].
Definition held_cells (t : mtype) (ms : list ((N * N) * meter)) : list N :=
  flat_map (fun e => if mtype_eqb (m_type (snd e)) t then mcells (snd e) else []) ms.
Definition live_ctrs (st : sessions) : list N := flat_map (fun e => map p_ctr (r_pdrs (snd e))) st.
(* one occurrence per owner: a stored PDR, a meters-map entry, a tunnel-parameter entry, a filter entry *)
Definition holders (k : kind) (s : state) : list N :=
  match k with
  | KCtr => live_ctrs (s_store s)
  | KAppCell => held_cells MApp (meters (s_u s))
  | KSessCell => held_cells MSess (meters (s_u s))
  | KPeer => map (fun e => fst (snd e)) (peers (s_u s))
  | KAppId => map (fun e => fst (snd e)) (apps (s_u s))
  end.
