(* C10 - executable model of association teardown and agent stop (pfcpiface/conn.go, node.go,
   messages.go HandlePFCPMsg release branch, pfcpiface.go Stop) as a labelled transition system of
   threads.  No proofs here.

   Threads.  Per association i: the reader goroutine of PFCPConn.Serve (RRd), the select loop of
   PFCPConn.Serve (RSel), the heartbeat monitor (RHb), and the part of the handleNewPeers goroutine
   that runs NewPFCPConn for the first datagram of that peer (RFst).  Node level: PFCPNode.Serve
   (RNode) and PFCPIface.Stop / main (RStop).  The environment (peer datagrams, silence past the read
   timeout, unanswered heartbeats, the stop signal) is a list of pending events; firing one is a
   label of the system, so a schedule also decides WHEN each trigger happens.

   Atomic steps are the synchronisation operations; Go's semantics of channels and sync.Once are in
   Base/LTS.v.  Everything that is not synchronisation (building replies, metrics, logging) is
   dropped; the text of the synchronisation skeleton this model was written against is tied to the
   source by the `*_skel` strings at the end (T1, compared with Gen/Skel_gen.v on every run). *)
From Coq Require Import NArith String List Bool Arith.
From UPF Require Import Base.LTS.
Import ListNotations.

(* DOther: any request answered in place; DDelete / DEstablish: a Session Deletion / Establishment Request for the
   session with that (UP-chosen, fresh) SEID *)
Inductive dgram := DRelease | DSetup | DOther | DDelete (x : N) | DEstablish (x : N).
Inductive role := RRd | RSel | RHb | RFst | RNode | RStop | RPeers.
Inductive fname := FReader | FSelect | FHb | FFirst | FDo | FNode | FStop | FPeers.
Inductive chref := CShut | CTmo | CHb | CPcd | CCtx | CDone | CNpd.
(* GRecvNpd: `case <-newPeersDone: newPeersDone = nil` on the node's local copy (a nil channel never fires) *)
Inductive guard := GRecv (c : chref) | GRecvForget (c : chref) | GTimer | GRecvNpd.

(* every instruction names its successor(s) as program counters inside the same function *)
Inductive instr :=
| Close (c : chref) (k : nat)                 (* close(c) *)
| Cancel (c : chref) (k : nat)                (* context.CancelFunc: idempotent close of Done() *)
| Send (c : chref) (k : nat)                  (* c <- own address *)
| Select (alts : list (guard * nat))          (* select without default; the label picks the case *)
| RecvForget (c : chref) (k_ok k_closed : nat)      (* for v := range c { pConns.Delete(v) } - one iteration *)
| TryRecvForget (c : chref) (k_got k_none : nat)    (* select { case v, ok := <-c: ... default: } *)
| IfLen (c : chref) (k_pos k_zero : nat)            (* if len(c) > 0 *)
| StopWait (k_loop k_exit : nat)              (* for newPeersDone != nil || pConnsEnded < pConnsCreated.Load() *)
| WaitSockClosed (k : nat)                    (* handleNewPeers: ReadFrom returns net.ErrClosed, the loop returns *)
| HbStart (k_run k_ret : nat)                 (* monitor: hbMu { shutdown closed ? return : hbCtxCancel = cancel } *)
| HbCancel (k : nat)                          (* doShutdown: hbMu { if hbCtxCancel != nil { hbCtxCancel() } } *)
| OnceDo (k : nat)                            (* pConn.Shutdown() = shutdownOnce.Do(doShutdown) *)
| OnceRet                                     (* doShutdown returns; Once marks completion *)
| Snapshot (k_loop k_exit : nat)              (* it := store.GetAllSessions() *)
| DpDelete (k : nat)                          (* upf.SendMsgToUPF(upfMsgTypeDel, head it) *)
| StoreDelete (k_loop k_exit : nat)           (* RemoveSession(head it); next *)
| CloseSock (k : nat)                         (* pConn.Close() / node.Close() *)
| Read (k_msg k_tmo k_cls : nat)              (* pConn.Read in the reader goroutine *)
| Handle (k_rel k_loop : nat)                 (* HandlePFCPMsg: handleMu { shutdown closed ? drop : handle }; Unlock *)
| HLock (k : nat)                             (* doShutdown: pConn.handleMu.Lock(); defer Unlock *)
| Accept (k_rel k_setup k_drop : nat)         (* node.ReadFrom + pConns.Load in handleNewPeers *)
| MapStore (k : nat)                          (* node.pConns.Store(rAddr, p) *)
| Go (k : nat)                                (* go p.Serve() (+ heartbeat monitor when enabled) *)
| Unbusy (k : nat)                            (* NewPFCPConn returns to the accept loop *)
| Exit (k : nat)                              (* upf.Exit() *)
| MainExit (k : nat)                          (* node.Done() returned: main returns, the process exits *)
| Ret.

Definition code (f : fname) : list instr :=
  match f with
  | FReader => [ Read 1 2 3;              (* 0  n, err := pConn.Read(buf) *)
                 Handle 4 0;              (* 1  pConn.HandlePFCPMsg(buf): under handleMu, or dropped *)
                 Send CTmo 3;             (* 2  connTimeout <- struct{}{} *)
                 Ret;                     (* 3 *)
                 OnceDo 0 ]               (* 4  released: pConn.Shutdown() after the Unlock *)
  | FSelect => [ Select [(GRecv CTmo, 1); (GRecv CCtx, 1); (GRecv CShut, 2)];
                 OnceDo 2;                (* 1  pConn.Shutdown(); return *)
                 Ret ]                    (* 2 *)
  | FHb     => [ HbStart 1 3;             (* 0  startHeartBeatMonitor under hbMu *)
                 Select [(GRecv CHb, 3); (GRecv CCtx, 3); (GTimer, 2)];
                 OnceDo 1;                (* 2  request timed out: pConn.Shutdown(), loop *)
                 Ret ]
  | FFirst  => [ Accept 1 3 7;            (* 0  ReadFrom, pConns.Load, pConnsCreated.Add(1) *)
                 MapStore 2;              (* 1  first datagram = release: pConns.Store ... *)
                 OnceDo 4;                (* 2  ... then p.HandlePFCPMsg(buf): deferred Shutdown *)
                 MapStore 4;              (* 3  first datagram = setup: pConns.Store; HandlePFCPMsg *)
                 Go 5;                    (* 4  go p.Serve() *)
                 Unbusy 6;                (* 5 *)
                 Ret;                     (* 6 *)
                 Ret ]                    (* 7  dropped: the address is already in pConns *)
  | FDo     => [ Close CShut 1;           (* 0 *)
                 HbCancel 2;              (* 1 *)
                 HLock 3;                 (* 2  a message being handled finishes first *)
                 Snapshot 4 6;            (* 3 *)
                 DpDelete 5;              (* 4 *)
                 StoreDelete 4 6;         (* 5 *)
                 Send CPcd 7;             (* 6  pConn.done <- rAddr *)
                 CloseSock 8;             (* 7 *)
                 OnceRet ]                (* 8  deferred handleMu.Unlock(); the Once completes *)
  | FNode   => [ Select [(GRecvForget CPcd, 0); (GRecv CCtx, 1)];
                 CloseSock 2;             (* 1  node.Close() *)
                 StopWait 3 4;            (* 2  wait for the listener and for every connection *)
                 Select [(GRecvNpd, 2); (GRecvForget CPcd, 2)];   (* 3 *)
                 Close CPcd 5;            (* 4 *)
                 Exit 6;                  (* 5 *)
                 Close CDone 7;           (* 6 *)
                 Ret ]
  | FPeers  => [ WaitSockClosed 1;        (* 0  the accept loop sees the closed socket *)
                 Close CNpd 2;            (* 1  defer close(node.newPeersDone) *)
                 Ret ]
  | FStop   => [ Cancel CCtx 1;           (* 0  node.Stop(): node.cancel() *)
                 Select [(GRecv CDone, 2)];   (* 1  node.Done() *)
                 MainExit 3;              (* 2 *)
                 Ret ]
  end.

Definition home (r : role) : fname :=
  match r with RRd => FReader | RSel => FSelect | RHb => FHb | RFst => FFirst | RNode => FNode | RStop => FStop | RPeers => FPeers end.

(* ------------------------------------------------------------------ state *)
Inductive tstat := TAbsent | TNotStarted | TRunning | TFinished.
Record thr := Thr { t_st : tstat; t_fn : fname; t_pc : nat; t_ret : nat; t_it : list N }.

(* sync.Once; the ghost argument of ORun records which thread is inside doShutdown *)
Inductive once := ONew | ORun (r : role) | ODone.

Record assoc := Assoc {
  a_store : list N;        (* sessions in the connection's store (F-SEIDs) *)
  a_del : list N;          (* datapath delete commands issued so far, in order *)
  a_once : once;
  a_shut : chan;           (* pConn.shutdown *)
  a_tmo : chan;            (* connTimeout, capacity 1 *)
  a_hbc : chan;            (* hbCtx.Done() *)
  a_sock : bool;           (* connected socket closed *)
  a_inbox : list dgram;    (* datagrams delivered and not yet read *)
  a_tmo_armed : bool;      (* the peer has been silent past readTimeout *)
  a_hb_armed : bool;       (* a heartbeat request ran out of retries *)
  a_hbreg : bool;          (* hbCtxCancel != nil: the monitor has registered its cancel function *)
  a_hmu : bool;            (* handleMu is held (by doShutdown; a handler holds it within one atomic step) *)
  a_inst : list N;         (* ghost: every session ever installed for this association, in order *)
  a_rd : thr; a_sel : thr; a_hb : thr; a_fst : thr }.

Record node := Node {
  n_ctx : chan; n_pcd : chan; n_done : chan;
  n_lsock : bool;          (* listening socket closed *)
  n_map : list N;          (* keys of node.pConns *)
  n_exit : bool;           (* upf.Exit() called *)
  n_busy : bool;           (* the handleNewPeers goroutine is inside NewPFCPConn *)
  n_main : bool;           (* main returned after node.Done(): the process is gone *)
  n_npd : chan;            (* node.newPeersDone *)
  n_npdnil : bool;         (* Serve's local copy of newPeersDone has been set to nil *)
  n_created : nat;         (* pConnsCreated *)
  n_ended : nat;           (* Serve's local pConnsEnded *)
  n_thr : thr; n_stop : thr; n_peers : thr }.

(* EStop: the process is told to stop (PFCPIface.Stop runs).  ECancel: the node context is cancelled
   without the stop sequence being scheduled here (used for connection-level scenarios) *)
Inductive env := EDeliver (i : nat) (d : dgram) | ETimeout (i : nat) | EHbFail (i : nat) | EStop | ECancel.

Record state := State { s_node : node; s_asc : list assoc; s_env : list env; s_panic : option string }.

(* labels: thread ids, enriched with the select alternative; TEnv k fires the k-th pending event *)
Inductive tid := TEnv (k : nat) | TNode (alt : nat) | TStop | TPeers | TA (i : nat) (r : role) (alt : nat).

(* ------------------------------------------------------------------ field updates *)
Definition set_store a v := let 'Assoc _ de on sh tm hb so ib ta ha hr hm ins rd se ht fs := a in Assoc v de on sh tm hb so ib ta ha hr hm ins rd se ht fs.
Definition set_del a v := let 'Assoc st _ on sh tm hb so ib ta ha hr hm ins rd se ht fs := a in Assoc st v on sh tm hb so ib ta ha hr hm ins rd se ht fs.
Definition set_once a v := let 'Assoc st de _ sh tm hb so ib ta ha hr hm ins rd se ht fs := a in Assoc st de v sh tm hb so ib ta ha hr hm ins rd se ht fs.
Definition set_shut a v := let 'Assoc st de on _ tm hb so ib ta ha hr hm ins rd se ht fs := a in Assoc st de on v tm hb so ib ta ha hr hm ins rd se ht fs.
Definition set_tmo a v := let 'Assoc st de on sh _ hb so ib ta ha hr hm ins rd se ht fs := a in Assoc st de on sh v hb so ib ta ha hr hm ins rd se ht fs.
Definition set_hbc a v := let 'Assoc st de on sh tm _ so ib ta ha hr hm ins rd se ht fs := a in Assoc st de on sh tm v so ib ta ha hr hm ins rd se ht fs.
Definition set_sock a v := let 'Assoc st de on sh tm hb _ ib ta ha hr hm ins rd se ht fs := a in Assoc st de on sh tm hb v ib ta ha hr hm ins rd se ht fs.
Definition set_inbox a v := let 'Assoc st de on sh tm hb so _ ta ha hr hm ins rd se ht fs := a in Assoc st de on sh tm hb so v ta ha hr hm ins rd se ht fs.
Definition set_tmo_armed a v := let 'Assoc st de on sh tm hb so ib _ ha hr hm ins rd se ht fs := a in Assoc st de on sh tm hb so ib v ha hr hm ins rd se ht fs.
Definition set_hb_armed a v := let 'Assoc st de on sh tm hb so ib ta _ hr hm ins rd se ht fs := a in Assoc st de on sh tm hb so ib ta v hr hm ins rd se ht fs.
Definition set_hbreg a v := let 'Assoc st de on sh tm hb so ib ta ha _ hm ins rd se ht fs := a in Assoc st de on sh tm hb so ib ta ha v hm ins rd se ht fs.
Definition set_hmu a v := let 'Assoc st de on sh tm hb so ib ta ha hr _ ins rd se ht fs := a in Assoc st de on sh tm hb so ib ta ha hr v ins rd se ht fs.
Definition set_inst a v := let 'Assoc st de on sh tm hb so ib ta ha hr hm _ rd se ht fs := a in Assoc st de on sh tm hb so ib ta ha hr hm v rd se ht fs.

Definition get_thr (a : assoc) (r : role) : thr :=
  match r with RRd => a_rd a | RSel => a_sel a | RHb => a_hb a | _ => a_fst a end.
Definition set_thr (a : assoc) (r : role) (t : thr) : assoc :=
  let 'Assoc st de on sh tm hb so ib ta ha hr hm ins rd se ht fs := a in
  match r with
  | RRd => Assoc st de on sh tm hb so ib ta ha hr hm ins t se ht fs
  | RSel => Assoc st de on sh tm hb so ib ta ha hr hm ins rd t ht fs
  | RHb => Assoc st de on sh tm hb so ib ta ha hr hm ins rd se t fs
  | _ => Assoc st de on sh tm hb so ib ta ha hr hm ins rd se ht t
  end.

Definition nset_ctx n v := let 'Node _ pc dn ls mp ex bu mn np nn cr en th sp pe := n in Node v pc dn ls mp ex bu mn np nn cr en th sp pe.
Definition nset_pcd n v := let 'Node cx _ dn ls mp ex bu mn np nn cr en th sp pe := n in Node cx v dn ls mp ex bu mn np nn cr en th sp pe.
Definition nset_done n v := let 'Node cx pc _ ls mp ex bu mn np nn cr en th sp pe := n in Node cx pc v ls mp ex bu mn np nn cr en th sp pe.
Definition nset_lsock n v := let 'Node cx pc dn _ mp ex bu mn np nn cr en th sp pe := n in Node cx pc dn v mp ex bu mn np nn cr en th sp pe.
Definition nset_map n v := let 'Node cx pc dn ls _ ex bu mn np nn cr en th sp pe := n in Node cx pc dn ls v ex bu mn np nn cr en th sp pe.
Definition nset_exit n v := let 'Node cx pc dn ls mp _ bu mn np nn cr en th sp pe := n in Node cx pc dn ls mp v bu mn np nn cr en th sp pe.
Definition nset_busy n v := let 'Node cx pc dn ls mp ex _ mn np nn cr en th sp pe := n in Node cx pc dn ls mp ex v mn np nn cr en th sp pe.
Definition nset_main n v := let 'Node cx pc dn ls mp ex bu _ np nn cr en th sp pe := n in Node cx pc dn ls mp ex bu v np nn cr en th sp pe.
Definition nset_npd n v := let 'Node cx pc dn ls mp ex bu mn _ nn cr en th sp pe := n in Node cx pc dn ls mp ex bu mn v nn cr en th sp pe.
Definition nset_npdnil n v := let 'Node cx pc dn ls mp ex bu mn np _ cr en th sp pe := n in Node cx pc dn ls mp ex bu mn np v cr en th sp pe.
Definition nset_created n v := let 'Node cx pc dn ls mp ex bu mn np nn _ en th sp pe := n in Node cx pc dn ls mp ex bu mn np nn v en th sp pe.
Definition nset_ended n v := let 'Node cx pc dn ls mp ex bu mn np nn cr _ th sp pe := n in Node cx pc dn ls mp ex bu mn np nn cr v th sp pe.
Definition nset_thr n v := let 'Node cx pc dn ls mp ex bu mn np nn cr en _ sp pe := n in Node cx pc dn ls mp ex bu mn np nn cr en v sp pe.
Definition nset_stop n v := let 'Node cx pc dn ls mp ex bu mn np nn cr en th _ pe := n in Node cx pc dn ls mp ex bu mn np nn cr en th v pe.
Definition nset_peers n v := let 'Node cx pc dn ls mp ex bu mn np nn cr en th sp _ := n in Node cx pc dn ls mp ex bu mn np nn cr en th sp v.

Definition get_ch (nd : node) (a : assoc) (c : chref) : chan :=
  match c with
  | CShut => a_shut a | CTmo => a_tmo a | CHb => a_hbc a
  | CPcd => n_pcd nd | CCtx => n_ctx nd | CDone => n_done nd | CNpd => n_npd nd
  end.
Definition set_ch (nd : node) (a : assoc) (c : chref) (v : chan) : node * assoc :=
  match c with
  | CShut => (nd, set_shut a v) | CTmo => (nd, set_tmo a v) | CHb => (nd, set_hbc a v)
  | CPcd => (nset_pcd nd v, a) | CCtx => (nset_ctx nd v, a) | CDone => (nset_done nd v, a)
  | CNpd => (nset_npd nd v, a)
  end.

Definition goto (t : thr) (k : nat) : thr := Thr (t_st t) (t_fn t) k (t_ret t) (t_it t).
Definition set_it (t : thr) (it : list N) : thr := Thr (t_st t) (t_fn t) (t_pc t) (t_ret t) it.
Definition finish (t : thr) : thr := Thr TFinished (t_fn t) (t_pc t) (t_ret t) (t_it t).
Definition start (t : thr) : thr :=
  Thr (match t_st t with TNotStarted => TRunning | st => st end) (t_fn t) (t_pc t) (t_ret t) (t_it t).

Fixpoint remove_first (x : N) (l : list N) : list N :=
  match l with [] => [] | y :: r => if N.eqb x y then r else y :: remove_first x r end.
Fixpoint remove_all (x : N) (l : list N) : list N :=
  match l with [] => [] | y :: r => if N.eqb x y then remove_all x r else y :: remove_all x r end.
Fixpoint memN (x : N) (l : list N) : bool :=
  match l with [] => false | y :: r => N.eqb x y || memN x r end.

(* a completion received by the node: pConnsEnded++; pConns.Delete(rAddr) *)
Definition forget (nd : node) (v : N) : node :=
  nset_ended (nset_map nd (remove_all v (n_map nd))) (S (n_ended nd)).
Definition is_nil {A} (l : list A) : bool := match l with [] => true | _ => false end.
Definition is_select (i : instr) : bool := match i with Select _ => true | _ => false end.

(* ------------------------------------------------------------------ one instruction *)
Definition exec (me : N) (r : role) (alt : nat) (nd : node) (a : assoc) (t : thr) (ins : instr)
  : res (node * assoc * thr) :=
  match ins with
  | Close c k =>
    match ch_close (get_ch nd a c) with
    | Ok ch => let '(nd', a') := set_ch nd a c ch in Ok (nd', a', goto t k)
    | Blocked => Blocked | Panic s => Panic s
    end
  | Cancel c k => let '(nd', a') := set_ch nd a c (ch_cancel (get_ch nd a c)) in Ok (nd', a', goto t k)
  | Send c k =>
    match ch_send (get_ch nd a c) me with
    | Ok ch => let '(nd', a') := set_ch nd a c ch in Ok (nd', a', goto t k)
    | Blocked => Blocked | Panic s => Panic s
    end
  | Select alts =>
    match nth_error alts alt with
    | None => Blocked
    | Some (GRecv c, k) =>
      match ch_recv (get_ch nd a c) with
      | Ok (ch, _) => let '(nd', a') := set_ch nd a c ch in Ok (nd', a', goto t k)
      | Blocked => Blocked | Panic s => Panic s
      end
    | Some (GRecvForget c, k) =>
      match ch_recv (get_ch nd a c) with
      | Ok (ch, Some v) => let '(nd', a') := set_ch nd a c ch in Ok (forget nd' v, a', goto t k)
      | Ok (ch, None) => Ok (nd, a, goto t k)
      | Blocked => Blocked | Panic s => Panic s
      end
    | Some (GTimer, k) => if a_hb_armed a then Ok (nd, set_hb_armed a false, goto t k) else Blocked
    | Some (GRecvNpd, k) =>
      (* nobody sends on newPeersDone: the receive is ready iff the channel is closed *)
      if negb (n_npdnil nd) && cclosed (n_npd nd) then Ok (nset_npdnil nd true, a, goto t k) else Blocked
    end
  | RecvForget c k_ok k_closed =>
    match ch_recv (get_ch nd a c) with
    | Ok (ch, Some v) => let '(nd', a') := set_ch nd a c ch in Ok (forget nd' v, a', goto t k_ok)
    | Ok (ch, None) => Ok (nd, a, goto t k_closed)
    | Blocked => Blocked | Panic s => Panic s
    end
  | TryRecvForget c k_got k_none =>
    match ch_recv (get_ch nd a c) with
    | Ok (ch, Some v) => let '(nd', a') := set_ch nd a c ch in Ok (forget nd' v, a', goto t k_got)
    | Ok (ch, None) => Ok (nd, a, goto t k_none)
    | Blocked => Ok (nd, a, goto t k_none)
    | Panic s => Panic s
    end
  | IfLen c k_pos k_zero => Ok (nd, a, goto t (if is_nil (cbuf (get_ch nd a c)) then k_zero else k_pos))
  | StopWait k_loop k_exit =>
    Ok (nd, a, goto t (if negb (n_npdnil nd) || (n_ended nd <? n_created nd) then k_loop else k_exit))
  | WaitSockClosed k => if n_lsock nd && negb (n_busy nd) then Ok (nd, a, goto t k) else Blocked
  | HbStart k_run k_ret =>
    if cclosed (a_shut a) then Ok (nd, a, goto t k_ret) else Ok (nd, set_hbreg a true, goto t k_run)
  | HbCancel k =>
    if a_hbreg a then Ok (nd, set_hbc a (ch_cancel (a_hbc a)), goto t k) else Ok (nd, a, goto t k)
  | OnceDo k =>
    match a_once a with
    | ONew => Ok (nd, set_once a (ORun r), Thr (t_st t) FDo 0 k (t_it t))
    | ORun _ => Blocked
    | ODone => Ok (nd, a, goto t k)
    end
  | OnceRet => Ok (nd, set_hmu (set_once a ODone) false, Thr (t_st t) (home r) (t_ret t) 0 [])
  | HLock k => if a_hmu a then Blocked else Ok (nd, set_hmu a true, goto t k)
  | Snapshot k_loop k_exit =>
    Ok (nd, a, goto (set_it t (a_store a)) (if is_nil (a_store a) then k_exit else k_loop))
  | DpDelete k =>
    match t_it t with
    | s :: _ => Ok (nd, set_del a (a_del a ++ [s]), goto t k)
    | [] => Blocked
    end
  | StoreDelete k_loop k_exit =>
    match t_it t with
    | s :: rest => Ok (nd, set_store a (remove_first s (a_store a)),
                       goto (set_it t rest) (if is_nil rest then k_exit else k_loop))
    | [] => Blocked
    end
  | CloseSock k =>
    match r with
    | RNode => Ok (nset_lsock nd true, a, goto t k)
    | _ => Ok (nd, set_sock a true, goto t k)
    end
  | Read k_msg k_tmo k_cls =>
    if a_sock a then Ok (nd, a, goto t k_cls)
    else match a_inbox a with
         | _ :: _ => Ok (nd, a, goto t k_msg)
         | [] => if a_tmo_armed a then Ok (nd, set_tmo_armed a false, goto t k_tmo) else Blocked
         end
  | Handle k_rel k_loop =>
    if a_hmu a then Blocked
    else match a_inbox a with
         | [] => Blocked
         | d :: ib =>
           let a1 := set_inbox a ib in
           if cclosed (a_shut a) then Ok (nd, a1, goto t k_loop)       (* the connection is shutting down: dropped *)
           else match d with
                | DRelease => Ok (nd, a1, goto t k_rel)
                | DDelete x =>
                  if memN x (a_store a)
                  then Ok (nd, set_store (set_del a1 (a_del a ++ [x])) (remove_first x (a_store a)), goto t k_loop)
                  else Ok (nd, a1, goto t k_loop)
                | DEstablish x =>
                  if memN x (a_inst a) then Ok (nd, a1, goto t k_loop)
                  else Ok (nd, set_inst (set_store a1 (a_store a ++ [x])) (a_inst a ++ [x]), goto t k_loop)
                | _ => Ok (nd, a1, goto t k_loop)
                end
         end
  | Accept k_rel k_setup k_drop =>
    if n_lsock nd || n_busy nd then Blocked
    else match a_inbox a with
         | [] => Blocked
         | d :: ib =>
           if memN me (n_map nd) then Ok (nd, set_inbox a ib, goto t k_drop)
           else Ok (nset_created (nset_busy nd true) (S (n_created nd)), set_inbox a ib,
                    goto t (match d with DRelease => k_rel | _ => k_setup end))
         end
  | MapStore k => Ok (nset_map nd (me :: remove_all me (n_map nd)), a, goto t k)
  | Go k =>
    let a1 := set_thr a RRd (start (a_rd a)) in
    let a2 := set_thr a1 RSel (start (a_sel a1)) in
    let a3 := set_thr a2 RHb (start (a_hb a2)) in
    Ok (nd, a3, goto t k)
  | Unbusy k => Ok (nset_busy nd false, a, goto t k)
  | Exit k => Ok (nset_exit nd true, a, goto t k)
  | MainExit k => Ok (nset_main nd true, a, goto t k)
  | Ret => Ok (nd, a, finish t)
  end.

Definition thread_step (me : N) (r : role) (alt : nat) (nd : node) (a : assoc) (t : thr)
  : res (node * assoc * thr) :=
  match t_st t with
  | TRunning =>
    match nth_error (code (t_fn t)) (t_pc t) with
    | Some ins => if is_select ins || Nat.eqb alt 0 then exec me r alt nd a t ins else Blocked
    | None => Blocked
    end
  | _ => Blocked
  end.

(* ------------------------------------------------------------------ the system *)
Definition thr0 (st : tstat) (f : fname) : thr := Thr st f 0 0 [].
Definition assoc0 : assoc :=
  Assoc [] [] ONew (mkchan 0) (mkchan 1) (mkchan 0) false [] false false false false []
        (thr0 TAbsent FReader) (thr0 TAbsent FSelect) (thr0 TAbsent FHb) (thr0 TAbsent FFirst).

Fixpoint upd {A} (l : list A) (i : nat) (x : A) : list A :=
  match l, i with
  | [], _ => []
  | _ :: r, O => x :: r
  | y :: r, S j => y :: upd r j x
  end.

Fixpoint remove_nth {A} (l : list A) (k : nat) : list A :=
  match l, k with
  | [], _ => []
  | _ :: r, O => r
  | y :: r, S j => y :: remove_nth r j
  end.

Definition is_assoc_role (r : role) : bool :=
  match r with RNode | RStop | RPeers => false | _ => true end.

Definition apply_env (s : state) (e : env) : state :=
  let asc := s_asc s in
  match e with
  | EDeliver i d =>
    match nth_error asc i with
    | Some a => State (s_node s) (upd asc i (set_inbox a (a_inbox a ++ [d]))) (s_env s) (s_panic s)
    | None => s
    end
  | ETimeout i =>
    match nth_error asc i with
    | Some a => State (s_node s) (upd asc i (set_tmo_armed a true)) (s_env s) (s_panic s)
    | None => s
    end
  | EHbFail i =>
    match nth_error asc i with
    | Some a => State (s_node s) (upd asc i (set_hb_armed a true)) (s_env s) (s_panic s)
    | None => s
    end
  | EStop => State (nset_stop (s_node s) (start (n_stop (s_node s)))) asc (s_env s) (s_panic s)
  | ECancel => State (nset_ctx (s_node s) (ch_cancel (n_ctx (s_node s)))) asc (s_env s) (s_panic s)
  end.

Definition dead (s : state) : bool :=
  match s_panic s with Some _ => true | None => n_main (s_node s) end.

Definition step (s : state) (l : tid) : option state :=
  if dead s then None else
  let nd := s_node s in
  match l with
  | TEnv k =>
    match nth_error (s_env s) k with
    | Some e => let s' := apply_env s e in
                Some (State (s_node s') (s_asc s') (remove_nth (s_env s) k) None)
    | None => None
    end
  | TNode alt =>
    if 3 <=? alt then None else
    match thread_step 0%N RNode alt nd assoc0 (n_thr nd) with
    | Ok (nd', _, t') => Some (State (nset_thr nd' t') (s_asc s) (s_env s) None)
    | Panic site => Some (State nd (s_asc s) (s_env s) (Some site))
    | Blocked => None
    end
  | TPeers =>
    match thread_step 0%N RPeers 0 nd assoc0 (n_peers nd) with
    | Ok (nd', _, t') => Some (State (nset_peers nd' t') (s_asc s) (s_env s) None)
    | Panic site => Some (State nd (s_asc s) (s_env s) (Some site))
    | Blocked => None
    end
  | TStop =>
    match thread_step 0%N RStop 0 nd assoc0 (n_stop nd) with
    | Ok (nd', _, t') => Some (State (nset_stop nd' t') (s_asc s) (s_env s) None)
    | Panic site => Some (State nd (s_asc s) (s_env s) (Some site))
    | Blocked => None
    end
  | TA i r alt =>
    if negb (is_assoc_role r) || (3 <=? alt) then None else
    match nth_error (s_asc s) i with
    | None => None
    | Some a =>
      match thread_step (N.of_nat i) r alt nd a (get_thr a r) with
      | Ok (nd', a', t') => Some (State nd' (upd (s_asc s) i (set_thr a' r t')) (s_env s) None)
      | Panic site => Some (State nd (s_asc s) (s_env s) (Some site))
      | Blocked => None
      end
    end
  end.

(* ------------------------------------------------------------------ initial states *)
(* configuration of one association *)
Record acfg := ACfg {
  c_sess : list N;         (* sessions in its store *)
  c_hb : bool;             (* heartbeat monitor running (enableHBTimer) *)
  c_first : option dgram   (* None: association already established (in pConns, Serve running);
                              Some d: not yet known to the node, d will be its first datagram *)
}.

Definition pcd_cap : nat := 100.     (* make(chan string, 100) in NewPFCPNode *)
Definition tmo_cap : nat := 1.       (* make(chan struct{}, 1) in PFCPConn.Serve *)

Definition init_assoc (c : acfg) : assoc :=
  let live := match c_first c with None => true | Some _ => false end in
  let st := if live then TRunning else TNotStarted in
  Assoc (c_sess c) [] ONew (mkchan 0) (mkchan tmo_cap) (mkchan 0) false
        (match c_first c with Some d => [d] | None => [] end) false false
        (live && c_hb c)                       (* an established association's monitor has registered *)
        false (c_sess c)
        (thr0 st FReader) (thr0 st FSelect)
        (if c_hb c then (if live then Thr TRunning FHb 1 0 [] else thr0 TNotStarted FHb) else thr0 TAbsent FHb)
        (if live then Thr TFinished FFirst 6 0 [] else thr0 TRunning FFirst).

Fixpoint live_addrs (cs : list acfg) (i : nat) : list N :=
  match cs with
  | [] => []
  | c :: r => match c_first c with
              | None => N.of_nat i :: live_addrs r (S i)
              | Some _ => live_addrs r (S i)
              end
  end.

Definition init_node (cap : nat) (cs : list acfg) : node :=
  Node (mkchan 0) (mkchan cap) (mkchan 0) false (live_addrs cs 0) false false false
       (mkchan 0) false (List.length (live_addrs cs 0)) 0
       (thr0 TRunning FNode) (thr0 TNotStarted FStop) (thr0 TRunning FPeers).

Definition init_cap (cap : nat) (cs : list acfg) (ev : list env) : state :=
  State (init_node cap cs) (map init_assoc cs) ev None.
Definition init := init_cap pcd_cap.

(* ------------------------------------------------------------------ labels, enabledness *)
Definition assoc_labels (i : nat) : list tid :=
  flat_map (fun r => [TA i r 0; TA i r 1; TA i r 2]) [RRd; RSel; RHb; RFst].

Definition labels (s : state) : list tid :=
  map TEnv (seq 0 (List.length (s_env s)))
  ++ [TNode 0; TNode 1; TNode 2; TStop; TPeers]
  ++ flat_map assoc_labels (seq 0 (List.length (s_asc s))).

Definition enabled (s : state) (l : tid) : bool :=
  match step s l with Some _ => true | None => false end.
Definition terminal (s : state) : bool := negb (existsb (enabled s) (labels s)).

Definition run := LTS.run state tid step.
Definition run_strict := LTS.run_strict state tid step.
Definition reach := LTS.reach state tid step.

(* ------------------------------------------------------------------ observables of the property *)
Definition panicked (s : state) : bool := match s_panic s with Some _ => true | None => false end.

Fixpoint count (x : N) (l : list N) : nat :=
  match l with [] => 0 | y :: r => (if N.eqb x y then 1 else 0) + count x r end.

(* number of datapath deletes of session x of association i *)
Definition deleted (s : state) (i : nat) (x : N) : nat :=
  match nth_error (s_asc s) i with Some a => count x (a_del a) | None => 0 end.

Definition ended (a : assoc) : bool := match a_once a with ONew => false | _ => true end.
Definition in_map (s : state) (i : nat) : bool := memN (N.of_nat i) (n_map (s_node s)).
(* a fresh Association Setup from address i creates a new connection iff the address is not in pConns
   (otherwise handleNewPeers logs "drop packet for existing PFCPconn") and the listening socket is open *)
Definition fresh_setup_processed (s : state) (i : nat) : bool :=
  negb (in_map s i) && negb (n_lsock (s_node s)).

Definition thr_done (t : thr) : bool :=
  match t_st t with TRunning => false | _ => true end.
Definition assoc_threads_done (a : assoc) : bool :=
  thr_done (a_rd a) && thr_done (a_sel a) && thr_done (a_hb a) && thr_done (a_fst a).

(* a thread parked where the Go code legitimately waits for the outside world *)
Definition parked_ok (a : assoc) : bool :=
  match a_once a with
  | ONew =>
    (* live association: reader in Read, select loop and monitor in their select, or not yet accepted *)
    let at_wait k t := thr_done t || (Nat.eqb (t_pc t) k && match t_fn t with FDo => false | _ => true end) in
    at_wait 0 (a_rd a) && at_wait 0 (a_sel a) && at_wait 1 (a_hb a) && at_wait 0 (a_fst a)
  | ORun _ => false
  | ODone => assoc_threads_done a
  end.

Definition node_parked_ok (s : state) : bool :=
  let nd := s_node s in
  ((thr_done (n_thr nd) && thr_done (n_peers nd))
   || (Nat.eqb (t_pc (n_thr nd)) 0 && negb (cclosed (n_ctx nd)) && Nat.eqb (t_pc (n_peers nd)) 0))
  && (thr_done (n_stop nd)).

(* what a state in which nothing can move must look like when the agent is healthy: ended
   associations are completely gone, live ones wait for input, the node loop waits or has returned *)
Definition quiescent_ok (s : state) : bool :=
  forallb parked_ok (s_asc s) && (dead s || node_parked_ok s).

(* outcome compared with the implementation on the sequentially forced scenarios *)
Record outcome := Outcome {
  o_panic : bool;
  o_dels : list (list N);       (* per association: delete commands in order *)
  o_fwd : list bool;            (* per association: still in pConns *)
  o_gone : list bool;           (* per association: all goroutines returned *)
  o_node_done : bool            (* node.done closed *)
}.
Definition observe (s : state) : outcome :=
  Outcome (panicked s) (map a_del (s_asc s))
          (map (fun i => in_map s i) (seq 0 (List.length (s_asc s))))
          (map assoc_threads_done (s_asc s))
          (cclosed (n_done (s_node s))).

(* deterministic scheduler for the forced scenarios: fire the events one at a time and let the
   system run to quiescence after each (always the first enabled non-environment label).
   conn = true: connection-level scenario, the receiver of pConnDone never takes its ctx.Done branch
   (the harness plays the node with a goroutine that only receives) *)
Definition thread_labels (conn : bool) (s : state) : list tid :=
  (if conn then [TNode 0] else [TNode 0; TNode 1; TNode 2; TStop; TPeers])
  ++ flat_map assoc_labels (seq 0 (List.length (s_asc s))).

Fixpoint first_enabled (s : state) (ls : list tid) : option (tid * state) :=
  match ls with
  | [] => None
  | l :: r => match step s l with Some s' => Some (l, s') | None => first_enabled s r end
  end.

Fixpoint settle (conn : bool) (fuel : nat) (s : state) (acc : list tid) : state * list tid :=
  match fuel with
  | O => (s, acc)
  | S f => match first_enabled s (thread_labels conn s) with
           | Some (l, s') => settle conn f s' (l :: acc)
           | None => (s, acc)
           end
  end.

Fixpoint run_forced (conn : bool) (fuel : nat) (s : state) (n_ev : nat) (acc : list tid) : state * list tid :=
  match n_ev with
  | O => settle conn fuel s acc
  | S k => let '(s1, acc1) := settle conn fuel s acc in
           match step s1 (TEnv 0) with
           | Some s2 => run_forced conn fuel s2 k (TEnv 0 :: acc1)
           | None => (s1, acc1)
           end
  end.

(* the schedule (list of thread ids) and final state of a forced scenario *)
Definition forced (conn : bool) (fuel : nat) (cs : list acfg) (ev : list env) : state * list tid :=
  let '(s, acc) := run_forced conn fuel (init cs ev) (List.length ev) [] in (s, rev acc).

(* ------------------------------------------------------------------ boolean equality (for the explorer) *)
(* lazy conjunction: vm_compute is call-by-value, `andb` would evaluate both sides *)
Notation "a &&& b" := (if a then b else false) (at level 40, left associativity).
Fixpoint list_eqb {A} (f : A -> A -> bool) (x y : list A) : bool :=
  match x, y with
  | [], [] => true
  | a :: x', b :: y' => f a b &&& list_eqb f x' y'
  | _, _ => false
  end.
Definition dgram_eqb (a b : dgram) : bool :=
  match a, b with
  | DRelease, DRelease | DSetup, DSetup | DOther, DOther => true
  | DDelete x, DDelete y | DEstablish x, DEstablish y => N.eqb x y
  | _, _ => false
  end.
Definition role_eqb (a b : role) : bool :=
  match a, b with
  | RRd, RRd | RSel, RSel | RHb, RHb | RFst, RFst | RNode, RNode | RStop, RStop | RPeers, RPeers => true
  | _, _ => false
  end.
Definition fname_eqb (a b : fname) : bool :=
  match a, b with
  | FReader, FReader | FSelect, FSelect | FHb, FHb | FFirst, FFirst | FDo, FDo | FNode, FNode | FStop, FStop
  | FPeers, FPeers => true
  | _, _ => false
  end.
Definition tstat_eqb (a b : tstat) : bool :=
  match a, b with
  | TAbsent, TAbsent | TNotStarted, TNotStarted | TRunning, TRunning | TFinished, TFinished => true
  | _, _ => false
  end.
Definition once_eqb (a b : once) : bool :=
  match a, b with
  | ONew, ONew | ODone, ODone => true
  | ORun r, ORun r' => role_eqb r r'
  | _, _ => false
  end.
Definition chan_eqb (a b : chan) : bool :=
  Nat.eqb (ccap a) (ccap b) &&& list_eqb N.eqb (cbuf a) (cbuf b) &&& Bool.eqb (cclosed a) (cclosed b).
Definition thr_eqb (a b : thr) : bool :=
  tstat_eqb (t_st a) (t_st b) &&& fname_eqb (t_fn a) (t_fn b) &&& Nat.eqb (t_pc a) (t_pc b)
  &&& Nat.eqb (t_ret a) (t_ret b) &&& list_eqb N.eqb (t_it a) (t_it b).
Definition assoc_eqb (a b : assoc) : bool :=
  thr_eqb (a_rd a) (a_rd b) &&& thr_eqb (a_sel a) (a_sel b) &&& thr_eqb (a_hb a) (a_hb b)
  &&& thr_eqb (a_fst a) (a_fst b) &&& once_eqb (a_once a) (a_once b)
  &&& list_eqb N.eqb (a_store a) (a_store b) &&& list_eqb N.eqb (a_del a) (a_del b)
  &&& chan_eqb (a_shut a) (a_shut b) &&& chan_eqb (a_tmo a) (a_tmo b) &&& chan_eqb (a_hbc a) (a_hbc b)
  &&& Bool.eqb (a_sock a) (a_sock b) &&& list_eqb dgram_eqb (a_inbox a) (a_inbox b)
  &&& Bool.eqb (a_tmo_armed a) (a_tmo_armed b) &&& Bool.eqb (a_hb_armed a) (a_hb_armed b)
  &&& Bool.eqb (a_hbreg a) (a_hbreg b) &&& Bool.eqb (a_hmu a) (a_hmu b) &&& list_eqb N.eqb (a_inst a) (a_inst b).
Definition node_eqb (a b : node) : bool :=
  thr_eqb (n_thr a) (n_thr b) &&& thr_eqb (n_stop a) (n_stop b)
  &&& chan_eqb (n_ctx a) (n_ctx b) &&& chan_eqb (n_pcd a) (n_pcd b) &&& chan_eqb (n_done a) (n_done b)
  &&& Bool.eqb (n_lsock a) (n_lsock b) &&& list_eqb N.eqb (n_map a) (n_map b)
  &&& Bool.eqb (n_exit a) (n_exit b) &&& Bool.eqb (n_busy a) (n_busy b) &&& Bool.eqb (n_main a) (n_main b)
  &&& thr_eqb (n_peers a) (n_peers b) &&& chan_eqb (n_npd a) (n_npd b) &&& Bool.eqb (n_npdnil a) (n_npdnil b)
  &&& Nat.eqb (n_created a) (n_created b) &&& Nat.eqb (n_ended a) (n_ended b).
Definition env_eqb (a b : env) : bool :=
  match a, b with
  | EDeliver i d, EDeliver j e => Nat.eqb i j &&& dgram_eqb d e
  | ETimeout i, ETimeout j | EHbFail i, EHbFail j => Nat.eqb i j
  | EStop, EStop | ECancel, ECancel => true
  | _, _ => false
  end.
Definition state_eqb (a b : state) : bool :=
  list_eqb assoc_eqb (s_asc a) (s_asc b) &&& node_eqb (s_node a) (s_node b)
  &&& list_eqb env_eqb (s_env a) (s_env b)
  &&& match s_panic a, s_panic b with
     | None, None => true
     | Some x, Some y => String.eqb x y
     | _, _ => false
     end.

(* hash for the explorer's visited set (any function would do; soundness does not depend on it) *)
Local Open Scope N_scope.
Definition fn_code (f : fname) : N :=
  match f with FReader => 0 | FSelect => 1 | FHb => 2 | FFirst => 3 | FDo => 4 | FNode => 5 | FStop => 6 | FPeers => 7 end.
Definition st_code (t : tstat) : N :=
  match t with TAbsent => 0 | TNotStarted => 1 | TRunning => 2 | TFinished => 3 end.
Definition thr_key (t : thr) : N :=
  (N.of_nat (t_pc t) * 8 + fn_code (t_fn t)) * 4 + st_code (t_st t) + 64 * N.of_nat (List.length (t_it t)).
Definition once_code (o : once) : N := match o with ONew => 0 | ORun _ => 1 | ODone => 2 end.
Definition b2n (b : bool) : N := if b then 1 else 0.
Definition assoc_key (a : assoc) : N :=
  ((((thr_key (a_rd a) * 131 + thr_key (a_sel a)) * 131 + thr_key (a_hb a)) * 131 + thr_key (a_fst a)) * 3
   + once_code (a_once a)) * 16
  + N.of_nat (List.length (a_inbox a)) * 8 + b2n (a_sock a) * 4 + b2n (a_tmo_armed a) * 2 + b2n (a_hb_armed a)
  + 1024 * N.of_nat (List.length (cbuf (a_tmo a))) + 4096 * N.of_nat (List.length (a_store a)).
Definition state_key (s : state) : positive :=
  let nd := s_node s in
  N.succ_pos
    (fold_left (fun h a => h * 1000003 + assoc_key a) (s_asc s)
       (((thr_key (n_thr nd) * 131 + thr_key (n_stop nd)) * 131 + thr_key (n_peers nd) + N.of_nat (n_ended nd) * 7) * 64
        + N.of_nat (List.length (cbuf (n_pcd nd))) * 8 + N.of_nat (List.length (s_env s)))).
Local Close Scope N_scope.

Definition explore := LTS.explore state tid step state_eqb state_key labels.
Definition level := LTS.level state tid step state_eqb state_key labels.

(* ------------------------------------------------------------------ T1: the source skeleton this model describes *)
(* canonical text produced by harness/skel from conn.go / node.go; Gen/Skel_gen.v holds the text of
   the CURRENT tree and Proofs/TeardownSkel.v checks equality by eq_refl.  Reading guide: conn_serve go{...} is
   FReader, its loop{select} is FSelect, conn_doShutdown is FDo, conn_hb_monitor is FHb, node_new_conn
   is FFirst (inside node_new_peers, whose return is FPeers), node_serve is FNode, iface_stop / node_stop /
   node_done are FStop *)
Open Scope string_scope.
Definition conn_shutdown_skel :=
  "once(shutdownOnce,doShutdown)".
Definition conn_doShutdown_skel :=
  "close(shutdown);call(hbMu.Lock);if(hbCtxCancel){call(hbCtxCancel)};call(hbMu.Unlock);call(handleMu.Lock);defer(handleMu.Unlock);range(store.GetAllSessions){call(SendMsgToUPF:upfMsgTypeDel);call(RemoveSession)};send(done);call(Close);if{return}".
Definition conn_serve_skel :=
  "make(connTimeout,1);go{loop{call(SetReadDeadline);call(Read);if{if{send(connTimeout);return};if{return};continue};call(HandlePFCPMsg)}};loop{select{recv(connTimeout):{call(Shutdown);return};recv(ctx.Done):{call(Shutdown);return};recv(shutdown):{return}}}".
Definition conn_hb_monitor_skel :=
  "call(hbMu.Lock);select{recv(shutdown):{call(hbMu.Unlock);return};default:{}};if(hbCtxCancel){call(hbCtxCancel)};call(hbMu.Unlock);loop{select{recv(hbCtx.Done):{return};recv(hbReset):{};recv(heartBeatExpiryTimer.C):{call(sendPFCPRequestMessage);if{call(Shutdown)}}}}".
Definition node_new_conn_skel :=
  "call(pConnsCreated.Add);call(Dial);bind(done,pConnDone);make(shutdown,0);make(hbReset,100);call(pConns.Store);if{call(HandlePFCPMsg)};go(Serve);return".
Definition node_new_skel :=
  "call(ListenPacket);make(done,0);make(pConnDone,100);make(newPeersDone,0);return".
Definition node_new_peers_skel :=
  "defer(close:newPeersDone);call(tryConnectToN4Peers);loop{call(ReadFrom);if{if{return};continue};call(pConns.Load);if{continue};call(NewPFCPConn)}".
Definition node_serve_skel :=
  "go(handleNewPeers);loop(shutdown){select{recv(upf.reportNotifyChan):{call(pConns.Range)};recv(pConnDone):{inc(pConnsEnded);call(pConns.Delete)};recv(ctx.Done):{call(Close);loop(newPeersDone,pConnsEnded){call(pConnsCreated.Load);select{recv(newPeersDone):{set(newPeersDone,nil)};recv(pConnDone):{inc(pConnsEnded);call(pConns.Delete)}}};close(pConnDone);call(Exit)}}};close(done)".
Definition node_stop_skel :=
  "call(cancel)".
Definition node_done_skel :=
  "recv(done)".
Definition handle_msg_skel :=
  "call(handleMu.Lock);call(handlePFCPMsg);call(handleMu.Unlock);if(released){call(Shutdown)}".
Definition handle_msg_locked_skel :=
  "select{recv(shutdown):{return};default:{}};if{return};switch{case(message.MsgTypeAssociationSetupRequest){if{go(startHeartBeatMonitor)}};case(message.MsgTypeAssociationReleaseRequest){call(handleAssociationReleaseRequest);set(released,true)}};return".
Definition iface_stop_skel :=
  "defer(Unlock);defer{call(cancel)};call(node.Stop);call(node.Done)".
Definition remove_session_skel :=
  "call(store.DeleteSession)".
