#!/usr/bin/env python3
"""Runs conf/test_route_control.py of the tree under test ($VERIF_REPO, default /repo) offline:
pyroute2 and scapy are not installed here, so the same stand-ins as in c20_harness.py are put into
sys.modules first (the test file itself replaces pybess.bess by a MagicMock).  Used for the
self-test of the C20 check (do the repo's own unit tests notice a mutation?); not part of the check."""
import os
import sys
import unittest

sys.path.insert(0, os.path.dirname(os.path.abspath(__file__)))
import c20_harness  # noqa: E402

repo = os.environ.get("VERIF_REPO", "/repo")
c20_harness.install_stubs()
sys.path.insert(0, repo)
sys.dont_write_bytecode = True
suite = unittest.defaultTestLoader.loadTestsFromName("conf.test_route_control")
res = unittest.TextTestRunner(verbosity=0).run(suite)
sys.exit(0 if res.wasSuccessful() else 1)
