#!/usr/bin/env python3
"""C20 correspondence harness: drives the REAL conf/route_control.py of the tree under test.

  python3 c20_harness.py IN.jsonl OUT.jsonl        (tree: $VERIF_REPO, default /repo)

The modules route_control.py imports but which are not installed here (pyroute2, pybess.bess,
scapy.all) are replaced by stand-ins in sys.modules *before* the import:

  * pybess.bess.BESS  - a recording in-memory BESS daemon with the failure semantics of bessd:
      - every graph / table operation while a worker runs (no pause_all) -> Error(EBUSY)
      - run_module_command on a missing module -> Error(ENOENT);  IPLookup add: invalid prefix
        (host bits set, len > 32) or gate >= 8192 -> Error(EINVAL), an existing prefix is
        overwritten (rte_lpm_add);  IPLookup delete of an absent prefix -> Error(EINVAL)
      - create_module of an existing name -> Error(EEXIST)
      - connect_modules: missing module -> Error(ENOENT); output gate already connected ->
        Error(EBUSY); several output gates may feed one input gate
      - destroy_module of a missing module -> Error(ENOENT); otherwise the module and every link
        from or to it disappear
      - disconnect_modules on a missing module -> Error(ENOENT)
    `from pybess.bess import *` must also provide `errno` (the real pybess does).
  * pyroute2.NDB      - `interfaces[idx].get("ifname")`, `neighbours.dump()` (the kernel view
                        kept by the test), `task_manager.register_handler`
  * scapy.all         - ICMP / IP / send (send records the destination; never used because
                        route_control.send_ping itself is replaced by a recorder)
  * time.sleep inside route_control is a no-op (retry loops run through at once).

One input line = one history:
  {"ifs":[[ifindex,name,managed]...], "ev":[["NR",dst,len,nh,ifindex] | ["DR",dst,len,nh,ifindex]
                                            | ["NN",nh,mac[,ifindex]]      RTM_NEWNEIGH with NDA_LLADDR (a resolution)
                                            | ["NF",nh[,ifindex]]          RTM_NEWNEIGH WITHOUT NDA_LLADDR (INCOMPLETE / FAILED)
                                            | ["DN",nh[,ifindex]]          RTM_DELNEIGH
                                            | ["RAW",{message}]            anything else for the route handler ...]}
One output line = {"steps":[snapshot after each event]} with
  snapshot = {"lpm":[[module,prefix,len,gate]], "mods":[[name,class,value]], "links":[[m,og,m2,ig]],
              "nc":[[nh,gate,mac,count]], "un":[[key,[[prefix,len,nh,iface]...in arrival order]]], "gc":[[module,n]],
              "pings":[ip...] (this step), "calls":[[op,args...,errno|0]] (this step),
              "exc": text if the handler let an exception escape}
Everything is sorted; nothing depends on time or addresses.
"""
import errno as _errno
import importlib.util
import ipaddress
import json
import logging
import os
import sys
import types

MAX_GATES = 8192


# --------------------------------------------------------------------------- stand-ins

class BESS(object):
    class Error(Exception):
        def __init__(self, code, errmsg, **kwargs):
            Exception.__init__(self, code, errmsg)
            self.code = code
            self.errmsg = errmsg
            self.info = kwargs

        def __str__(self):
            return "errno=%d (%s: %s), %s" % (self.code, _errno.errorcode.get(self.code, "?"),
                                              os.strerror(self.code), self.errmsg)

    class RPCError(Exception):
        pass

    class APIError(Exception):
        pass

    class ConstraintError(Exception):
        pass

    world = None   # the World of the running case (set by the driver before BessController())

    def __init__(self):
        self.w = BESS.world
        self._connected = False

    # connection ---------------------------------------------------------
    def is_connected(self):
        return self._connected

    def connect(self, grpc_url=None):
        self._connected = True

    def disconnect(self):
        self._connected = False

    # workers ------------------------------------------------------------
    def pause_all(self):
        self.w.paused += 1

    def resume_all(self):
        if self.w.paused > 0:
            self.w.paused -= 1

    def _need_pause(self, op):
        if self.w.paused <= 0:
            raise BESS.Error(_errno.EBUSY, "There is a running worker", op=op)

    # module commands ----------------------------------------------------
    def run_module_command(self, name, cmd, arg_type, arg):
        w = self.w
        try:
            self._need_pause("run_module_command")
            m = w.modules.get(name)
            if m is None:
                raise BESS.Error(_errno.ENOENT, "No module '%s' found" % name)
            if m["class"] != "IPLookup":
                raise BESS.Error(_errno.ENOTSUP, "'%s' does not support command '%s'" % (m["class"], cmd))
            table = w.lpm.setdefault(name, {})
            if cmd == "add":
                prefix, plen, gate = arg["prefix"], arg["prefix_len"], arg["gate"]
                self._check_prefix(prefix, plen)
                if not isinstance(gate, int) or not 0 <= gate < MAX_GATES:
                    raise BESS.Error(_errno.EINVAL, "Invalid gate: %r" % (gate,))
                table[(prefix, int(plen))] = gate
            elif cmd == "delete":
                prefix, plen = arg["prefix"], arg["prefix_len"]
                self._check_prefix(prefix, plen)
                if (prefix, int(plen)) not in table:
                    raise BESS.Error(_errno.EINVAL, "rpm_lpm_delete() failed")
                del table[(prefix, int(plen))]
            elif cmd == "clear":
                table.clear()
            else:
                raise BESS.Error(_errno.ENOTSUP, "unknown command %s" % cmd)
        except BESS.Error as e:
            w.call("cmd_" + str(cmd), name, _argkey(arg), e.code)
            raise
        w.call("cmd_" + str(cmd), name, _argkey(arg), 0)

    @staticmethod
    def _check_prefix(prefix, plen):
        try:
            a = ipaddress.IPv4Address(prefix)
            plen = int(plen)
        except Exception:
            raise BESS.Error(_errno.EINVAL, "Invalid IP prefix: %r" % (prefix,))
        if not 0 <= plen <= 32:
            raise BESS.Error(_errno.EINVAL, "Invalid prefix length: %r" % (plen,))
        mask = (0xFFFFFFFF << (32 - plen)) & 0xFFFFFFFF
        if int(a) & ~mask & 0xFFFFFFFF:
            raise BESS.Error(_errno.EINVAL, "Invalid IP prefix %s/%d" % (prefix, plen))

    # graph --------------------------------------------------------------
    def create_module(self, mclass, name=None, arg=None):
        w = self.w
        try:
            self._need_pause("create_module")
            if name in w.modules:
                raise BESS.Error(_errno.EEXIST, "Module %s exists" % name)
        except BESS.Error as e:
            w.call("create", name, mclass, e.code)
            raise
        value = None
        try:
            value = arg["fields"][0]["value"]
        except Exception:
            pass
        w.modules[name] = {"class": mclass, "value": value, "dyn": True}
        w.call("create", name, mclass, 0)

    def destroy_module(self, name):
        w = self.w
        try:
            self._need_pause("destroy_module")
            if name not in w.modules:
                raise BESS.Error(_errno.ENOENT, "No module '%s' found" % name)
        except BESS.Error as e:
            w.call("destroy", name, "", e.code)
            raise
        del w.modules[name]
        w.lpm.pop(name, None)
        for k in [k for k, v in w.links.items() if k[0] == name or v[0] == name]:
            del w.links[k]
        w.call("destroy", name, "", 0)

    def connect_modules(self, m1, m2, ogate=0, igate=0):
        w = self.w
        try:
            self._need_pause("connect_modules")
            if m1 not in w.modules:
                raise BESS.Error(_errno.ENOENT, "No module '%s' found" % m1)
            if m2 not in w.modules:
                raise BESS.Error(_errno.ENOENT, "No module '%s' found" % m2)
            if not 0 <= ogate < MAX_GATES or not 0 <= igate < MAX_GATES:
                raise BESS.Error(_errno.EINVAL, "Invalid gate")
            if (m1, ogate) in w.links:
                raise BESS.Error(_errno.EBUSY, "Connection %s:%d failed: ogate already connected" % (m1, ogate))
        except BESS.Error as e:
            w.call("connect", m1, "%d>%s:%d" % (ogate, m2, igate), e.code)
            raise
        w.links[(m1, ogate)] = (m2, igate)
        w.call("connect", m1, "%d>%s:%d" % (ogate, m2, igate), 0)

    def disconnect_modules(self, name, ogate=0):
        w = self.w
        try:
            self._need_pause("disconnect_modules")
            if name not in w.modules:
                raise BESS.Error(_errno.ENOENT, "No module '%s' found" % name)
        except BESS.Error as e:
            w.call("disconnect", name, str(ogate), e.code)
            raise
        w.links.pop((name, ogate), None)
        w.call("disconnect", name, str(ogate), 0)

    def get_module_info(self, name):
        if name not in self.w.modules:
            raise BESS.Error(_errno.ENOENT, "No module '%s' found" % name)
        return self.w.modules[name]

    def list_modules(self):
        return sorted(self.w.modules)


def _argkey(arg):
    try:
        return "%s/%s>%s" % (arg.get("prefix"), arg.get("prefix_len"), arg.get("gate", ""))
    except Exception:
        return repr(arg)


class World(object):
    """BESS daemon state + kernel view + recorders of one history."""

    def __init__(self, ifs):
        self.ifs = ifs
        self.modules = {}
        self.links = {}
        self.lpm = {}
        self.paused = 0
        self.calls = []
        self.pings = []
        self.neigh = []            # kernel neighbour table: [{"ifindex","dst","lladdr"}]
        for idx, name, managed in ifs:
            if managed:
                # what conf/ports.py creates for every port before route_control.py starts
                self.modules[name + "Routes"] = {"class": "IPLookup", "value": None, "dyn": False}
                self.modules[name + "Merge"] = {"class": "Merge", "value": None, "dyn": False}

    def call(self, *a):
        self.calls.append(list(a))


class _Iface(dict):
    pass


class _Interfaces(object):
    def __init__(self, w):
        self.w = w

    def __getitem__(self, idx):
        for i, name, _ in self.w.ifs:
            if i == idx:
                return _Iface(ifname=name, index=i)
        raise KeyError(idx)


class _Neighbours(object):
    def __init__(self, w):
        self.w = w

    def dump(self):
        return [dict(n) for n in self.w.neigh]


class _TaskManager(object):
    def __init__(self):
        self.handlers = []

    def register_handler(self, kind, fn):
        self.handlers.append((kind, fn))

    def unregister_handler(self, kind, fn):
        self.handlers = [h for h in self.handlers if h != (kind, fn)]


class NDB(object):
    def __init__(self, w=None):
        self.w = w
        self.interfaces = _Interfaces(w)
        self.neighbours = _Neighbours(w)
        self.task_manager = _TaskManager()


class IPRoute(object):
    def __init__(self, w=None):
        self.w = w

    def get_routes(self, family=None):
        return []


def install_stubs():
    def mod(name, **attrs):
        m = types.ModuleType(name)
        m.__dict__.update(attrs)
        sys.modules[name] = m
        return m

    class rtmsg(dict):
        pass

    class ndmsg(dict):
        pass

    p = mod("pyroute2", NDB=NDB, IPRoute=IPRoute)
    p.__path__ = []
    nl = mod("pyroute2.netlink")
    nl.__path__ = []
    rt = mod("pyroute2.netlink.rtnl")
    rt.__path__ = []
    mod("pyroute2.netlink.rtnl.rtmsg", rtmsg=rtmsg)
    mod("pyroute2.netlink.rtnl.ndmsg", ndmsg=ndmsg)
    pb = mod("pybess")
    pb.__path__ = []
    mod("pybess.bess", BESS=BESS, errno=_errno)

    class _Pkt(object):
        def __init__(self, **kw):
            self.kw = kw

        def __truediv__(self, other):
            return self

    def send(pkt, *a, **k):
        if BESS.world is not None:
            BESS.world.pings.append(getattr(pkt, "kw", {}).get("dst"))

    sc = mod("scapy")
    sc.__path__ = []
    mod("scapy.all", ICMP=_Pkt, IP=_Pkt, send=send)


def load_route_control():
    repo = os.environ.get("VERIF_REPO", "/repo")
    path = os.path.join(repo, "conf", "route_control.py")
    install_stubs()
    spec = importlib.util.spec_from_file_location("route_control_under_test", path)
    rc = importlib.util.module_from_spec(spec)
    sys.modules["route_control_under_test"] = rc
    spec.loader.exec_module(rc)
    logging.disable(logging.CRITICAL)
    rc.time = types.SimpleNamespace(sleep=lambda s: None, time=lambda: 0.0)

    def fake_ping(ip):
        BESS.world.pings.append(ip)
    rc.send_ping = fake_ping
    return rc


# --------------------------------------------------------------------------- driver

def snapshot(rc, w, ctl, exc):
    lpm = sorted([m, p, l, g] for m, t in w.lpm.items() for (p, l), g in t.items())
    mods = sorted([n, m["class"], m["value"]] for n, m in w.modules.items() if m["dyn"])
    links = sorted([a, og, b, ig] for (a, og), (b, ig) in w.links.items())
    nc = sorted([k, v.gate_idx, v.mac_address, v.route_count] for k, v in ctl._neighbor_cache.items())
    # pending cache: next hop -> the waiting routes in arrival order (a pre-1b62c73 controller keeps a single route)
    un = sorted([k, [[r.dest_prefix, r.prefix_len, r.next_hop_ip, r.interface]
                     for r in (v if isinstance(v, (list, tuple)) else [v])]]
                for k, v in ctl._unresolved_arp_queries_cache.items())
    gc = sorted([k, v] for k, v in ctl._module_gate_count_cache.items())
    s = {"lpm": lpm, "mods": mods, "links": links, "nc": nc, "un": un, "gc": gc,
         "pings": w.pings, "calls": w.calls}
    if w.paused:
        s["paused"] = w.paused
    if exc:
        s["exc"] = exc
    w.pings = []
    w.calls = []
    return s


def route_msg(kind, dst, plen, nh, oif):
    attrs = [("RTA_TABLE", 254), ("RTA_PRIORITY", 100)]
    if nh is not None:
        attrs.append(("RTA_GATEWAY", nh))
    if oif is not None:
        attrs.append(("RTA_OIF", oif))
    if plen != 0 and dst is not None:
        attrs.append(("RTA_DST", dst))
    return {"family": 2, "dst_len": plen, "src_len": 0, "tos": 0, "table": 254, "proto": 3, "scope": 0,
            "type": 1, "flags": 0, "attrs": attrs,
            "header": {"length": 60, "type": 24 if kind == "RTM_NEWROUTE" else 25, "flags": 1536,
                       "sequence_number": 0, "pid": 0, "target": "localhost",
                       "stats": {"qsize": 0, "delta": 0, "delay": 0}},
            "event": kind}


def run_case(rc, case):
    ifs = [tuple(x) for x in case["ifs"]]
    w = World(ifs)
    BESS.world = w
    bc = rc.BessController("localhost", "10514")
    ndb = NDB(w)
    ctl = rc.RouteController(bess_controller=bc, ndb=ndb, ipr=IPRoute(w),
                             interfaces=[n for _, n, m in ifs if m])
    ctl.register_handlers()
    steps = []
    for ev in case["ev"]:
        exc = None
        try:
            k = ev[0]
            if k in ("NR", "DR"):
                _, dst, plen, nh, oif = ev
                ctl._netlink_route_handler(ndb, route_msg("RTM_NEWROUTE" if k == "NR" else "RTM_DELROUTE",
                                                          dst, plen, nh, oif))
            elif k == "NN":
                nh, mac = ev[1], ev[2]
                ifx = ev[3] if len(ev) > 3 else 0        # the interface the neighbour sits on (the handler ignores it)
                # the kernel has the entry before it announces it
                for n in w.neigh:
                    if n["dst"] == nh:
                        n["lladdr"] = mac
                        n["state"] = 2
                        break
                else:
                    w.neigh.append({"ifindex": ifx, "dst": nh, "lladdr": mac, "state": 2})
                ctl._netlink_neighbor_handler(ndb, {"family": 2, "ifindex": ifx, "state": 2, "flags": 0, "ndm_type": 1,
                                                    "attrs": [("NDA_DST", nh), ("NDA_LLADDR", mac),
                                                              ("NDA_PROBES", 1)],
                                                    "header": {"type": 28, "target": "localhost"},
                                                    "event": "RTM_NEWNEIGH"})
            elif k == "NF":
                # RTM_NEWNEIGH of an INCOMPLETE / FAILED entry (ARP timeout): neigh_fill_info() adds NDA_LLADDR only
                # for NUD_VALID entries, so the message has NDA_DST and NO NDA_LLADDR; the table entry has no lladdr
                nh = ev[1]
                ifx = ev[2] if len(ev) > 2 else 0
                for n in w.neigh:
                    if n["dst"] == nh:
                        n["lladdr"] = None
                        n["state"] = 32
                        break
                else:
                    w.neigh.append({"ifindex": ifx, "dst": nh, "lladdr": None, "state": 32})
                ctl._netlink_neighbor_handler(ndb, {"family": 2, "ifindex": ifx, "state": 32, "flags": 0, "ndm_type": 1,
                                                    "attrs": [("NDA_DST", nh), ("NDA_PROBES", 3),
                                                              ("NDA_CACHEINFO", {"ndm_confirmed": 0, "ndm_used": 0})],
                                                    "header": {"type": 28, "target": "localhost"},
                                                    "event": "RTM_NEWNEIGH"})
            elif k == "DN":
                # RTM_DELNEIGH: the kernel dropped the entry (garbage collection of a FAILED / STALE neighbour)
                nh = ev[1]
                ifx = ev[2] if len(ev) > 2 else 0
                w.neigh[:] = [n for n in w.neigh if n["dst"] != nh]
                ctl._netlink_neighbor_handler(ndb, {"family": 2, "ifindex": ifx, "state": 32, "flags": 0, "ndm_type": 1,
                                                    "attrs": [("NDA_DST", nh)],
                                                    "header": {"type": 29, "target": "localhost"},
                                                    "event": "RTM_DELNEIGH"})
            elif k == "RAW":         # any other netlink-shaped message for the route handler
                ctl._netlink_route_handler(ndb, ev[1])
            else:
                raise ValueError("unknown event " + repr(ev))
        except BaseException as e:      # noqa: an escaping exception is an observation
            exc = "%s: %s" % (type(e).__name__, e)
        steps.append(snapshot(rc, w, ctl, exc))
    return {"steps": steps}


def main():
    fin, fout = sys.argv[1], sys.argv[2]
    try:
        rc = load_route_control()
    except BaseException as e:
        sys.stderr.write("cannot import route_control.py: %s: %s\n" % (type(e).__name__, e))
        sys.exit(3)
    with open(fin) as f, open(fout, "w") as g:
        for line in f:
            line = line.strip()
            if not line:
                continue
            case = json.loads(line)
            try:
                out = run_case(rc, case)
            except BaseException as e:
                out = {"error": "%s: %s" % (type(e).__name__, e)}
            g.write(json.dumps(out, separators=(",", ":")) + "\n")


if __name__ == "__main__":
    main()
