// Lock-table extractor for property C11 (tie T1).
//
// Purely syntactic (go/parser + go/ast, no type checker): parses every non-test file of
// $VERIF_REPO/pfcpiface and produces, for every function, the accesses to fields of the objects that
// are shared between goroutines (UP4, bess, IPPool, FTEIDGenerator, InMemoryStore, PFCPNode, upf and the
// small structs hanging off UP4), whether the access reads or writes, and which mutexes are held at that
// point:
//
//   - `x.mu.Lock()` ... `x.mu.Unlock()` regions and `defer x.mu.Unlock()` (held to the end of the body);
//   - locks held by *every* caller at *every* call site are inherited by the callee (intersection over the
//     package's call graph; calls through an interface or an unresolved receiver go to every method of
//     that name);
//   - RLock holds the mutex in shared mode: it counts for the reads in the region, not for writes;
//   - a field whose type synchronises internally (sync.Map, sync/atomic values, a golang-set built by the
//     thread-safe constructors) is accessed under the pseudo lock "self:<Struct>.<field>"; the pseudo lock
//     disappears when the field is ever assigned set.NewThreadUnsafeSet*.
//
// Every function also gets the set of goroutine classes that may execute it (reachability from the roots
// listed in rootClasses; `go` statements start a class of their own) and a phase: "init" (only reachable
// from start-up code, which happens-before every association), "reinit" (only reachable through the
// re-initialisation that UP4.tryConnect performs when the datapath connection was lost) or "run".
//
// Output: one JSON object on stdout {"rows": [...], "coq": "<text of coq/Gen/Locks_gen.v>", ...}.
package main

import (
	"encoding/json"
	"fmt"
	"go/ast"
	"go/parser"
	"go/token"
	"os"
	"path/filepath"
	"sort"
	"strings"
)

// ---------------------------------------------------------------------------------- configuration

var sharedTypes = map[string]bool{
	"UP4": true, "bess": true, "IPPool": true, "FTEIDGenerator": true, "InMemoryStore": true,
	"PFCPNode": true, "upf": true, "counter": true, "tunnelPeer": true, "internalApp": true,
}

// files the property is anchored in (rows of other files are kept but flagged anchored=false)
var anchoredFiles = map[string]bool{
	"up4.go": true, "bess.go": true, "ip_pool.go": true, "fteid.go": true, "local_store.go": true,
	"conn.go": true, "node.go": true, "sessions.go": true, "notifier.go": true,
}

type class struct {
	Name  string `json:"name"`
	Multi bool   `json:"multi"` // several goroutines of this class may exist at the same time
}

// goroutine roots: which function starts (or is the body of) which class of goroutine
var rootClasses = map[string]class{
	// one reader goroutine + one select loop per association; heartbeat monitor per association
	"PFCPConn.Serve":                  {"assoc", true},
	"PFCPConn.Serve$go1":              {"assoc", true},
	"PFCPConn.HandlePFCPMsg":          {"assoc", true},
	"PFCPConn.Shutdown":               {"assoc", true},
	"PFCPConn.startHeartBeatMonitor":  {"assoc", true},
	"PFCPConn.sendAssociationRequest": {"assoc", true},
	// the node: listener (first datagram of a peer is handled here), report / completion loop
	"PFCPNode.handleNewPeers": {"listener", false},
	"PFCPNode.Serve":          {"node", false},
	"PFCPIface.Stop":          {"stop", false},
	// datapath background goroutines
	"UP4.keepTryingToConnect": {"up4-connect", false},
	"UP4.listenToDDNs":        {"up4-ddn", false},
	"UP4.endMarkerSendLoop":   {"up4-endmarker", false},
	"bess.endMarkerSendLoop":  {"bess-endmarker", false},
	"bess.notifyListen":       {"bess-notify", false},
	// HTTP: slice configuration and prometheus scrapes
	"ConfigHandler.ServeHTTP":    {"http", true},
	"upfCollector.Collect":       {"metrics", true},
	"PfcpNodeCollector.Collect":  {"metrics", true},
	"upfCollector.Describe":      {"metrics", true},
	"PfcpNodeCollector.Describe": {"metrics", true},
	// start-up: happens before any association goroutine exists
	"init":               {"init", false},
	"NewPFCPIface":       {"init", false},
	"PFCPIface.mustInit": {"init", false},
	"PFCPIface.Run":      {"init", false},
	"NewUPF":             {"init", false},
	"NewPFCPNode":        {"init", false},
	"NewIPPool":          {"init", false},
	"NewFTEIDGenerator":  {"init", false},
	"setupProm":          {"init", false},
	"setupConfigHandler": {"init", false},
	"UP4.SetUpfInfo":     {"init", false},
	"bess.SetUpfInfo":    {"init", false},
	"upf.sim":            {"init", false},
	"LoadConfigFile":     {"init", false},
}

// functions that only run when UP4.tryConnect found the datapath disconnected
var reinitEntries = map[string]bool{"UP4.setupChannel": true, "UP4.initialize": true}

// calls that write to the datapath
var dpWriters = map[string]bool{"P4rtClient.ApplyTableEntries": true, "P4rtClient.ApplyMeterEntries": true, "P4rtClient.WriteBatchReq": true,
	"P4rtClient.WriteReq": true, "P4rtClient.ClearTables": true}

// atomicSpec: a function that the C11 argument treats as ONE atomic step on a shared object: every access of the
// guarded fields made by the function and its (exactly resolved) callees has to lie in one and the same acquisition of the
// lock; NeedDP: the datapath write that belongs to the step has to lie in that acquisition too.
type atomicSpec struct {
	Func   string
	Lock   string
	Fields []string
}

var peerFields = []string{"UP4.tunnelPeerIDs", "UP4.tunnelPeerIDsPool", "tunnelPeer.usedBy"}
var appFields = []string{"UP4.applicationIDs", "UP4.applicationIDsPool", "internalApp.usedBy"}
var atomicSpecs = []atomicSpec{
	{"UP4.addOrUpdateGTPTunnelPeer", "UP4.tunnelPeerMu", peerFields},
	{"UP4.removeGTPTunnelPeer", "UP4.tunnelPeerMu", peerFields},
	{"UP4.getGTPTunnelPeer", "UP4.tunnelPeerMu", peerFields},
	{"UP4.addInternalApplicationIDAndGetP4rtEntry", "UP4.applicationMu", appFields},
	{"UP4.removeInternalApplicationIDAndGetP4rtEntry", "UP4.applicationMu", appFields},
	{"UP4.updateUEAddrAndFSEIDMappings", "UP4.sessionStateMu", []string{"UP4.ueAddrToFSEID", "UP4.fseidToUEAddr"}},
	{"UP4.removeUeAddrAndFSEIDMappings", "UP4.sessionStateMu", []string{"UP4.ueAddrToFSEID", "UP4.fseidToUEAddr"}},
	{"IPPool.LookupOrAllocIP", "IPPool.mu", []string{"IPPool.freePool", "IPPool.inventory"}},
	{"IPPool.DeallocIP", "IPPool.mu", []string{"IPPool.freePool", "IPPool.inventory"}},
	{"FTEIDGenerator.Allocate", "FTEIDGenerator.lock", []string{"FTEIDGenerator.offset", "FTEIDGenerator.usedMap"}},
	{"FTEIDGenerator.FreeID", "FTEIDGenerator.lock", []string{"FTEIDGenerator.offset", "FTEIDGenerator.usedMap"}},
	{"FTEIDGenerator.IsAllocated", "FTEIDGenerator.lock", []string{"FTEIDGenerator.offset", "FTEIDGenerator.usedMap"}},
}

type atomicRow struct {
	Func     string   `json:"func"`
	Lock     string   `json:"lock"`
	Found    bool     `json:"found"`
	Accesses int      `json:"accesses"`
	Regions  []string `json:"regions"` // distinct acquisitions (or "none") under which the guarded fields are touched
	Covered  bool     `json:"covered"`
	DPCalls  int      `json:"dp_calls"`
	DPInside bool     `json:"dp_inside"`
}

var safeSetCtors = map[string]bool{"NewSet": true, "NewSetWith": true, "NewSetFromSlice": true}
var unsafeSetCtors = map[string]bool{"NewThreadUnsafeSet": true, "NewThreadUnsafeSetFromSlice": true}

// not dispatched by name (formatting helpers; every implementation is either lock-protected or reads immutable data)
var stringerNames = map[string]bool{"String": true, "Error": true}

var setWriters = map[string]bool{"Add": true, "Remove": true, "Pop": true, "Clear": true}
var atomicWriters = map[string]bool{"Add": true, "Store": true, "Swap": true, "CompareAndSwap": true, "And": true, "Or": true}
var syncMapWriters = map[string]bool{"Store": true, "Delete": true, "LoadOrStore": true, "LoadAndDelete": true,
	"Swap": true, "CompareAndSwap": true, "CompareAndDelete": true, "Clear": true}

// ---------------------------------------------------------------------------------- data

type structInfo struct {
	name     string
	fields   map[string]ast.Expr
	embedded []ast.Expr
}

type funcInfo struct {
	key      string
	recvName string
	recvType string
	params   map[string]ast.Expr
	results  []ast.Expr
	body     *ast.BlockStmt
	file     string
	line     int
}

type row struct {
	Field    string            `json:"field"`
	Func     string            `json:"func"`
	RW       string            `json:"rw"`
	Locks    []string          `json:"locks"`
	File     string            `json:"file"`
	Line     int               `json:"line"`
	Classes  []class           `json:"classes"`
	Phase    string            `json:"phase"`
	Anchored bool              `json:"anchored"`
	Regions  map[string]string `json:"-"`
}

type edge struct {
	From    string            `json:"from"`
	To      string            `json:"to"`
	Held    []string          `json:"held"`
	Spawn   bool              `json:"spawn,omitempty"`
	Line    int               `json:"line"`
	Exact   bool              `json:"exact,omitempty"` // callee resolved by type, not by method name
	Regions map[string]string `json:"-"`
}

// dpCall: a call that writes to the datapath (P4Runtime Write / BESS ModuleCommand)
type dpCall struct {
	Func    string
	Line    int
	Regions map[string]string
}

type analyzer struct {
	fset      *token.FileSet
	structs   map[string]*structInfo
	funcs     map[string]*funcInfo
	byMethod  map[string][]string // method name -> function keys
	globals   map[string]ast.Expr
	imports   map[string]bool
	rows      []row
	edges     []edge
	unsafe    map[string]bool // "Struct.field" assigned a thread-unsafe set somewhere
	setField  map[string]bool // fields of type set.Set
	notes     []string
	dpcalls   []dpCall
	exactNext bool
	nregion   int
}

type state struct {
	fn     string
	file   string
	held   []string
	region map[string]string // held lock -> id of the Lock() call that took it (one id per acquisition)
	env    map[string]ast.Expr
	ngo    *int
}

func copyRegions(m map[string]string, held []string) map[string]string {
	out := map[string]string{}
	for _, h := range held {
		if r, ok := m[h]; ok {
			out[h] = r
		}
	}
	return out
}

func (s *state) fork() *state {
	env := make(map[string]ast.Expr, len(s.env))
	for k, v := range s.env {
		env[k] = v
	}
	return &state{fn: s.fn, file: s.file, held: append([]string{}, s.held...), region: copyRegions(s.region, s.held), env: env, ngo: s.ngo}
}

func has(l []string, x string) bool {
	for _, y := range l {
		if x == y {
			return true
		}
	}
	return false
}

func inter(a, b []string) []string {
	out := []string{}
	for _, x := range a {
		if has(b, x) {
			out = append(out, x)
		}
	}
	return out
}

func union(a, b []string) []string {
	out := append([]string{}, a...)
	for _, x := range b {
		if !has(out, x) {
			out = append(out, x)
		}
	}
	return out
}

// ---------------------------------------------------------------------------------- type expressions

func typeString(e ast.Expr) string {
	switch t := e.(type) {
	case nil:
		return ""
	case *ast.Ident:
		return t.Name
	case *ast.StarExpr:
		return typeString(t.X)
	case *ast.ParenExpr:
		return typeString(t.X)
	case *ast.SelectorExpr:
		if id, ok := t.X.(*ast.Ident); ok {
			return id.Name + "." + t.Sel.Name
		}
	}
	return ""
}

func elemType(e ast.Expr) ast.Expr {
	switch t := e.(type) {
	case *ast.ArrayType:
		return t.Elt
	case *ast.MapType:
		return t.Value
	case *ast.ChanType:
		return t.Value
	case *ast.StarExpr:
		return elemType(t.X)
	case *ast.ParenExpr:
		return elemType(t.X)
	case *ast.Ellipsis:
		return t.Elt
	}
	return nil
}

// findField returns the struct that declares field `name` when selected on struct `sname` (promotion through
// embedded structs) and the field's type.
func (a *analyzer) findField(sname, name string, depth int) (string, ast.Expr) {
	s, ok := a.structs[sname]
	if !ok || depth > 4 {
		return "", nil
	}
	if t, ok := s.fields[name]; ok {
		return sname, t
	}
	for _, e := range s.embedded {
		if o, t := a.findField(typeString(e), name, depth+1); o != "" {
			return o, t
		}
	}
	return "", nil
}

func (a *analyzer) findMethod(sname, name string, depth int) string {
	if depth > 4 {
		return ""
	}
	if _, ok := a.funcs[sname+"."+name]; ok {
		return sname + "." + name
	}
	if s, ok := a.structs[sname]; ok {
		for _, e := range s.embedded {
			if k := a.findMethod(typeString(e), name, depth+1); k != "" {
				return k
			}
		}
	}
	return ""
}

func (a *analyzer) typeOf(e ast.Expr, st *state) ast.Expr {
	switch x := e.(type) {
	case *ast.Ident:
		if t, ok := st.env[x.Name]; ok {
			return t
		}
		if t, ok := a.globals[x.Name]; ok {
			return t
		}
	case *ast.ParenExpr:
		return a.typeOf(x.X, st)
	case *ast.StarExpr:
		return a.typeOf(x.X, st)
	case *ast.UnaryExpr:
		if x.Op == token.ARROW {
			return elemType(a.typeOf(x.X, st))
		}
		return a.typeOf(x.X, st)
	case *ast.SelectorExpr:
		if id, ok := x.X.(*ast.Ident); ok {
			if _, local := st.env[id.Name]; !local && a.imports[id.Name] {
				return nil
			}
		}
		if _, t := a.findField(typeString(a.typeOf(x.X, st)), x.Sel.Name, 0); t != nil {
			return t
		}
	case *ast.IndexExpr:
		return elemType(a.typeOf(x.X, st))
	case *ast.SliceExpr:
		return a.typeOf(x.X, st)
	case *ast.CompositeLit:
		return x.Type
	case *ast.TypeAssertExpr:
		return x.Type
	case *ast.CallExpr:
		rs := a.callResults(x, st)
		if len(rs) > 0 {
			return rs[0]
		}
	}
	return nil
}

func (a *analyzer) callResults(c *ast.CallExpr, st *state) []ast.Expr {
	switch f := c.Fun.(type) {
	case *ast.Ident:
		switch f.Name {
		case "make", "new":
			if len(c.Args) > 0 {
				return []ast.Expr{c.Args[0]}
			}
		case "append":
			if len(c.Args) > 0 {
				return []ast.Expr{a.typeOf(c.Args[0], st)}
			}
		}
		if fi, ok := a.funcs[f.Name]; ok {
			return fi.results
		}
		if _, ok := a.structs[f.Name]; ok { // conversion
			return []ast.Expr{f}
		}
	case *ast.SelectorExpr:
		if id, ok := f.X.(*ast.Ident); ok {
			if _, local := st.env[id.Name]; !local && a.imports[id.Name] {
				if id.Name == "set" && (safeSetCtors[f.Sel.Name] || unsafeSetCtors[f.Sel.Name]) {
					return []ast.Expr{&ast.SelectorExpr{X: ast.NewIdent("set"), Sel: ast.NewIdent("Set")}}
				}
				return nil
			}
		}
		if k := a.findMethod(typeString(a.typeOf(f.X, st)), f.Sel.Name, 0); k != "" {
			return a.funcs[k].results
		}
	}
	return nil
}

// fieldKey: "Struct.field" if e selects a declared struct field
func (a *analyzer) fieldKey(e ast.Expr, st *state) (string, ast.Expr) {
	sel, ok := e.(*ast.SelectorExpr)
	if !ok {
		if p, ok := e.(*ast.ParenExpr); ok {
			return a.fieldKey(p.X, st)
		}
		return "", nil
	}
	if id, ok := sel.X.(*ast.Ident); ok {
		if _, local := st.env[id.Name]; !local && a.imports[id.Name] {
			return "", nil
		}
	}
	owner, t := a.findField(typeString(a.typeOf(sel.X, st)), sel.Sel.Name, 0)
	if owner == "" {
		return "", nil
	}
	return owner + "." + sel.Sel.Name, t
}

func isSyncPrim(t string) bool {
	switch t {
	case "sync.Mutex", "sync.RWMutex", "sync.Once", "sync.WaitGroup":
		return true
	}
	return false
}

// ---------------------------------------------------------------------------------- recording

func (a *analyzer) record(key string, ftype ast.Expr, rw string, extraLock string, pos token.Pos, st *state) {
	owner := key[:strings.Index(key, ".")]
	if !sharedTypes[owner] && owner != "global" {
		return
	}
	if isSyncPrim(typeString(ftype)) {
		return
	}
	locks := append([]string{}, st.held...)
	if extraLock != "" && !has(locks, extraLock) {
		locks = append(locks, extraLock)
	}
	p := a.fset.Position(pos)
	a.rows = append(a.rows, row{Field: key, Func: st.fn, RW: rw, Locks: locks, File: filepath.Base(p.Filename), Line: p.Line,
		Regions: copyRegions(st.region, st.held)})
}

func (a *analyzer) recordSel(e ast.Expr, rw string, st *state) {
	if key, t := a.fieldKey(e, st); key != "" {
		a.record(key, t, rw, "", e.Pos(), st)
		return
	}
	// package-level variable
	if id, ok := e.(*ast.Ident); ok {
		if _, local := st.env[id.Name]; !local {
			if t, ok := a.globals[id.Name]; ok {
				a.record("global."+id.Name, t, rw, "", e.Pos(), st)
			}
		}
	}
}

func (a *analyzer) addEdge(to string, spawn bool, pos token.Pos, st *state) {
	a.edges = append(a.edges, edge{From: st.fn, To: to, Held: append([]string{}, st.held...), Spawn: spawn, Line: a.fset.Position(pos).Line,
		Exact: a.exactNext, Regions: copyRegions(st.region, st.held)})
	if dpWriters[to] {
		a.dpcalls = append(a.dpcalls, dpCall{Func: st.fn, Line: a.fset.Position(pos).Line, Regions: copyRegions(st.region, st.held)})
	}
}

// ---------------------------------------------------------------------------------- expressions

func (a *analyzer) lhs(e ast.Expr, st *state) {
	switch x := e.(type) {
	case *ast.Ident:
		a.recordSel(x, "W", st)
	case *ast.ParenExpr:
		a.lhs(x.X, st)
	case *ast.SelectorExpr:
		a.expr(x.X, st)
		a.recordSel(x, "W", st)
	case *ast.IndexExpr:
		a.expr(x.Index, st)
		a.container(x.X, st)
	case *ast.StarExpr:
		a.expr(x.X, st)
	}
}

// container: the content of e (a map, slice or array) is modified
func (a *analyzer) container(e ast.Expr, st *state) {
	switch x := e.(type) {
	case *ast.Ident:
		a.recordSel(x, "W", st)
	case *ast.ParenExpr:
		a.container(x.X, st)
	case *ast.SelectorExpr:
		a.expr(x.X, st)
		a.recordSel(x, "W", st)
	case *ast.IndexExpr:
		a.expr(x.Index, st)
		a.container(x.X, st)
	case *ast.SliceExpr:
		a.container(x.X, st)
	default:
		a.expr(e, st)
	}
}

func (a *analyzer) funcLit(f *ast.FuncLit, st *state) {
	// a closure that is not started as a goroutine runs (if at all) inside this function: analyse it in place
	in := st.fork()
	a.bindFieldList(f.Type.Params, in)
	a.block(f.Body, in)
}

func (a *analyzer) bindFieldList(fl *ast.FieldList, st *state) {
	if fl == nil {
		return
	}
	for _, f := range fl.List {
		for _, n := range f.Names {
			st.env[n.Name] = f.Type
		}
	}
}

func (a *analyzer) lockName(x ast.Expr, st *state) string {
	if key, _ := a.fieldKey(x, st); key != "" {
		return key
	}
	if id, ok := x.(*ast.Ident); ok {
		return "var:" + id.Name
	}
	return "lock:?"
}

func (a *analyzer) call(c *ast.CallExpr, st *state, deferred bool) {
	switch f := c.Fun.(type) {
	case *ast.Ident:
		switch f.Name {
		case "delete":
			if len(c.Args) == 2 {
				a.container(c.Args[0], st)
				a.expr(c.Args[1], st)
				return
			}
		case "copy":
			if len(c.Args) == 2 {
				a.container(c.Args[0], st)
				a.expr(c.Args[1], st)
				return
			}
		}
		if _, ok := a.funcs[f.Name]; ok {
			if _, local := st.env[f.Name]; !local {
				a.exactNext = true
				a.addEdge(f.Name, false, c.Pos(), st)
				a.exactNext = false
			}
		}
	case *ast.FuncLit:
		a.funcLit(f, st)
	case *ast.SelectorExpr:
		isPkg := false
		if id, ok := f.X.(*ast.Ident); ok {
			if _, local := st.env[id.Name]; !local && a.imports[id.Name] {
				isPkg = true
			}
		}
		if !isPkg {
			rt := typeString(a.typeOf(f.X, st))
			switch {
			case rt == "sync.Mutex" || rt == "sync.RWMutex":
				name := a.lockName(f.X, st)
				if f.Sel.Name == "RLock" || f.Sel.Name == "RUnlock" {
					name += "#r" // held in shared mode: protects reads only (see the normalisation of the rows)
				}
				switch f.Sel.Name {
				case "Lock", "RLock":
					if !has(st.held, name) {
						st.held = append(st.held, name)
					}
					if st.region == nil {
						st.region = map[string]string{}
					}
					a.nregion++
					st.region[name] = fmt.Sprintf("%s#%d", st.fn, a.nregion)
				case "Unlock", "RUnlock":
					if !deferred {
						out := []string{}
						for _, h := range st.held {
							if h != name {
								out = append(out, h)
							}
						}
						st.held = out
					}
				}
				return
			case rt == "sync.Once" || rt == "sync.WaitGroup":
				// Do(f): the closure is analysed in place below
			case rt == "sync.Map" || rt == "set.Set" || strings.HasPrefix(rt, "atomic."):
				if key, t := a.fieldKey(f.X, st); key != "" {
					rw := "R"
					pseudo := "self:" + key
					if rt == "sync.Map" && syncMapWriters[f.Sel.Name] {
						rw = "W"
					}
					if strings.HasPrefix(rt, "atomic.") && atomicWriters[f.Sel.Name] {
						rw = "W"
					}
					if rt == "set.Set" {
						if setWriters[f.Sel.Name] {
							rw = "W"
						}
						a.setField[key] = true
					}
					if sel, ok := f.X.(*ast.SelectorExpr); ok {
						a.expr(sel.X, st)
					}
					a.record(key, t, rw, pseudo, f.X.Pos(), st)
					for _, arg := range c.Args {
						a.expr(arg, st)
					}
					return
				}
			default:
				if k := a.findMethod(rt, f.Sel.Name, 0); k != "" {
					a.exactNext = true
					a.addEdge(k, false, c.Pos(), st)
					a.exactNext = false
				} else if key, _ := a.fieldKey(f, st); key == "" && !stringerNames[f.Sel.Name] {
					// interface value (possibly an embedded one, as upf.datapath), or unresolved receiver:
					// every method of that name in the package may be the target
					for _, k := range a.byMethod[f.Sel.Name] {
						a.addEdge(k, false, c.Pos(), st)
					}
				}
			}
			a.expr(f.X, st)
		}
	default:
		a.expr(c.Fun, st)
	}
	for _, arg := range c.Args {
		a.expr(arg, st)
	}
}

func (a *analyzer) expr(e ast.Expr, st *state) {
	switch x := e.(type) {
	case nil:
	case *ast.Ident:
		a.recordSel(x, "R", st)
	case *ast.SelectorExpr:
		if id, ok := x.X.(*ast.Ident); ok {
			if _, local := st.env[id.Name]; !local && a.imports[id.Name] {
				return
			}
		}
		if key, _ := a.fieldKey(x, st); key != "" {
			a.recordSel(x, "R", st)
		} else if k := a.findMethod(typeString(a.typeOf(x.X, st)), x.Sel.Name, 0); k != "" {
			// method value (e.g. once.Do(pConn.doShutdown)): it may be called from here
			a.exactNext = true
			a.addEdge(k, false, x.Pos(), st)
			a.exactNext = false
		}
		a.expr(x.X, st)
	case *ast.CallExpr:
		a.call(x, st, false)
	case *ast.FuncLit:
		a.funcLit(x, st)
	case *ast.ParenExpr:
		a.expr(x.X, st)
	case *ast.StarExpr:
		a.expr(x.X, st)
	case *ast.UnaryExpr:
		a.expr(x.X, st)
	case *ast.BinaryExpr:
		a.expr(x.X, st)
		a.expr(x.Y, st)
	case *ast.IndexExpr:
		a.expr(x.X, st)
		a.expr(x.Index, st)
	case *ast.SliceExpr:
		a.expr(x.X, st)
		a.expr(x.Low, st)
		a.expr(x.High, st)
		a.expr(x.Max, st)
	case *ast.TypeAssertExpr:
		a.expr(x.X, st)
	case *ast.KeyValueExpr:
		a.expr(x.Value, st)
	case *ast.CompositeLit:
		for _, el := range x.Elts {
			a.expr(el, st)
		}
	}
}

// ---------------------------------------------------------------------------------- statements

func terminates(b *ast.BlockStmt) bool {
	if b == nil || len(b.List) == 0 {
		return false
	}
	switch s := b.List[len(b.List)-1].(type) {
	case *ast.ReturnStmt, *ast.BranchStmt:
		return true
	case *ast.ExprStmt:
		if c, ok := s.X.(*ast.CallExpr); ok {
			if id, ok := c.Fun.(*ast.Ident); ok && id.Name == "panic" {
				return true
			}
		}
	}
	return false
}

func (a *analyzer) block(b *ast.BlockStmt, st *state) {
	if b == nil {
		return
	}
	for _, s := range b.List {
		a.stmt(s, st)
	}
}

// branch analyses a nested body on a copy of the state and merges the lock set back (intersection)
func (a *analyzer) branch(body *ast.BlockStmt, st *state, outs *[][]string) {
	in := st.fork()
	a.block(body, in)
	for k, v := range in.env {
		if _, ok := st.env[k]; !ok {
			_ = v
		}
	}
	if !terminates(body) {
		*outs = append(*outs, in.held)
	}
}

func (a *analyzer) merge(st *state, outs [][]string, fallthroughPossible bool) {
	held := st.held
	if !fallthroughPossible && len(outs) > 0 {
		held = outs[0]
	}
	for _, o := range outs {
		held = inter(held, o)
	}
	st.held = held
}

func (a *analyzer) assign(s *ast.AssignStmt, st *state) {
	for _, r := range s.Rhs {
		a.expr(r, st)
	}
	if s.Tok == token.DEFINE {
		// bind the types of the new variables
		if len(s.Rhs) == 1 && len(s.Lhs) > 1 {
			var ts []ast.Expr
			switch r := s.Rhs[0].(type) {
			case *ast.CallExpr:
				ts = a.callResults(r, st)
			case *ast.IndexExpr, *ast.TypeAssertExpr, *ast.UnaryExpr:
				ts = []ast.Expr{a.typeOf(r, st)}
			}
			for i, l := range s.Lhs {
				if id, ok := l.(*ast.Ident); ok && id.Name != "_" {
					if i < len(ts) && ts[i] != nil {
						st.env[id.Name] = ts[i]
					} else {
						st.env[id.Name] = nil
					}
				}
			}
		} else {
			for i, l := range s.Lhs {
				if id, ok := l.(*ast.Ident); ok && id.Name != "_" && i < len(s.Rhs) {
					st.env[id.Name] = a.typeOf(s.Rhs[i], st)
				}
			}
		}
		return
	}
	for i, l := range s.Lhs {
		a.lhs(l, st)
		if s.Tok != token.ASSIGN { // x.f += v also reads
			a.expr(l, st)
		}
		// thread-unsafe set assigned to a field?
		if i < len(s.Rhs) {
			if c, ok := s.Rhs[i].(*ast.CallExpr); ok {
				if sel, ok := c.Fun.(*ast.SelectorExpr); ok {
					if id, ok := sel.X.(*ast.Ident); ok && id.Name == "set" && unsafeSetCtors[sel.Sel.Name] {
						if key, _ := a.fieldKey(l, st); key != "" {
							a.unsafe[key] = true
						}
					}
				}
			}
		}
	}
}

func (a *analyzer) stmt(s ast.Stmt, st *state) {
	switch x := s.(type) {
	case nil:
	case *ast.BlockStmt:
		a.block(x, st)
	case *ast.ExprStmt:
		a.expr(x.X, st)
	case *ast.AssignStmt:
		a.assign(x, st)
	case *ast.IncDecStmt:
		a.lhs(x.X, st)
		a.expr(x.X, st)
	case *ast.SendStmt:
		a.expr(x.Chan, st)
		a.expr(x.Value, st)
	case *ast.DeclStmt:
		if gd, ok := x.Decl.(*ast.GenDecl); ok {
			for _, sp := range gd.Specs {
				if vs, ok := sp.(*ast.ValueSpec); ok {
					for _, v := range vs.Values {
						a.expr(v, st)
					}
					for i, n := range vs.Names {
						if vs.Type != nil {
							st.env[n.Name] = vs.Type
						} else if i < len(vs.Values) {
							st.env[n.Name] = a.typeOf(vs.Values[i], st)
						} else {
							st.env[n.Name] = nil
						}
					}
				}
			}
		}
	case *ast.ReturnStmt:
		for _, r := range x.Results {
			a.expr(r, st)
		}
	case *ast.LabeledStmt:
		a.stmt(x.Stmt, st)
	case *ast.IfStmt:
		a.stmt(x.Init, st)
		a.expr(x.Cond, st)
		outs := [][]string{}
		a.branch(x.Body, st, &outs)
		fall := true
		switch e := x.Else.(type) {
		case *ast.BlockStmt:
			a.branch(e, st, &outs)
			fall = false
		case *ast.IfStmt:
			in := st.fork()
			a.stmt(e, in)
			outs = append(outs, in.held)
			fall = false
		}
		a.merge(st, outs, fall)
	case *ast.ForStmt:
		a.stmt(x.Init, st)
		a.expr(x.Cond, st)
		outs := [][]string{}
		in := st.fork()
		a.block(x.Body, in)
		a.stmt(x.Post, in)
		outs = append(outs, in.held)
		for k, v := range in.env {
			if _, ok := st.env[k]; !ok {
				_ = v
			}
		}
		a.merge(st, outs, true)
	case *ast.RangeStmt:
		a.expr(x.X, st)
		in := st.fork()
		t := a.typeOf(x.X, st)
		if x.Tok == token.DEFINE {
			if id, ok := x.Key.(*ast.Ident); ok && id.Name != "_" {
				in.env[id.Name] = nil
				if m, ok := t.(*ast.MapType); ok {
					in.env[id.Name] = m.Key
				}
				if c, ok := t.(*ast.ChanType); ok {
					in.env[id.Name] = c.Value
				}
			}
			if id, ok := x.Value.(*ast.Ident); ok && id.Name != "_" {
				in.env[id.Name] = elemType(t)
			}
		} else {
			if x.Key != nil {
				a.lhs(x.Key, st)
			}
			if x.Value != nil {
				a.lhs(x.Value, st)
			}
		}
		a.block(x.Body, in)
		a.merge(st, [][]string{in.held}, true)
	case *ast.SwitchStmt:
		a.stmt(x.Init, st)
		a.expr(x.Tag, st)
		outs := [][]string{}
		hasDefault := false
		for _, c := range x.Body.List {
			cc := c.(*ast.CaseClause)
			if cc.List == nil {
				hasDefault = true
			}
			for _, e := range cc.List {
				a.expr(e, st)
			}
			a.branch(&ast.BlockStmt{List: cc.Body}, st, &outs)
		}
		a.merge(st, outs, !hasDefault)
	case *ast.TypeSwitchStmt:
		a.stmt(x.Init, st)
		a.stmt(x.Assign, st)
		outs := [][]string{}
		for _, c := range x.Body.List {
			cc := c.(*ast.CaseClause)
			a.branch(&ast.BlockStmt{List: cc.Body}, st, &outs)
		}
		a.merge(st, outs, true)
	case *ast.SelectStmt:
		outs := [][]string{}
		for _, c := range x.Body.List {
			cc := c.(*ast.CommClause)
			in := st.fork()
			a.stmt(cc.Comm, in)
			a.block(&ast.BlockStmt{List: cc.Body}, in)
			if !terminates(&ast.BlockStmt{List: cc.Body}) {
				outs = append(outs, in.held)
			}
		}
		a.merge(st, outs, true)
	case *ast.DeferStmt:
		a.call(x.Call, st, true)
	case *ast.GoStmt:
		a.goStmt(x, st)
	}
}

func (a *analyzer) goStmt(g *ast.GoStmt, st *state) {
	for _, arg := range g.Call.Args {
		a.expr(arg, st)
	}
	switch f := g.Call.Fun.(type) {
	case *ast.FuncLit:
		*st.ngo++
		key := fmt.Sprintf("%s$go%d", st.fn, *st.ngo)
		a.addEdge(key, true, g.Pos(), st)
		in := st.fork()
		in.fn = key
		in.held = nil
		n := 0
		in.ngo = &n
		a.bindFieldList(f.Type.Params, in)
		p := a.fset.Position(g.Pos())
		a.funcs[key] = &funcInfo{key: key, file: filepath.Base(p.Filename), line: p.Line}
		a.block(f.Body, in)
	case *ast.Ident:
		if _, ok := a.funcs[f.Name]; ok {
			a.addEdge(f.Name, true, g.Pos(), st)
		}
	case *ast.SelectorExpr:
		a.expr(f.X, st)
		rt := typeString(a.typeOf(f.X, st))
		if k := a.findMethod(rt, f.Sel.Name, 0); k != "" {
			a.addEdge(k, true, g.Pos(), st)
		} else {
			for _, k := range a.byMethod[f.Sel.Name] {
				a.addEdge(k, true, g.Pos(), st)
			}
		}
	}
}

// ---------------------------------------------------------------------------------- driver

func fail(msg string) {
	_ = json.NewEncoder(os.Stdout).Encode(map[string]interface{}{"error": msg})
	os.Exit(0)
}

func main() {
	repo := os.Getenv("VERIF_REPO")
	if repo == "" {
		repo = "/repo"
	}
	dir := filepath.Join(repo, "pfcpiface")
	ents, err := os.ReadDir(dir)
	if err != nil {
		fail("cannot read " + dir + ": " + err.Error())
	}
	a := &analyzer{fset: token.NewFileSet(), structs: map[string]*structInfo{}, funcs: map[string]*funcInfo{},
		byMethod: map[string][]string{}, globals: map[string]ast.Expr{}, imports: map[string]bool{},
		unsafe: map[string]bool{}, setField: map[string]bool{}}
	files := []*ast.File{}
	names := []string{}
	for _, e := range ents {
		n := e.Name()
		if e.IsDir() || !strings.HasSuffix(n, ".go") || strings.HasSuffix(n, "_test.go") {
			continue
		}
		f, err := parser.ParseFile(a.fset, filepath.Join(dir, n), nil, 0)
		if err != nil {
			fail("cannot parse " + n + ": " + err.Error())
		}
		files = append(files, f)
		names = append(names, n)
	}
	missing := []string{}
	for n := range anchoredFiles {
		found := false
		for _, m := range names {
			if m == n {
				found = true
			}
		}
		if !found {
			missing = append(missing, n)
		}
	}
	if len(missing) > 0 {
		sort.Strings(missing)
		fail("anchored files missing: " + strings.Join(missing, ", "))
	}

	// pass 1: declarations
	for i, f := range files {
		for _, im := range f.Imports {
			p := strings.Trim(im.Path.Value, `"`)
			n := p[strings.LastIndex(p, "/")+1:]
			if im.Name != nil {
				n = im.Name.Name
			}
			if n == "golang-set" {
				n = "set"
			}
			a.imports[n] = true
		}
		for _, d := range f.Decls {
			switch x := d.(type) {
			case *ast.GenDecl:
				for _, sp := range x.Specs {
					switch s := sp.(type) {
					case *ast.TypeSpec:
						if stt, ok := s.Type.(*ast.StructType); ok {
							si := &structInfo{name: s.Name.Name, fields: map[string]ast.Expr{}}
							for _, fl := range stt.Fields.List {
								if len(fl.Names) == 0 {
									si.embedded = append(si.embedded, fl.Type)
									// an embedded field is also addressable by its type name
									tn := typeString(fl.Type)
									if k := strings.LastIndex(tn, "."); k >= 0 {
										tn = tn[k+1:]
									}
									si.fields[tn] = fl.Type
								}
								for _, n := range fl.Names {
									si.fields[n.Name] = fl.Type
								}
							}
							a.structs[s.Name.Name] = si
						}
					case *ast.ValueSpec:
						if x.Tok == token.VAR {
							for _, n := range s.Names {
								a.globals[n.Name] = s.Type
							}
						}
					}
				}
			case *ast.FuncDecl:
				fi := &funcInfo{key: x.Name.Name, params: map[string]ast.Expr{}, body: x.Body, file: names[i],
					line: a.fset.Position(x.Pos()).Line}
				if x.Recv != nil && len(x.Recv.List) == 1 {
					fi.recvType = typeString(x.Recv.List[0].Type)
					if len(x.Recv.List[0].Names) == 1 {
						fi.recvName = x.Recv.List[0].Names[0].Name
					}
					fi.key = fi.recvType + "." + x.Name.Name
					a.byMethod[x.Name.Name] = append(a.byMethod[x.Name.Name], fi.key)
				}
				if x.Type.Params != nil {
					for _, p := range x.Type.Params.List {
						for _, n := range p.Names {
							fi.params[n.Name] = p.Type
						}
					}
				}
				if x.Type.Results != nil {
					for _, r := range x.Type.Results.List {
						k := len(r.Names)
						if k == 0 {
							k = 1
						}
						for j := 0; j < k; j++ {
							fi.results = append(fi.results, r.Type)
						}
					}
				}
				if fi.key == "init" {
					if _, dup := a.funcs["init"]; dup {
						fi.key = "init#" + names[i]
					}
				}
				a.funcs[fi.key] = fi
			}
		}
	}
	for k := range a.byMethod {
		sort.Strings(a.byMethod[k])
	}

	// pass 2: bodies
	keys := []string{}
	for k := range a.funcs {
		keys = append(keys, k)
	}
	sort.Strings(keys)
	for _, k := range keys {
		fi := a.funcs[k]
		if fi.body == nil {
			continue
		}
		n := 0
		st := &state{fn: k, file: fi.file, env: map[string]ast.Expr{}, ngo: &n}
		if fi.recvName != "" {
			st.env[fi.recvName] = ast.NewIdent(fi.recvType)
		}
		for p, t := range fi.params {
			st.env[p] = t
		}
		a.block(fi.body, st)
	}

	// thread-unsafe sets lose their pseudo lock
	for i := range a.rows {
		if a.unsafe[a.rows[i].Field] {
			out := []string{}
			for _, l := range a.rows[i].Locks {
				if l != "self:"+a.rows[i].Field {
					out = append(out, l)
				}
			}
			a.rows[i].Locks = out
		}
	}

	// ---- call graph: roots, classes, entry locks, phases
	fkeys := []string{}
	for k := range a.funcs {
		fkeys = append(fkeys, k)
	}
	sort.Strings(fkeys)
	callers := map[string][]edge{}
	callees := map[string][]edge{}
	for _, e := range a.edges {
		if _, ok := a.funcs[e.To]; !ok {
			continue
		}
		callees[e.From] = append(callees[e.From], e)
		if !e.Spawn {
			callers[e.To] = append(callers[e.To], e)
		}
	}
	roots := map[string]class{}
	for k, c := range rootClasses {
		if _, ok := a.funcs[k]; ok {
			roots[k] = c
		}
	}
	for _, e := range a.edges {
		if e.Spawn {
			if _, ok := roots[e.To]; !ok {
				if _, ok := a.funcs[e.To]; ok {
					roots[e.To] = class{"go:" + e.To, true}
				}
			}
		}
	}
	for _, k := range fkeys {
		if len(callers[k]) == 0 {
			if _, ok := roots[k]; !ok {
				roots[k] = class{"api:" + k, false} // no caller inside the package (tests, dead code, exported API)
			}
		}
	}

	// classes by reachability (call edges only; an explicit root of another class is not entered)
	classes := map[string]map[class]bool{}
	reach := func(start string, c class, cut map[string]bool, into map[string]map[class]bool) {
		stack := []string{start}
		seen := map[string]bool{}
		for len(stack) > 0 {
			f := stack[len(stack)-1]
			stack = stack[:len(stack)-1]
			if seen[f] {
				continue
			}
			seen[f] = true
			if into[f] == nil {
				into[f] = map[class]bool{}
			}
			into[f][c] = true
			for _, e := range callees[f] {
				if e.Spawn {
					continue
				}
				if rc, isRoot := rootClasses[e.To]; isRoot && rc != c {
					continue
				}
				if cut != nil && cut[e.To] {
					continue
				}
				stack = append(stack, e.To)
			}
		}
	}
	rkeys := []string{}
	for k := range roots {
		rkeys = append(rkeys, k)
	}
	sort.Strings(rkeys)
	runReach := map[string]map[class]bool{}
	for _, k := range rkeys {
		reach(k, roots[k], nil, classes)
		if roots[k].Name != "init" && !strings.HasPrefix(roots[k].Name, "api:") {
			reach(k, roots[k], reinitEntries, runReach)
		}
	}
	// goroutines started by start-up code only run after it; goroutines started by reinit code likewise
	phase := func(f string) string {
		if len(runReach[f]) > 0 {
			return "run"
		}
		nonInit := false
		api := true
		for c := range classes[f] {
			if c.Name != "init" && !strings.HasPrefix(c.Name, "api:") {
				nonInit = true
			}
			if !strings.HasPrefix(c.Name, "api:") {
				api = false
			}
		}
		if nonInit {
			return "reinit"
		}
		if api {
			return "unreached"
		}
		return "init"
	}

	// entry locks: intersection over all call sites of (caller's entry locks + locks held at the site)
	entry := map[string][]string{}
	top := map[string]bool{}
	for _, k := range fkeys {
		if _, isRoot := roots[k]; isRoot || len(callers[k]) == 0 {
			entry[k] = []string{}
		} else {
			top[k] = true // not yet constrained
		}
	}
	for changed := true; changed; {
		changed = false
		for _, k := range fkeys {
			if _, isRoot := roots[k]; isRoot {
				continue
			}
			var acc []string
			first := true
			for _, e := range callers[k] {
				if top[e.From] {
					continue
				}
				h := union(entry[e.From], e.Held)
				if first {
					acc, first = h, false
				} else {
					acc = inter(acc, h)
				}
			}
			if first {
				continue
			}
			sort.Strings(acc)
			if top[k] || strings.Join(acc, ",") != strings.Join(entry[k], ",") {
				top[k] = false
				entry[k] = acc
				changed = true
			}
		}
	}

	for i := range a.rows {
		r := &a.rows[i]
		// a lock held in shared mode (RLock) excludes writers only: it protects a read, not a write
		all := union(r.Locks, entry[r.Func])
		r.Locks = []string{}
		for _, l := range all {
			if strings.HasSuffix(l, "#r") {
				if r.RW == "W" {
					continue
				}
				l = strings.TrimSuffix(l, "#r")
			}
			if !has(r.Locks, l) {
				r.Locks = append(r.Locks, l)
			}
		}
		sort.Strings(r.Locks)
		cs := []class{}
		for c := range classes[r.Func] {
			cs = append(cs, c)
		}
		sort.Slice(cs, func(i, j int) bool { return cs[i].Name < cs[j].Name })
		r.Classes = cs
		r.Phase = phase(r.Func)
		r.Anchored = anchoredFiles[r.File]
	}
	sort.SliceStable(a.rows, func(i, j int) bool {
		x, y := a.rows[i], a.rows[j]
		if x.Field != y.Field {
			return x.Field < y.Field
		}
		if x.Func != y.Func {
			return x.Func < y.Func
		}
		if x.Line != y.Line {
			return x.Line < y.Line
		}
		return x.RW < y.RW
	})

	// ---- Coq text (positions dropped, duplicates merged)
	var sb strings.Builder
	sb.WriteString("(* GENERATED by harness/skel_c11 from pfcpiface/*.go - do not edit.\n")
	sb.WriteString("   One entry per (shared field, accessing function, read|write, locks held, phase, goroutine classes). *)\n")
	sb.WriteString("From Coq Require Import String List.\nFrom UPF Require Import Model.Locks.\nImport ListNotations.\nLocal Open Scope string_scope.\n\n")
	sb.WriteString("Definition tbl : list access := [\n")
	seen := map[string]bool{}
	lines := []string{}
	q := func(s string) string { return `"` + strings.ReplaceAll(s, `"`, `""`) + `"` }
	for _, r := range a.rows {
		ls := []string{}
		for _, l := range r.Locks {
			ls = append(ls, q(l))
		}
		cs := []string{}
		for _, c := range r.Classes {
			m := "false"
			if c.Multi {
				m = "true"
			}
			cs = append(cs, "TC "+q(c.Name)+" "+m)
		}
		ph := map[string]string{"run": "Run", "reinit": "Reinit", "init": "Init", "unreached": "Unreached"}[r.Phase]
		line := fmt.Sprintf("  Acc %s %s %s [%s] %s [%s]", q(r.Field), q(r.Func), r.RW, strings.Join(ls, "; "), ph, strings.Join(cs, "; "))
		if !seen[line] {
			seen[line] = true
			lines = append(lines, line)
		}
	}
	sb.WriteString(strings.Join(lines, ";\n"))
	sb.WriteString("\n].\n")

	// ---- atomic regions
	regionOf := func(m map[string]string, lock string) string {
		if r, ok := m[lock]; ok {
			return r
		}
		if r, ok := m[lock+"#r"]; ok {
			return r
		}
		return ""
	}
	atomicRows := []atomicRow{}
	for _, sp := range atomicSpecs {
		ar := atomicRow{Func: sp.Func, Lock: sp.Lock, Regions: []string{}}
		if fi, ok := a.funcs[sp.Func]; ok && fi.body != nil {
			ar.Found = true
			regs := map[string]bool{}
			dpRegs := map[string]bool{}
			type item struct{ fn, inherited string }
			seen := map[item]bool{}
			stack := []item{{sp.Func, ""}}
			for len(stack) > 0 {
				it := stack[len(stack)-1]
				stack = stack[:len(stack)-1]
				if seen[it] {
					continue
				}
				seen[it] = true
				for _, r := range a.rows {
					if r.Func != it.fn || !has(sp.Fields, r.Field) {
						continue
					}
					reg := regionOf(r.Regions, sp.Lock)
					if reg == "" {
						reg = it.inherited
					}
					if reg == "" {
						reg = "none"
					}
					regs[reg] = true
					ar.Accesses++
				}
				for _, d := range a.dpcalls {
					if d.Func != it.fn {
						continue
					}
					reg := regionOf(d.Regions, sp.Lock)
					if reg == "" {
						reg = it.inherited
					}
					if reg == "" {
						reg = "none"
					}
					dpRegs[reg] = true
					ar.DPCalls++
				}
				for _, e := range callees[it.fn] {
					if e.Spawn || !e.Exact || dpWriters[e.To] {
						continue
					}
					inh := regionOf(e.Regions, sp.Lock)
					if inh == "" {
						inh = it.inherited
					}
					stack = append(stack, item{e.To, inh})
				}
			}
			for r := range regs {
				ar.Regions = append(ar.Regions, r)
			}
			sort.Strings(ar.Regions)
			ar.Covered = len(ar.Regions) == 1 && ar.Regions[0] != "none" && ar.Accesses > 0
			ar.DPInside = ar.Covered && ar.DPCalls > 0 && len(dpRegs) == 1 && dpRegs[ar.Regions[0]]
		}
		atomicRows = append(atomicRows, ar)
	}
	sb.WriteString("\n(* atomic regions: function, lock, accesses of the guarded fields (callees included), all of them in ONE acquisition\n")
	sb.WriteString("   of the lock?, datapath writes among them, all datapath writes inside that acquisition? *)\n")
	sb.WriteString("Definition atomic_tbl : list atomic_fn := [\n")
	alines := []string{}
	bs := func(b bool) string {
		if b {
			return "true"
		}
		return "false"
	}
	for _, ar := range atomicRows {
		if !ar.Found {
			continue
		}
		alines = append(alines, fmt.Sprintf("  AF %s %s %d %s %d %s", q(ar.Func), q(ar.Lock), ar.Accesses, bs(ar.Covered), ar.DPCalls, bs(ar.DPInside)))
	}
	sb.WriteString(strings.Join(alines, ";\n"))
	sb.WriteString("\n].\n")

	entryOut := map[string][]string{}
	for k, v := range entry {
		if len(v) > 0 {
			entryOut[k] = v
		}
	}
	rootOut := map[string]class{}
	for k, c := range roots {
		if !strings.HasPrefix(c.Name, "api:") {
			rootOut[k] = c
		}
	}
	unsafeOut := []string{}
	for k := range a.unsafe {
		unsafeOut = append(unsafeOut, k)
	}
	sort.Strings(unsafeOut)
	out := map[string]interface{}{
		"rows": a.rows, "coq": sb.String(), "entry_locks": entryOut, "roots": rootOut, "files": names,
		"n_functions": len(a.funcs), "n_edges": len(a.edges), "coq_rows": len(lines), "unsafe_sets": unsafeOut, "atomic": atomicRows,
	}
	enc := json.NewEncoder(os.Stdout)
	if err := enc.Encode(out); err != nil {
		fail(err.Error())
	}
}
