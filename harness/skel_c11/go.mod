module skelc11

go 1.23
