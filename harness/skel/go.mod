module skel

go 1.23
