// Synchronisation-skeleton extractor (tie T1 of property C10).
//
// Reads $VERIF_REPO/pfcpiface/{conn,node,messages,pfcpiface}.go with go/parser and prints, for a fixed
// list of functions, the ordered synchronisation-relevant statements as one canonical line each:
//
//	<key>=<skeleton>
//
// Kept: close(ch), ch <- v, <-ch, select with its cases, for / range loops, go, defer, return /
// break / continue, sync.Once.Do, make(chan) with capacity, calls to a whitelist of functions,
// the `done:` binding of the PFCPConn literal.  if-statements are kept only when something kept is
// inside; their condition is printed only when it mentions a whitelisted name.  Everything else
// (logging, pure expressions, error-only branches) is dropped.  Std-lib only.
package main

import (
	"fmt"
	"go/ast"
	"go/parser"
	"go/token"
	"os"
	"path/filepath"
	"sort"
	"strings"
)

var callWhitelist = map[string]bool{
	"Shutdown": true, "doShutdown": true, "SendMsgToUPF": true, "RemoveSession": true,
	"Store": true, "Delete": true, "Load": true, "Close": true, "Exit": true, "cancel": true,
	"Stop": true, "Done": true, "Wait": true, "HandlePFCPMsg": true, "NewPFCPConn": true, "Serve": true,
	"Read": true, "ReadFrom": true, "SetReadDeadline": true, "hbCtxCancel": true,
	"sendPFCPRequestMessage": true, "Dial": true, "ListenPacket": true,
	"tryConnectToN4Peers": true, "Range": true, "handleNewPeers": true,
	"startHeartBeatMonitor": true, "handleAssociationReleaseRequest": true,
	"GetAllSessions": true, "hbCancel": true, "DeleteSession": true,
	"Lock": true, "Unlock": true, "Add": true, "handlePFCPMsg": true,
}

var condWhitelist = map[string]bool{"hbCtxCancel": true, "pConnDone": true, "shutdown": true, "done": true,
	"newPeersDone": true, "pConnsEnded": true, "released": true}

type target struct{ key, file, recv, name string }

var targets = []target{
	{"conn_shutdown", "conn.go", "PFCPConn", "Shutdown"},
	{"conn_doShutdown", "conn.go", "PFCPConn", "doShutdown"},
	{"conn_serve", "conn.go", "PFCPConn", "Serve"},
	{"conn_hb_monitor", "conn.go", "PFCPConn", "startHeartBeatMonitor"},
	{"node_new_conn", "conn.go", "PFCPNode", "NewPFCPConn"},
	{"node_new", "node.go", "", "NewPFCPNode"},
	{"node_new_peers", "node.go", "PFCPNode", "handleNewPeers"},
	{"node_serve", "node.go", "PFCPNode", "Serve"},
	{"node_stop", "node.go", "PFCPNode", "Stop"},
	{"node_done", "node.go", "PFCPNode", "Done"},
	{"handle_msg", "messages.go", "PFCPConn", "HandlePFCPMsg"},
	{"handle_msg_locked", "messages.go", "PFCPConn", "handlePFCPMsg"},
	{"iface_stop", "pfcpiface.go", "PFCPIface", "Stop"},
	{"remove_session", "sessions.go", "PFCPConn", "RemoveSession"},
}

func exprName(e ast.Expr) string {
	switch x := e.(type) {
	case *ast.Ident:
		return x.Name
	case *ast.SelectorExpr:
		// keep the last two components only when the inner one is itself a field (a.b.c -> b.c)
		if in, ok := x.X.(*ast.SelectorExpr); ok {
			return in.Sel.Name + "." + x.Sel.Name
		}
		// exported member of a local variable (hbCtx.Done, heartBeatExpiryTimer.C): keep the variable
		if id, ok := x.X.(*ast.Ident); ok && x.Sel.Name[0] >= 'A' && x.Sel.Name[0] <= 'Z' {
			return id.Name + "." + x.Sel.Name
		}
		return x.Sel.Name
	case *ast.CallExpr:
		return exprName(x.Fun)
	case *ast.ParenExpr:
		return exprName(x.X)
	case *ast.StarExpr:
		return exprName(x.X)
	case *ast.UnaryExpr:
		return exprName(x.X)
	}
	return "?"
}

// qualified name for calls: receiver field kept for the maps / once (pConns.Store, shutdownOnce.Do)
func callName(c *ast.CallExpr) (short, qual string) {
	switch f := c.Fun.(type) {
	case *ast.Ident:
		return f.Name, f.Name
	case *ast.SelectorExpr:
		short = f.Sel.Name
		qual = short
		switch r := f.X.(type) {
		case *ast.SelectorExpr:
			if r.Sel.Name == "pConns" || r.Sel.Name == "shutdownOnce" || r.Sel.Name == "node" || r.Sel.Name == "store" ||
				r.Sel.Name == "pConnsCreated" || r.Sel.Name == "hbMu" || r.Sel.Name == "handleMu" {
				qual = r.Sel.Name + "." + short
			}
		}
		return
	}
	return "?", "?"
}

type walker struct{ fset *token.FileSet }

// some whitelisted names are common method names: keep them only on the receivers that matter
func callAllowed(c *ast.CallExpr, short, qual string) bool {
	sel, isSel := c.Fun.(*ast.SelectorExpr)
	switch short {
	case "Store", "Delete", "Range":
		return strings.HasPrefix(qual, "pConns.")
	case "Load":
		return strings.HasPrefix(qual, "pConns.") || strings.HasPrefix(qual, "pConnsCreated.")
	case "Add":
		return strings.HasPrefix(qual, "pConnsCreated.")
	case "Lock", "Unlock":
		return strings.HasPrefix(qual, "hbMu.") || strings.HasPrefix(qual, "handleMu.")
	case "Stop", "Done":
		return qual == "node."+short
	case "Shutdown":
		if !isSel {
			return true
		}
		_, recvIsIdent := sel.X.(*ast.Ident)
		return recvIsIdent
	}
	return true
}

func join(parts []string) string {
	out := []string{}
	for _, p := range parts {
		if p != "" {
			out = append(out, p)
		}
	}
	return strings.Join(out, ";")
}

// exprs: synchronisation content of an expression (calls, receives, makes, func literals)
func (w *walker) expr(e ast.Expr, bind string) string {
	if e == nil {
		return ""
	}
	switch x := e.(type) {
	case *ast.CallExpr:
		short, qual := callName(x)
		inner := []string{}
		if short == "make" && len(x.Args) >= 1 {
			if _, ok := x.Args[0].(*ast.ChanType); ok {
				capacity := "0"
				if len(x.Args) >= 2 {
					if bl, ok := x.Args[1].(*ast.BasicLit); ok {
						capacity = bl.Value
					} else {
						capacity = "?"
					}
				}
				return "make(" + bind + "," + capacity + ")"
			}
			return ""
		}
		if short == "close" && len(x.Args) == 1 {
			return "close(" + exprName(x.Args[0]) + ")"
		}
		if short == "len" && len(x.Args) == 1 {
			return ""
		}
		for _, a := range x.Args {
			if fl, ok := a.(*ast.FuncLit); ok {
				_ = fl // callbacks (sync.Map.Range bodies) are not synchronisation of this function
				continue
			}
			inner = append(inner, w.expr(a, ""))
		}
		if sel, ok := x.Fun.(*ast.SelectorExpr); ok {
			inner = append([]string{w.expr(sel.X, "")}, inner...)
		}
		if fl, ok := x.Fun.(*ast.FuncLit); ok {
			return join(append(inner, "call{"+w.block(fl.Body.List)+"}"))
		}
		if short == "Do" && strings.HasSuffix(qual, "shutdownOnce.Do") && len(x.Args) == 1 {
			return join(append(inner, "once(shutdownOnce,"+exprName(x.Args[0])+")"))
		}
		if callWhitelist[short] && callAllowed(x, short, qual) {
			s := "call(" + qual
			if short == "SendMsgToUPF" && len(x.Args) > 0 {
				s += ":" + exprName(x.Args[0])
			}
			s += ")"
			return join(append(inner, s))
		}
		return join(inner)
	case *ast.UnaryExpr:
		if x.Op == token.ARROW {
			return "recv(" + exprName(x.X) + ")"
		}
		return w.expr(x.X, bind)
	case *ast.BinaryExpr:
		return join([]string{w.expr(x.X, ""), w.expr(x.Y, "")})
	case *ast.ParenExpr:
		return w.expr(x.X, bind)
	case *ast.StarExpr:
		return w.expr(x.X, bind)
	case *ast.SelectorExpr:
		return w.expr(x.X, "")
	case *ast.TypeAssertExpr:
		return w.expr(x.X, "")
	case *ast.IndexExpr:
		return join([]string{w.expr(x.X, ""), w.expr(x.Index, "")})
	case *ast.CompositeLit:
		parts := []string{}
		for _, el := range x.Elts {
			if kv, ok := el.(*ast.KeyValueExpr); ok {
				k := exprName(kv.Key)
				if _, isCall := kv.Value.(*ast.CallExpr); k == "done" && !isCall {
					parts = append(parts, "bind(done,"+exprName(kv.Value)+")")
					continue
				}
				parts = append(parts, w.expr(kv.Value, k))
			} else {
				parts = append(parts, w.expr(el, ""))
			}
		}
		return join(parts)
	case *ast.FuncLit:
		return ""
	}
	return ""
}

func condText(e ast.Expr) string {
	names := map[string]bool{}
	ast.Inspect(e, func(n ast.Node) bool {
		switch x := n.(type) {
		case *ast.Ident:
			if condWhitelist[x.Name] {
				names[x.Name] = true
			}
		case *ast.CallExpr:
			if id, ok := x.Fun.(*ast.Ident); ok && id.Name == "len" && len(x.Args) == 1 {
				n := exprName(x.Args[0])
				if condWhitelist[n] {
					names["len("+n+")"] = true
					return false
				}
			}
		}
		return true
	})
	ks := []string{}
	for k := range names {
		ks = append(ks, k)
	}
	sort.Strings(ks)
	return strings.Join(ks, ",")
}

func (w *walker) block(list []ast.Stmt) string {
	parts := []string{}
	for _, s := range list {
		parts = append(parts, w.stmt(s))
	}
	return join(parts)
}

func (w *walker) stmt(s ast.Stmt) string {
	switch x := s.(type) {
	case nil:
		return ""
	case *ast.ExprStmt:
		return w.expr(x.X, "")
	case *ast.SendStmt:
		return join([]string{w.expr(x.Value, ""), "send(" + exprName(x.Chan) + ")"})
	case *ast.IncDecStmt:
		if n := exprName(x.X); n == "pConnsEnded" {
			return "inc(" + n + ")"
		}
		return ""
	case *ast.AssignStmt:
		if len(x.Lhs) == 1 && len(x.Rhs) == 1 && x.Tok == token.ASSIGN {
			if l := exprName(x.Lhs[0]); l == "newPeersDone" || l == "released" {
				return "set(" + l + "," + exprName(x.Rhs[0]) + ")"
			}
		}
		parts := []string{}
		for i, r := range x.Rhs {
			b := ""
			if i < len(x.Lhs) {
				b = exprName(x.Lhs[i])
			}
			parts = append(parts, w.expr(r, b))
		}
		return join(parts)
	case *ast.DeclStmt:
		gd, ok := x.Decl.(*ast.GenDecl)
		if !ok {
			return ""
		}
		parts := []string{}
		for _, sp := range gd.Specs {
			if vs, ok := sp.(*ast.ValueSpec); ok {
				for i, v := range vs.Values {
					b := ""
					if i < len(vs.Names) {
						b = vs.Names[i].Name
					}
					parts = append(parts, w.expr(v, b))
				}
			}
		}
		return join(parts)
	case *ast.GoStmt:
		if fl, ok := x.Call.Fun.(*ast.FuncLit); ok {
			return "go{" + w.block(fl.Body.List) + "}"
		}
		short, _ := callName(x.Call)
		return "go(" + short + ")"
	case *ast.DeferStmt:
		if fl, ok := x.Call.Fun.(*ast.FuncLit); ok {
			b := w.block(fl.Body.List)
			if b == "" {
				return ""
			}
			return "defer{" + b + "}"
		}
		short, _ := callName(x.Call)
		if short == "close" && len(x.Call.Args) == 1 {
			return "defer(close:" + exprName(x.Call.Args[0]) + ")"
		}
		if callWhitelist[short] {
			if _, qual := callName(x.Call); qual != short && callAllowed(x.Call, short, qual) {
				return "defer(" + qual + ")"
			}
			return "defer(" + short + ")"
		}
		return ""
	case *ast.ReturnStmt:
		parts := []string{}
		for _, r := range x.Results {
			parts = append(parts, w.expr(r, ""))
		}
		return join(append(parts, "return"))
	case *ast.BranchStmt:
		return strings.ToLower(x.Tok.String())
	case *ast.BlockStmt:
		return w.block(x.List)
	case *ast.LabeledStmt:
		return w.stmt(x.Stmt)
	case *ast.IfStmt:
		init := w.stmt(x.Init)
		cond := w.expr(x.Cond, "")
		body := w.block(x.Body.List)
		els := ""
		if x.Else != nil {
			els = w.stmt(x.Else)
		}
		if onlyJumps(body) && onlyJumps(els) && init == "" && cond == "" && condText(x.Cond) == "" {
			// an if that only jumps is kept when it is inside something kept; the caller prunes
			// whole functions with nothing in them.  Keep it: early returns order the sync ops.
		}
		if body == "" && els == "" {
			return join([]string{init, cond})
		}
		c := condText(x.Cond)
		out := "if"
		if c != "" {
			out += "(" + c + ")"
		}
		out += "{" + body + "}"
		if els != "" {
			out += "else{" + els + "}"
		}
		return join([]string{init, cond, out})
	case *ast.ForStmt:
		body := w.block(x.Body.List)
		head := "loop"
		if x.Cond != nil {
			if c := condText(x.Cond); c != "" {
				head += "(" + c + ")"
			}
		}
		return join([]string{w.stmt(x.Init), head + "{" + join([]string{w.expr(x.Cond, ""), body, w.stmt(x.Post)}) + "}"})
	case *ast.RangeStmt:
		body := w.block(x.Body.List)
		src := w.expr(x.X, "")
		name := exprName(x.X)
		if _, isChan := x.X.(*ast.SelectorExpr); !isChan && body == "" && src == "" {
			return ""
		}
		if body == "" && src == "" && !condWhitelist[name] {
			return ""
		}
		return "range(" + name + "){" + body + "}"
	case *ast.SelectStmt:
		cases := []string{}
		for _, c := range x.Body.List {
			cc := c.(*ast.CommClause)
			head := "default"
			if cc.Comm != nil {
				head = w.stmt(cc.Comm)
			}
			cases = append(cases, head+":{"+w.block(cc.Body)+"}")
		}
		return "select{" + strings.Join(cases, ";") + "}"
	case *ast.SwitchStmt, *ast.TypeSwitchStmt:
		var body *ast.BlockStmt
		var init ast.Stmt
		if sw, ok := x.(*ast.SwitchStmt); ok {
			body, init = sw.Body, sw.Init
		} else {
			body, init = x.(*ast.TypeSwitchStmt).Body, x.(*ast.TypeSwitchStmt).Init
		}
		cases := []string{}
		for _, c := range body.List {
			cc := c.(*ast.CaseClause)
			b := w.block(cc.Body)
			if b == "" || onlyJumps(b) {
				continue
			}
			names := []string{}
			for _, e := range cc.List {
				names = append(names, exprName(e))
			}
			if len(names) == 0 {
				names = []string{"default"}
			}
			cases = append(cases, "case("+strings.Join(names, ",")+"){"+b+"}")
		}
		if len(cases) == 0 {
			return w.stmt(init)
		}
		return join([]string{w.stmt(init), "switch{" + strings.Join(cases, ";") + "}"})
	}
	return ""
}

func onlyJumps(s string) bool {
	for _, p := range strings.Split(s, ";") {
		if p != "" && p != "return" && p != "break" && p != "continue" {
			return false
		}
	}
	return true
}

func recvType(fd *ast.FuncDecl) string {
	if fd.Recv == nil || len(fd.Recv.List) == 0 {
		return ""
	}
	t := fd.Recv.List[0].Type
	if st, ok := t.(*ast.StarExpr); ok {
		t = st.X
	}
	if id, ok := t.(*ast.Ident); ok {
		return id.Name
	}
	return "?"
}

func main() {
	repo := os.Getenv("VERIF_REPO")
	if repo == "" {
		repo = "/repo"
	}
	// VERIF_SKEL_TARGETS="key:file:receiver:function,..." replaces the target list (used by checks other than C10)
	if spec := os.Getenv("VERIF_SKEL_TARGETS"); spec != "" {
		targets = nil
		for _, one := range strings.Split(spec, ",") {
			p := strings.Split(one, ":")
			if len(p) == 4 {
				targets = append(targets, target{p[0], p[1], p[2], p[3]})
			}
		}
	}
	fset := token.NewFileSet()
	files := map[string]*ast.File{}
	w := &walker{fset}
	for _, t := range targets {
		f, ok := files[t.file]
		if !ok {
			var err error
			f, err = parser.ParseFile(fset, filepath.Join(repo, "pfcpiface", t.file), nil, 0)
			if err != nil {
				fmt.Printf("%s=!parse-error:%v\n", t.key, err)
				continue
			}
			files[t.file] = f
		}
		found := false
		for _, d := range f.Decls {
			fd, ok := d.(*ast.FuncDecl)
			if !ok || fd.Name.Name != t.name || recvType(fd) != t.recv || fd.Body == nil {
				continue
			}
			found = true
			fmt.Printf("%s=%s\n", t.key, w.block(fd.Body.List))
		}
		if !found {
			fmt.Printf("%s=!missing\n", t.key)
		}
	}
}
