//go:build verif

// Correspondence harness, compiled into package pfcpiface from /repo's working tree
// through `go test -overlay` (this file lives in /verif/harness/go).
// One entry point: TestVerifHarness reads JSON lines from $VERIF_IN, dispatches on
// $VERIF_MODE and writes one JSON observation line per input line to $VERIF_OUT.
package pfcpiface

import (
	"bufio"
	"encoding/json"
	"fmt"
	"os"
	"testing"
)

type verifHandler func(raw json.RawMessage) (interface{}, error)

var verifModes = map[string]verifHandler{}

func verifRegister(mode string, h verifHandler) { verifModes[mode] = h }

func TestVerifHarness(t *testing.T) {
	mode := os.Getenv("VERIF_MODE")
	in := os.Getenv("VERIF_IN")
	out := os.Getenv("VERIF_OUT")
	if mode == "" || in == "" || out == "" {
		t.Skip("VERIF_MODE / VERIF_IN / VERIF_OUT not set")
	}
	h, ok := verifModes[mode]
	if !ok {
		t.Fatalf("unknown VERIF_MODE %q", mode)
	}
	fin, err := os.Open(in)
	if err != nil {
		t.Fatal(err)
	}
	defer fin.Close()
	fout, err := os.Create(out)
	if err != nil {
		t.Fatal(err)
	}
	defer fout.Close()
	w := bufio.NewWriterSize(fout, 1<<20)
	defer w.Flush()
	sc := bufio.NewScanner(fin)
	sc.Buffer(make([]byte, 1<<20), 1<<28)
	enc := json.NewEncoder(w)
	n := 0
	for sc.Scan() {
		line := sc.Bytes()
		if len(line) == 0 {
			continue
		}
		n++
		var res interface{}
		if verifAbort != "" {
			// the code under test left something running away (see verifAbort): the remaining cases are not run
			res = map[string]interface{}{"skipped": verifAbort}
		} else {
			var err error
			res, err = verifGuard(h, json.RawMessage(append([]byte(nil), line...)))
			if err != nil {
				res = map[string]interface{}{"harness_error": err.Error()}
			}
		}
		if e := enc.Encode(res); e != nil {
			t.Fatal(e)
		}
	}
	if err := sc.Err(); err != nil {
		t.Fatal(err)
	}
	if verifAbort != "" {
		w.Flush()
		fout.Close()
		os.Exit(0) // a runaway goroutine cannot be stopped; leave before it exhausts the machine
	}
}

// verifAbort is set by a mode when the code under test started something that cannot be stopped (a goroutine that
// allocates without bound): the remaining inputs are answered {"skipped": reason} and the process exits.
var verifAbort string

// verifGuard turns a panic of the code under test into an observation.
func verifGuard(h verifHandler, raw json.RawMessage) (res interface{}, err error) {
	defer func() {
		if r := recover(); r != nil {
			res = map[string]interface{}{"panic": fmt.Sprint(r)}
			err = nil
		}
	}()
	return h(raw)
}
