//go:build verif

// Shared in-process fake P4Runtime server for the /verif harness (used by C04, C15, C16).
// No property-specific logic lives here.  Every identifier is prefixed `vp4`.
//
// API
//
//	srv, err := vp4Start(vp4Opts{P4InfoText: "", Sizes: map[string]int64{"PreQosPipe.app_meter": 8}})
//	    Starts a gRPC server on 127.0.0.1:<free port> implementing p4.v1.P4Runtime.  The P4Info served is
//	    parsed from $VERIF_REPO/conf/p4/bin/p4info.txt (VERIF_REPO defaults to /repo) unless P4InfoText is
//	    given; Sizes overrides the `size` of tables / counters / meters selected by full name or alias.
//	    NEVER call srv.Stop() while a UP4 built by vp4NewUP4 is alive: UP4.listenToDDNs busy-loops once its
//	    connection is gone.  Servers are cheap; leave them running until the process exits and use
//	    srv.Reset() + a new vp4NewUP4 for a fresh scenario (old UP4 objects stay idle).
//	srv.Port() / srv.Addr()                 listening port ("54321") / "127.0.0.1:54321"
//	srv.P4Info() / srv.SetP4Info(info)      the P4Info handed to clients that connect from now on
//	srv.Reset()                             drop tables, meter cells, counters, log, packet-outs, faults
//	srv.ResetLog()                          drop only the Write log
//	srv.WritesSeen() / srv.ReadsSeen()      number of Write / Read RPCs received so far (never reset)
//	srv.ArmWriteFault(k, vp4Fault{...})     the k-th Write RPC from now on (k >= 1) fails as a whole and changes
//	                                        nothing.  Kind "grpc": plain status error with Code (e.g.
//	                                        codes.Unavailable).  Kind "p4": status UNKNOWN carrying one p4.Error
//	                                        detail per update, canonical code PerUpdate[i] (Code when i is out of
//	                                        range) - the two branches of p4rtc.go convertError.  Several faults
//	                                        may be armed; srv.DisarmFaults() removes them.
//	id := srv.HoldWrites(vp4Hold{Table: "tunnel_peers", Type: "DELETE", Count: 1, MaxMs: 2000})
//	                                        Write RPCs that contain an update of that table (suffix of the table
//	                                        name or alias; "" = any table entry) and update type ("" = any) are HELD
//	                                        before anything of them is applied: the RPC blocks (without the server
//	                                        lock: other Writes proceed) until srv.ReleaseHolds() / srv.ReleaseHold(id)
//	                                        or MaxMs elapsed (0 = 5000), then is applied normally.  Count = how many
//	                                        matching RPCs the hold catches (0 = all until released).
//	srv.Held() / srv.HeldTotal()            Write RPCs blocked right now / caught by holds so far
//	srv.WaitHeld(n, ms)                     wait until HeldTotal() >= n (false on time-out)
//	srv.ReleaseHolds() / srv.ReleaseHold(id)   disarm and let the blocked RPCs go on (Reset() does it too)
//	srv.Log() / srv.TakeLog()               []vp4WriteRec: every Write RPC decoded (see the record types below);
//	                                        TakeLog also clears the log
//	srv.Tables() / srv.Meters() / srv.Counters()   sorted snapshots of all table entries, configured meter cells
//	                                        and written counter cells
//	srv.TableEntries(tableID)               raw clones of the entries of one table (sorted by key)
//	srv.PacketOuts()                        payloads of the PacketOut messages received on any stream
//	srv.PacketOutsSeen() / srv.PacketOutRecs(from)   number of PacketOuts received so far / the PacketOuts from index
//	                                        `from` on, each with the number of Write RPCs the server had received when
//	                                        it arrived (order of a PacketOut relative to the Writes)
//	srv.InjectDigest(list) / srv.InjectDDN(ueAddr)   send a DigestList to every open stream (InjectDDN: the
//	                                        4-byte UE address bitstring UP4.listenToDDNs expects); returns the
//	                                        number of streams written
//	srv.SetCounterData(id, index, bytes, packets)    preset a counter cell for Read
//	srv.Streams()                           number of StreamChannels currently open
//	up4, u, err := vp4NewUP4(srv, vp4UP4Opts{...})   a REAL UP4 plug-in plus `upf`, connected to srv
//	                                        (SetUpfInfo -> keepTryingToConnect -> clearTables + initInterfaces)
//
// Semantics of Write (P4Runtime 1.3, CONTINUE_ON_ERROR): updates are applied in order, each on its own.
// Table entries are keyed by (table id, canonical match fields sorted by field id with leading zero bytes
// stripped, priority).  INSERT of an existing key -> ALREADY_EXISTS; MODIFY / DELETE of a missing key ->
// NOT_FOUND; an update without entity or with type UNSPECIFIED -> INVALID_ARGUMENT.  Meter and counter entries
// accept only MODIFY; a meter MODIFY without config resets the cell.  All OK -> (WriteResponse, nil); otherwise
// a gRPC status with code UNKNOWN and one p4.v1.Error detail per update (OK for those that succeeded).
// The server does NOT validate entries against the P4Info (that is C16's business, done on the log).
// Read: exactly one ReadResponse per request (p4rtc.go calls Recv once).  Table entries: table id 0 = all
// tables, no match fields = every entry of the table, otherwise the entries with that canonical match key
// (and that priority when it is non-zero).  Counter / meter entries: id 0 = all, no index = every cell written.
// StreamChannel: MasterArbitrationUpdate is answered with status OK (every client is primary).
package pfcpiface

import (
	"context"
	"encoding/binary"
	"encoding/hex"
	"encoding/json"
	"fmt"
	"math/big"
	"net"
	"os"
	"path/filepath"
	"sort"
	"strings"
	"sync"
	"time"

	//nolint:staticcheck // same deprecated API as p4rtc.go: the P4Runtime stubs are APIv1 messages.
	"github.com/golang/protobuf/proto"
	p4ConfigV1 "github.com/p4lang/p4runtime/go/p4/config/v1"
	p4 "github.com/p4lang/p4runtime/go/p4/v1"
	"google.golang.org/genproto/googleapis/rpc/code"
	rpcstatus "google.golang.org/genproto/googleapis/rpc/status"
	"google.golang.org/grpc"
	"google.golang.org/grpc/codes"
	"google.golang.org/grpc/status"
)

// ---------------------------------------------------------------------------------- records

type vp4FieldRec struct {
	ID     uint32 `json:"id"`
	Name   string `json:"name"`
	Kind   string `json:"kind"` // exact | lpm | ternary | range | optional | other | none
	Value  string `json:"value,omitempty"`
	Mask   string `json:"mask,omitempty"`
	Low    string `json:"low,omitempty"`
	High   string `json:"high,omitempty"`
	Prefix int32  `json:"prefix"`
	NBytes int    `json:"nbytes"` // byte length of value (or of low)
	Hex    string `json:"hex,omitempty"`
}

type vp4ParamRec struct {
	ID     uint32 `json:"id"`
	Name   string `json:"name"`
	Value  string `json:"value"`
	NBytes int    `json:"nbytes"`
}

type vp4MeterCfg struct {
	Cir    int64 `json:"cir"`
	Cburst int64 `json:"cburst"`
	Pir    int64 `json:"pir"`
	Pburst int64 `json:"pburst"`
}

type vp4CounterData struct {
	Bytes   int64 `json:"bytes"`
	Packets int64 `json:"packets"`
}

// vp4UpdateRec is one decoded update (or one stored entity in a snapshot, Type == "").
type vp4UpdateRec struct {
	Type string `json:"type"` // INSERT | MODIFY | DELETE | UNSPECIFIED | ""
	Kind string `json:"kind"` // table | meter | counter | nil | other:<go type>

	TableID    uint32        `json:"table_id,omitempty"`
	TableName  string        `json:"table_name,omitempty"`
	Match      []vp4FieldRec `json:"match,omitempty"`
	ActionKind string        `json:"action_kind,omitempty"` // action | none | other
	ActionID   uint32        `json:"action_id,omitempty"`
	ActionName string        `json:"action_name,omitempty"`
	Params     []vp4ParamRec `json:"params,omitempty"`
	Priority   int32         `json:"priority"`
	IsDefault  bool          `json:"is_default,omitempty"`

	MeterID   uint32       `json:"meter_id,omitempty"`
	MeterName string       `json:"meter_name,omitempty"`
	Config    *vp4MeterCfg `json:"config,omitempty"`

	CounterID   uint32          `json:"counter_id,omitempty"`
	CounterName string          `json:"counter_name,omitempty"`
	Data        *vp4CounterData `json:"data,omitempty"`

	HasIndex bool  `json:"has_index,omitempty"`
	Index    int64 `json:"index"`

	Status int32 `json:"status"` // canonical code this update was answered with
}

type vp4WriteRec struct {
	Seq     int            `json:"seq"`     // number of this Write RPC at the server (1-based, never reset)
	Faulted bool           `json:"faulted"` // failed by fault injection (nothing applied)
	Code    int32          `json:"code"`    // gRPC status code of the whole RPC (0 = OK, 2 = UNKNOWN with details)
	Updates []vp4UpdateRec `json:"updates"`
}

type vp4Fault struct {
	Kind      string       // "grpc" | "p4"
	Code      codes.Code   // grpc: status code; p4: canonical code of updates not covered by PerUpdate
	PerUpdate []codes.Code // p4 only
	Msg       string
}

// vp4Hold describes which Write RPCs are held back (see the API comment at the top).
type vp4Hold struct {
	Table string // suffix of the table's name or alias, "" = any table
	Type  string // INSERT | MODIFY | DELETE, "" = any
	Count int    // RPCs to catch, 0 = unlimited
	MaxMs int    // give up holding after this long, 0 = 5000
}

type vp4HoldState struct {
	h       vp4Hold
	caught  int
	spent   bool // caught Count RPCs: catches no more, stays until released so that the blocked RPCs can be let go
	release chan struct{}
}

// vp4PktRec is one PacketOut together with its position relative to the Write RPCs.
type vp4PktRec struct {
	Writes  int // Write RPCs received by the server before this PacketOut arrived
	Payload []byte
}

type vp4Opts struct {
	P4InfoText string
	Sizes      map[string]int64
}

type vp4CellKey struct {
	id    uint32
	index int64
}

type vp4Stream struct {
	mu sync.Mutex
	s  p4.P4Runtime_StreamChannelServer
}

type vp4Server struct {
	p4.UnimplementedP4RuntimeServer

	mu       sync.Mutex
	info     *p4ConfigV1.P4Info
	cookie   uint64
	lis      net.Listener
	gs       *grpc.Server
	tables   map[uint32]map[string]*p4.TableEntry
	meters   map[vp4CellKey]*p4.MeterConfig
	counters map[vp4CellKey]*p4.CounterData
	log      []vp4WriteRec
	writes   int
	reads    int
	faults   map[int]vp4Fault
	pktOuts  [][]byte
	pktW     []int
	streams  map[*vp4Stream]struct{}
	holds    map[int]*vp4HoldState
	holdSeq  int
	heldNow  int
	heldAll  int
}

// ---------------------------------------------------------------------------------- start / stop

func vp4RepoDir() string {
	if d := os.Getenv("VERIF_REPO"); d != "" {
		return d
	}

	return "/repo"
}

// vp4LoadP4Info parses the shipped P4Info (or the given text) and applies the size overrides.
func vp4LoadP4Info(text string, sizes map[string]int64) (*p4ConfigV1.P4Info, error) {
	if text == "" {
		b, err := os.ReadFile(filepath.Join(vp4RepoDir(), "conf", "p4", "bin", "p4info.txt"))
		if err != nil {
			return nil, err
		}

		text = string(b)
	}

	info := &p4ConfigV1.P4Info{}
	if err := proto.UnmarshalText(text, info); err != nil {
		return nil, fmt.Errorf("p4info: %w", err)
	}

	used := map[string]bool{}
	pick := func(pre *p4ConfigV1.Preamble) (int64, bool) {
		for _, k := range []string{pre.GetName(), pre.GetAlias()} {
			if v, ok := sizes[k]; ok {
				used[k] = true
				return v, true
			}
		}

		return 0, false
	}

	for _, t := range info.Tables {
		if v, ok := pick(t.Preamble); ok {
			t.Size = v
		}
	}

	for _, c := range info.Counters {
		if v, ok := pick(c.Preamble); ok {
			c.Size = v
		}
	}

	for _, m := range info.Meters {
		if v, ok := pick(m.Preamble); ok {
			m.Size = v
		}
	}

	for k := range sizes {
		if !used[k] {
			return nil, fmt.Errorf("size override for unknown entity %q", k)
		}
	}

	return info, nil
}

func vp4Start(o vp4Opts) (*vp4Server, error) {
	info, err := vp4LoadP4Info(o.P4InfoText, o.Sizes)
	if err != nil {
		return nil, err
	}

	lis, err := net.Listen("tcp", "127.0.0.1:0")
	if err != nil {
		return nil, err
	}

	s := &vp4Server{info: info, cookie: 1, lis: lis, gs: grpc.NewServer(), streams: map[*vp4Stream]struct{}{}}
	s.resetLocked()
	p4.RegisterP4RuntimeServer(s.gs, s)

	go func() { _ = s.gs.Serve(lis) }()

	return s, nil
}

// Stop tears the server down.  See the warning at the top of the file.
func (s *vp4Server) Stop() { s.gs.Stop() }

func (s *vp4Server) Port() string {
	return fmt.Sprint(s.lis.Addr().(*net.TCPAddr).Port)
}

func (s *vp4Server) Addr() string { return "127.0.0.1:" + s.Port() }

func (s *vp4Server) P4Info() *p4ConfigV1.P4Info {
	s.mu.Lock()
	defer s.mu.Unlock()

	return proto.Clone(s.info).(*p4ConfigV1.P4Info)
}

func (s *vp4Server) SetP4Info(info *p4ConfigV1.P4Info) {
	s.mu.Lock()
	defer s.mu.Unlock()

	s.info = proto.Clone(info).(*p4ConfigV1.P4Info)
	s.cookie++
}

func (s *vp4Server) resetLocked() {
	for id, st := range s.holds {
		close(st.release)
		delete(s.holds, id)
	}

	s.tables = map[uint32]map[string]*p4.TableEntry{}
	s.meters = map[vp4CellKey]*p4.MeterConfig{}
	s.counters = map[vp4CellKey]*p4.CounterData{}
	s.log = nil
	s.faults = map[int]vp4Fault{}
	s.pktOuts = nil
	s.pktW = nil
}

func (s *vp4Server) Reset() {
	s.mu.Lock()
	defer s.mu.Unlock()
	s.resetLocked()
}

func (s *vp4Server) ResetLog() {
	s.mu.Lock()
	defer s.mu.Unlock()
	s.log = nil
}

func (s *vp4Server) WritesSeen() int {
	s.mu.Lock()
	defer s.mu.Unlock()

	return s.writes
}

func (s *vp4Server) ReadsSeen() int {
	s.mu.Lock()
	defer s.mu.Unlock()

	return s.reads
}

func (s *vp4Server) ArmWriteFault(k int, f vp4Fault) {
	s.mu.Lock()
	defer s.mu.Unlock()

	s.faults[s.writes+k] = f
}

func (s *vp4Server) DisarmFaults() {
	s.mu.Lock()
	defer s.mu.Unlock()

	s.faults = map[int]vp4Fault{}
}

func (s *vp4Server) Log() []vp4WriteRec {
	s.mu.Lock()
	defer s.mu.Unlock()

	return append([]vp4WriteRec(nil), s.log...)
}

func (s *vp4Server) TakeLog() []vp4WriteRec {
	s.mu.Lock()
	defer s.mu.Unlock()

	l := s.log
	s.log = nil

	return l
}

func (s *vp4Server) PacketOuts() [][]byte {
	s.mu.Lock()
	defer s.mu.Unlock()

	return append([][]byte(nil), s.pktOuts...)
}

func (s *vp4Server) PacketOutsSeen() int {
	s.mu.Lock()
	defer s.mu.Unlock()

	return len(s.pktOuts)
}

func (s *vp4Server) PacketOutRecs(from int) []vp4PktRec {
	s.mu.Lock()
	defer s.mu.Unlock()

	out := []vp4PktRec{}
	for i := from; i < len(s.pktOuts); i++ {
		out = append(out, vp4PktRec{Writes: s.pktW[i], Payload: append([]byte(nil), s.pktOuts[i]...)})
	}

	return out
}

func (s *vp4Server) Streams() int {
	s.mu.Lock()
	defer s.mu.Unlock()

	return len(s.streams)
}

func (s *vp4Server) SetCounterData(id uint32, index int64, bytes int64, packets int64) {
	s.mu.Lock()
	defer s.mu.Unlock()

	s.counters[vp4CellKey{id, index}] = &p4.CounterData{ByteCount: bytes, PacketCount: packets}
}

// ---------------------------------------------------------------------------------- decoding

func vp4Num(b []byte) string { return new(big.Int).SetBytes(b).String() }

func vp4Canon(b []byte) string {
	i := 0
	for i < len(b) && b[i] == 0 {
		i++
	}

	return hex.EncodeToString(b[i:])
}

func (s *vp4Server) tableByID(id uint32) *p4ConfigV1.Table {
	for _, t := range s.info.Tables {
		if t.Preamble.GetId() == id {
			return t
		}
	}

	return nil
}

func (s *vp4Server) actionByID(id uint32) *p4ConfigV1.Action {
	for _, a := range s.info.Actions {
		if a.Preamble.GetId() == id {
			return a
		}
	}

	return nil
}

func (s *vp4Server) meterName(id uint32) string {
	for _, m := range s.info.Meters {
		if m.Preamble.GetId() == id {
			return m.Preamble.GetName()
		}
	}

	return ""
}

func (s *vp4Server) counterName(id uint32) string {
	for _, c := range s.info.Counters {
		if c.Preamble.GetId() == id {
			return c.Preamble.GetName()
		}
	}

	return ""
}

func (s *vp4Server) decodeTableEntry(e *p4.TableEntry, r *vp4UpdateRec) {
	r.Kind = "table"
	r.TableID = e.GetTableId()
	r.Priority = e.GetPriority()
	r.IsDefault = e.GetIsDefaultAction()
	t := s.tableByID(e.GetTableId())

	if t != nil {
		r.TableName = t.Preamble.GetName()
	}

	for _, m := range e.GetMatch() {
		f := vp4FieldRec{ID: m.GetFieldId()}

		if t != nil {
			for _, mf := range t.MatchFields {
				if mf.GetId() == m.GetFieldId() {
					f.Name = mf.GetName()
				}
			}
		}

		switch x := m.GetFieldMatchType().(type) {
		case *p4.FieldMatch_Exact_:
			f.Kind, f.Value, f.NBytes, f.Hex = "exact", vp4Num(x.Exact.GetValue()), len(x.Exact.GetValue()), hex.EncodeToString(x.Exact.GetValue())
		case *p4.FieldMatch_Lpm:
			f.Kind, f.Value, f.NBytes, f.Hex = "lpm", vp4Num(x.Lpm.GetValue()), len(x.Lpm.GetValue()), hex.EncodeToString(x.Lpm.GetValue())
			f.Prefix = x.Lpm.GetPrefixLen()
		case *p4.FieldMatch_Ternary_:
			f.Kind, f.Value, f.NBytes, f.Hex = "ternary", vp4Num(x.Ternary.GetValue()), len(x.Ternary.GetValue()), hex.EncodeToString(x.Ternary.GetValue())
			f.Mask = vp4Num(x.Ternary.GetMask())
		case *p4.FieldMatch_Range_:
			f.Kind, f.Low, f.High, f.NBytes = "range", vp4Num(x.Range.GetLow()), vp4Num(x.Range.GetHigh()), len(x.Range.GetLow())
		case *p4.FieldMatch_Optional_:
			f.Kind, f.Value, f.NBytes, f.Hex = "optional", vp4Num(x.Optional.GetValue()), len(x.Optional.GetValue()), hex.EncodeToString(x.Optional.GetValue())
		case nil:
			f.Kind = "none"
		default:
			f.Kind = "other"
		}

		r.Match = append(r.Match, f)
	}

	switch {
	case e.GetAction() == nil:
		r.ActionKind = "none"
	case e.GetAction().GetAction() != nil:
		a := e.GetAction().GetAction()
		r.ActionKind = "action"
		r.ActionID = a.GetActionId()
		pa := s.actionByID(a.GetActionId())

		if pa != nil {
			r.ActionName = pa.Preamble.GetName()
		}

		for _, p := range a.GetParams() {
			pr := vp4ParamRec{ID: p.GetParamId(), Value: vp4Num(p.GetValue()), NBytes: len(p.GetValue())}

			if pa != nil {
				for _, pp := range pa.Params {
					if pp.GetId() == p.GetParamId() {
						pr.Name = pp.GetName()
					}
				}
			}

			r.Params = append(r.Params, pr)
		}
	default:
		r.ActionKind = "other"
	}
}

func (s *vp4Server) decodeEntity(ent *p4.Entity, r *vp4UpdateRec) {
	switch x := ent.GetEntity().(type) {
	case nil:
		r.Kind = "nil"
	case *p4.Entity_TableEntry:
		s.decodeTableEntry(x.TableEntry, r)
	case *p4.Entity_MeterEntry:
		r.Kind = "meter"
		r.MeterID = x.MeterEntry.GetMeterId()
		r.MeterName = s.meterName(r.MeterID)

		if x.MeterEntry.GetIndex() != nil {
			r.HasIndex, r.Index = true, x.MeterEntry.GetIndex().GetIndex()
		}

		if c := x.MeterEntry.GetConfig(); c != nil {
			r.Config = &vp4MeterCfg{Cir: c.GetCir(), Cburst: c.GetCburst(), Pir: c.GetPir(), Pburst: c.GetPburst()}
		}
	case *p4.Entity_CounterEntry:
		r.Kind = "counter"
		r.CounterID = x.CounterEntry.GetCounterId()
		r.CounterName = s.counterName(r.CounterID)

		if x.CounterEntry.GetIndex() != nil {
			r.HasIndex, r.Index = true, x.CounterEntry.GetIndex().GetIndex()
		}

		if d := x.CounterEntry.GetData(); d != nil {
			r.Data = &vp4CounterData{Bytes: d.GetByteCount(), Packets: d.GetPacketCount()}
		}
	default:
		r.Kind = fmt.Sprintf("other:%T", x)
	}
}

// vp4MatchKey is the canonical match key of an entry: fields sorted by id, leading zero bytes stripped.
func vp4MatchKey(e *p4.TableEntry) string {
	parts := make([]string, 0, len(e.GetMatch()))

	for _, m := range e.GetMatch() {
		var k string

		switch x := m.GetFieldMatchType().(type) {
		case *p4.FieldMatch_Exact_:
			k = "e:" + vp4Canon(x.Exact.GetValue())
		case *p4.FieldMatch_Lpm:
			k = fmt.Sprintf("l:%s/%d", vp4Canon(x.Lpm.GetValue()), x.Lpm.GetPrefixLen())
		case *p4.FieldMatch_Ternary_:
			k = "t:" + vp4Canon(x.Ternary.GetValue()) + "&" + vp4Canon(x.Ternary.GetMask())
		case *p4.FieldMatch_Range_:
			k = "r:" + vp4Canon(x.Range.GetLow()) + "-" + vp4Canon(x.Range.GetHigh())
		case *p4.FieldMatch_Optional_:
			k = "o:" + vp4Canon(x.Optional.GetValue())
		default:
			k = "?"
		}

		parts = append(parts, fmt.Sprintf("%010d=%s", m.GetFieldId(), k))
	}

	sort.Strings(parts)

	return strings.Join(parts, ";")
}

func vp4EntryKey(e *p4.TableEntry) string {
	return fmt.Sprintf("%s|p%d", vp4MatchKey(e), e.GetPriority())
}

// ---------------------------------------------------------------------------------- Write

func (s *vp4Server) applyUpdate(u *p4.Update) codes.Code {
	if u == nil || u.GetEntity() == nil || u.GetEntity().GetEntity() == nil {
		return codes.InvalidArgument
	}

	switch x := u.GetEntity().GetEntity().(type) {
	case *p4.Entity_TableEntry:
		e := x.TableEntry
		tbl := s.tables[e.GetTableId()]
		key := vp4EntryKey(e)
		_, exists := tbl[key]

		switch u.GetType() {
		case p4.Update_INSERT:
			if exists {
				return codes.AlreadyExists
			}

			if tbl == nil {
				tbl = map[string]*p4.TableEntry{}
				s.tables[e.GetTableId()] = tbl
			}

			tbl[key] = proto.Clone(e).(*p4.TableEntry)
		case p4.Update_MODIFY:
			if !exists {
				return codes.NotFound
			}

			tbl[key] = proto.Clone(e).(*p4.TableEntry)
		case p4.Update_DELETE:
			if !exists {
				return codes.NotFound
			}

			delete(tbl, key)
		default:
			return codes.InvalidArgument
		}

		return codes.OK
	case *p4.Entity_MeterEntry:
		if u.GetType() != p4.Update_MODIFY {
			return codes.InvalidArgument
		}

		m := x.MeterEntry
		if m.GetIndex() == nil {
			// wildcard write: every cell of the meter
			if m.GetConfig() != nil {
				return codes.Unimplemented
			}

			for k := range s.meters {
				if k.id == m.GetMeterId() {
					delete(s.meters, k)
				}
			}

			return codes.OK
		}

		k := vp4CellKey{m.GetMeterId(), m.GetIndex().GetIndex()}
		if m.GetConfig() == nil {
			delete(s.meters, k)
		} else {
			s.meters[k] = proto.Clone(m.GetConfig()).(*p4.MeterConfig)
		}

		return codes.OK
	case *p4.Entity_CounterEntry:
		if u.GetType() != p4.Update_MODIFY {
			return codes.InvalidArgument
		}

		c := x.CounterEntry
		if c.GetIndex() == nil {
			for k := range s.counters {
				if k.id == c.GetCounterId() {
					s.counters[k] = &p4.CounterData{}
				}
			}

			return codes.OK
		}

		d := &p4.CounterData{}
		if c.GetData() != nil {
			d = proto.Clone(c.GetData()).(*p4.CounterData)
		}

		s.counters[vp4CellKey{c.GetCounterId(), c.GetIndex().GetIndex()}] = d

		return codes.OK
	default:
		return codes.Unimplemented
	}
}

func vp4DetailError(perUpdate []codes.Code, msg string) error {
	st := &rpcstatus.Status{Code: int32(codes.Unknown), Message: msg}
	stt := status.FromProto(st)

	details := make([]*p4.Error, 0, len(perUpdate))
	for _, c := range perUpdate {
		details = append(details, &p4.Error{CanonicalCode: int32(c), Message: c.String(), Space: "vp4"})
	}

	for _, d := range details {
		var err error

		stt, err = stt.WithDetails(d)
		if err != nil {
			return status.Error(codes.Internal, "vp4: cannot attach details: "+err.Error())
		}
	}

	return stt.Err()
}

// ---------------------------------------------------------------------------------- holding Writes back

func (s *vp4Server) HoldWrites(h vp4Hold) int {
	s.mu.Lock()
	defer s.mu.Unlock()

	if s.holds == nil {
		s.holds = map[int]*vp4HoldState{}
	}

	s.holdSeq++
	s.holds[s.holdSeq] = &vp4HoldState{h: h, release: make(chan struct{})}

	return s.holdSeq
}

func (s *vp4Server) ReleaseHold(id int) {
	s.mu.Lock()
	defer s.mu.Unlock()

	if st, ok := s.holds[id]; ok {
		close(st.release)
		delete(s.holds, id)
	}
}

func (s *vp4Server) ReleaseHolds() {
	s.mu.Lock()
	defer s.mu.Unlock()

	for id, st := range s.holds {
		close(st.release)
		delete(s.holds, id)
	}
}

func (s *vp4Server) Held() int {
	s.mu.Lock()
	defer s.mu.Unlock()

	return s.heldNow
}

func (s *vp4Server) HeldTotal() int {
	s.mu.Lock()
	defer s.mu.Unlock()

	return s.heldAll
}

func (s *vp4Server) WaitHeld(n int, ms int) bool {
	deadline := time.Now().Add(time.Duration(ms) * time.Millisecond)
	for time.Now().Before(deadline) {
		if s.HeldTotal() >= n {
			return true
		}

		time.Sleep(200 * time.Microsecond)
	}

	return s.HeldTotal() >= n
}

// holdFor returns the hold (if any) that catches this request; called with s.mu held.
func (s *vp4Server) holdFor(req *p4.WriteRequest) *vp4HoldState {
	ids := make([]int, 0, len(s.holds))
	for id := range s.holds {
		ids = append(ids, id)
	}

	sort.Ints(ids)

	for _, id := range ids {
		st := s.holds[id]
		if st.spent {
			continue
		}

		for _, u := range req.GetUpdates() {
			te := u.GetEntity().GetTableEntry()
			if te == nil {
				continue
			}

			if st.h.Type != "" && u.GetType().String() != st.h.Type {
				continue
			}

			if st.h.Table != "" {
				t := s.tableByID(te.GetTableId())
				if t == nil || !(strings.HasSuffix(t.GetPreamble().GetName(), st.h.Table) || strings.HasSuffix(t.GetPreamble().GetAlias(), st.h.Table)) {
					continue
				}
			}

			st.caught++
			if st.h.Count > 0 && st.caught >= st.h.Count {
				st.spent = true
			}

			return st
		}
	}

	return nil
}

func (s *vp4Server) Write(_ context.Context, req *p4.WriteRequest) (*p4.WriteResponse, error) {
	s.mu.Lock()

	if st := s.holdFor(req); st != nil {
		s.heldNow++
		s.heldAll++
		s.mu.Unlock()

		ms := st.h.MaxMs
		if ms == 0 {
			ms = 5000
		}

		select {
		case <-st.release:
		case <-time.After(time.Duration(ms) * time.Millisecond):
		}

		s.mu.Lock()
		s.heldNow--
	}

	defer s.mu.Unlock()

	s.writes++
	rec := vp4WriteRec{Seq: s.writes, Updates: make([]vp4UpdateRec, 0, len(req.GetUpdates()))}

	for _, u := range req.GetUpdates() {
		r := vp4UpdateRec{Type: "nil"}
		if u != nil {
			r.Type = u.GetType().String()
			s.decodeEntity(u.GetEntity(), &r)
		} else {
			r.Kind = "nil"
		}

		rec.Updates = append(rec.Updates, r)
	}

	if f, ok := s.faults[s.writes]; ok {
		delete(s.faults, s.writes)

		rec.Faulted = true

		var err error

		if f.Kind == "p4" {
			per := make([]codes.Code, len(req.GetUpdates()))
			for i := range per {
				per[i] = f.Code
				if i < len(f.PerUpdate) {
					per[i] = f.PerUpdate[i]
				}

				rec.Updates[i].Status = int32(per[i])
			}

			rec.Code = int32(codes.Unknown)
			err = vp4DetailError(per, "vp4 injected fault "+f.Msg)
		} else {
			c := f.Code
			if c == codes.OK {
				c = codes.Unavailable
			}

			rec.Code = int32(c)
			err = status.Error(c, "vp4 injected fault "+f.Msg)
		}

		s.log = append(s.log, rec)

		return nil, err
	}

	per := make([]codes.Code, len(req.GetUpdates()))
	bad := false

	for i, u := range req.GetUpdates() {
		per[i] = s.applyUpdate(u)
		rec.Updates[i].Status = int32(per[i])

		if per[i] != codes.OK {
			bad = true
		}
	}

	if bad {
		rec.Code = int32(codes.Unknown)
		s.log = append(s.log, rec)

		return nil, vp4DetailError(per, "vp4: some updates failed")
	}

	s.log = append(s.log, rec)

	return &p4.WriteResponse{}, nil
}

// ---------------------------------------------------------------------------------- Read

func (s *vp4Server) sortedEntries(tableID uint32) []*p4.TableEntry {
	tbl := s.tables[tableID]
	keys := make([]string, 0, len(tbl))

	for k := range tbl {
		keys = append(keys, k)
	}

	sort.Strings(keys)

	out := make([]*p4.TableEntry, 0, len(keys))
	for _, k := range keys {
		out = append(out, proto.Clone(tbl[k]).(*p4.TableEntry))
	}

	return out
}

func (s *vp4Server) sortedTableIDs() []uint32 {
	ids := make([]uint32, 0, len(s.tables))
	for id := range s.tables {
		ids = append(ids, id)
	}

	sort.Slice(ids, func(i, j int) bool { return ids[i] < ids[j] })

	return ids
}

func (s *vp4Server) sortedCells(m map[vp4CellKey]struct{}) []vp4CellKey {
	ks := make([]vp4CellKey, 0, len(m))
	for k := range m {
		ks = append(ks, k)
	}

	sort.Slice(ks, func(i, j int) bool {
		if ks[i].id != ks[j].id {
			return ks[i].id < ks[j].id
		}

		return ks[i].index < ks[j].index
	})

	return ks
}

func (s *vp4Server) Read(req *p4.ReadRequest, srv p4.P4Runtime_ReadServer) error {
	s.mu.Lock()
	s.reads++

	resp := &p4.ReadResponse{}

	for _, ent := range req.GetEntities() {
		switch x := ent.GetEntity().(type) {
		case *p4.Entity_TableEntry:
			q := x.TableEntry
			ids := []uint32{q.GetTableId()}

			if q.GetTableId() == 0 {
				ids = s.sortedTableIDs()
			}

			for _, id := range ids {
				for _, e := range s.sortedEntries(id) {
					if len(q.GetMatch()) != 0 {
						if vp4MatchKey(e) != vp4MatchKey(q) {
							continue
						}

						if q.GetPriority() != 0 && q.GetPriority() != e.GetPriority() {
							continue
						}
					}

					resp.Entities = append(resp.Entities, &p4.Entity{Entity: &p4.Entity_TableEntry{TableEntry: e}})
				}
			}
		case *p4.Entity_CounterEntry:
			q := x.CounterEntry
			cells := map[vp4CellKey]struct{}{}

			for k := range s.counters {
				if (q.GetCounterId() == 0 || k.id == q.GetCounterId()) && (q.GetIndex() == nil || k.index == q.GetIndex().GetIndex()) {
					cells[k] = struct{}{}
				}
			}

			if q.GetCounterId() != 0 && q.GetIndex() != nil {
				cells[vp4CellKey{q.GetCounterId(), q.GetIndex().GetIndex()}] = struct{}{}
			}

			for _, k := range s.sortedCells(cells) {
				d := s.counters[k]
				if d == nil {
					d = &p4.CounterData{}
				}

				resp.Entities = append(resp.Entities, &p4.Entity{Entity: &p4.Entity_CounterEntry{CounterEntry: &p4.CounterEntry{
					CounterId: k.id, Index: &p4.Index{Index: k.index}, Data: proto.Clone(d).(*p4.CounterData)}}})
			}
		case *p4.Entity_MeterEntry:
			q := x.MeterEntry
			cells := map[vp4CellKey]struct{}{}

			for k := range s.meters {
				if (q.GetMeterId() == 0 || k.id == q.GetMeterId()) && (q.GetIndex() == nil || k.index == q.GetIndex().GetIndex()) {
					cells[k] = struct{}{}
				}
			}

			if q.GetMeterId() != 0 && q.GetIndex() != nil {
				cells[vp4CellKey{q.GetMeterId(), q.GetIndex().GetIndex()}] = struct{}{}
			}

			for _, k := range s.sortedCells(cells) {
				me := &p4.MeterEntry{MeterId: k.id, Index: &p4.Index{Index: k.index}}
				if c := s.meters[k]; c != nil {
					me.Config = proto.Clone(c).(*p4.MeterConfig)
				}

				resp.Entities = append(resp.Entities, &p4.Entity{Entity: &p4.Entity_MeterEntry{MeterEntry: me}})
			}
		default:
			s.mu.Unlock()
			return status.Errorf(codes.Unimplemented, "vp4: Read of %T not implemented", x)
		}
	}

	s.mu.Unlock()

	return srv.Send(resp)
}

// ---------------------------------------------------------------------------------- pipeline config, capabilities

func (s *vp4Server) GetForwardingPipelineConfig(_ context.Context, req *p4.GetForwardingPipelineConfigRequest) (*p4.GetForwardingPipelineConfigResponse, error) {
	s.mu.Lock()
	defer s.mu.Unlock()

	cfg := &p4.ForwardingPipelineConfig{Cookie: &p4.ForwardingPipelineConfig_Cookie{Cookie: s.cookie}}
	if req.GetResponseType() != p4.GetForwardingPipelineConfigRequest_COOKIE_ONLY {
		cfg.P4Info = proto.Clone(s.info).(*p4ConfigV1.P4Info)
	}

	return &p4.GetForwardingPipelineConfigResponse{Config: cfg}, nil
}

func (s *vp4Server) SetForwardingPipelineConfig(_ context.Context, req *p4.SetForwardingPipelineConfigRequest) (*p4.SetForwardingPipelineConfigResponse, error) {
	s.mu.Lock()
	defer s.mu.Unlock()

	if req.GetConfig().GetP4Info() != nil && req.GetAction() != p4.SetForwardingPipelineConfigRequest_VERIFY {
		s.info = proto.Clone(req.GetConfig().GetP4Info()).(*p4ConfigV1.P4Info)
		s.cookie++
	}

	return &p4.SetForwardingPipelineConfigResponse{}, nil
}

func (s *vp4Server) Capabilities(context.Context, *p4.CapabilitiesRequest) (*p4.CapabilitiesResponse, error) {
	return &p4.CapabilitiesResponse{P4RuntimeApiVersion: "1.3.0"}, nil
}

// ---------------------------------------------------------------------------------- StreamChannel

func (s *vp4Server) StreamChannel(srv p4.P4Runtime_StreamChannelServer) error {
	st := &vp4Stream{s: srv}

	s.mu.Lock()
	s.streams[st] = struct{}{}
	s.mu.Unlock()

	defer func() {
		s.mu.Lock()
		delete(s.streams, st)
		s.mu.Unlock()
	}()

	for {
		req, err := srv.Recv()
		if err != nil {
			return nil
		}

		switch x := req.GetUpdate().(type) {
		case *p4.StreamMessageRequest_Arbitration:
			resp := &p4.StreamMessageResponse{Update: &p4.StreamMessageResponse_Arbitration{Arbitration: &p4.MasterArbitrationUpdate{
				DeviceId:   x.Arbitration.GetDeviceId(),
				Role:       x.Arbitration.GetRole(),
				ElectionId: x.Arbitration.GetElectionId(),
				Status:     &rpcstatus.Status{Code: int32(code.Code_OK), Message: "primary"},
			}}}

			st.mu.Lock()
			err = srv.Send(resp)
			st.mu.Unlock()

			if err != nil {
				return err
			}
		case *p4.StreamMessageRequest_Packet:
			s.mu.Lock()
			s.pktOuts = append(s.pktOuts, append([]byte(nil), x.Packet.GetPayload()...))
			s.pktW = append(s.pktW, s.writes)
			s.mu.Unlock()
		default:
			// digest acks and anything else: ignored
		}
	}
}

func (s *vp4Server) InjectDigest(list *p4.DigestList) int {
	s.mu.Lock()
	sts := make([]*vp4Stream, 0, len(s.streams))

	for st := range s.streams {
		sts = append(sts, st)
	}
	s.mu.Unlock()

	n := 0

	for _, st := range sts {
		st.mu.Lock()
		err := st.s.Send(&p4.StreamMessageResponse{Update: &p4.StreamMessageResponse_Digest{Digest: proto.Clone(list).(*p4.DigestList)}})
		st.mu.Unlock()

		if err == nil {
			n++
		}
	}

	return n
}

// InjectDDN sends the downlink-data-notification digest of the UP4 pipeline: one bitstring holding the UE address.
func (s *vp4Server) InjectDDN(ueAddr uint32) int {
	b := make([]byte, 4)
	binary.BigEndian.PutUint32(b, ueAddr)

	var digestID uint32

	s.mu.Lock()
	for _, d := range s.info.Digests {
		digestID = d.Preamble.GetId()
	}
	s.mu.Unlock()

	return s.InjectDigest(&p4.DigestList{DigestId: digestID, ListId: 1,
		Data: []*p4.P4Data{{Data: &p4.P4Data_Bitstring{Bitstring: b}}}})
}

// ---------------------------------------------------------------------------------- snapshots

func (s *vp4Server) TableEntries(tableID uint32) []*p4.TableEntry {
	s.mu.Lock()
	defer s.mu.Unlock()

	return s.sortedEntries(tableID)
}

func (s *vp4Server) Tables() []vp4UpdateRec {
	s.mu.Lock()
	defer s.mu.Unlock()

	out := []vp4UpdateRec{}

	for _, id := range s.sortedTableIDs() {
		for _, e := range s.sortedEntries(id) {
			r := vp4UpdateRec{}
			s.decodeTableEntry(e, &r)
			sort.SliceStable(r.Match, func(i, j int) bool { return r.Match[i].ID < r.Match[j].ID })
			out = append(out, r)
		}
	}

	return out
}

func (s *vp4Server) Meters() []vp4UpdateRec {
	s.mu.Lock()
	defer s.mu.Unlock()

	cells := map[vp4CellKey]struct{}{}
	for k := range s.meters {
		cells[k] = struct{}{}
	}

	out := []vp4UpdateRec{}

	for _, k := range s.sortedCells(cells) {
		c := s.meters[k]
		out = append(out, vp4UpdateRec{Kind: "meter", MeterID: k.id, MeterName: s.meterName(k.id), HasIndex: true, Index: k.index,
			Config: &vp4MeterCfg{Cir: c.GetCir(), Cburst: c.GetCburst(), Pir: c.GetPir(), Pburst: c.GetPburst()}})
	}

	return out
}

func (s *vp4Server) Counters() []vp4UpdateRec {
	s.mu.Lock()
	defer s.mu.Unlock()

	cells := map[vp4CellKey]struct{}{}
	for k := range s.counters {
		cells[k] = struct{}{}
	}

	out := []vp4UpdateRec{}

	for _, k := range s.sortedCells(cells) {
		d := s.counters[k]
		out = append(out, vp4UpdateRec{Kind: "counter", CounterID: k.id, CounterName: s.counterName(k.id), HasIndex: true, Index: k.index,
			Data: &vp4CounterData{Bytes: d.GetByteCount(), Packets: d.GetPacketCount()}})
	}

	return out
}

// ---------------------------------------------------------------------------------- a real UP4 connected to the server

type vp4UP4Opts struct {
	AccessIP            string // CIDR, default "198.18.0.1/32"
	UEIPPool            string // CIDR, default "10.250.0.0/16"
	SliceID             uint8
	DefaultTC           uint8
	QFIToTC             map[uint8]uint8
	ClearStateOnRestart bool
	EnableEndMarker     bool
	WaitMs              int // how long to wait for the connection, default 5000
}

// vp4NewUP4 builds the real UP4 plug-in and a `upf` around it, lets it connect to srv (SetUpfInfo spawns
// keepTryingToConnect: arbitration, GetForwardingPipelineConfig, clearTables, pools, initInterfaces) and returns
// once u.isConnected() holds.  The Write log of srv then already contains the start-up writes.
func vp4NewUP4(srv *vp4Server, o vp4UP4Opts) (*UP4, *upf, error) {
	if o.AccessIP == "" {
		o.AccessIP = "198.18.0.1/32"
	}

	if o.UEIPPool == "" {
		o.UEIPPool = "10.250.0.0/16"
	}

	if o.WaitMs == 0 {
		o.WaitMs = 5000
	}

	// SetUpfInfo lets these command-line flags override the configuration
	*p4RtcServerIP = ""
	*p4RtcServerPort = ""

	conf := &Conf{
		EnableP4rt:      true,
		EnableEndMarker: o.EnableEndMarker,
		CPIface:         CPIfaceInfo{UEIPPool: o.UEIPPool},
		P4rtcIface: P4rtcInfo{
			SliceID:             o.SliceID,
			AccessIP:            o.AccessIP,
			P4rtcServer:         "127.0.0.1",
			P4rtcPort:           srv.Port(),
			QFIToTC:             o.QFIToTC,
			DefaultTC:           o.DefaultTC,
			ClearStateOnRestart: o.ClearStateOnRestart,
		},
	}

	up4 := &UP4{}
	u := &upf{
		enableEndMarker:  o.EnableEndMarker,
		ippoolCidr:       o.UEIPPool,
		reportNotifyChan: make(chan uint64, 1024),
		fteidGenerator:   NewFTEIDGenerator(),
		datapath:         up4,
		maxReqRetries:    5,
		respTimeout:      2 * time.Second,
		readTimeout:      15 * time.Second,
	}

	up4.SetUpfInfo(u, conf)

	deadline := time.Now().Add(time.Duration(o.WaitMs) * time.Millisecond)
	for !u.isConnected() {
		if time.Now().After(deadline) {
			return nil, nil, fmt.Errorf("vp4NewUP4: UP4 did not connect to %s within %d ms", srv.Addr(), o.WaitMs)
		}

		time.Sleep(2 * time.Millisecond)
	}

	return up4, u, nil
}

// ---------------------------------------------------------------------------------- self-test mode

// Mode "vp4_selftest": one input line {} -> observations that show the server semantics documented above
// against the real client code of p4rtc.go (usage example for the other harness files).
func init() {
	verifRegister("vp4_selftest", func(_ json.RawMessage) (interface{}, error) {
		out := map[string]interface{}{}

		srv, err := vp4Start(vp4Opts{Sizes: map[string]int64{"PreQosPipe.app_meter": 8, "pre_qos_counter": 4}})
		if err != nil {
			return nil, err
		}

		up4, u, err := vp4NewUP4(srv, vp4UP4Opts{SliceID: 3, DefaultTC: 2})
		if err != nil {
			return nil, err
		}

		out["connected"] = u.isConnected()
		out["startup_log"] = srv.Log()
		out["startup_tables"] = srv.Tables()
		out["app_meter_pool"] = up4.appMeterCellIDsPool.Cardinality()
		out["counter_pool"] = up4.counters[preQosCounterID].counterIDsPool.Cardinality()

		// duplicate insert through the real client: ALREADY_EXISTS comes back as *P4RuntimeError
		e, err := up4.p4RtTranslator.BuildGTPTunnelPeerTableEntry(7, tunnelParams{1, 2, 2152})
		if err != nil {
			return nil, err
		}

		out["insert1"] = fmt.Sprint(up4.p4client.ApplyTableEntries(p4.Update_INSERT, e))
		err = up4.p4client.ApplyTableEntries(p4.Update_INSERT, e, e)
		pe, isP4 := err.(*P4RuntimeError)
		out["insert2_is_p4err"] = isP4

		if isP4 {
			cs := []int32{}
			for _, x := range pe.Get() {
				cs = append(cs, x.GetCanonicalCode())
			}

			out["insert2_codes"] = cs
		}

		out["delete_missing"] = fmt.Sprint(up4.p4client.ApplyTableEntries(p4.Update_DELETE, &p4.TableEntry{TableId: e.TableId}))

		// fault injection: 1st write from now fails with Unavailable, 2nd with a p4 error list, 3rd passes
		before := srv.WritesSeen()
		srv.ArmWriteFault(1, vp4Fault{Kind: "grpc", Code: codes.Unavailable})
		srv.ArmWriteFault(2, vp4Fault{Kind: "p4", Code: codes.ResourceExhausted})
		err = up4.p4client.ApplyTableEntries(p4.Update_DELETE, e)
		_, isP4 = err.(*P4RuntimeError)
		out["fault1"] = map[string]interface{}{"err": err != nil, "is_p4err": isP4, "code": status.Code(err).String()}
		err = up4.p4client.ApplyTableEntries(p4.Update_DELETE, e)
		pe, isP4 = err.(*P4RuntimeError)
		f2 := map[string]interface{}{"err": err != nil, "is_p4err": isP4}

		if isP4 && len(pe.Get()) == 1 {
			f2["code"] = pe.Get()[0].GetCanonicalCode()
		}

		out["fault2"] = f2
		out["tunnel_peers_after_faults"] = len(srv.TableEntries(e.TableId))
		out["fault3"] = fmt.Sprint(up4.p4client.ApplyTableEntries(p4.Update_DELETE, e))
		out["tunnel_peers_after_delete"] = len(srv.TableEntries(e.TableId))
		out["writes_during_faults"] = srv.WritesSeen() - before

		// meters and counters
		cfg := &p4.MeterConfig{Pir: 5, Pburst: 6}
		_ = up4.p4client.ApplyMeterEntries(p4.Update_MODIFY, up4.p4RtTranslator.BuildMeterEntry(338231090, 3, cfg))
		out["meters1"] = srv.Meters()
		_ = up4.p4client.ApplyMeterEntries(p4.Update_MODIFY, up4.p4RtTranslator.BuildMeterEntry(338231090, 3, nil))
		out["meters2"] = len(srv.Meters())
		_ = up4.resetCounter(pdr{ctrID: 2})
		out["counters"] = srv.Counters()

		// read back with wildcard, as ClearTables does
		rr, err := up4.p4client.ReadTableEntry(&p4.TableEntry{TableId: 33923840})
		if err != nil {
			return nil, err
		}

		out["read_interfaces"] = len(rr.GetEntities())

		// digest
		up4.ueAddrToFSEID[0x0afa0001] = 77
		out["ddn_streams"] = srv.InjectDDN(0x0afa0001)

		select {
		case f := <-u.reportNotifyChan:
			out["ddn_fseid"] = f
		case <-time.After(2 * time.Second):
			out["ddn_fseid"] = "timeout"
		}

		// restart: a second UP4 on the same server clears the tables and re-installs the interfaces
		srv.ResetLog()

		if _, _, err = vp4NewUP4(srv, vp4UP4Opts{SliceID: 1}); err != nil {
			return nil, err
		}

		out["restart_log"] = srv.Log()
		out["streams"] = srv.Streams()

		return out, nil
	})
}
