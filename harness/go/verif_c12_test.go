//go:build verif

// C12 - association, heartbeat and retransmission contract.
// Two levels, one mode ("c12"), selected by the "kind" field of the input object:
//
//	"sync"   a PFCPConn struct literal, HandlePFCPMsg(bytes) for Heartbeat / Association Setup Requests
//	         built with go-pfcp, replies captured by an in-memory net.Conn and decoded again;
//	"timing" the real sendAssociationRequest / startHeartBeatMonitor / sendPFCPRequestMessage run in
//	         goroutines with millisecond timers against a scripted lossy peer; every transmission,
//	         every datagram handed to HandlePFCPMsg (when called, when returned), the teardown and
//	         the datapath deletes are logged with monotonic timestamps.  No verdicts here.
package pfcpiface

import (
	"context"
	"encoding/json"
	"math/rand"
	"net"
	"sync"
	"sync/atomic"
	"time"

	"github.com/prometheus/client_golang/prometheus"
	"github.com/wmnsk/go-pfcp/ie"
	"github.com/wmnsk/go-pfcp/message"

	"github.com/omec-project/upf-epc/pfcpiface/metrics"
)

// ---------------------------------------------------------------------------- fakes

type c12Metrics struct{}

func (c12Metrics) SaveMessages(m *metrics.Message) {}
func (c12Metrics) SaveSessions(s *metrics.Session) {}
func (c12Metrics) Stop() error                     { return nil }

type c12Datapath struct {
	connected   atomic.Bool
	isConnCalls atomic.Int64
	delCalls    atomic.Int64
	onDel       func()
	delDelay    time.Duration // a datapath whose deletes take time (gRPC round trips in production)
}

func (d *c12Datapath) Exit()                                        {}
func (d *c12Datapath) SetUpfInfo(u *upf, conf *Conf)                {}
func (d *c12Datapath) AddSliceInfo(sliceInfo *SliceInfo) error      { return nil }
func (d *c12Datapath) SendEndMarkers(endMarkerList *[][]byte) error { return nil }
func (d *c12Datapath) SendMsgToUPF(method upfMsgType, all PacketForwardingRules, newRules PacketForwardingRules) uint8 {
	if method == upfMsgTypeDel {
		d.delCalls.Add(1)
		if d.onDel != nil {
			d.onDel()
		}
		if d.delDelay > 0 {
			time.Sleep(d.delDelay)
		}
	}
	return 0
}
func (d *c12Datapath) IsConnected(accessIP *net.IP) bool {
	d.isConnCalls.Add(1)
	return d.connected.Load()
}
func (d *c12Datapath) SummaryLatencyJitter(uc *upfCollector, ch chan<- prometheus.Metric) {}
func (d *c12Datapath) PortStats(uc *upfCollector, ch chan<- prometheus.Metric)            {}
func (d *c12Datapath) SummaryGtpuLatency(uc *upfCollector, ch chan<- prometheus.Metric)   {}
func (d *c12Datapath) SessionStats(pc *PfcpNodeCollector, ch chan<- prometheus.Metric) error {
	return nil
}

type c12NetConn struct {
	mu      sync.Mutex
	closed  bool
	closeCh chan struct{}
	onWrite func(b []byte)
	onClose func()
}

func c12NewNetConn() *c12NetConn { return &c12NetConn{closeCh: make(chan struct{})} }

func (c *c12NetConn) Read(b []byte) (int, error) {
	<-c.closeCh
	return 0, net.ErrClosed
}
func (c *c12NetConn) Write(b []byte) (int, error) {
	c.mu.Lock()
	closed := c.closed
	c.mu.Unlock()
	if closed {
		return 0, net.ErrClosed
	}
	if c.onWrite != nil {
		c.onWrite(append([]byte(nil), b...))
	}
	return len(b), nil
}
func (c *c12NetConn) Close() error {
	c.mu.Lock()
	defer c.mu.Unlock()
	if c.closed {
		return net.ErrClosed
	}
	c.closed = true
	close(c.closeCh)
	if c.onClose != nil {
		c.onClose()
	}
	return nil
}
func (c *c12NetConn) LocalAddr() net.Addr {
	return &net.UDPAddr{IP: net.IPv4(198, 18, 0, 1), Port: 8805}
}
func (c *c12NetConn) RemoteAddr() net.Addr {
	return &net.UDPAddr{IP: net.IPv4(198, 18, 0, 2), Port: 8805}
}
func (c *c12NetConn) SetDeadline(t time.Time) error      { return nil }
func (c *c12NetConn) SetReadDeadline(t time.Time) error  { return nil }
func (c *c12NetConn) SetWriteDeadline(t time.Time) error { return nil }

type c12Cfg struct {
	Ueip      bool   `json:"ueip"`
	EndMarker bool   `json:"end_marker"`
	HB        bool   `json:"hb"`
	Dnn       string `json:"dnn"`
}

func c12NewConn(ctx context.Context, cfg c12Cfg, nc *c12NetConn, dp *c12Datapath, tsLocal int64,
	n uint8, respTimeout, hbInterval time.Duration) *PFCPConn {
	u := &upf{
		enableUeIPAlloc: cfg.Ueip,
		enableEndMarker: cfg.EndMarker,
		enableHBTimer:   cfg.HB,
		dnn:             cfg.Dnn,
		accessIP:        net.ParseIP("198.18.0.1"),
		coreIP:          net.ParseIP("198.19.0.1"),
		datapath:        dp,
		fteidGenerator:  NewFTEIDGenerator(),
		maxReqRetries:   n,
		respTimeout:     respTimeout,
		hbInterval:      hbInterval,
		readTimeout:     time.Hour,
	}
	p := &PFCPConn{
		ctx:            ctx,
		Conn:           nc,
		ts:             recoveryTS{local: time.Unix(tsLocal, 0)},
		rng:            rand.New(rand.NewSource(1)),
		maxRetries:     100,
		store:          NewInMemoryStore(),
		upf:            u,
		done:           nil,
		shutdown:       make(chan struct{}),
		InstrumentPFCP: c12Metrics{},
		hbReset:        make(chan struct{}, 100),
	}
	p.setLocalNodeID("")
	return p
}

// ---------------------------------------------------------------------------- decoding

type c12Msg struct {
	Type  string `json:"type"`
	Seq   uint32 `json:"seq"`
	TS    int64  `json:"ts"`    // Recovery Time Stamp, unix seconds; -1 absent
	Cause int    `json:"cause"` // -1 absent
	Feat  []int  `json:"feat"`  // UP Function Features octets
	FTUP  bool   `json:"ftup"`  // go-pfcp's own accessors
	UEIP  bool   `json:"ueip"`
	EMPU  bool   `json:"empu"`
	Flags int    `json:"flags"` // first octet of User Plane IP Resource Information; -1 absent
	Node  string `json:"node"`
	Err   string `json:"err,omitempty"`
}

func c12TS(i *ie.IE) int64 {
	if i == nil {
		return -1
	}
	t, err := i.RecoveryTimeStamp()
	if err != nil {
		return -2
	}
	return t.Unix()
}

func c12Decode(b []byte) c12Msg {
	out := c12Msg{TS: -1, Cause: -1, Flags: -1, Feat: []int{}}
	m, err := message.Parse(b)
	if err != nil {
		out.Err = err.Error()
		return out
	}
	out.Type = m.MessageTypeName()
	out.Seq = m.Sequence()
	switch x := m.(type) {
	case *message.HeartbeatRequest:
		out.TS = c12TS(x.RecoveryTimeStamp)
	case *message.HeartbeatResponse:
		out.TS = c12TS(x.RecoveryTimeStamp)
	case *message.AssociationSetupRequest:
		out.TS = c12TS(x.RecoveryTimeStamp)
		c12Assoc(&out, x.NodeID, nil, x.UPFunctionFeatures, x.UserPlaneIPResourceInformation)
	case *message.AssociationSetupResponse:
		out.TS = c12TS(x.RecoveryTimeStamp)
		c12Assoc(&out, x.NodeID, x.Cause, x.UPFunctionFeatures, x.UserPlaneIPResourceInformation)
	}
	return out
}

func c12Assoc(out *c12Msg, node, cause, feat *ie.IE, upiri []*ie.IE) {
	if node != nil {
		out.Node, _ = node.NodeID()
	}
	if cause != nil {
		if c, err := cause.Cause(); err == nil {
			out.Cause = int(c)
		}
	}
	if feat != nil {
		for _, o := range feat.Payload {
			out.Feat = append(out.Feat, int(o))
		}
		out.FTUP, out.UEIP, out.EMPU = feat.HasFTUP(), feat.HasUEIP(), feat.HasEMPU()
	}
	if len(upiri) > 0 && len(upiri[0].Payload) > 0 {
		out.Flags = int(upiri[0].Payload[0])
	}
}

func c12Marshal(m message.Message) []byte {
	b := make([]byte, m.MarshalLen())
	if err := m.MarshalTo(b); err != nil {
		panic(err)
	}
	return b
}

// ---------------------------------------------------------------------------- synchronous level

type c12Step struct {
	Op        string `json:"op"` // "hb" | "setup"
	Seq       uint32 `json:"seq"`
	Connected bool   `json:"connected"`
	Node      string `json:"node"` // "" = no Node ID IE
	TS        int64  `json:"ts"`   // unix seconds; < 0 = no Recovery Time Stamp IE
}

type c12SyncIn struct {
	Cfg     c12Cfg    `json:"cfg"`
	TSLocal int64     `json:"ts_local"`
	Steps   []c12Step `json:"steps"`
}

type c12StepOut struct {
	Replies     []c12Msg `json:"replies"`
	ResetsLen   int      `json:"resets_len"` // tokens in hbReset after the step; -1 once a monitor drains it
	IsConnCalls int64    `json:"isconn_calls"`
	RemoteNode  string   `json:"remote_node"`
	RemoteTS    int64    `json:"remote_ts"` // -1 = zero time
	Monitor     bool     `json:"monitor"`   // a heartbeat monitor goroutine has been started so far
}

func c12Sync(in c12SyncIn) (interface{}, error) {
	ctx, cancel := context.WithCancel(context.Background())
	defer cancel()
	nc := c12NewNetConn()
	dp := &c12Datapath{}
	var replies []c12Msg
	nc.onWrite = func(b []byte) { replies = append(replies, c12Decode(b)) }
	p := c12NewConn(ctx, in.Cfg, nc, dp, in.TSLocal, 2, time.Hour, time.Hour)
	outs := []c12StepOut{}
	monitor := false
	for _, st := range in.Steps {
		replies = []c12Msg{}
		dp.connected.Store(st.Connected)
		before := dp.isConnCalls.Load()
		var msg message.Message
		switch st.Op {
		case "hb":
			msg = message.NewHeartbeatRequest(st.Seq, ie.NewRecoveryTimeStamp(time.Unix(st.TS, 0)), nil)
		default:
			ies := []*ie.IE{}
			if st.Node != "" {
				ies = append(ies, ie.NewNodeID(st.Node, "", ""))
			}
			if st.TS >= 0 {
				ies = append(ies, ie.NewRecoveryTimeStamp(time.Unix(st.TS, 0)))
			}
			ies = append(ies, ie.NewCPFunctionFeatures(0))
			msg = message.NewAssociationSetupRequest(st.Seq, ies...)
		}
		p.HandlePFCPMsg(c12Marshal(msg))
		if !monitor && in.Cfg.HB && st.Op != "hb" && len(replies) == 1 && replies[0].Cause == int(ie.CauseRequestAccepted) {
			// `go pConn.startHeartBeatMonitor()` was issued; wait until it is visibly running
			for i := 0; i < 4000 && p.hbCtxCancel == nil; i++ {
				time.Sleep(50 * time.Microsecond)
			}
			monitor = p.hbCtxCancel != nil
		}
		o := c12StepOut{Replies: replies, IsConnCalls: dp.isConnCalls.Load() - before,
			RemoteNode: p.nodeID.remote, RemoteTS: -1, Monitor: monitor, ResetsLen: len(p.hbReset)}
		if monitor {
			o.ResetsLen = -1
		}
		if !p.ts.remote.IsZero() {
			o.RemoteTS = p.ts.remote.Unix()
		}
		outs = append(outs, o)
	}
	return map[string]interface{}{"steps": outs, "local_node": p.nodeID.local}, nil
}

// ---------------------------------------------------------------------------- timing level

type c12Script struct {
	AnswerAt    int    `json:"answer_at"`    // answer the k-th transmission of the exchange (0 = never)
	AnswerEvery bool   `json:"answer_every"` // answer every transmission
	DelayMs     int    `json:"delay_ms"`     // the answer is handed to the agent this much later
	Dup         int    `json:"dup"`          // extra copies of the answer
	WrongAt     []int  `json:"wrong_at"`     // transmissions answered (also) with a wrong sequence number
	WrongDelta  uint32 `json:"wrong_delta"`
	Cause       int    `json:"cause"`   // Association Setup Response cause (default accepted)
	OmitTS      bool   `json:"omit_ts"` // Association Setup Response without Recovery Time Stamp
}

type c12TimingIn struct {
	Via        string      `json:"via"` // "hb" | "assoc" | "assoc_in"
	Cfg        c12Cfg      `json:"cfg"`
	N          uint8       `json:"n"`
	TMs        int         `json:"t_ms"`
	HMs        int         `json:"h_ms"`
	Seq0       uint32      `json:"seq0"`
	TSLocal    int64       `json:"ts_local"`
	Sessions   int         `json:"sessions"`
	Connected  bool        `json:"connected"`
	Scripts    []c12Script `json:"scripts"` // per exchange, in order of first appearance of a sequence number
	Default    c12Script   `json:"default"` // exchanges beyond the list
	PeerHBAt   []int       `json:"peer_hb_at"`
	ShutdownAt int         `json:"shutdown_at"` // harness calls Shutdown() this many ms after transmission #ShutdownTx
	ShutdownTx int         `json:"shutdown_tx"` // (0 = never)
	StopAfter  int         `json:"stop_after"`  // stop once this many exchanges have begun and things are quiet (0 = only on teardown/window)
	WindowMs   int         `json:"window_ms"`
	QuietMs    int         `json:"quiet_ms"`
	DelDelayMs int         `json:"del_delay_ms"`
}

type c12Event struct {
	T    int64   `json:"t"` // microseconds since scenario start (monotonic)
	K    string  `json:"k"` // tx | reply | inj | shutdown | del | closed | ret
	Type string  `json:"type,omitempty"`
	Seq  uint32  `json:"seq"`
	TS   int64   `json:"ts"`
	ID   int     `json:"id"`
	What string  `json:"what,omitempty"` // inj: resp | wrong | dup | peer_hb | setup
	TRet int64   `json:"t_ret"`          // inj: when HandlePFCPMsg returned; -1 = it did not
	Had  bool    `json:"had"`            // inj: pendingReqs held an entry under that number at call time
	X    int     `json:"x"`              // tx: exchange index, inj: exchange it belongs to
	Msg  *c12Msg `json:"msg,omitempty"`
}

type c12Datagram struct {
	id   int
	what string
	x    int
	seq  uint32
	b    []byte
}

func c12Timing(in c12TimingIn) (interface{}, error) {
	ctx, cancel := context.WithCancel(context.Background())
	nc := c12NewNetConn()
	dp := &c12Datapath{}
	dp.connected.Store(in.Connected)
	dp.delDelay = time.Duration(in.DelDelayMs) * time.Millisecond
	T := time.Duration(in.TMs) * time.Millisecond
	H := time.Duration(in.HMs) * time.Millisecond
	if H == 0 {
		H = time.Hour
	}
	p := c12NewConn(ctx, in.Cfg, nc, dp, in.TSLocal, in.N, T, H)
	done := make(chan string, 100)
	p.done = done
	p.seqNum.seq = in.Seq0
	for i := 0; i < in.Sessions; i++ {
		_ = p.store.PutSession(PFCPSession{localSEID: uint64(100 + i), metrics: metrics.NewSession("c12")})
	}

	var mu sync.Mutex
	t0 := time.Now()
	now := func() int64 { return time.Since(t0).Microseconds() }
	events := []c12Event{}
	lastActivity := int64(0)
	// events of exchanges beyond the scripted ones (x >= StopAfter) do not count as activity
	extra := func(e c12Event) bool {
		return in.StopAfter > 0 && e.X >= in.StopAfter && (e.K == "tx" || e.K == "inj")
	}
	add := func(e c12Event) int {
		mu.Lock()
		defer mu.Unlock()
		events = append(events, e)
		if e.T > lastActivity && !extra(e) {
			lastActivity = e.T
		}
		return len(events) - 1
	}

	inbox := make(chan c12Datagram, 4096)
	var scheduled atomic.Int64 // datagrams promised but not yet handled (or stuck)
	var nextID atomic.Int64

	// the reader: one goroutine hands datagrams to HandlePFCPMsg one after the other, like Serve's
	go func() {
		for d := range inbox {
			_, had := p.pendingReqs.Load(d.seq)
			idx := add(c12Event{T: now(), K: "inj", ID: d.id, What: d.what, Seq: d.seq, TRet: -1, Had: had, X: d.x, TS: -1})
			p.HandlePFCPMsg(d.b)
			tr := now()
			mu.Lock()
			events[idx].TRet = tr
			if tr > lastActivity && !extra(events[idx]) {
				lastActivity = tr
			}
			mu.Unlock()
			scheduled.Add(-1)
		}
	}()
	send := func(what string, x int, seq uint32, b []byte, delay time.Duration) {
		d := c12Datagram{id: int(nextID.Add(1)), what: what, x: x, seq: seq, b: b}
		scheduled.Add(1)
		if delay <= 0 {
			inbox <- d
		} else {
			time.AfterFunc(delay, func() { inbox <- d })
		}
	}

	peerTS := time.Unix(1500000000, 0)
	xIndex, xCount, totalTx := -1, 0, 0
	var xSeq uint32
	var xType string
	nc.onWrite = func(b []byte) {
		m := c12Decode(b)
		t := now()
		isReq := m.Type == "Heartbeat Request" || m.Type == "Association Setup Request"
		if !isReq {
			add(c12Event{T: t, K: "reply", Type: m.Type, Seq: m.Seq, TS: m.TS, TRet: -1, Msg: &m})
			return
		}
		mu.Lock()
		if xIndex < 0 || m.Seq != xSeq || m.Type != xType {
			xIndex++
			xCount = 0
			xSeq, xType = m.Seq, m.Type
		}
		xCount++
		totalTx++
		x, k, tot := xIndex, xCount, totalTx
		mu.Unlock()
		add(c12Event{T: t, K: "tx", Type: m.Type, Seq: m.Seq, TS: m.TS, X: x, ID: k, TRet: -1, Msg: &m})
		sc := in.Default
		if x < len(in.Scripts) {
			sc = in.Scripts[x]
		}
		build := func(seq uint32) []byte {
			if m.Type == "Heartbeat Request" {
				return c12Marshal(message.NewHeartbeatResponse(seq, ie.NewRecoveryTimeStamp(peerTS)))
			}
			cause := uint8(ie.CauseRequestAccepted)
			if sc.Cause != 0 {
				cause = uint8(sc.Cause)
			}
			ies := []*ie.IE{ie.NewNodeID("198.18.0.2", "", ""), ie.NewCause(cause)}
			if !sc.OmitTS {
				ies = append(ies, ie.NewRecoveryTimeStamp(peerTS))
			}
			return c12Marshal(message.NewAssociationSetupResponse(seq, ies...))
		}
		for _, w := range sc.WrongAt {
			if w == k {
				ws := (m.Seq + sc.WrongDelta) & 0xFFFFFF
				send("wrong", x, ws, build(ws), 0)
			}
		}
		if sc.AnswerEvery || sc.AnswerAt == k {
			delay := time.Duration(sc.DelayMs) * time.Millisecond
			send("resp", x, m.Seq, build(m.Seq), delay)
			for i := 0; i < sc.Dup; i++ {
				send("dup", x, m.Seq, build(m.Seq), delay)
			}
		}
		if in.ShutdownTx != 0 && tot == in.ShutdownTx {
			scheduled.Add(1)
			time.AfterFunc(time.Duration(in.ShutdownAt)*time.Millisecond, func() {
				add(c12Event{T: now(), K: "harness_shutdown", TRet: -1, TS: -1})
				p.Shutdown()
				scheduled.Add(-1)
			})
		}
	}
	connClosed := atomic.Bool{}
	nc.onClose = func() {
		add(c12Event{T: now(), K: "closed", TRet: -1, TS: -1})
		connClosed.Store(true)
	}
	dp.onDel = func() { add(c12Event{T: now(), K: "del", TRet: -1, TS: -1}) }
	tornDown := atomic.Bool{}
	go func() {
		<-p.shutdown
		add(c12Event{T: now(), K: "shutdown", TRet: -1, TS: -1})
		tornDown.Store(true)
	}()

	for i, at := range in.PeerHBAt {
		seq := uint32(0x800000 + i)
		b := c12Marshal(message.NewHeartbeatRequest(seq, ie.NewRecoveryTimeStamp(peerTS), nil))
		send("peer_hb", -1, seq, b, time.Duration(at)*time.Millisecond+time.Microsecond)
	}

	switch in.Via {
	case "hb":
		go p.startHeartBeatMonitor()
	case "assoc":
		go func() {
			p.sendAssociationRequest()
			add(c12Event{T: now(), K: "ret", TRet: -1, TS: -1})
		}()
	case "assoc_in":
		b := c12Marshal(message.NewAssociationSetupRequest(0x700000, ie.NewNodeID("198.18.0.2", "", ""),
			ie.NewRecoveryTimeStamp(peerTS)))
		send("setup", -1, 0x700000, b, 0)
	}

	window := time.Duration(in.WindowMs) * time.Millisecond
	quiet := int64(in.QuietMs) * 1000
	stuck := false
	for {
		time.Sleep(2 * time.Millisecond)
		if time.Since(t0) > window {
			break
		}
		mu.Lock()
		tn := now()
		idle := tn - lastActivity
		begun := xIndex + 1
		resolved := in.StopAfter > 0
		for x := 0; x < in.StopAfter && resolved; x++ {
			ok := begun > x+1
			for _, e := range events {
				if e.K == "inj" && e.X == x && (e.What == "resp" || e.What == "dup") && e.Had && e.TRet >= 0 {
					ok = true
				}
			}
			resolved = ok
		}
		wedged := false
		for _, e := range events {
			if e.K == "inj" && e.TRet < 0 && tn-e.T > quiet {
				wedged = true
			}
		}
		mu.Unlock()
		if tornDown.Load() && !connClosed.Load() {
			continue // Shutdown() is still at work (datapath deletes): its end is part of the observation
		}
		if (tornDown.Load() || resolved) && idle > quiet {
			if wedged {
				stuck = true
				break
			}
			if scheduled.Load() == 0 {
				break
			}
		}
	}
	endT := now()
	mu.Lock()
	evs := append([]c12Event(nil), events...)
	mu.Unlock()
	storeLeft := len(p.store.GetAllSessions())
	delCalls := dp.delCalls.Load()
	doneMsgs := len(done)
	wasDown := tornDown.Load()
	// clean up: stop monitors, tear the connection down (idempotent), leave a wedged reader behind
	cancel()
	p.Shutdown()
	return map[string]interface{}{
		"events": evs, "end_t": endT, "store_left": storeLeft, "del_calls": delCalls, "done_msgs": doneMsgs,
		"torn_down": wasDown, "reader_stuck": stuck, "local_node": p.nodeID.local,
	}, nil
}

func init() {
	verifRegister("c12", func(raw json.RawMessage) (interface{}, error) {
		var k struct {
			Kind string `json:"kind"`
		}
		if err := json.Unmarshal(raw, &k); err != nil {
			return nil, err
		}
		if k.Kind == "sync" {
			var in c12SyncIn
			if err := json.Unmarshal(raw, &in); err != nil {
				return nil, err
			}
			return c12Sync(in)
		}
		var in c12TimingIn
		if err := json.Unmarshal(raw, &in); err != nil {
			return nil, err
		}
		return c12Timing(in)
	})
}
