//go:build verif

// C15 harness: P4 datapath identifiers under write failures.
//
// A REAL UP4 plug-in (connected to the fake P4Runtime server of verif_p4rt_test.go, small pools) sits behind a
// PFCPConn struct literal; every step is one PFCP message handed to the real HandlePFCPMsg, optionally with
// Write faults armed relative to the first Write RPC of that step.  Nothing of /repo is changed:
//   - the plug-in is reached through a recording decorator of the `datapath` interface (c15Tap: notes the
//     arguments and the cause of every SendMsgToUPF, then calls the real method);
//   - the three golang-set pools are wrapped by a decorator of the set.Set interface that notes every Pop / Add
//     in program order (c15Set) - these are the Pop() choices fed to the Coq model and the release trace the
//     monitor judges; the two FIFO pools are plain slices and are read before / after;
//   - the FIFO pools may be shortened at start-up (cfg.peer_pool / cfg.app_pool) so that recycling happens fast.
//
// mode "c15": {"cfg":{"sizes":{..},"peer_pool":4,"app_pool":4}, "steps":[{"hex":"..","draws":[..],"faults":[{"at":1,"kind":"grpc","code":14}]}]}
//   -> {"init": state, "steps":[{replies, calls, writes, pool_ev, state, tables, panic}]}
package pfcpiface

import (
	"context"
	"encoding/hex"
	"encoding/json"
	"fmt"
	"math/rand"
	"net"
	"sort"
	"strings"
	"sync"

	set "github.com/deckarep/golang-set"
	"google.golang.org/grpc/codes"
)

type c15Fault struct {
	At   int    `json:"at"`   // k-th Write RPC of the step (1-based)
	Kind string `json:"kind"` // grpc | p4
	Code int    `json:"code"` // grpc: status code (2 = UNKNOWN without details); p4: canonical code of every update
	Per  []int  `json:"per"`  // p4: per-update canonical codes
}

type c15Step struct {
	Hex    string     `json:"hex"`
	Draws  []uint64   `json:"draws"`
	Faults []c15Fault `json:"faults"`
}

type c15In struct {
	Cfg struct {
		Sizes    map[string]int64 `json:"sizes"`
		PeerPool int              `json:"peer_pool"`
		AppPool  int              `json:"app_pool"`
	} `json:"cfg"`
	Steps []c15Step `json:"steps"`
}

// ---------------------------------------------------------------------------------- decorators

type c15PoolEv struct {
	Pool    string `json:"pool"` // ctr | ctr_post | appcell | sesscell
	Op      string `json:"op"`   // pop | add
	Val     int64  `json:"val"`  // -1: Pop on an empty set
	Changed bool   `json:"changed"`
}

type c15Set struct {
	set.Set
	name string
	log  *[]c15PoolEv
}

func c15Num(v interface{}) int64 {
	switch x := v.(type) {
	case uint64:
		return int64(x)
	case uint32:
		return int64(x)
	case nil:
		return -1
	default:
		return -2
	}
}

func (s *c15Set) Pop() interface{} {
	v := s.Set.Pop()
	*s.log = append(*s.log, c15PoolEv{Pool: s.name, Op: "pop", Val: c15Num(v), Changed: v != nil})

	return v
}

func (s *c15Set) Add(i interface{}) bool {
	r := s.Set.Add(i)
	*s.log = append(*s.log, c15PoolEv{Pool: s.name, Op: "add", Val: c15Num(i), Changed: r})

	return r
}

type c15Rules struct {
	Pdrs []map[string]interface{} `json:"pdrs"`
	Fars []map[string]interface{} `json:"fars"`
	Qers []map[string]interface{} `json:"qers"`
}

type c15Call struct {
	Method int      `json:"method"` // 0 add, 1 mod, 2 del (upfMsgType)
	All    c15Rules `json:"all"`
	Upd    c15Rules `json:"upd"`
	Cause  uint8    `json:"cause"`
}

type c15Tap struct {
	*UP4
	calls []c15Call
}

func c15Abs(r PacketForwardingRules) c15Rules {
	o := c15Rules{Pdrs: []map[string]interface{}{}, Fars: []map[string]interface{}{}, Qers: []map[string]interface{}{}}
	for _, p := range r.pdrs {
		o.Pdrs = append(o.Pdrs, l1Pdr(p))
	}

	for _, f := range r.fars {
		o.Fars = append(o.Fars, l1Far(f))
	}

	for _, q := range r.qers {
		o.Qers = append(o.Qers, l1Qer(q))
	}

	return o
}

func (t *c15Tap) SendMsgToUPF(method upfMsgType, all PacketForwardingRules, updated PacketForwardingRules) uint8 {
	c := c15Call{Method: int(method), All: c15Abs(all), Upd: c15Abs(updated)}
	i := len(t.calls)
	t.calls = append(t.calls, c)
	cause := t.UP4.SendMsgToUPF(method, all, updated)
	t.calls[i].Cause = cause

	return cause
}

// ---------------------------------------------------------------------------------- world

type c15World struct {
	srv    *vp4Server
	up4    *UP4
	tap    *c15Tap
	u      *upf
	conn   *PFCPConn
	nc     *l1NetConn
	src    *l1Source
	poolEv []c15PoolEv
}

var (
	c15Servers   = map[string]*vp4Server{}
	c15ServersMu sync.Mutex
)

func c15Server(sizes map[string]int64) (*vp4Server, error) {
	c15ServersMu.Lock()
	defer c15ServersMu.Unlock()

	kb, _ := json.Marshal(sizes)
	if s, ok := c15Servers[string(kb)]; ok {
		s.Reset()
		return s, nil
	}

	s, err := vp4Start(vp4Opts{Sizes: sizes})
	if err != nil {
		return nil, err
	}

	c15Servers[string(kb)] = s

	return s, nil
}

func c15NewWorld(in *c15In) (*c15World, error) {
	srv, err := c15Server(in.Cfg.Sizes)
	if err != nil {
		return nil, err
	}

	up4, u, err := vp4NewUP4(srv, vp4UP4Opts{})
	if err != nil {
		return nil, err
	}

	w := &c15World{srv: srv, up4: up4, u: u}
	srv.TakeLog()

	// decorate the pools (after initialisation: the connection is up, so clearDatapathState has run)
	up4.counters[preQosCounterID].counterIDsPool = &c15Set{Set: up4.counters[preQosCounterID].counterIDsPool, name: "ctr", log: &w.poolEv}
	up4.counters[postQosCounterID].counterIDsPool = &c15Set{Set: up4.counters[postQosCounterID].counterIDsPool, name: "ctr_post", log: &w.poolEv}
	up4.appMeterCellIDsPool = &c15Set{Set: up4.appMeterCellIDsPool, name: "appcell", log: &w.poolEv}
	up4.sessMeterCellIDsPool = &c15Set{Set: up4.sessMeterCellIDsPool, name: "sesscell", log: &w.poolEv}

	if n := in.Cfg.PeerPool; n > 0 && n < len(up4.tunnelPeerIDsPool) {
		up4.tunnelPeerIDsPool = append([]uint8{}, up4.tunnelPeerIDsPool[:n]...)
	}

	if n := in.Cfg.AppPool; n > 0 && n < len(up4.applicationIDsPool) {
		up4.applicationIDsPool = append([]uint8{}, up4.applicationIDsPool[:n]...)
	}

	w.tap = &c15Tap{UP4: up4}
	u.datapath = w.tap
	u.n4addr = "127.0.0.9"

	w.nc = &l1NetConn{
		local:  &net.UDPAddr{IP: net.IPv4(127, 0, 0, 9).To4(), Port: 8805},
		remote: &net.UDPAddr{IP: net.IPv4(10, 99, 0, 1).To4(), Port: 8805},
	}
	w.src = &l1Source{next: 1000000}
	w.conn = &PFCPConn{
		ctx:            context.Background(),
		Conn:           w.nc,
		ts:             recoveryTS{local: l1Epoch},
		rng:            rand.New(w.src),
		maxRetries:     100,
		store:          NewInMemoryStore(),
		upf:            u,
		done:           make(chan string, 100),
		shutdown:       make(chan struct{}),
		InstrumentPFCP: &l1Metrics{},
		hbReset:        make(chan struct{}, 100),
	}
	w.conn.setLocalNodeID(u.nodeID)

	return w, nil
}

func c15SetSlice(s set.Set) []int64 {
	out := []int64{}
	for _, v := range s.ToSlice() {
		out = append(out, c15Num(v))
	}

	sort.Slice(out, func(i, j int) bool { return out[i] < out[j] })

	return out
}

func c15Bytes(b []uint8) []int64 {
	out := make([]int64, 0, len(b))
	for _, v := range b {
		out = append(out, int64(v))
	}

	return out
}

func (w *c15World) state() map[string]interface{} {
	up4 := w.up4
	st := map[string]interface{}{}
	st["pools"] = map[string]interface{}{
		"ctr":      c15SetSlice(up4.counters[preQosCounterID].counterIDsPool),
		"ctr_post": c15SetSlice(up4.counters[postQosCounterID].counterIDsPool),
		"appcell":  c15SetSlice(up4.appMeterCellIDsPool),
		"sesscell": c15SetSlice(up4.sessMeterCellIDsPool),
		"peer":     c15Bytes(up4.tunnelPeerIDsPool),
		"appid":    c15Bytes(up4.applicationIDsPool),
	}

	meters := [][]uint64{}
	for k, m := range up4.meters {
		meters = append(meters, []uint64{k.fseid, uint64(k.qerID), uint64(m.meterType), uint64(m.uplinkCellID), uint64(m.downlinkCellID)})
	}

	sort.Slice(meters, func(i, j int) bool {
		if meters[i][0] != meters[j][0] {
			return meters[i][0] < meters[j][0]
		}

		return meters[i][1] < meters[j][1]
	})
	st["meters"] = meters

	peers := []map[string]interface{}{}
	for k, v := range up4.tunnelPeerIDs {
		users := [][2]uint64{}
		for _, x := range v.usedBy.ToSlice() {
			r := x.(tnlPeerReference)
			users = append(users, [2]uint64{r.fseid, uint64(r.farID)})
		}

		sort.Slice(users, func(i, j int) bool {
			if users[i][0] != users[j][0] {
				return users[i][0] < users[j][0]
			}

			return users[i][1] < users[j][1]
		})
		peers = append(peers, map[string]interface{}{"src": k.tunnelIP4Src, "dst": k.tunnelIP4Dst, "port": k.tunnelPort, "id": v.id, "users": users})
	}

	sort.Slice(peers, func(i, j int) bool {
		a, b := peers[i], peers[j]
		if a["dst"].(uint32) != b["dst"].(uint32) {
			return a["dst"].(uint32) < b["dst"].(uint32)
		}

		return a["port"].(uint16) < b["port"].(uint16)
	})
	st["peers"] = peers

	apps := []map[string]interface{}{}
	for k, v := range up4.applicationIDs {
		users := [][2]uint64{}
		for _, x := range v.usedBy.ToSlice() {
			r := x.(internalAppReference)
			users = append(users, [2]uint64{r.fseid, uint64(r.pdrID)})
		}

		sort.Slice(users, func(i, j int) bool {
			if users[i][0] != users[j][0] {
				return users[i][0] < users[j][0]
			}

			return users[i][1] < users[j][1]
		})
		apps = append(apps, map[string]interface{}{"ip": k.appIP, "lo": k.appL4Port.low, "hi": k.appL4Port.high, "proto": k.appProto, "id": v.id, "users": users})
	}

	sort.Slice(apps, func(i, j int) bool {
		return fmt.Sprint(apps[i]["ip"], apps[i]["lo"], apps[i]["hi"], apps[i]["proto"]) < fmt.Sprint(apps[j]["ip"], apps[j]["lo"], apps[j]["hi"], apps[j]["proto"])
	})
	st["apps"] = apps

	ue := [][2]uint64{}
	for k, v := range up4.fseidToUEAddr {
		ue = append(ue, [2]uint64{k, uint64(v)})
	}

	sort.Slice(ue, func(i, j int) bool { return ue[i][0] < ue[j][0] })
	st["ue"] = ue

	store := []interface{}{}
	ss := w.conn.store.GetAllSessions()
	sort.Slice(ss, func(a, b int) bool { return ss[a].localSEID < ss[b].localSEID })

	for _, s := range ss {
		store = append(store, map[string]interface{}{"lseid": s.localSEID, "rseid": s.remoteSEID, "rules": c15Abs(s.PacketForwardingRules)})
	}

	st["store"] = store

	return st
}

func c15Short(n string) string {
	if i := strings.LastIndex(n, "."); i >= 0 {
		return n[i+1:]
	}

	return n
}

func c15Tables(srv *vp4Server) []map[string]interface{} {
	out := []map[string]interface{}{}
	for _, e := range srv.Tables() {
		m := map[string]string{}
		for _, f := range e.Match {
			switch f.Kind {
			case "lpm":
				m[f.Name] = fmt.Sprintf("%s/%d", f.Value, f.Prefix)
			case "ternary":
				m[f.Name] = f.Value + "&" + f.Mask
			case "range":
				m[f.Name] = f.Low + "-" + f.High
			default:
				m[f.Name] = f.Value
			}
		}

		p := map[string]string{}
		for _, x := range e.Params {
			p[x.Name] = x.Value
		}

		out = append(out, map[string]interface{}{"t": c15Short(e.TableName), "m": m, "a": c15Short(e.ActionName), "p": p, "prio": e.Priority})
	}

	return out
}

func c15Writes(log []vp4WriteRec) []map[string]interface{} {
	out := []map[string]interface{}{}
	for _, r := range log {
		ups := []map[string]interface{}{}
		for _, u := range r.Updates {
			x := map[string]interface{}{"ty": u.Type, "k": u.Kind, "st": u.Status}
			switch u.Kind {
			case "table":
				x["n"] = c15Short(u.TableName)
			case "meter":
				x["n"] = c15Short(u.MeterName)
				x["i"] = u.Index
				x["cfg"] = u.Config != nil
			case "counter":
				x["n"] = c15Short(u.CounterName)
				x["i"] = u.Index
			}

			ups = append(ups, x)
		}

		out = append(out, map[string]interface{}{"faulted": r.Faulted, "code": r.Code, "ups": ups})
	}

	return out
}

func (w *c15World) doStep(s c15Step) (obs map[string]interface{}) {
	obs = map[string]interface{}{}
	w.tap.calls = nil
	w.poolEv = nil

	raw, err := hex.DecodeString(s.Hex)
	if err != nil {
		obs["bad_hex"] = true
		return obs
	}

	for _, f := range s.Faults {
		vf := vp4Fault{Kind: f.Kind, Code: codes.Code(f.Code), Msg: "c15"}
		for _, c := range f.Per {
			vf.PerUpdate = append(vf.PerUpdate, codes.Code(c))
		}

		w.srv.ArmWriteFault(f.At, vf)
	}

	w.src.queue = append([]uint64{}, s.Draws...)

	func() {
		defer func() {
			if r := recover(); r != nil {
				obs["panic"] = fmt.Sprint(r)
			}
		}()
		w.conn.HandlePFCPMsg(raw)
	}()

	w.srv.DisarmFaults()
	w.src.queue = nil
	w.src.drawn = nil

	replies := []interface{}{}
	for _, b := range w.nc.take() {
		replies = append(replies, l1Decode(b))
	}

	obs["replies"] = replies

	calls := w.tap.calls
	if calls == nil {
		calls = []c15Call{}
	}

	obs["calls"] = calls
	obs["writes"] = c15Writes(w.srv.TakeLog())

	ev := w.poolEv
	if ev == nil {
		ev = []c15PoolEv{}
	}

	obs["pool_ev"] = ev
	obs["state"] = w.state()
	obs["tables"] = c15Tables(w.srv)
	obs["connected"] = w.u.isConnected()

	return obs
}

func init() {
	verifRegister("c15", func(raw json.RawMessage) (interface{}, error) {
		var in c15In
		if err := json.Unmarshal(raw, &in); err != nil {
			return nil, err
		}

		w, err := c15NewWorld(&in)
		if err != nil {
			return map[string]interface{}{"world_err": err.Error()}, nil
		}

		out := map[string]interface{}{"init": w.state(), "init_tables": c15Tables(w.srv)}
		steps := []interface{}{}

		for _, s := range in.Steps {
			o := w.doStep(s)
			steps = append(steps, o)

			if _, dead := o["panic"]; dead {
				break
			}
		}

		out["steps"] = steps

		return out, nil
	})
}
